"""C03 — unauthenticated connections get no bytes and no early close.

Real handleNewTCPConn on scripted connections that record every Write / Close / SetDeadline and the
instant of every Read; all probes of a batch run concurrently because each one lasts as long as the
handler's randomised 5-10 s deadline.  Direct oracle with the tolerances of DESIGN.md section 8,
then the handler model and its clocked runner (coq/C04, coq/C03) are evaluated on the same probes."""
import copy
import os
import sys
import threading
import time

from lib import gN, gZ, gbool, glist, lcg_bytes
from props import c04

FILES = {"zz_verif_common_test.go": "c04/common_driver_test.go",
         "zz_verif_c03_test.go": "c03/c03_driver_test.go",
         "zz_verif_c03h_test.go": "c03/c03_hist_driver_test.go"}

# the peer-address dimension: what the accepted socket reports as its remote address.  (form, ip):
# form tcp = *net.TCPAddr holding a 16-byte net.IP (what a dual-stack listener yields; an IPv4 peer is
# then ::ffff:a.b.c.d), tcp4 = 4-byte net.IP, udp = *net.UDPAddr, str = any other net.Addr whose String()
# is host:port.  "" = the drivers' historical default 198.51.100.7 (16-byte form).
PEERS = [("", ""), ("tcp", "V6"), ("tcp", "ZONED"), ("tcp4", "198.51.100.9"), ("tcp", "fd00::9:1"), ("udp", "ZONED"), ("udp", "V6"), ("tcp", "::ffff:203.0.113.5"),
         ("str", "V6"), ("tcp", "::1"), ("str", "192.0.2.44"), ("tcp", "V6"), ("udp", "203.0.113.77")]


# scoped (link-local, fe80::/10) peers: the address object carries a Zone (interface name or index) next to the IP
ZONES = ["eth0", "lo", "1", "enp3s0f1", "wlan0.100"]


def peer_is_zoned(ip):
    return "%" in (ip or "")


def peer_is_v6(ip):
    return ":" in ip and not ip.startswith("::ffff:")

REGS = {
    "none": [],
    "invalid": [{"transport": "min", "valid": False}, {"transport": "prefix", "prefix_id": 1, "valid": False}],
    "one-min": [{"transport": "min", "valid": True}],
    "one-prefix": [{"transport": "prefix", "prefix_id": 1, "valid": True}],
    "one-obfs4": [{"transport": "obfs4", "valid": True}],
    "many": [{"transport": "min", "valid": True}, {"transport": "obfs4", "valid": True}, {"transport": "prefix", "prefix_id": 0, "valid": True},
             {"transport": "prefix", "prefix_id": 4, "valid": True}, {"transport": "obfs4", "valid": False}, {"transport": "min", "valid": True},
             {"transport": "prefix", "prefix_id": 9, "valid": True}, {"transport": "prefix", "prefix_id": 2, "valid": True, "no_params": True}],
}
LOOKALIKES = [
    "160301020001000" + "1fc0303" + "ab" * 40,                                       # TLS ClientHello-ish
    "474554202f696e6465782e68746d6c20485454502f312e310d0a486f73743a20612e620d0a0d0a",  # GET /index.html
    "5353482d322e302d4f70656e5353485f392e370d0a",                                      # SSH banner (another version)
    "504f5354202f20485454502f312e300d0a",                                              # POST / HTTP/1.0
    "1603034000010000",                                                                # exactly a static prefix + 2 bytes
    "0000000000000000000000000000000000000000000000000000000000000000" * 3,            # zeros
]


KEY = [0]


def flight(tr, pid=0, flip=-1, trunc=0, as_prefix=-1, valid=True, no_reg=False, flip_end=0, tag_of=""):
    KEY[0] += 1          # the station holds three private keys: tags are obfuscated to each of them in turn
    return {"flight": {"transport": tr, "prefix_id": pid, "flip": flip, "trunc": trunc, "as_prefix": as_prefix,
                       "valid": valid, "no_reg": no_reg, "flip_end": flip_end, "tag_of": tag_of, "key": KEY[0] % 3}}


def gen_cases(ctx, table, scale):
    rng = ctx.rng
    cases = []
    regnames = list(REGS)
    ri = [0]

    def chunks(total_hint):
        """arbitrary segmentation and pacing, everything well before the earliest possible deadline"""
        style = rng.randrange(6)
        if style == 0:
            return [[rng.randrange(0, 300), -1]]
        if style == 1:
            return [[0, 1], [rng.randrange(50, 400), 1], [rng.randrange(500, 900), -1]]
        n = rng.randrange(2, 7)
        ts = sorted(rng.randrange(0, 4500) // 50 * 50 + 7 for _ in range(n))
        ts = sorted(set(ts))
        out = []
        left = max(total_hint, 1)
        for i, t in enumerate(ts):
            if i == len(ts) - 1:
                out.append([t, -1])
            else:
                k = rng.choice([1, 7, 31, 32, 33, 64, left // 2 or 1, 4096, 5000])
                out.append([t, k])
        return out

    perkind = {}

    def peer_for(kind):
        k = perkind.get(kind, 0)
        perkind[kind] = k + 1
        form, ip = PEERS[k % len(PEERS)]
        if ip == "V6":   # a random global IPv6 source address
            ip = "2001:db8:%x:%x::%x" % (rng.randrange(1, 0xffff), rng.randrange(0, 0xffff), rng.randrange(1, 0xffff))
        if ip == "ZONED":
            ip = zoned()
        return form, ip

    nz = [0]

    def zoned():
        nz[0] += 1
        return "fe80::%x:%x:%x%%%s" % (rng.randrange(1, 0xffff), rng.randrange(0, 0xffff), rng.randrange(1, 0xffff), ZONES[nz[0] % len(ZONES)])

    def mk(kind, parts, regs=None, ch=None, hint=100, fin_ms=0, fin_rst=False):
        if regs is None:
            regs = regnames[ri[0] % len(regnames)]
            ri[0] += 1
        form, ip = peer_for(kind)
        cases.append({"kind": kind, "parts": parts, "chunks": ch if ch is not None else chunks(hint), "regs": REGS[regs],
                      "regs_name": regs, "fin_ms": fin_ms, "fin_rst": fin_rst, "peer": ip, "peer_form": form})

    if ctx.replay:
        # --replay: exactly the recorded failing probes (their original specification)
        for f in ctx.replay.get("failures", []):
            c = (f.get("case") or {}).get("case")
            if c and "parts" in c:
                cases.append(c)
        for b in ctx.replay.get("theorem_or_correspondence", []) + ctx.replay.get("broken", []):
            c = (b.get("case") or {}).get("case")
            if c and "parts" in c:
                cases.append(c)
        if cases or any((f.get("case") or {}).get("hist") for f in ctx.replay.get("failures", []) + ctx.replay.get("theorem_or_correspondence", [])
                        + ctx.replay.get("broken", [])):
            return cases
    for _ in range(scale):
        # random streams at and around every threshold, against every kind of registry
        for n in (0, 1, 31, 32, 33, 63, 64, 65, 100, 141, 4095, 4096, 4097, 8191, 8192, 8193, 16384):
            mk("random", [{"gen": [rng.randrange(1, 1 << 30), n]}] if n else [], hint=n)
        for regs in regnames:
            mk("random", [{"gen": [rng.randrange(1, 1 << 30), rng.choice([40, 90, 700])]}], regs=regs)
        # long probes to a phantom without registrations (the handler drains from the first byte)
        for n in (8193, 12288, 16384):
            mk("random", [{"gen": [rng.randrange(1, 1 << 30), n]}], regs="none", hint=n)
        # protocol look-alikes
        for h in LOOKALIKES:
            mk("lookalike", [{"hex": h}, {"gen": [rng.randrange(1, 1 << 30), rng.choice([0, 30, 300])]}])
        # every static prefix followed by garbage, with that prefix id registered or not
        for row in table:
            for n in (63, 64, 200):
                mk("static", [{"row": row["id"]}, {"gen": [rng.randrange(1, 1 << 30), n]}], hint=n + row["offset"],
                   regs=rng.choice(["one-prefix", "many", "none", "invalid"]))
        # 64 bytes at a tag offset that no station key can reveal at all (an all-zero Elligator
        # representative is a low-order point: TryReveal fails), followed by more data
        for row in table:
            mk("loworder", [{"row": row["id"]}, {"hex": "00" * 64}, {"gen": [rng.randrange(1, 1 << 30), 80]}],
               regs=rng.choice(["one-prefix", "many", "one-min", "invalid"]),
               ch=[[30, row["offset"] + 64], [900, 40], [rng.randrange(1500, 4400), -1]])
        mk("loworder", [{"hex": "00" * 200}], regs="many", ch=[[30, 100], [1200, -1]])
        for h in ("ff" * 96, "01" + "00" * 95, "ec" + "ff" * 30 + "7f" + "00" * 64):
            mk("loworder", [{"hex": h}, {"gen": [rng.randrange(1, 1 << 30), 40]}], regs=rng.choice(["many", "one-prefix"]),
               ch=[[20, 96], [1100, -1]])
        # many small chunks, spread over the whole time before the earliest possible deadline
        for regs in ("none", "one-obfs4", "many"):
            mk("manychunks", [{"gen": [rng.randrange(1, 1 << 30), 450]}], regs=regs,
               ch=[[100 * i + 5, 10] for i in range(44)] + [[4450, -1]])
        # genuine flights with one bit flipped
        mk("flip", [flight("min", flip=rng.randrange(0, 256))])
        mk("flip", [flight("min", flip=255), {"gen": [5, 40]}])
        for row in table:
            off = row["offset"]
            # bits 6 and 7 of the representative's last byte are masked off by the station (the client
            # randomises them), so flipping them yields the same valid tag: not a probe
            spots = [8 * off + rng.randrange(0, 254), 8 * (off + 32) + rng.randrange(0, 256), 8 * (off + 64) - 1]
            if off:
                spots.append(rng.randrange(0, 8 * off))
            for b in (spots if scale > 1 or row["id"] in (0, 1, 5, 9) else spots[:2]):
                mk("flip", [flight("prefix", row["id"], flip=b), {"gen": [rng.randrange(1, 1 << 30), rng.choice([0, 20])]}],
                   regs=rng.choice(["none", "many"]), hint=off + 64)
        mk("flip", [flight("obfs4", flip=rng.randrange(0, 256))], hint=2000)
        # genuine flights cut one byte short / without their tail
        mk("short", [flight("min", trunc=31)], ch=[[20, -1]])
        mk("short", [flight("prefix", 1, trunc=-1)], ch=[[20, 16], [400, -1]])
        mk("short", [flight("prefix", 0, trunc=-1)], ch=[[20, -1]])
        mk("short", [flight("obfs4", trunc=-1)], hint=2000)
        mk("short", [flight("obfs4", trunc=-16)], hint=2000)
        mk("short", [flight("obfs4", trunc=100)], hint=100)
        # genuine flights of clients whose registration is not usable on this phantom
        mk("unregistered", [flight("min", no_reg=True), {"gen": [9, 30]}])
        mk("unregistered", [flight("prefix", 3, no_reg=True), {"gen": [9, 30]}])
        mk("unregistered", [flight("obfs4", no_reg=True)], hint=2000)
        mk("unvalidated", [flight("min", valid=False), {"gen": [9, 30]}], regs="none")
        mk("unvalidated", [flight("prefix", 6, valid=False)], regs="none")
        mk("unvalidated", [flight("obfs4", valid=False)], regs="one-min", hint=2000)
        # data that keeps coming while the handler drains, and a chunk after every possible deadline
        mk("drain", [{"gen": [rng.randrange(1, 1 << 30), 20000]}], regs="none",
           ch=[[100, 10], [1000, 9000], [3000, 5000], [4400, -1]])
        mk("drain", [{"gen": [rng.randrange(1, 1 << 30), 600]}], regs="one-min",
           ch=[[10, 40], [1500, 100], [2500, 100], [4400, -1]])
        # more data after every transport has given up (obfs4 is the last one, at 8192 bytes)
        for regs in ("one-min", "many", "invalid"):
            mk("drain", [{"gen": [rng.randrange(1, 1 << 30), 12000]}], regs=regs,
               ch=[[50, 9000], [1500, 1000], [rng.randrange(2500, 4400), -1]])
        mk("late", [{"gen": [rng.randrange(1, 1 << 30), 300]}], ch=[[50, 100], [10600, -1]])
        # the pacing dimension at millisecond grain: single bytes and small bursts at random instants, some
        # only 0-2 ms apart, up to just before the earliest possible deadline
        for regs in ("none", "many", "one-obfs4", "one-prefix"):
            ts_ = sorted(rng.randrange(0, 4700) for _ in range(rng.randrange(60, 120)))
            for j in range(0, len(ts_) - 3, 9):      # bursts: three chunks within 2 ms
                ts_[j + 1], ts_[j + 2] = ts_[j], min(ts_[j] + rng.randrange(0, 3), ts_[j + 3])
            mk("dribble", [{"gen": [rng.randrange(1, 1 << 30), len(ts_) + 40]}], regs=regs,
               ch=[[t, rng.choice([1, 1, 1, 2, 5])] for t in sorted(ts_)] + [[4750, -1]])
        # the boundary of the property: the PEER closes (FIN) or resets before the deadline, after its
        # data - in the loop, while draining from the start, and after every transport has given up
        mk("peerclose", [], regs="none", ch=[], fin_ms=700)
        mk("peerclose", [], regs="one-min", ch=[], fin_ms=300)
        mk("peerclose", [{"gen": [rng.randrange(1, 1 << 30), 90]}], regs="none", ch=[[100, 40], [800, -1]], fin_ms=1500)
        mk("peerclose", [{"gen": [rng.randrange(1, 1 << 30), 90]}], regs="many", ch=[[100, 40], [800, -1]], fin_ms=1500)
        mk("peerclose", [{"row": 1}, {"gen": [rng.randrange(1, 1 << 30), 70]}], regs="one-prefix", ch=[[50, -1]], fin_ms=rng.randrange(60, 4400))
        mk("peerclose", [flight("prefix", 4, flip=8 * 20 + 3)], regs="many", ch=[[50, 30], [400, -1]], fin_ms=2200)
        mk("peerclose", [{"gen": [rng.randrange(1, 1 << 30), 9000]}], regs="one-obfs4", ch=[[50, -1]], fin_ms=4400)
        mk("peerclose", [{"gen": [rng.randrange(1, 1 << 30), 200]}], regs="invalid", ch=[[50, 100], [2000, -1]], fin_ms=2000, fin_rst=True)
        mk("peerclose", [{"gen": [rng.randrange(1, 1 << 30), 200]}], regs="none", ch=[[50, -1]], fin_ms=900, fin_rst=True)
        # near misses that DO carry a valid tag (outside this property: they exercise the model's
        # give-up path in the correspondence and are not judged by the oracle)
        mk("validtag-wrongprefix", [flight("prefix", 2, as_prefix=1), {"gen": [8, 50]}], ch=[[10, 30], [700, -1], [3000, 0]])
        mk("validtag-wrongprefix", [flight("prefix", 9, as_prefix=0)], regs="many", ch=[[10, -1]])
        mk("validtag-wrongtransport", [flight("prefix", 3, no_reg=True, tag_of="min"), {"gen": [8, 20]}], ch=[[10, 40], [600, -1], [2000, 0]])
        mk("validtag-obfs4-badmac", [flight("obfs4", flip_end=3)], ch=[[10, 100], [500, -1]], regs="one-min")
        # the socket reports a remote address that is not an IP address at all (a pipe in a unit test): the
        # handler's documented immediate exit - outside the property (no IP peer), kept in the correspondence
        for regs in ("none", "one-min"):
            mk("nonip", [{"gen": [rng.randrange(1, 1 << 30), 60]}], regs=regs, ch=[[20, -1]])
            cases[-1]["peer"], cases[-1]["peer_form"] = "-", "str"
    # every class meets an IPv6 peer: a class with a single probe gets a second one (the next peer form)
    for kind in [k for k, n in perkind.items() if n == 1 and k != "nonip"]:
        c = copy.deepcopy([x for x in cases if x["kind"] == kind][0])
        c["peer_form"], c["peer"] = peer_for(kind)
        cases.append(c)
    # ... and a zoned link-local peer (TCP and UDP address objects in turn)
    for kind in [k for k in perkind if k != "nonip" and not any(peer_is_zoned(x["peer"]) for x in cases if x["kind"] == k)]:
        c = copy.deepcopy([x for x in cases if x["kind"] == kind][0])
        c["peer_form"], c["peer"] = ("udp" if nz[0] % 3 == 2 else "tcp"), zoned()
        cases.append(c)
    return cases


def stream_bytes(r):
    out = b""
    for p in (r.get("parts") or []):
        if p.get("gen"):
            out += bytes(lcg_bytes(p["gen"][0], p["gen"][1]))
        elif p.get("hex"):
            out += bytes.fromhex(p["hex"])
    return out


def presents_tag(r, table):
    """The property's precondition, decided from the oracle values observed on the real code
    (independently of the Coq model): does the stream carry a valid tag for this phantom?"""
    s = stream_bytes(r)
    ids = set(x["id"] for x in (r.get("regs") or []))
    if len(s) >= 32 and s[:32].hex() in ids:
        return "min"
    hit = set(x["off"] for x in (r.get("reveals") or []) if x["ids"])   # the driver reports registered identifiers only
    for row in table:
        if row["offset"] in hit and len(s) >= row["offset"] + 64 and s.startswith(bytes.fromhex(row["static"])):
            return "prefix"
    for m in (r.get("marks") or []):
        mk = bytes.fromhex(m["mark"])
        for e in range(141, min(len(s), 8192) + 1):
            if s[e - 32:e - 16] == mk:
                return "obfs4"
    return None


def judge(ctx, c, r, Ds):
    """the property's own statement on the observables of one probe (not for probes that carry a valid tag)"""
    kind, regs = c["kind"], c.get("regs_name", "?")
    key = "%s/%s" % (kind, regs)
    if peer_is_zoned(c.get("peer")):
        key += "@peer-zoned"
    elif peer_is_v6(c.get("peer") or ""):
        key += "@peer-v6"
    brief = {"kind": kind, "regs": regs, "peer": r.get("remote"), "phantom_v6": r.get("v6"), "case": c, "parts": r.get("parts"), "script": r.get("script"),
             "observed": {k: r.get(k) for k in ("set_deadline", "writes", "closes", "returned", "max_lag", "unread", "panic")}}
    brief["observed"]["reads"] = (r.get("reads") or [])[-6:]
    brief["observed"]["calls"] = (r.get("calls") or [])[-6:]
    if r.get("panic"):
        ctx.fail(key + ":panic", "handler panicked on an untagged connection: %s" % r["panic"], brief)
        return
    sd = [x for x in (r.get("set_deadline") or []) if x[1] > 0]
    if not sd:
        ctx.fail(key + ":no-deadline", "handler set no classification deadline and returned (its caller closes the connection) after %.0f ms; "
                 "peer address %s" % (r.get("returned", -1), r.get("remote")), brief)
        return
    D = sd[0][0] + sd[0][1]
    Ds.append(sd[0][1])
    if not (4999 <= sd[0][1] <= 10001):
        ctx.fail("deadline-range", "classification deadline %.0f ms is outside [5 s, 10 s]" % sd[0][1], brief)
    if r.get("writes", 0) > 0:
        ctx.fail(key + ":write", "station wrote %d byte(s) to an unauthenticated peer" % r["writes"], brief)
    if r.get("closes"):
        ctx.fail(key + ":close", "station closed an unauthenticated connection at %.0f ms (deadline %.0f ms)" % (r["closes"][0], D), brief)
    ret = r.get("returned", -1)
    reads = r.get("reads") or []
    if c.get("fin_ms"):
        # the peer ended the connection itself at fin_ms (< every possible deadline): the station may
        # return from then on, not before; everything else as for a silent peer
        fin = c["fin_ms"]
        if ret < 0:
            ctx.fail(key + ":hang", "handler did not return within 15 s", brief)
        elif ret < fin - 2:
            ctx.fail(key + ":early-return", "handler returned %.0f ms before the peer closed its side (and %.0f ms before its deadline)"
                     % (fin - ret, D - ret), brief)
        elif ret > fin + 1500 and ret > D + 1500:
            ctx.fail(key + ":late-return", "handler returned %.0f ms after its deadline" % (ret - D), brief)
        if any(cl["res"] not in ("again", "not") for cl in (r.get("calls") or [])):
            ctx.fail(key + ":reacted", "a transport gave a decisive answer on a stream without a valid tag", brief)
        if r.get("unread", 0) > 0 or r.get("max_lag", 0) > 1000:
            ctx.fail(key + ":stopped-reading", "station stopped reading before the peer closed: %d byte(s) never read" % r.get("unread", 0), brief)
        elif ret >= 0 and not (reads and reads[-1].get("err") in ("eof", "rst", "timeout") and reads[-1]["t"] >= fin - 2):
            ctx.fail(key + ":not-reading-at-close", "the handler was not reading when the peer closed its side", brief)
        return
    if ret < 0:
        ctx.fail(key + ":hang", "handler did not return within 15 s", brief)
    elif ret < D - 2:
        ctx.fail(key + ":early-return", "handler returned (connection dropped) %.0f ms before its %.0f ms deadline" % (D - ret, D), brief)
    elif ret > D + 1500:
        ctx.fail(key + ":late-return", "handler returned %.0f ms after its deadline" % (ret - D), brief)
    if any(cl["res"] not in ("again", "not") for cl in (r.get("calls") or [])):
        ctx.fail(key + ":reacted", "a transport gave a decisive answer on a stream without a valid tag", brief)
    if r.get("unread", 0) > 0 or r.get("max_lag", 0) > 1000:
        ctx.fail(key + ":stopped-reading", "station stopped reading before its deadline: %d byte(s) sent before the deadline were never "
                 "read (worst read lag %.0f ms)" % (r.get("unread", 0), r.get("max_lag", 0)), brief)
    elif ret >= 0 and not (reads and reads[-1].get("err") == "timeout" and reads[-1]["t"] >= D - 2):
        ctx.fail(key + ":not-reading-at-deadline", "the handler was not blocked in a Read when its deadline passed", brief)


def probe_term(r, c=None):
    parts = []
    for p in (r.get("parts") or []):
        if p.get("gen"):
            parts.append("Gen %d%%N %d%%N" % (p["gen"][0], p["gen"][1]))
        elif p.get("hex"):
            parts.append(("hex", p["hex"]))
    reads = [x["n"] for x in (r.get("reads") or []) if not x.get("err")]
    rr = {"regs": r.get("regs") or [], "reveals": r.get("reveals"), "marks": r.get("marks"), "calls": r.get("calls") or [],
          "tracked": r["tracked"], "ts": r["ts"], "status": r.get("status", 0), "echo": None}
    found = any(cl["res"] == "found" for cl in (r.get("calls") or []))
    conn = c04.conn_term(rr, parts, "Lit (@nil N)", not found, reads=reads)
    sd = [x for x in (r.get("set_deadline") or []) if x[1] > 0]
    D = int(round(sd[0][1])) if sd else 0
    quiet = all(cl["res"] in ("again", "not") for cl in (r.get("calls") or []))
    allreads = r.get("reads") or []
    last = allreads[-1].get("err") if allreads else None
    slept = not found and last not in ("timeout", "eof", "rst")
    fin = "None"
    if c and c.get("fin_ms"):
        fin = "(Some (%s, %s))" % (gN(c["fin_ms"]), gN(1 if c.get("fin_rst") else 0))
    q = "(Build_probe_case %s %s %s %s %s %s %s %s)" % (
        conn, glist(r.get("script") or [], lambda x: "(%s, %s)" % (gN(x[0]), gN(x[1]))), gN(D), gN(sum(reads)), gbool(quiet), gbool(slept),
        fin, gbool(last in ("eof", "rst")))
    at_once = not sd and not allreads and r.get("returned", -1) >= 0
    return "(%s, Build_probe_addr %s %s %s)" % (q, raddr_term((c or {}).get("peer_form"), r.get("remote_len", 16), r.get("remote_ip") or "", r.get("remote_zone") or ""),
                                             gbytes(bytes.fromhex(r.get("phantom") or "")), gbool(at_once))


def gbytes(b):
    return "[%s]%%N" % "; ".join(str(x) for x in b) if b else "(@nil N)"


def raddr_term(form, iplen, iphex, zone=""):
    ip = bytes.fromhex(iphex)
    if form == "str":
        return "(ROther %s)" % ("(Some %s)" % gbytes(ip) if ip else "None")
    return "(%s %s %s)" % ("RUdp" if form == "udp" else "RTcp", gbytes(ip), gbytes(zone.encode()))


def header(table):
    return ("From CJ Require Import Common.Base C04.Model C04.Run C03.Model C03.StatsModel C03.ConnModel C03.Run.\n"
            "Definition tbl : list pfx :=\n %s.\nDefinition chk' := chk3a tbl.\n" % c04.table_term(table))


# ---------------------------------------------------------------------------------------------------
# history lane: several connections + statistics epochs on real loopback sockets

HREGS = {"regs": [{"transport": "min", "valid": True}], "noregs": [],
         "many": [{"transport": "min", "valid": True}, {"transport": "obfs4", "valid": True}, {"transport": "prefix", "prefix_id": 1, "valid": True}]}

# connection kinds: (registrations on the phantom, bytes sent, how it ends)
HKINDS = {
    "silent-timeout": ("regs", 0, None), "silent-fin": ("regs", 0, "fin"), "silent-rst": ("regs", 0, "rst"),
    "data-timeout": ("regs", 60, None), "data-fin": ("many", 90, "fin"), "data-rst": ("regs", 60, "rst"),
    "noregs-timeout": ("noregs", 0, None), "noregs-fin": ("noregs", 0, "fin"), "noregs-rst": ("noregs", 40, "rst"),
    "noregs-data-timeout": ("noregs", 300, None),
    "exhaust-timeout": ("regs", 9000, None), "exhaust-fin": ("many", 9000, "fin"), "exhaust-rst": ("regs", 8500, "rst"),
    "match": ("noregs", -1, None),
}


def gen_hists(ctx, scale):
    rng = ctx.rng
    if ctx.replay:
        hs = []
        for f in ctx.replay.get("failures", []) + ctx.replay.get("theorem_or_correspondence", []) + ctx.replay.get("broken", []):
            h = (f.get("case") or {}).get("hist")
            if h and "conns" in h and h not in hs:
                hs.append(h)
        return hs
    hists = []
    srcn = [0]
    zn = [0]
    geos = [("DE", 64501), ("FR", 64502), ("US", 64500), ("", 64503), ("unk", 64504), ("BR", 64501)]

    def conn(kind, at, geo=None, phantom=None, peer=None, t_end=None, first=150, mid=None):
        regs, n, end = HKINDS[kind]
        srcn[0] += 1
        k = srcn[0]
        c = {"kind": kind, "at_ms": at, "regs": HREGS[regs], "parts": [], "chunks": [], "fin_ms": 0, "fin_rst": False,
             "phantom": phantom or ("v6" if k % 3 == 0 else "v4")}
        cc, asn = geo or geos[k % len(geos)]
        c["cc"], c["asn"] = cc, asn
        # the peer's source address: distinct loopback addresses (127.x.y.z), the IPv6 loopback, or - reported
        # through RemoteAddr() on top of the real socket - a global IPv6 / 4-byte IPv4 / UDP / string address
        style = 2 if peer == 5 else (peer if peer is not None else k % 5)
        c["src"] = "127.%d.%d.%d" % (1 + (k >> 16) % 100, (k >> 8) & 255, k & 255)
        if style == 1:
            c["src"] = "::1"
            c["peer"], c["peer_form"] = "2001:db8:%x::%x" % (rng.randrange(1, 0xffff), k), "tcp"   # ::1 is one address: tell the peers apart
        elif style == 2:
            c["peer"], c["peer_form"] = "2001:db8:%x:%x::%x" % (rng.randrange(1, 0xffff), rng.randrange(0, 0xffff), k), rng.choice(["tcp", "udp", "str"])
            zn[0] += 1
            if zn[0] % 2 == 0 or peer == 5:   # a scoped link-local peer: the address object carries a Zone
                c["peer"], c["peer_form"] = "fe80::%x:%x%%%s" % (rng.randrange(1, 0xffff), k, ZONES[zn[0] // 2 % len(ZONES)]), ("udp" if zn[0] % 6 == 0 else "tcp")
        elif style == 3:
            c["peer"], c["peer_form"] = "203.0.%d.%d" % ((k >> 8) & 255, k & 255), rng.choice(["tcp", "tcp4"])
        elif style == 4:
            c["src"] = "::1"   # the real thing, unmodified: every such peer is ::1 (one GeoIP entry)
            c["cc"], c["asn"] = "AU", 64999
        if n < 0:
            c["parts"] = [{"flight": {"transport": "min", "prefix_id": 0, "flip": -1, "flip_end": 0, "trunc": 0, "as_prefix": -1, "valid": True,
                                      "no_reg": False, "key": k % 3, "tag_of": ""}}]
            c["chunks"] = [[t_end or 900, -1]]
        elif n > 0:
            c["parts"] = [{"gen": [rng.randrange(1, 1 << 30), n]}]
            c["chunks"] = [[first, n // 2], [first + 150, -1]] if n < 1000 and k % 2 else [[first, -1]]
        if end:
            c["fin_ms"] = t_end or 900
            c["fin_rst"] = end == "rst"
        c["mid_epoch"] = mid or []
        c["geo_err"] = ""
        return c

    for _ in range(scale):
        # every way a connection can end, with a statistics epoch between its previous step and its end,
        # next to bystanders that did nothing special (silent / garbage) on the same and on another ASN
        across = [(k, geos[i % 3], "v4" if i % 2 == 0 else "v6") for i, k in enumerate(HKINDS)]
        # ... and with a GeoIP database that does not know the peer's country ("" : no per-ASN entry at all; "unk": ASN 0)
        across += [("silent-timeout", geos[3], "v4"), ("silent-fin", geos[4], "v6"), ("data-rst", geos[3], "v6"), ("noregs-fin", geos[4], "v4")]
        for kind, geo, fam in across:
            e1 = rng.randrange(420, 700)
            conns = [conn(kind, 0, geo=geo, phantom=fam, t_end=rng.randrange(900, 1400)),
                     conn("silent-timeout", rng.randrange(150, 300), geo=geo, phantom=fam),
                     conn(rng.choice(["data-timeout", "noregs-data-timeout"]), rng.randrange(750, 1000))]
            hists.append({"class": kind + "-across-epoch", "conns": conns, "epochs": [e1, rng.randrange(1600, 3000), rng.randrange(3200, 4600)], "hammer": False})
        # an epoch forced INSIDE the handler's check window (after x->Check, before Check->y), for the Read that
        # is the first one, a later one, the one on which the last transport gives up, and the one that matches
        for kind, mids in (("data-timeout", [0]), ("data-fin", [0, 1]), ("exhaust-timeout", [1, 2]), ("exhaust-rst", [0, 2]), ("match", [0])):
            geo = geos[rng.randrange(3)]
            conns = [conn(kind, 0, geo=geo, t_end=rng.randrange(1200, 2000), mid=mids, peer=rng.choice([0, 2, 3])),
                     conn("silent-timeout", rng.randrange(0, 100), geo=geo),
                     conn("data-timeout", rng.randrange(0, 100), geo=geo, mid=[0] if kind == "match" else [])]
            if kind == "data-fin":   # two chunks, the second one well after the first
                conns[0]["chunks"] = [[150, 40], [700, -1]]
            hists.append({"class": kind + "-mid-check-epoch", "conns": conns, "epochs": [rng.randrange(2500, 4500)], "hammer": False})
        # the GeoIP database fails to answer for some peers (its country lookup, or its ASN lookup): they
        # are probes like all others
        conns = []
        for i, (kind, ge) in enumerate((("silent-timeout", "cc"), ("data-timeout", "asn"), ("noregs-data-timeout", "cc"), ("silent-fin", "asn"),
                                        ("exhaust-timeout", "cc"), ("data-rst", "cc"), ("silent-timeout", ""))):
            # (never the unmodified ::1 peer: all those share ONE GeoIP entry, across histories)
            c = conn(kind, 60 * i, geo=geos[i % 3], t_end=rng.randrange(800, 3000), peer=i % 4)
            c["geo_err"] = ge
            conns.append(c)
        hists.append({"class": "geo-error", "conns": conns, "epochs": [rng.randrange(400, 700), rng.randrange(3100, 4500)], "hammer": False})
        # the same ends without an epoch in between (control), all in one history
        hists.append({"class": "no-epoch", "epochs": [], "hammer": False,
                      "conns": [conn(k, 40 * i, t_end=rng.randrange(500, 2500)) for i, k in enumerate(HKINDS)]})
        # random mixes: 5-8 connections, 3-6 epochs anywhere (also while connections time out)
        for j in range(4):
            ks = [rng.choice(list(HKINDS)) for _ in range(rng.randrange(5, 9))]
            eps = sorted(rng.randrange(100, 4800) for _ in range(rng.randrange(3, 7)))
            if j % 2:
                eps += sorted(rng.randrange(5000, 10500) for _ in range(3))
            hists.append({"class": "mix", "epochs": eps, "hammer": False,
                          "conns": [conn(k, rng.randrange(0, 1800), t_end=rng.randrange(300, 4400), first=rng.randrange(50, 400)) for k in ks]})
        # the station's lifecycle: configuration reloads (the real RegistrationManager.OnReload) between the connections,
        # with GeoIP database paths that are not configured / point to no file / point to a file of garbage; connections
        # opened before a reload are still being classified when it happens, others arrive after it
        bad = ["missing", "corrupt"]
        plans = [[{"asn_db": "", "cc_db": "corrupt"}], [{"asn_db": "missing", "cc_db": ""}],
                 [{"asn_db": "", "cc_db": ""}, {"asn_db": "corrupt", "cc_db": "corrupt"}],
                 [{"nil": True}, {"asn_db": "corrupt", "cc_db": "missing"}, {"nil": True}],
                 [{"asn_db": rng.choice(["", "missing", "corrupt"]), "cc_db": rng.choice(bad)}, {"asn_db": rng.choice(bad), "cc_db": rng.choice(["", "missing", "corrupt"])},
                  {"nil": rng.random() < 0.5, "asn_db": "", "cc_db": ""}]]
        for j, plan in enumerate(plans):
            rl, conns, t = [], [], 0
            conns.append(conn("silent-timeout", 0, geo=geos[j % 3]))
            conns.append(conn(rng.choice(["data-timeout", "noregs-data-timeout"]), rng.randrange(20, 120), peer=5 if j % 2 else None))
            for r in plan:
                t += rng.randrange(450, 650)
                rl.append(dict({"at_ms": t, "nil": False, "asn_db": "", "cc_db": ""}, **r))
                conns.append(conn(rng.choice(["silent-timeout", "silent-fin", "data-timeout"]), t + rng.randrange(150, 220), t_end=rng.randrange(700, 1500)))
                conns.append(conn(rng.choice(["data-rst", "noregs-timeout", "exhaust-timeout", "data-fin"]), t + rng.randrange(230, 300), t_end=rng.randrange(700, 1500)))
            hists.append({"class": "reload", "conns": conns, "epochs": [t + 400, t + 2500], "hammer": False, "reloads": rl})
        # unsynchronised epochs every 2 ms while connections of every kind are open
        for j in range(2):
            ks = list(HKINDS) if j == 0 else [rng.choice(list(HKINDS)) for _ in range(8)]
            hists.append({"class": "hammer", "epochs": [], "hammer": True,
                          "conns": [conn(k, rng.randrange(0, 1500), t_end=rng.randrange(300, 4400)) for k in ks]})
    return hists


def hist_situations(h, hr):
    """which statistics-relevant situations the recorded history contains (generator self-test): the kind of
    every Read error, with what the connection had done before and whether an epoch went by since its
    previous step"""
    out = []
    last = {}          # conn -> index of its previous event
    nread = {}
    e_prev_n = {}
    epochs = [i for i, e in enumerate(hr["events"]) if e["ev"] == "epoch"]
    for i, e in enumerate(hr["events"]):
        c = e["conn"]
        if e["ev"] == "reload":
            r = e.get("reload") or {}
            dbs = "nil-config" if r.get("nil") else "/".join(sorted(set([r.get("asn_db") or "absent", r.get("cc_db") or "absent"])))
            opened = sum(1 for x in hr["events"][:i] if x["ev"] == "open")
            ended = sum(1 for x in hr["events"][:i] if x["ev"] == "err")
            out.append("sit:reload/%s" % dbs)
            out.append("sit:reload-leaves/%s" % {0: "nil", 1: "empty-db", 2: "database"}.get(e.get("geo_kind"), "?"))   # (informative, not required)
            if opened > ended and opened < len(h["conns"]):
                out.append("sit:reload/with-open-connections-and-later-ones")
            continue
        if e["ev"] == "open":
            last[c], nread[c] = i, 0
            continue
        if e["ev"] == "epoch":
            if e.get("mid"):
                out.append("sit:mid-check/%s" % ("first" if nread.get(c, 0) == e_prev_n.get(c, 0) else "later"))
            continue
        if e["ev"] == "read":
            e_prev_n[c] = e["n"]
        after = any(last.get(c, -1) < x < i for x in epochs)
        spec = h["conns"][c]
        cc = "cc" if spec["cc"] else "nocc"
        if e["ev"] == "read":
            if nread[c] == 0:
                out.append("sit:first-read/%s%s" % (cc, "@epoch" if after else ""))
            nread[c] += e["n"]
        else:
            st = "noregs" if not spec["regs"] else ("0B" if nread[c] == 0 else ("drained" if nread[c] > 8192 else "data"))
            out.append("sit:%s/%s/%s%s" % (e["kind"], st, cc, "@epoch" if after else ""))
        last[c] = i
    return out


def judge_hist(ctx, h, hr, Ds):
    """the property's own statement on every connection of a history that presented no valid tag"""
    cls = h["class"]
    bad = False
    panics = [(i, c) for i, c in enumerate(hr["conns"]) if c.get("panic")]

    def brief(i=None):
        b = {"hist": h, "class": cls,
             "events": [{k: v for k, v in e.items() if k in ("ev", "conn", "n", "kind", "at_ms", "quiesced", "reload", "geo_kind") and v not in (None, "")}
                        for e in hr["events"]][:60]}
        if i is not None:
            b["conn"] = i
            b["observed"] = hr["conns"][i]
        return b

    for i, c in panics:
        # a panic in a connection goroutine is not recovered by the station: the process dies and every
        # connection that is open at that instant is closed before its deadline
        t = c["start_ms"] + c["panic_at"]
        victims = []
        for j, v in enumerate(hr["conns"]):
            if j == i or v.get("err"):
                continue
            sd = [x for x in (v.get("set_deadline") or []) if x[1] > 0]
            end = v["start_ms"] + (sd[0][0] + sd[0][1] if sd else 0)
            if v["start_ms"] <= t < end and not (h["conns"][j]["fin_ms"] and v["start_ms"] + h["conns"][j]["fin_ms"] <= t):
                victims.append({"conn": j, "kind": h["conns"][j]["kind"], "ms_before_its_deadline": round(end - t)})
        b = brief(i)
        b["victims"] = victims
        ctx.fail("hist/%s:handler-panic" % cls,
                 "the handler goroutine of a connection (%s, peer %s) panicked %.0f ms into the history in %s: %s - the station process dies, "
                 "%d other unauthenticated connection(s) of this history are closed %s ms before their deadlines"
                 % (h["conns"][i]["kind"], c.get("remote"), t, c.get("panic_fn") or "?", c["panic"][:120], len(victims),
                    "/".join(str(v["ms_before_its_deadline"]) for v in victims[:4])), b)
        bad = True
    for e in hr["events"]:
        if e.get("reload_panic"):
            ctx.fail("hist/%s:reload-panic" % cls, "RegistrationManager.OnReload panicked: %s" % e["reload_panic"][:200], brief())
            bad = True
        if e.get("epoch_panic"):
            ctx.fail("hist/%s:epoch-panic" % cls, "connStats.PrintAndReset panicked: %s" % e["epoch_panic"][:200], brief())
            bad = True
    for i, (spec, c) in enumerate(zip(h["conns"], hr["conns"])):
        if c.get("err"):
            ctx.broken("driver", "history connection could not be set up: %s" % c["err"], {"hist": h, "conn": i})
            continue
        tagged = spec["kind"] == "match"
        if tagged != bool(c.get("found")):
            ctx.broken("generator-selftest", "history connection of kind %s %s" % (spec["kind"], "was not matched" if tagged else "was matched"),
                       {"hist": h, "conn": i, "observed": c})
        if tagged or c.get("panic"):
            continue
        key = "hist/%s/%s" % (cls, spec["kind"])
        if peer_is_zoned(c.get("remote")):
            key += "@peer-zoned"
        elif peer_is_v6(c.get("remote_ip") or ""):
            key += "@peer-v6"
        n0 = ctx.cov["oracle_failures"]
        sd = [x for x in (c.get("set_deadline") or []) if x[1] > 0]
        fin = spec["fin_ms"]
        if c["peer_got"] > 0 or c["writes"] > 0:
            ctx.fail(key + ":write", "the peer received %d byte(s) from the station (handler wrote %d)" % (c["peer_got"], c["writes"]), brief(i))
        if c.get("closes"):
            ctx.fail(key + ":close", "the handler closed an unauthenticated connection itself at %.0f ms" % c["closes"][0], brief(i))
        if not sd:
            ctx.fail(key + ":no-deadline", "handler set no classification deadline: it returned after %.0f ms and the peer (%s) saw the "
                     "connection closed after %.0f ms" % (c["returned"], c.get("remote"), c["peer_closed"]), brief(i))
            bad = bad or ctx.cov["oracle_failures"] > n0
            continue
        D = sd[0][0] + sd[0][1]
        Ds.append(sd[0][1])
        if not (4999 <= sd[0][1] <= 10001):
            ctx.fail("deadline-range", "classification deadline %.0f ms is outside [5 s, 10 s]" % sd[0][1], brief(i))
        ret, pc = c["returned"], c["peer_closed"]
        limit = min(D, fin) if fin else D      # the station may let go from the peer's own close on
        if ret < 0:
            ctx.fail(key + ":hang", "handler did not return within 15 s", brief(i))
        elif ret < limit - 2:
            ctx.fail(key + ":early-return", "handler returned %.0f ms before %s" % (limit - ret, "the peer closed its side" if fin and fin < D else "its %.0f ms deadline" % D), brief(i))
        elif ret > limit + 1500 and ret > D + 1500:
            ctx.fail(key + ":late-return", "handler returned %.0f ms after its deadline" % (ret - D), brief(i))
        if not (fin and spec["fin_rst"]):
            # what the peer itself saw on its socket (a peer that reset the connection sees nothing more)
            if pc >= 0 and pc < limit - 2:
                ctx.fail(key + ":early-close", "the peer saw the station close the connection (%s) at %.0f ms, %.0f ms before %s"
                         % (c["peer_kind"], pc, limit - pc, "its own close" if fin and fin < D else "the deadline"), brief(i))
            elif pc < 0 and ret >= 0:
                ctx.fail(key + ":never-closed", "the handler returned but the peer's socket was still open %.0f ms later" % (13500 - ret), brief(i))
        if c["read_bytes"] < c["stream_len"]:
            ctx.fail(key + ":stopped-reading", "station read %d of the %d bytes the peer sent before the deadline" % (c["read_bytes"], c["stream_len"]), brief(i))
        elif ret >= 0 and not fin and not (c["last_err"] == "timeout" and c["last_err_at"] >= D - 2):
            ctx.fail(key + ":not-reading-at-deadline", "the handler was not blocked in a Read when its deadline passed (last Read result: %s at %.0f ms)"
                     % (c["last_err"] or "data", c["last_err_at"]), brief(i))
        bad = bad or ctx.cov["oracle_failures"] > n0
    return bad


def gcc(s):
    return gbytes(s.encode())


def snap_term(sn):
    def ent(e):
        return "(%s, %s, %s)" % (gN(e["asn"]), gcc(e["cc"]), glist(e["c"] or [], gZ))
    return "(%s, %s, %s, %s)" % (glist(sn["v4"], gZ), glist(sn["v6"], gZ), glist(sn["map4"], ent), glist(sn["map6"], ent))


ANSWER = {"again": 0, "not": 1, "found": 2}
ERRK = {"timeout": 0, "eof": 1, "closed": 1, "rst": 2}


def hist_term(h, hr, ts):
    evs = []
    exact = not h["hammer"] and not hr["hung"]
    events = hr["events"]
    split = {}     # index of a read event -> index of the epoch forced inside its check window
    lastread = {}
    for i, e in enumerate(events):
        if e["ev"] == "read":
            lastread[e["conn"]] = i
        elif e["ev"] == "epoch" and e.get("mid") and e["conn"] in lastread:
            split[lastread[e["conn"]]] = i
    tail = {v: k for k, v in split.items()}
    for i, e in enumerate(events):
        if i in split:
            evs.append("RRead1 %s %s" % (gN(e["conn"]), gN(e["n"])))
            continue
        if e["ev"] == "open":
            evs.append("ROpen %s %s %s %s %s %s" % (gN(e["conn"]), "None" if e.get("asn_err") else "(Some %s)" % gN(e["asn"]),
                                                   "None" if e.get("cc_err") else "(Some %s)" % gcc(e["cc"]), gbool(e["v4"]), gN(e["tracked"]), gN(e["nts"])))
        elif e["ev"] == "read":
            calls = glist(e.get("calls") or [], lambda cl: "(%s, %s)" % (gN(ts.index(cl["t"])), gN(ANSWER.get(cl["res"], 3))))
            evs.append("RRead %s %s %s" % (gN(e["conn"]), gN(e["n"]), calls))
        elif e["ev"] == "err":
            evs.append("RErr %s %s" % (gN(e["conn"]), gN(ERRK.get(e["kind"], 3))))
        elif e["ev"] == "epoch" and e.get("snap"):
            if not e.get("quiesced"):
                exact = False
            evs.append("REpoch %s" % snap_term(e["snap"]))
            if i in tail:
                r = events[tail[i]]
                evs.append("RRead2 %s %s" % (gN(r["conn"]), glist(r.get("calls") or [], lambda cl: "(%s, %s)" % (gN(ts.index(cl["t"])), gN(ANSWER.get(cl["res"], 3))))))
    if any(c.get("panic") for c in hr["conns"]):
        exact = exact   # a recovered panic leaves the counters half updated: the comparison is expected to fail, the oracle has the case
    def dbf(x):
        return {"": "FAbsent", "missing": "FMissing", "corrupt": "FCorrupt"}[x or ""]
    rls = [("None" if e["reload"].get("nil") else "(Some (Build_dbconf %s %s))" % (dbf(e["reload"].get("asn_db")), dbf(e["reload"].get("cc_db"))), e.get("geo_kind", 9))
           for e in events if e["ev"] == "reload"]
    return "(Build_hist_case %s %s %s %s)" % (glist(evs, lambda x: "(%s)" % x), snap_term(hr["final"]), gbool(exact),
                                              glist(rls, lambda x: "(%s, %s)" % (x[0], gN(x[1]))))


HHEADER = "From CJ Require Import Common.Base C03.StatsModel C03.ConnModel C03.ReloadModel C03.Run.\n"



def run(ctx):
    ctx.level = "proof"
    ctx.assumptions += [
        "cryptography is a parameter of the model (TryReveal, obfs4 mark, obfs4 library handshake), supplied per probe as observed on the real code",
        "timers are not modelled: the deadline D is an input of the model; that the handler really returns at the deadline it set, and reads "
        "promptly until then, is measured on scripted connections with tolerances (-0/+1.5 s for the return, 1 s for a read)",
        "peer-initiated FIN/RST is outside the property's quantifier (content, length, pacing of data)",
        "kernel-level behaviour (ACKs, window) is named, not modelled: the handler's Reads are the observable",
        "the GeoIP database is a parameter of the model; hypothesis geo_total: its lookups of IP addresses do not fail (a failing lookup makes the "
        "handler return at once - C03_immediate_return_iff); the stand-in of the tie answers every lookup",
        "a panic in a connection goroutine is taken to end the station process (nothing in cmd/application recovers it): the driver recovers it "
        "and the oracle counts every connection open at that instant as closed early",
        "int64 overflow of the statistics counters is not modelled",
        "no valid MaxMind database file is available to the tie: reloads are run with database paths that are not configured, point to no file or "
        "point to garbage (a good file occurs in the model only); OnReload's phantom-selector and blocklist parts are not modelled here",
    ]
    ctx.cov["trusted_base"] = [
        "Coq 8.16.1 kernel (coqc; coqchk in the thorough tier); vm_compute for evaluating the model on probes; no native_compute",
        "no axioms: every theorem prints 'Closed under the global context'",
        "hand-written model coq/C04/Model.v + coq/C03/Model.v tied to /repo by the correspondence run (drivers, scripted net.Conn, emitter trusted)",
        "Go runtime timers and the scripted connection's deadline implementation; in the history lane the kernel's loopback TCP and the real netpoll deadline",
        "hand-written models coq/C03/StatsModel.v (connStats) and coq/C03/ConnModel.v (addresses, GeoIP, composition) tied by chk_hist / chk3a",
    ]
    ctx.cov["rule"] = ("probe streams 0-16 KiB: random at every threshold length, protocol look-alikes, every static prefix + garbage, genuine "
                       "flights with one bit flipped / one byte short / of unregistered or unvalidated clients, under arbitrary segmentation and "
                       "pacing, against registries none / invalid-only / one / many, crossed with the peer-address forms (IPv4 4-byte / ::ffff: form, "
                       "global / ULA / loopback / zoned link-local IPv6; TCP, UDP and string address objects) and IPv4 / IPv6 phantoms; plus histories of 3-14 connections on "
                       "real loopback sockets (every way a connection ends) interleaved with statistics epochs (between any two steps of a connection, "
                       "inside the check window, unsynchronised every 2 ms) and with configuration reloads (real OnReload; GeoIP database paths absent / missing / garbage); non-trivial = hash-distinct (kind, registry, peer address, script shape) "
                       "probe / history connection that ran through the real handler until it returned")
    t0 = time.time()

    def lap(what):
        print("[C03 %5.1fs] %s" % (time.time() - t0, what), file=sys.stderr)
    # coq/C04 holds the shared handler model; it is part of this property's project (extra_dirs) but
    # is cleaned and re-checked by C04's own run, not here (the two checks may run side by side)
    ctx.extra_dirs = ["C04"]
    ctx.coq_props(props_files=["C03/Props.v", "C03/Run.v", "C03/Examples.v", "C03/ExamplesStats.v"])
    bad = ctx.hygiene(["C04"])
    if bad:
        ctx.broken("hygiene", "forbidden constructs in coq/C04: %s" % bad[:5])
    lap("coq props")
    rc, out, res = ctx.go_inpkg(c04.MOD, ".", FILES, "^TestVerifC03$", [], extra_overlay=c04.EXTRA)
    if not res or "table" not in res:
        ctx.broken("driver", "Go driver did not start: " + out[-1500:])
        return
    table = res["table"]
    c04.table_obligation(ctx, table, res["obfs4"], props="C03.Props", inst="C03_no_tag_no_reaction reveal mark hs dumped")
    lap("table dump + obligation")
    batches = 1 if ctx.tier == "quick" or ctx.replay else 3
    # the history lane runs in its own test process next to the probe batches (both last ~10-13 s)
    hists = gen_hists(ctx, 1 if ctx.tier == "quick" else 2)
    hbox = {}

    def run_hists():
        if hists:
            hbox["res"] = ctx.go_inpkg(c04.MOD, ".", FILES, "^TestVerifC03Hist$", hists, extra_overlay=c04.EXTRA, timeout=300)
    hthread = threading.Thread(target=run_hists)
    hthread.start()
    allc, allr = [], []
    for b in range(batches):
        cases = gen_cases(ctx, table, 1 if ctx.tier == "quick" else 2)
        if ctx.replay and not cases:
            break
        rc, out, res = ctx.go_inpkg(c04.MOD, ".", FILES, "^TestVerifC03$", cases, extra_overlay=c04.EXTRA, timeout=300)
        if not res or len(res.get("results", [])) != len(cases):
            ctx.broken("driver", "Go driver did not produce results: " + out[-1500:])
            hthread.join()
            return
        allc += cases
        allr += res["results"]
        lap("batch %d: %d probes" % (b, len(cases)))
    Ds = []
    terms, idx = [], []
    for i, (c, r) in enumerate(zip(allc, allr)):
        if r.get("err"):
            ctx.broken("driver", "probe could not be built: %s" % r["err"], {"case": c})
            continue
        c04.scope_checks(ctx, r)
        pk = "peer:" + ("nonip" if c.get("peer") == "-" else ("zoned" if r.get("remote_zone") else ("v6" if peer_is_v6(c.get("peer") or "") else "v4"))) + "/" + (c.get("peer_form") or "tcp")
        ctx.cov["histogram"][pk] = ctx.cov["histogram"].get(pk, 0) + 1
        tagged = presents_tag(r, table)
        judged = tagged is None and c["kind"] != "nonip"
        if (tagged is None) == c["kind"].startswith("validtag"):
            # generator self-test: the probe classes are what they claim to be
            ctx.broken("generator-selftest", "probe of kind %s %s a valid tag (%s)" % (c["kind"], "carries" if tagged else "does not carry", tagged),
                       {"case": c, "parts": r.get("parts")})
        before = ctx.cov["oracle_failures"]
        if judged:
            judge(ctx, c, r, Ds)
        bad = ctx.cov["oracle_failures"] > before
        ctx.count((c["kind"], c.get("regs_name"), c.get("peer_form"), c.get("peer"), tuple(map(tuple, r.get("script") or [])), str(r.get("parts"))[:200]),
                  nontrivial=r.get("returned", -1) >= 0, kind="%s/%s" % (c["kind"], "bad" if bad else "ok"))
        if judged and peer_is_v6(c.get("peer") or ""):
            k6 = "%s@peer-%s" % (c["kind"], "zoned" if r.get("remote_zone") else "v6")
            ctx.cov["histogram"][k6] = ctx.cov["histogram"].get(k6, 0) + 1
        ctx.cov["histogram"]["regs:" + c.get("regs_name", "?")] = ctx.cov["histogram"].get("regs:" + c.get("regs_name", "?"), 0) + 1
        terms.append(probe_term(r, c))
        idx.append(i)
    # ---- history lane: oracle
    hthread.join()
    hterms, hidx, hres, hts = [], [], [], []
    if hists:
        rc, out, res = hbox.get("res") or (1, "", None)
        if not res or len(res.get("results", [])) != len(hists):
            ctx.broken("driver", "history driver did not produce results: " + (out or "")[-1500:])
        else:
            hres, hts = res["results"], res["ts"]
            ctx.cov["history_lane"] = {"histories": len(hists), "connections": sum(len(h["conns"]) for h in hists),
                                       "epochs": sum(x["resets"] for x in hres), "ipv6_loopback": res.get("v6ok")}
            for i, (h, hr) in enumerate(zip(hists, hres)):
                bad = judge_hist(ctx, h, hr, Ds)
                for sname in hist_situations(h, hr):
                    ctx.cov["histogram"][sname] = ctx.cov["histogram"].get(sname, 0) + 1
                for spec, c in zip(h["conns"], hr["conns"]):
                    fam = "hist-peer:" + ("zoned" if peer_is_zoned(c.get("remote")) else "v6" if peer_is_v6(c.get("remote_ip") or "") else "v4") + ("/real" if not spec.get("peer") else "/" + spec.get("peer_form", "tcp"))
                    ctx.cov["histogram"][fam] = ctx.cov["histogram"].get(fam, 0) + 1
                    ctx.count(("hist", h["class"], spec["kind"], spec["cc"], spec["asn"], spec["phantom"], c.get("remote_ip"), tuple(h["epochs"])),
                              nontrivial=c.get("returned", -1) >= 0 or bool(c.get("panic")), kind="hist-conn/%s/%s" % (spec["kind"], "bad" if bad else "ok"))
                ctx.cov["histogram"]["hist:%s/%s" % (h["class"], "bad" if bad else "ok")] = ctx.cov["histogram"].get("hist:%s/%s" % (h["class"], "bad" if bad else "ok"), 0) + 1
                hterms.append(hist_term(h, hr, hts))
                hidx.append(i)
            ctx.sample({"history": hists[0]["class"], "conns": [{k: c.get(k) for k in ("remote", "set_deadline", "returned", "peer_got", "peer_closed", "peer_kind", "last_err")}
                                                                for c in hres[0]["conns"]], "final": hres[0]["final"]})
    if len(Ds) >= 8:
        if len(set(round(d) for d in Ds)) < 2 or max(Ds) - min(Ds) < 100:
            ctx.fail("deadline-not-randomised", "the classification deadline is the same (%.0f ms) on %d connections" % (Ds[0], len(Ds)),
                     {"deadlines_ms": sorted(set(round(d) for d in Ds))[:10]})
        ctx.cov["deadlines_ms"] = {"min": min(Ds), "max": max(Ds), "distinct": len(set(round(d) for d in Ds)), "n": len(Ds)}
        # the statistical tie of C03_deadline_draw: a uniform draw over [5 s, 10 s) leaves a quarter of that
        # range empty among n independent deadlines with probability <= 4 * 0.75^n (n = 100: 1.3e-12)
        if len(Ds) >= 100:
            q = [sum(1 for d in Ds if 5000 + 1250 * i <= d < 5000 + 1250 * (i + 1) + (1 if i == 3 else 0)) for i in range(4)]
            ctx.cov["deadlines_ms"]["quarters"] = q
            if min(q) == 0:
                ctx.fail("deadline-not-uniform", "none of %d classification deadlines falls into [%d ms, %d ms): the deadline is not drawn from the "
                         "whole 5-10 s range (per quarter: %s)" % (len(Ds), 5000 + 1250 * q.index(0), 6250 + 1250 * q.index(0), q),
                         {"deadlines_ms": sorted(round(d) for d in Ds)[:40], "per_quarter": q})
    for i in ((0, len(allc) // 2, len(allc) - 1) if allc else ()):
        r = allr[i]
        ctx.sample({"kind": allc[i]["kind"], "regs": allc[i].get("regs_name"), "script": r.get("script"),
                    "observed": {k: r.get(k) for k in ("set_deadline", "writes", "closes", "returned", "max_lag", "unread")}})
    if not ctx.replay:
        ctx.require_kinds(["random/ok", "lookalike/ok", "static/ok", "flip/ok", "short/ok", "unregistered/ok", "unvalidated/ok", "loworder/ok", "manychunks/ok", "dribble/ok",
                           "phantom:v4", "phantom:v6", "drain/ok", "late/ok", "peerclose/ok", "validtag-wrongprefix/ok", "validtag-wrongtransport/ok", "validtag-obfs4-badmac/ok"] + ["regs:" + n for n in REGS]
                          # the peer-address dimension, crossed with the probe classes
                          + ["nonip/ok", "peer:v4/tcp", "peer:v4/tcp4", "peer:v6/tcp", "peer:v6/udp", "peer:v6/str", "peer:v4/str", "peer:v4/udp", "peer:nonip/str"]
                          + ["peer:zoned/tcp", "peer:zoned/udp"]
                          + [k + "@peer-zoned" for k in ("random", "lookalike", "static", "flip", "short", "unregistered", "unvalidated", "loworder", "manychunks", "drain", "late", "peerclose", "dribble")]
                          + [k + "@peer-v6" for k in ("random", "lookalike", "static", "flip", "short", "unregistered", "unvalidated", "loworder", "manychunks", "drain", "late", "peerclose")]
                          # the history lane: every way a connection ends, with an epoch between its previous step and its end
                          + ["hist:%s-across-epoch/ok" % k for k in HKINDS] + ["hist:no-epoch/ok", "hist:mix/ok", "hist:hammer/ok"]
                          + ["hist:%s-mid-check-epoch/ok" % k for k in ("data-timeout", "data-fin", "exhaust-timeout", "exhaust-rst", "match")]
                          + ["sit:mid-check/first", "sit:mid-check/later", "hist:geo-error/ok"]
                          + ["hist-peer:v4/real", "hist-peer:v6/tcp", "hist-peer:v4/tcp4", "hist-peer:zoned/tcp"]
                          # the lifecycle: reloads between connections, every kind of GeoIP database configuration
                          + ["hist:reload/ok", "sit:reload/absent/corrupt", "sit:reload/absent/missing", "sit:reload/absent",
                             "sit:reload/nil-config", "sit:reload/corrupt", "sit:reload/corrupt/missing",
                             "sit:reload/with-open-connections-and-later-ones"]
                          + ["sit:eof/0B/cc@epoch", "sit:timeout/0B/cc@epoch", "sit:rst/0B/cc@epoch", "sit:eof/data/cc@epoch", "sit:rst/data/cc@epoch",
                             "sit:timeout/data/cc@epoch", "sit:eof/noregs/cc@epoch", "sit:timeout/noregs/cc@epoch", "sit:timeout/drained/cc@epoch",
                             "sit:eof/drained/cc@epoch", "sit:first-read/cc@epoch", "sit:eof/0B/cc", "sit:timeout/0B/nocc@epoch"])
    lap("oracle + emit")
    mm = c04.coq_mismatches_retry(ctx, "probe", header(table), terms, "chk'", max(20, len(terms) // 16 + 1), ["C03/Run.vo"])
    lap("coq evaluation of %d probes" % len(terms))
    if mm:
        ctx.cov["mismatches"] += len(mm)
        i = idx[mm[0]]
        ctx.broken("correspondence", "handler model (coq/C04 + coq/C03) and the implementation disagree on %d probe(s); first: %s / %s"
                   % (len(mm), allc[i]["kind"], allc[i].get("regs_name")),
                   {"case": allc[i], "observed": {k: allr[i].get(k) for k in ("script", "set_deadline", "reads", "calls", "returned", "unread", "remote")}})
    if hterms:
        hm = c04.coq_mismatches_retry(ctx, "hist", HHEADER, hterms, "chk_hist", max(8, len(hterms) // 8 + 1), ["C03/Run.vo"])
        lap("coq evaluation of %d histories" % len(hterms))
        if hm:
            ctx.cov["mismatches"] += len(hm)
            i = hidx[hm[0]]
            ctx.broken("correspondence", "connStats state machine (coq/C03/StatsModel.v) and the implementation disagree on %d histor%s; first: %s"
                       % (len(hm), "y" if len(hm) == 1 else "ies", hists[i]["class"]),
                       {"hist": hists[i], "events": [{k: v for k, v in e.items() if k in ("ev", "conn", "n", "kind", "calls", "snap", "quiesced") and v not in (None, "")}
                                                     for e in hres[i]["events"]][:80], "final": hres[i]["final"]})
