"""C03 — unauthenticated connections get no bytes and no early close.

Real handleNewTCPConn on scripted connections that record every Write / Close / SetDeadline and the
instant of every Read; all probes of a batch run concurrently because each one lasts as long as the
handler's randomised 5-10 s deadline.  Direct oracle with the tolerances of DESIGN.md section 8,
then the handler model and its clocked runner (coq/C04, coq/C03) are evaluated on the same probes."""
import os
import sys
import time

from lib import gN, gbool, glist, lcg_bytes
from props import c04

FILES = {"zz_verif_common_test.go": "c04/common_driver_test.go",
         "zz_verif_c03_test.go": "c03/c03_driver_test.go"}

REGS = {
    "none": [],
    "invalid": [{"transport": "min", "valid": False}, {"transport": "prefix", "prefix_id": 1, "valid": False}],
    "one-min": [{"transport": "min", "valid": True}],
    "one-prefix": [{"transport": "prefix", "prefix_id": 1, "valid": True}],
    "one-obfs4": [{"transport": "obfs4", "valid": True}],
    "many": [{"transport": "min", "valid": True}, {"transport": "obfs4", "valid": True}, {"transport": "prefix", "prefix_id": 0, "valid": True},
             {"transport": "prefix", "prefix_id": 4, "valid": True}, {"transport": "obfs4", "valid": False}, {"transport": "min", "valid": True},
             {"transport": "prefix", "prefix_id": 9, "valid": True}, {"transport": "prefix", "prefix_id": 2, "valid": True, "no_params": True}],
}
LOOKALIKES = [
    "160301020001000" + "1fc0303" + "ab" * 40,                                       # TLS ClientHello-ish
    "474554202f696e6465782e68746d6c20485454502f312e310d0a486f73743a20612e620d0a0d0a",  # GET /index.html
    "5353482d322e302d4f70656e5353485f392e370d0a",                                      # SSH banner (another version)
    "504f5354202f20485454502f312e300d0a",                                              # POST / HTTP/1.0
    "1603034000010000",                                                                # exactly a static prefix + 2 bytes
    "0000000000000000000000000000000000000000000000000000000000000000" * 3,            # zeros
]


KEY = [0]


def flight(tr, pid=0, flip=-1, trunc=0, as_prefix=-1, valid=True, no_reg=False, flip_end=0, tag_of=""):
    KEY[0] += 1          # the station holds three private keys: tags are obfuscated to each of them in turn
    return {"flight": {"transport": tr, "prefix_id": pid, "flip": flip, "trunc": trunc, "as_prefix": as_prefix,
                       "valid": valid, "no_reg": no_reg, "flip_end": flip_end, "tag_of": tag_of, "key": KEY[0] % 3}}


def gen_cases(ctx, table, scale):
    rng = ctx.rng
    cases = []
    regnames = list(REGS)
    ri = [0]

    def chunks(total_hint):
        """arbitrary segmentation and pacing, everything well before the earliest possible deadline"""
        style = rng.randrange(6)
        if style == 0:
            return [[rng.randrange(0, 300), -1]]
        if style == 1:
            return [[0, 1], [rng.randrange(50, 400), 1], [rng.randrange(500, 900), -1]]
        n = rng.randrange(2, 7)
        ts = sorted(rng.randrange(0, 4500) // 50 * 50 + 7 for _ in range(n))
        ts = sorted(set(ts))
        out = []
        left = max(total_hint, 1)
        for i, t in enumerate(ts):
            if i == len(ts) - 1:
                out.append([t, -1])
            else:
                k = rng.choice([1, 7, 31, 32, 33, 64, left // 2 or 1, 4096, 5000])
                out.append([t, k])
        return out

    def mk(kind, parts, regs=None, ch=None, hint=100, fin_ms=0, fin_rst=False):
        if regs is None:
            regs = regnames[ri[0] % len(regnames)]
            ri[0] += 1
        cases.append({"kind": kind, "parts": parts, "chunks": ch if ch is not None else chunks(hint), "regs": REGS[regs],
                      "regs_name": regs, "fin_ms": fin_ms, "fin_rst": fin_rst})

    if ctx.replay:
        # --replay: exactly the recorded failing probes (their original specification)
        for f in ctx.replay.get("failures", []):
            c = (f.get("case") or {}).get("case")
            if c and "parts" in c:
                cases.append(c)
        for b in ctx.replay.get("theorem_or_correspondence", []) + ctx.replay.get("broken", []):
            c = (b.get("case") or {}).get("case")
            if c and "parts" in c:
                cases.append(c)
        if cases:
            return cases
    for _ in range(scale):
        # random streams at and around every threshold, against every kind of registry
        for n in (0, 1, 31, 32, 33, 63, 64, 65, 100, 141, 4095, 4096, 4097, 8191, 8192, 8193, 16384):
            mk("random", [{"gen": [rng.randrange(1, 1 << 30), n]}] if n else [], hint=n)
        for regs in regnames:
            mk("random", [{"gen": [rng.randrange(1, 1 << 30), rng.choice([40, 90, 700])]}], regs=regs)
        # long probes to a phantom without registrations (the handler drains from the first byte)
        for n in (8193, 12288, 16384):
            mk("random", [{"gen": [rng.randrange(1, 1 << 30), n]}], regs="none", hint=n)
        # protocol look-alikes
        for h in LOOKALIKES:
            mk("lookalike", [{"hex": h}, {"gen": [rng.randrange(1, 1 << 30), rng.choice([0, 30, 300])]}])
        # every static prefix followed by garbage, with that prefix id registered or not
        for row in table:
            for n in (63, 64, 200):
                mk("static", [{"row": row["id"]}, {"gen": [rng.randrange(1, 1 << 30), n]}], hint=n + row["offset"],
                   regs=rng.choice(["one-prefix", "many", "none", "invalid"]))
        # 64 bytes at a tag offset that no station key can reveal at all (an all-zero Elligator
        # representative is a low-order point: TryReveal fails), followed by more data
        for row in table:
            mk("loworder", [{"row": row["id"]}, {"hex": "00" * 64}, {"gen": [rng.randrange(1, 1 << 30), 80]}],
               regs=rng.choice(["one-prefix", "many", "one-min", "invalid"]),
               ch=[[30, row["offset"] + 64], [900, 40], [rng.randrange(1500, 4400), -1]])
        mk("loworder", [{"hex": "00" * 200}], regs="many", ch=[[30, 100], [1200, -1]])
        for h in ("ff" * 96, "01" + "00" * 95, "ec" + "ff" * 30 + "7f" + "00" * 64):
            mk("loworder", [{"hex": h}, {"gen": [rng.randrange(1, 1 << 30), 40]}], regs=rng.choice(["many", "one-prefix"]),
               ch=[[20, 96], [1100, -1]])
        # many small chunks, spread over the whole time before the earliest possible deadline
        for regs in ("none", "one-obfs4", "many"):
            mk("manychunks", [{"gen": [rng.randrange(1, 1 << 30), 450]}], regs=regs,
               ch=[[100 * i + 5, 10] for i in range(44)] + [[4450, -1]])
        # genuine flights with one bit flipped
        mk("flip", [flight("min", flip=rng.randrange(0, 256))])
        mk("flip", [flight("min", flip=255), {"gen": [5, 40]}])
        for row in table:
            off = row["offset"]
            # bits 6 and 7 of the representative's last byte are masked off by the station (the client
            # randomises them), so flipping them yields the same valid tag: not a probe
            spots = [8 * off + rng.randrange(0, 254), 8 * (off + 32) + rng.randrange(0, 256), 8 * (off + 64) - 1]
            if off:
                spots.append(rng.randrange(0, 8 * off))
            for b in (spots if scale > 1 or row["id"] in (0, 1, 5, 9) else spots[:2]):
                mk("flip", [flight("prefix", row["id"], flip=b), {"gen": [rng.randrange(1, 1 << 30), rng.choice([0, 20])]}],
                   regs=rng.choice(["none", "many"]), hint=off + 64)
        mk("flip", [flight("obfs4", flip=rng.randrange(0, 256))], hint=2000)
        # genuine flights cut one byte short / without their tail
        mk("short", [flight("min", trunc=31)], ch=[[20, -1]])
        mk("short", [flight("prefix", 1, trunc=-1)], ch=[[20, 16], [400, -1]])
        mk("short", [flight("prefix", 0, trunc=-1)], ch=[[20, -1]])
        mk("short", [flight("obfs4", trunc=-1)], hint=2000)
        mk("short", [flight("obfs4", trunc=-16)], hint=2000)
        mk("short", [flight("obfs4", trunc=100)], hint=100)
        # genuine flights of clients whose registration is not usable on this phantom
        mk("unregistered", [flight("min", no_reg=True), {"gen": [9, 30]}])
        mk("unregistered", [flight("prefix", 3, no_reg=True), {"gen": [9, 30]}])
        mk("unregistered", [flight("obfs4", no_reg=True)], hint=2000)
        mk("unvalidated", [flight("min", valid=False), {"gen": [9, 30]}], regs="none")
        mk("unvalidated", [flight("prefix", 6, valid=False)], regs="none")
        mk("unvalidated", [flight("obfs4", valid=False)], regs="one-min", hint=2000)
        # data that keeps coming while the handler drains, and a chunk after every possible deadline
        mk("drain", [{"gen": [rng.randrange(1, 1 << 30), 20000]}], regs="none",
           ch=[[100, 10], [1000, 9000], [3000, 5000], [4400, -1]])
        mk("drain", [{"gen": [rng.randrange(1, 1 << 30), 600]}], regs="one-min",
           ch=[[10, 40], [1500, 100], [2500, 100], [4400, -1]])
        # more data after every transport has given up (obfs4 is the last one, at 8192 bytes)
        for regs in ("one-min", "many", "invalid"):
            mk("drain", [{"gen": [rng.randrange(1, 1 << 30), 12000]}], regs=regs,
               ch=[[50, 9000], [1500, 1000], [rng.randrange(2500, 4400), -1]])
        mk("late", [{"gen": [rng.randrange(1, 1 << 30), 300]}], ch=[[50, 100], [10600, -1]])
        # the boundary of the property: the PEER closes (FIN) or resets before the deadline, after its
        # data - in the loop, while draining from the start, and after every transport has given up
        mk("peerclose", [], regs="none", ch=[], fin_ms=700)
        mk("peerclose", [], regs="one-min", ch=[], fin_ms=300)
        mk("peerclose", [{"gen": [rng.randrange(1, 1 << 30), 90]}], regs="none", ch=[[100, 40], [800, -1]], fin_ms=1500)
        mk("peerclose", [{"gen": [rng.randrange(1, 1 << 30), 90]}], regs="many", ch=[[100, 40], [800, -1]], fin_ms=1500)
        mk("peerclose", [{"row": 1}, {"gen": [rng.randrange(1, 1 << 30), 70]}], regs="one-prefix", ch=[[50, -1]], fin_ms=rng.randrange(60, 4400))
        mk("peerclose", [flight("prefix", 4, flip=8 * 20 + 3)], regs="many", ch=[[50, 30], [400, -1]], fin_ms=2200)
        mk("peerclose", [{"gen": [rng.randrange(1, 1 << 30), 9000]}], regs="one-obfs4", ch=[[50, -1]], fin_ms=4400)
        mk("peerclose", [{"gen": [rng.randrange(1, 1 << 30), 200]}], regs="invalid", ch=[[50, 100], [2000, -1]], fin_ms=2000, fin_rst=True)
        mk("peerclose", [{"gen": [rng.randrange(1, 1 << 30), 200]}], regs="none", ch=[[50, -1]], fin_ms=900, fin_rst=True)
        # near misses that DO carry a valid tag (outside this property: they exercise the model's
        # give-up path in the correspondence and are not judged by the oracle)
        mk("validtag-wrongprefix", [flight("prefix", 2, as_prefix=1), {"gen": [8, 50]}], ch=[[10, 30], [700, -1], [3000, 0]])
        mk("validtag-wrongprefix", [flight("prefix", 9, as_prefix=0)], regs="many", ch=[[10, -1]])
        mk("validtag-wrongtransport", [flight("prefix", 3, no_reg=True, tag_of="min"), {"gen": [8, 20]}], ch=[[10, 40], [600, -1], [2000, 0]])
        mk("validtag-obfs4-badmac", [flight("obfs4", flip_end=3)], ch=[[10, 100], [500, -1]], regs="one-min")
    return cases


def stream_bytes(r):
    out = b""
    for p in (r.get("parts") or []):
        if p.get("gen"):
            out += bytes(lcg_bytes(p["gen"][0], p["gen"][1]))
        elif p.get("hex"):
            out += bytes.fromhex(p["hex"])
    return out


def presents_tag(r, table):
    """The property's precondition, decided from the oracle values observed on the real code
    (independently of the Coq model): does the stream carry a valid tag for this phantom?"""
    s = stream_bytes(r)
    ids = set(x["id"] for x in (r.get("regs") or []))
    if len(s) >= 32 and s[:32].hex() in ids:
        return "min"
    hit = set(x["off"] for x in (r.get("reveals") or []) if x["ids"])   # the driver reports registered identifiers only
    for row in table:
        if row["offset"] in hit and len(s) >= row["offset"] + 64 and s.startswith(bytes.fromhex(row["static"])):
            return "prefix"
    for m in (r.get("marks") or []):
        mk = bytes.fromhex(m["mark"])
        for e in range(141, min(len(s), 8192) + 1):
            if s[e - 32:e - 16] == mk:
                return "obfs4"
    return None


def judge(ctx, c, r, Ds):
    """the property's own statement on the observables of one probe (not for probes that carry a valid tag)"""
    kind, regs = c["kind"], c.get("regs_name", "?")
    key = "%s/%s" % (kind, regs)
    brief = {"kind": kind, "regs": regs, "case": c, "parts": r.get("parts"), "script": r.get("script"),
             "observed": {k: r.get(k) for k in ("set_deadline", "writes", "closes", "returned", "max_lag", "unread", "panic")}}
    brief["observed"]["reads"] = (r.get("reads") or [])[-6:]
    brief["observed"]["calls"] = (r.get("calls") or [])[-6:]
    if r.get("panic"):
        ctx.fail(key + ":panic", "handler panicked on an untagged connection: %s" % r["panic"], brief)
        return
    sd = [x for x in (r.get("set_deadline") or []) if x[1] > 0]
    if not sd:
        ctx.fail(key + ":no-deadline", "handler set no classification deadline", brief)
        return
    D = sd[0][0] + sd[0][1]
    Ds.append(sd[0][1])
    if not (4999 <= sd[0][1] <= 10001):
        ctx.fail("deadline-range", "classification deadline %.0f ms is outside [5 s, 10 s]" % sd[0][1], brief)
    if r.get("writes", 0) > 0:
        ctx.fail(key + ":write", "station wrote %d byte(s) to an unauthenticated peer" % r["writes"], brief)
    if r.get("closes"):
        ctx.fail(key + ":close", "station closed an unauthenticated connection at %.0f ms (deadline %.0f ms)" % (r["closes"][0], D), brief)
    ret = r.get("returned", -1)
    reads = r.get("reads") or []
    if c.get("fin_ms"):
        # the peer ended the connection itself at fin_ms (< every possible deadline): the station may
        # return from then on, not before; everything else as for a silent peer
        fin = c["fin_ms"]
        if ret < 0:
            ctx.fail(key + ":hang", "handler did not return within 15 s", brief)
        elif ret < fin - 2:
            ctx.fail(key + ":early-return", "handler returned %.0f ms before the peer closed its side (and %.0f ms before its deadline)"
                     % (fin - ret, D - ret), brief)
        elif ret > fin + 1500 and ret > D + 1500:
            ctx.fail(key + ":late-return", "handler returned %.0f ms after its deadline" % (ret - D), brief)
        if any(cl["res"] not in ("again", "not") for cl in (r.get("calls") or [])):
            ctx.fail(key + ":reacted", "a transport gave a decisive answer on a stream without a valid tag", brief)
        if r.get("unread", 0) > 0 or r.get("max_lag", 0) > 1000:
            ctx.fail(key + ":stopped-reading", "station stopped reading before the peer closed: %d byte(s) never read" % r.get("unread", 0), brief)
        elif ret >= 0 and not (reads and reads[-1].get("err") in ("eof", "rst", "timeout") and reads[-1]["t"] >= fin - 2):
            ctx.fail(key + ":not-reading-at-close", "the handler was not reading when the peer closed its side", brief)
        return
    if ret < 0:
        ctx.fail(key + ":hang", "handler did not return within 15 s", brief)
    elif ret < D - 2:
        ctx.fail(key + ":early-return", "handler returned (connection dropped) %.0f ms before its %.0f ms deadline" % (D - ret, D), brief)
    elif ret > D + 1500:
        ctx.fail(key + ":late-return", "handler returned %.0f ms after its deadline" % (ret - D), brief)
    if any(cl["res"] not in ("again", "not") for cl in (r.get("calls") or [])):
        ctx.fail(key + ":reacted", "a transport gave a decisive answer on a stream without a valid tag", brief)
    if r.get("unread", 0) > 0 or r.get("max_lag", 0) > 1000:
        ctx.fail(key + ":stopped-reading", "station stopped reading before its deadline: %d byte(s) sent before the deadline were never "
                 "read (worst read lag %.0f ms)" % (r.get("unread", 0), r.get("max_lag", 0)), brief)
    elif ret >= 0 and not (reads and reads[-1].get("err") == "timeout" and reads[-1]["t"] >= D - 2):
        ctx.fail(key + ":not-reading-at-deadline", "the handler was not blocked in a Read when its deadline passed", brief)


def probe_term(r, c=None):
    parts = []
    for p in (r.get("parts") or []):
        if p.get("gen"):
            parts.append("Gen %d%%N %d%%N" % (p["gen"][0], p["gen"][1]))
        elif p.get("hex"):
            parts.append(("hex", p["hex"]))
    reads = [x["n"] for x in (r.get("reads") or []) if not x.get("err")]
    rr = {"regs": r.get("regs") or [], "reveals": r.get("reveals"), "marks": r.get("marks"), "calls": r.get("calls") or [],
          "tracked": r["tracked"], "ts": r["ts"], "status": r.get("status", 0), "echo": None}
    found = any(cl["res"] == "found" for cl in (r.get("calls") or []))
    conn = c04.conn_term(rr, parts, "Lit (@nil N)", not found, reads=reads)
    sd = [x for x in (r.get("set_deadline") or []) if x[1] > 0]
    D = int(round(sd[0][1])) if sd else 0
    quiet = all(cl["res"] in ("again", "not") for cl in (r.get("calls") or []))
    allreads = r.get("reads") or []
    last = allreads[-1].get("err") if allreads else None
    slept = not found and last not in ("timeout", "eof", "rst")
    fin = "None"
    if c and c.get("fin_ms"):
        fin = "(Some (%s, %s))" % (gN(c["fin_ms"]), gN(1 if c.get("fin_rst") else 0))
    return "(Build_probe_case %s %s %s %s %s %s %s %s)" % (
        conn, glist(r.get("script") or [], lambda x: "(%s, %s)" % (gN(x[0]), gN(x[1]))), gN(D), gN(sum(reads)), gbool(quiet), gbool(slept),
        fin, gbool(last in ("eof", "rst")))


def header(table):
    return ("From CJ Require Import Common.Base C04.Model C04.Run C03.Model C03.Run.\n"
            "Definition tbl : list pfx :=\n %s.\nDefinition chk' := chk3 tbl.\n" % c04.table_term(table))


def run(ctx):
    ctx.level = "proof"
    ctx.assumptions += [
        "cryptography is a parameter of the model (TryReveal, obfs4 mark, obfs4 library handshake), supplied per probe as observed on the real code",
        "timers are not modelled: the deadline D is an input of the model; that the handler really returns at the deadline it set, and reads "
        "promptly until then, is measured on scripted connections with tolerances (-0/+1.5 s for the return, 1 s for a read)",
        "peer-initiated FIN/RST is outside the property's quantifier (content, length, pacing of data)",
        "kernel-level behaviour (ACKs, window) is named, not modelled: the handler's Reads are the observable",
    ]
    ctx.cov["trusted_base"] = [
        "Coq 8.16.1 kernel (coqc; coqchk in the thorough tier); vm_compute for evaluating the model on probes; no native_compute",
        "no axioms: every theorem prints 'Closed under the global context'",
        "hand-written model coq/C04/Model.v + coq/C03/Model.v tied to /repo by the correspondence run (drivers, scripted net.Conn, emitter trusted)",
        "Go runtime timers and the scripted connection's deadline implementation",
    ]
    ctx.cov["rule"] = ("probe streams 0-16 KiB: random at every threshold length, protocol look-alikes, every static prefix + garbage, genuine "
                       "flights with one bit flipped / one byte short / of unregistered or unvalidated clients, under arbitrary segmentation and "
                       "pacing, against registries none / invalid-only / one / many; non-trivial = hash-distinct (kind, registry, script shape) "
                       "probe that ran through the real handler for its whole deadline")
    t0 = time.time()

    def lap(what):
        print("[C03 %5.1fs] %s" % (time.time() - t0, what), file=sys.stderr)
    # coq/C04 holds the shared handler model; it is part of this property's project (extra_dirs) but
    # is cleaned and re-checked by C04's own run, not here (the two checks may run side by side)
    ctx.extra_dirs = ["C04"]
    ctx.coq_props(props_files=["C03/Props.v", "C03/Run.v", "C03/Examples.v"])
    bad = ctx.hygiene(["C04"])
    if bad:
        ctx.broken("hygiene", "forbidden constructs in coq/C04: %s" % bad[:5])
    lap("coq props")
    rc, out, res = ctx.go_inpkg(c04.MOD, ".", FILES, "^TestVerifC03$", [], extra_overlay=c04.EXTRA)
    if not res or "table" not in res:
        ctx.broken("driver", "Go driver did not start: " + out[-1500:])
        return
    table = res["table"]
    c04.table_obligation(ctx, table, res["obfs4"], props="C03.Props", inst="C03_no_tag_no_reaction reveal mark hs dumped")
    lap("table dump + obligation")
    batches = 1 if ctx.tier == "quick" or ctx.replay else 3
    allc, allr = [], []
    for b in range(batches):
        cases = gen_cases(ctx, table, 1 if ctx.tier == "quick" else 2)
        rc, out, res = ctx.go_inpkg(c04.MOD, ".", FILES, "^TestVerifC03$", cases, extra_overlay=c04.EXTRA, timeout=300)
        if not res or len(res.get("results", [])) != len(cases):
            ctx.broken("driver", "Go driver did not produce results: " + out[-1500:])
            return
        allc += cases
        allr += res["results"]
        lap("batch %d: %d probes" % (b, len(cases)))
    Ds = []
    terms, idx = [], []
    for i, (c, r) in enumerate(zip(allc, allr)):
        if r.get("err"):
            ctx.broken("driver", "probe could not be built: %s" % r["err"], {"case": c})
            continue
        c04.scope_checks(ctx, r)
        tagged = presents_tag(r, table)
        judged = tagged is None
        if judged == c["kind"].startswith("validtag"):
            # generator self-test: the probe classes are what they claim to be
            ctx.broken("generator-selftest", "probe of kind %s %s a valid tag (%s)" % (c["kind"], "carries" if tagged else "does not carry", tagged),
                       {"case": c, "parts": r.get("parts")})
        before = ctx.cov["oracle_failures"]
        if judged:
            judge(ctx, c, r, Ds)
        bad = ctx.cov["oracle_failures"] > before
        ctx.count((c["kind"], c.get("regs_name"), tuple(map(tuple, r.get("script") or [])), str(r.get("parts"))[:200]),
                  nontrivial=r.get("returned", -1) >= 0, kind="%s/%s" % (c["kind"], "bad" if bad else "ok"))
        ctx.cov["histogram"]["regs:" + c.get("regs_name", "?")] = ctx.cov["histogram"].get("regs:" + c.get("regs_name", "?"), 0) + 1
        terms.append(probe_term(r, c))
        idx.append(i)
    if len(Ds) >= 8:
        if len(set(round(d) for d in Ds)) < 2 or max(Ds) - min(Ds) < 100:
            ctx.fail("deadline-not-randomised", "the classification deadline is the same (%.0f ms) on %d connections" % (Ds[0], len(Ds)),
                     {"deadlines_ms": sorted(set(round(d) for d in Ds))[:10]})
        ctx.cov["deadlines_ms"] = {"min": min(Ds), "max": max(Ds), "distinct": len(set(round(d) for d in Ds))}
    for i in (0, len(allc) // 2, len(allc) - 1):
        r = allr[i]
        ctx.sample({"kind": allc[i]["kind"], "regs": allc[i].get("regs_name"), "script": r.get("script"),
                    "observed": {k: r.get(k) for k in ("set_deadline", "writes", "closes", "returned", "max_lag", "unread")}})
    if not ctx.replay:
        ctx.require_kinds(["random/ok", "lookalike/ok", "static/ok", "flip/ok", "short/ok", "unregistered/ok", "unvalidated/ok", "loworder/ok", "manychunks/ok",
                           "phantom:v4", "phantom:v6", "drain/ok", "late/ok", "peerclose/ok", "validtag-wrongprefix/ok", "validtag-wrongtransport/ok", "validtag-obfs4-badmac/ok"] + ["regs:" + n for n in REGS])
    lap("oracle + emit")
    mm = c04.coq_mismatches_retry(ctx, "probe", header(table), terms, "chk'", max(20, len(terms) // 16 + 1), ["C03/Run.vo"])
    lap("coq evaluation of %d probes" % len(terms))
    if mm:
        ctx.cov["mismatches"] += len(mm)
        i = idx[mm[0]]
        ctx.broken("correspondence", "handler model (coq/C04 + coq/C03) and the implementation disagree on %d probe(s); first: %s / %s"
                   % (len(mm), allc[i]["kind"], allc[i].get("regs_name")),
                   {"case": allc[i], "observed": {k: allr[i].get(k) for k in ("script", "set_deadline", "reads", "calls", "returned", "unread")}})
