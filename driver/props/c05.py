"""C05 — the proxy relays byte streams faithfully and always tears both sides down.

Runs the real halfPipe / Proxy (pkg/station/lib/proxies.go) on scripted fault-injecting connections:
  half   one direction alone: enumerated chunkings x fault position x fault kind (alone and in pairs)
  pair   both directions on the same two connections, joined like Proxy does, every I/O call granted
         in the order of a generated schedule (the Coq model's `step` relation is the same scheduler)
  free   both directions running freely (goroutine accounting; -race in the thorough tier)
  proxy  the real Proxy() with a scripted client and a loopback TCP covert server
A direct oracle (Python, independent of the Coq model) evaluates the property on the observables;
the correspondence check compares every half / pair case with C05/Model.v inside Coq.
"""
import itertools

from lib import gN, gbool, glist, hexs, lcg_bytes, bspec_in, bspec_obs

HEADER = "From CJ Require Import Common.Base C05.Model C05.Run.\n"
ERR = {"": 0, "eof": 1, "reset": 2, "pipe": 3, "timeout": 4, "closed": 5, "refused": 6, "aborted": 7,
       "unreach": 8, "short": 9, "other0": 10, "other1": 11, "other2": 12, "other3": 13}
TID = {"U": 0, "D": 1, "Uc": 2, "Dc": 3}
READ_ERRS = ["eof", "reset", "timeout", "closed", "pipe", "other0"]
WRITE_ERRS = ["pipe", "reset", "timeout", "closed", "other1"]
CLOSE_ERRS = ["reset", "timeout", "closed", "other2", "unreach"]


GEN = {}   # hex of a generated (lcg) byte string -> the GenBytes object, for compact Gallina output


def T(reads, writes=(), dls=(), cdst="", csrc="", blocks=False):
    for d, _ in reads:
        if len(d) > 64 and hasattr(d, "seed"):
            GEN[bytes(d).hex()] = d
    return {"reads": [{"d": bytes(d).hex(), "e": e} for d, e in reads],
            "writes": [{"n": n, "e": e} for n, e in writes], "dls": list(dls), "cdst": cdst, "csrc": csrc,
            "csrc_blocks": blocks}


def chunkings(stream, maxchunks):
    """all ways to cut `stream` into 1..maxchunks consecutive chunks (empty chunks allowed once)"""
    n = len(stream)
    out = []
    for k in range(1, maxchunks + 1):
        for cuts in itertools.combinations_with_replacement(range(0, n + 1), k - 1):
            pts = [0] + list(cuts) + [n]
            chunks = [stream[pts[i]:pts[i + 1]] for i in range(k)]
            if sum(1 for c in chunks if len(c) == 0) <= 1:
                out.append(chunks)
    return out


def gen_half(ctx):
    """enumeration: chunkings of a short stream x fault position x fault kind, alone and in pairs"""
    rng = ctx.rng
    quick = ctx.tier == "quick"
    cases = []

    def add(t, cf, dr=None, why=""):
        d = dr or rng.choice(["up", "down"])
        cases.append({"mode": "half", "dir": d, d: t, "cf": cf, "why": why})

    stream = bytes(range(0x41, 0x41 + (4 if quick else 5)))
    for chunks in chunkings(stream, 3 if quick else 4):
        k = len(chunks)
        # no fault at all: the script just ends (stall timeout)
        add(T([(c, "") for c in chunks]), rng.random() < 0.5, why="nofault")
        for pos in range(k):
            # read fault at every position, with the data of that read (data returned WITH the error)
            for e in READ_ERRS:
                if quick and e in ("pipe",) and pos != k - 1:
                    continue
                reads = [(c, "") for c in chunks[:pos]] + [(chunks[pos], e)] + [(c, "") for c in chunks[pos + 1:]]
                add(T(reads), rng.random() < 0.5, why="read-fault/" + ("data" if chunks[pos] else "nodata"))
            # write faults at the write of chunk `pos` (only non-empty chunks are written)
            nz = [c for c in chunks if c]
            if pos < len(nz):
                ln = len(nz[pos])
                full = [(len(c), "") for c in nz[:pos]]
                for n, e in [(ln - 1, ""), (0, ""), (ln - 1, rng.choice(WRITE_ERRS)), (0, rng.choice(WRITE_ERRS)),
                             (ln, rng.choice(WRITE_ERRS)), (ln + 3, "")]:
                    if n < 0:
                        continue
                    add(T([(c, "") for c in chunks] + [(b"", "eof")], full + [(n, e)]), rng.random() < 0.5,
                        why="write-fault/" + ("short" if e == "" and n < ln else "err" if e else "over"))
        # failing SetDeadline at every call index
        for j in range(0, 2 * k + 3):
            add(T([(c, "") for c in chunks] + [(b"", "eof")], dls=[""] * j + [rng.choice(["other3", "closed", "timeout"])]),
                rng.random() < 0.5, why="deadline-fault")
    # failing Close, in both completion orders, in both directions
    for cd in [""] + CLOSE_ERRS:
        for cs in [""] + CLOSE_ERRS:
            for cf in (False, True):
                for e in ("eof", "reset", "timeout"):
                    add(T([(b"xy", ""), (b"z", e)], cdst=cd, csrc=cs), cf, why="close-fault")
    # the asynchronous Close(src) never returns
    for e in ("eof", "reset", ""):
        for cf in (False, True):
            add(T([(b"xy", ""), (b"z", e)], cdst=rng.choice([""] + CLOSE_ERRS), csrc="reset", blocks=True), cf, why="close-blocks")
    # pairs of faults: read fault x write fault, read fault x deadline fault, write x deadline
    st = bytes(range(0x61, 0x67))
    for chunks in chunkings(st, 3):
        if quick and rng.random() < 0.6:
            continue
        k = len(chunks)
        nz = [c for c in chunks if c]
        for pos in range(k):
            e = rng.choice(READ_ERRS)
            reads = [(c, "") for c in chunks[:pos]] + [(chunks[pos], e)] + [(c, "") for c in chunks[pos + 1:]]
            for wpos in range(len(nz)):
                ln = len(nz[wpos])
                n, we = rng.choice([(max(ln - 1, 0), ""), (0, rng.choice(WRITE_ERRS)), (ln, rng.choice(WRITE_ERRS))])
                add(T(reads, [(len(c), "") for c in nz[:wpos]] + [(n, we)], cdst=rng.choice([""] + CLOSE_ERRS),
                      csrc=rng.choice([""] + CLOSE_ERRS)), rng.random() < 0.5, why="pair/read+write")
            j = rng.randrange(0, 2 * k + 3)
            add(T(reads, dls=[""] * j + ["other3"]), rng.random() < 0.5, why="pair/read+deadline")
    # a large transfer: more than one 32 KiB buffer per read is impossible, so 32 KiB reads
    big, med = lcg_bytes(77, 32768), lcg_bytes(78, 1000)
    add(T([(big, ""), (med, ""), (big, "eof")]), False, why="large")
    add(T([(big, ""), (big, "")], [(32768, ""), (32767, "")]), True, why="large")
    return cases


def rand_thread(rng, maxreads=4):
    reads = []
    for _ in range(rng.randrange(0, maxreads + 1)):
        d = bytes(rng.randrange(256) for _ in range(rng.choice([0, 1, 1, 2, 3, 5])))
        reads.append((d, ""))
    if rng.random() < 0.7:
        reads.append((bytes(rng.randrange(256) for _ in range(rng.choice([0, 0, 1, 2]))), rng.choice(READ_ERRS)))
    writes = []
    if rng.random() < 0.5:
        for _ in range(rng.randrange(0, 4)):
            writes.append((9, ""))
        writes.append(rng.choice([(0, ""), (1, ""), (0, rng.choice(WRITE_ERRS)), (1, rng.choice(WRITE_ERRS)),
                                  (9, rng.choice(WRITE_ERRS))]))
    dls = []
    if rng.random() < 0.25:
        dls = [""] * rng.randrange(0, 9) + [rng.choice(["other3", "timeout"])]
    cd = rng.choice([""] * 3 + CLOSE_ERRS)
    cs = rng.choice([""] * 3 + CLOSE_ERRS)
    return T(reads, writes, dls, cd, cs, blocks=rng.random() < 0.15)


def gen_pair(ctx):
    rng = ctx.rng
    quick = ctx.tier == "quick"
    cases = []
    # exhaustive small schedules over a fixed pair of interesting scripts: every interleaving of
    # the two directions' first calls and of the four Close calls
    fixed = [
        (T([(b"ab", ""), (b"c", "eof")], cdst="reset", csrc="timeout"), T([(b"xy", "reset")], cdst="other2", csrc="reset")),
        (T([(b"ab", "")], [(1, "")]), T([(b"x", ""), (b"yz", "")], dls=["", "", "", "other3"])),
        (T([(b"", "timeout")], csrc="unreach", blocks=True), T([(b"q", "")], [(1, "pipe")], cdst="timeout")),
    ]
    ids = ["U", "D", "Uc", "Dc"]
    depth = 5 if quick else 6
    for (u, d) in fixed:
        for s in itertools.product(ids, repeat=depth):
            if quick and rng.random() < 0.75:
                continue
            cases.append({"mode": "pair", "up": u, "down": d, "sched": list(s), "why": "exh-sched"})
    n = 700 if quick else 5000
    for _ in range(n):
        u, d = rand_thread(rng), rand_thread(rng)
        ln = rng.choice([0, 2, 5, 10, 20, 40])
        w = rng.choice([[1, 1, 1, 1], [4, 1, 1, 1], [1, 4, 1, 1], [2, 2, 3, 3], [1, 1, 4, 4]])
        s = rng.choices(ids, weights=w, k=ln)
        cases.append({"mode": "pair", "up": u, "down": d, "sched": s, "why": "random"})
    return cases


def gen_free(ctx):
    rng = ctx.rng
    n = 60 if ctx.tier == "quick" else 600
    return [{"mode": "free", "up": rand_thread(rng, 6), "down": rand_thread(rng, 6), "sched": [], "why": "free"}
            for _ in range(n)]


def gen_proxy(ctx):
    rng = ctx.rng
    cases = []
    n = 10 if ctx.tier == "quick" else 60
    for i in range(n):
        reads = [(bytes(rng.randrange(256) for _ in range(rng.choice([1, 2, 7, 100]))), "") for _ in range(rng.randrange(0, 4))]
        last = rng.choice(["eof", "reset", "timeout", "other0", "hang"])
        if last != "hang":
            reads.append((bytes(rng.randrange(256) for _ in range(rng.choice([0, 1, 5]))), last))
        cov = {"send": [bytes(rng.randrange(256) for _ in range(rng.choice([1, 9, 300]))).hex() for _ in range(rng.randrange(0, 3))],
               "close_mode": rng.choice(["fin", "rst", "fin"]), "read_max": -1 if last != "hang" else rng.choice([0, 1, 3]),
               "no_listen": False}
        cases.append({"mode": "proxy", "up": T(reads, csrc=rng.choice(["", "reset"])), "covert": cov, "why": "proxy/" + last})
    cases.append({"mode": "proxy", "up": T([(b"abc", "")]), "covert": {"send": [], "close_mode": "fin", "read_max": -1, "no_listen": True},
                  "why": "proxy/dialfail"})
    return cases


def gen_tcp(ctx):
    """real TCP on both sides: half-close / close / RST from either peer, and "one direction ends while the other is
    blocked in Write on a full window" (a peer that does not read, small socket buffers, megabytes in flight)"""
    P = lambda send=0, read="drain", end="wait", delay=0: {"send": send, "read": read, "end": end, "delay_ms": delay}
    big = 6 * 1024 * 1024
    cases = []

    def add(name, client, covert, bound=15000):
        cases.append({"name": name, "client": client, "covert": covert, "bound_ms": bound})
    for end in ("closewrite", "close", "rst"):
        # (the sender's end action waits until the kernel has taken all of its bytes: send_all)
        add("client-sends-then-" + end, dict(P(10000, "drain", end), send_all=True), P(0, "drain", "wait"))
        add("covert-sends-then-" + end, P(0, "drain", "wait"), dict(P(10000, "drain", end), send_all=True))
        add("both-send-client-" + end, P(30000, "drain", end, 50), P(20000, "drain", "wait"))
        add("idle-client-" + end, P(0, "drain", end, 100), P(0, "drain", "wait"))
        add("idle-covert-" + end, P(0, "drain", "wait"), P(0, "drain", end, 100))
        # the download direction is blocked in Write to the client (client does not read); then the upload direction ends
        add("down-blocked-client-" + end, P(100, "none", end, 300), P(big, "drain", "wait"))
        # the upload direction is blocked in Write to the covert (covert does not read); then the download direction ends
        add("up-blocked-covert-" + end, P(big, "drain", "wait"), P(100, "none", end, 300))
    # both directions blocked in Write, then one peer goes away
    add("both-blocked-client-close", P(big, "none", "close", 300), P(big, "none", "wait"))
    add("both-blocked-covert-rst", P(big, "none", "wait"), P(big, "none", "rst", 300))
    # the slow-but-complete readers come first: they carry the sharpest statement (delivered = counted = sent at the peer)
    return gen_tcp_slow(ctx) + cases + gen_tcp_probe(ctx)


def gen_tcp_slow(ctx):
    """the receiver is SLOWER than the sender and complete: the sender pushes several MiB (far above every socket
    buffer), ends its stream cleanly (half-close or close) and the peer on the other side drains at its own pace
    (throttled in the peer, fixed receive buffer) until ITS stream ends.  At teardown the relay has written and
    counted bytes that still sit in the station's kernel send queue."""
    rng = ctx.rng
    cases = []

    def slow_reader(size):
        chunk = rng.choice([16, 32, 64])
        total_s = rng.uniform(0.7, 1.5)                      # time the peer needs for the whole stream
        pause = int(total_s * 1e6 / max(1, size // (chunk * 1024)))
        return {"send": 0, "read": "slow", "end": "wait", "delay_ms": 0, "chunk_kb": chunk, "pause_us": pause,
                "rcvbuf": rng.choice([65536, 131072, 262144])}

    def sender(size, end):
        return {"send": size, "read": "drain", "end": end, "delay_ms": 0, "send_all": True}
    combos = [(d, e) for d in ("up", "down") for e in ("closewrite", "close")]
    combos.append((rng.choice(["up", "down"]), rng.choice(["closewrite", "close"])))
    if ctx.tier != "quick":
        combos += [(rng.choice(["up", "down"]), rng.choice(["closewrite", "close"])) for _ in range(6)]
    for i, (d, end) in enumerate(combos):
        size = rng.randrange(3 << 20, 6 << 20) + rng.choice([0, 1, 4095, 32767, 32769])
        snd, rcv = sender(size, end), slow_reader(size)
        client, covert = (snd, rcv) if d == "up" else (rcv, snd)
        cases.append({"name": "slow-%s-%s%s" % (d, end, "" if i < 4 else "-r%d" % i), "client": client, "covert": covert,
                      "bound_ms": 15000, "big_buf": True})
    return cases


def gen_tcp_probe(ctx):
    """small tunnels ended by either peer in every way, with duplicate descriptors of both station sockets held by the
    driver: what the relay's shutdown calls left on the sockets (SO_LINGER on/seconds, half shutdowns, descriptor
    closed) is read back afterwards and compared with the model's shutdown-call log, arguments included"""
    rng = ctx.rng
    P = lambda send=0, read="drain", end="wait", delay=0: {"send": send, "read": read, "end": end, "delay_ms": delay, "send_all": True}
    cases = []
    for end in ("closewrite", "close", "rst"):
        n = rng.choice([0, 1, 1000, 40000])
        # (the half-close cases are judged for a clean end of stream at the receiver: nothing travels the other way, so that
        # the station never closes a socket with unread data in it — Linux answers that with a reset)
        back = 0 if end == "closewrite" else rng.choice([0, 500])
        cases.append({"name": "probe-client-" + end, "client": P(n, "drain", end, 30), "covert": P(back, "drain", "wait"),
                      "bound_ms": 15000, "probe": True})
        n = rng.choice([0, 1, 1000, 40000])
        back = 0 if end == "closewrite" else rng.choice([0, 500])
        cases.append({"name": "probe-covert-" + end, "client": P(back, "drain", "wait"), "covert": P(n, "drain", end, 30),
                      "bound_ms": 15000, "probe": True})
    return cases


def gen_seq(ctx):
    """tunnels one after the other through the real Proxy() in one process: the earlier ones leave through every early-exit
    path (dial fails, PROXY header cannot be written, a failing SetDeadline at call index 0..3 on the client connection),
    the later ones are ordinary tunnels with data both ways whose outcome must be that of a fresh process"""
    rng = ctx.rng

    def chunks(maxn=3):
        return [bytes(rng.randrange(256) for _ in range(rng.choice([1, 2, 5, 40, 700]))).hex() for _ in range(rng.randrange(0, maxn + 1))]

    def normal():
        return {"kind": "normal", "dl_fail_at": -1, "up": chunks(), "down": chunks()}

    def early(kind, at=-1):
        t = {"kind": kind, "dl_fail_at": at, "up": [], "down": []}
        if kind == "dlfail" and at >= 2:
            t["up"], t["down"] = chunks(2) + ["aa"], chunks(2) + ["bb"]     # the refresh calls only come after data
        return t
    cases = []
    earlies = [("dialfail", -1), ("hdrfail", -1)] + [("dlfail", k) for k in range(4)]
    for kind, at in earlies:
        cases.append({"name": "after-%s%s" % (kind, at if at >= 0 else ""), "pin": True, "tunnels": [early(kind, at), normal(), normal()]})
    for i in range(2 if ctx.tier == "quick" else 10):
        ts = []
        for _ in range(rng.randrange(2, 5)):
            k, at = rng.choice(earlies)
            ts += [early(k, at)] * rng.choice([1, 1, 2]) + [normal()]
        cases.append({"name": "after-mixed-%d" % i, "pin": rng.random() < 0.5, "tunnels": ts})
    return cases


def check_seq(ctx, cases, res):
    """the property's statement on every tunnel of every sequence; returns the Gallina terms"""
    terms, meta = [], []
    for c, r in zip(cases, res):
        slim = dict(c, mode="seq")
        ctx.count(slim, nontrivial=True, kind="seq/" + c["name"].rsplit("-", 1)[0] if c["name"].startswith("after-mixed") else "seq/" + c["name"].rstrip("0123456789"))
        rows = []
        prev = "first"
        for j, (t, o) in enumerate(zip(c["tunnels"], r["tunnels"])):
            where = "%s/tunnel%d-%s-after-%s" % (c["name"], j, t["kind"], prev)
            prev = t["kind"] + (str(t["dl_fail_at"]) if t["kind"] == "dlfail" else "")
            if o["panic"]:
                if o["panic"].startswith("listen"):
                    ctx.broken("driver", "sequence lane could not listen: %s" % o["panic"], slim)
                else:
                    ctx.fail("panic/seq/" + where, "Proxy panicked: %s" % o["panic"], slim)
                rows = None
                break
            if not o["returned"]:
                ctx.fail("no-return/seq/" + where, "Proxy did not return within 15 s (tunnel %d of the sequence: %s)" % (j, t["kind"]), slim)
                rows = None
                break
            up, down = bytes.fromhex("".join(t["up"])), bytes.fromhex("".join(t["down"]))
            cg, kg = bytes.fromhex(o["covertGot"]), bytes.fromhex(o["clientGot"])
            if o["gauge1"] != o["gauge0"]:
                ctx.fail("gauge/seq/" + where, "session gauge %d before, %d after the tunnel" % (o["gauge0"], o["gauge1"]), slim)
            if o["gleak"] > 0:
                ctx.fail("goroutine-leak/seq/" + where, "%d goroutine(s) left behind after the tunnel" % o["gleak"], slim)
            if cg != up[:len(cg)] or kg != down[:len(kg)]:
                ctx.fail("corrupt/seq/" + where, "a side received bytes that are not a prefix of what the other side sent "
                         "(covert got %s of %s, client got %s of %s)" % (cg.hex()[:60], up.hex()[:60], kg.hex()[:60], down.hex()[:60]), slim)
            relayed = t["kind"] in ("normal", "dlfail")
            if t["kind"] == "normal":
                if cg != up or kg != down:
                    ctx.fail("lost-data/seq/" + where, "an ordinary tunnel after %s: the covert destination received %d of the %d bytes the client "
                             "sent, the client %d of the %d bytes the destination sent" % (where.rsplit("after-", 1)[1], len(cg), len(up), len(kg), len(down)), slim)
            if relayed:
                if not o["summary"]:
                    ctx.fail("no-summary/seq/" + where, "the tunnel ended without its summary line", slim)
                elif o["bytesUp"] != len(cg) or o["bytesDown"] != len(kg):
                    ctx.fail("count/seq/" + where, "the tunnel reports %d up / %d down but %d / %d bytes were delivered"
                             % (o["bytesUp"], o["bytesDown"], len(cg), len(kg)), slim)
                d = o["delta"]
                if o["summary"] and (d["NewUp"], d["NewDown"], d["ComplUp"], d["ComplDown"]) != (o["bytesUp"], o["bytesDown"], o["bytesUp"], o["bytesDown"]):
                    ctx.fail("global-stats/seq/" + where, "the process-wide statistics grew by %s while the tunnel reports %d up / %d down"
                             % ((d["NewUp"], d["NewDown"], d["ComplUp"], d["ComplDown"]), o["bytesUp"], o["bytesDown"]), slim)
                if o["nclose"] < 1:
                    ctx.fail("not-closed/seq/" + where, "the relay never closed the client connection", slim)
            else:
                if cg or kg or any(o["delta"].values()):
                    ctx.fail("early-exit-effects/seq/" + where, "a tunnel that never relayed (%s) forwarded bytes or changed the process-wide "
                             "statistics: %s" % (t["kind"], o["delta"]), slim)
            ex = 1 if o["dialErr"] else (0 if o["summary"] else 2)
            cmp_bytes = t["kind"] != "dlfail" or (not t["up"] and not t["down"])
            d = o["delta"]
            kind_code = {"normal": 0, "dialfail": 1, "hdrfail": 2, "dlfail": 3}[t["kind"]]
            gl = lambda hs: glist(hs, lambda h: bspec_in(bytes.fromhex(h)))
            rows.append("((%s, %s, %s), (%s, %s, %s, %s, %s, %s, %s, %s, (%s, %s, %s, %s, %s, %s, %s)))" % (
                gN(kind_code), gl(t["up"] if t["kind"] == "normal" else []), gl(t["down"] if t["kind"] == "normal" else []),
                gN(ex), bspec_obs(cg), bspec_obs(kg), gN(o["bytesUp"]), gN(o["bytesDown"]), gbool(o["nclose"] >= 1), gbool(o["summary"]),
                gbool(cmp_bytes), gN(d["NewUp"]), gN(d["NewDown"]), gN(d["ComplUp"]), gN(d["ComplDown"]), gN(d["ZeroUp"]), gN(d["ZeroDown"]),
                gN(d["Completed"])))
        if rows:
            terms.append("CSeq %s" % glist(rows, lambda x: x))
            meta.append((c, r, "tunnels in sequence through Proxy(): exit path, bytes delivered both ways, reported counts, closes, summary "
                         "and the growth of the process-wide statistics of every tunnel against proxy_seq"))
    return terms, meta


def tcp_faithful_dirs(c):
    """directions of a real-TCP case in which the property promises complete delivery AT THE PEER: the sender handed
    everything to the kernel and ended its stream cleanly, the receiver reads until its own stream ends and never fails"""
    out = []
    nm = c["name"]
    if nm.startswith("slow-up") or nm.startswith("client-sends-then-closewrite") or nm == "probe-client-closewrite":
        out.append(("up", "client", "covert", "bytesUp"))
    if nm.startswith("slow-down") or nm.startswith("covert-sends-then-closewrite") or nm == "probe-covert-closewrite":
        out.append(("down", "covert", "client", "bytesDown"))
    return [d for d in out if c[d[2]]["read"] in ("drain", "slow") and c[d[2]]["end"] == "wait"]


SHUT_WR_STATES = (4, 5, 6, 9, 11)     # FIN_WAIT1/2, TIME_WAIT, LAST_ACK, CLOSING: this side has sent a FIN


def probe_tuple(pr):
    """(found, linger on, seconds, shutdown(SHUT_WR) seen, shutdown(SHUT_RD) seen, own descriptor closed)"""
    shut_wr = pr["state"] in SHUT_WR_STATES
    shut_rd = pr["peek"] == "eof" and pr["state"] in (1, 4, 5)       # end of stream although the peer has sent no FIN
    return (bool(pr["found"]) and not pr["err"], pr["lingerOn"] != 0, max(pr["lingerSecs"], 0), shut_wr, shut_rd, bool(pr["origClosed"]))


def check_tcp(ctx, cases, out):
    """the property's statement on the real-TCP lane"""
    for c, r in zip(cases, out["cases"]):
        slim = dict(c, mode="tcp")
        ctx.count(slim, nontrivial=True, kind="tcp/" + c["name"].rsplit("-", 1)[0])
        key = "tcp/" + c["name"]
        if r["panic"]:
            if r["panic"].startswith(("listen", "dial", "accept")):
                ctx.broken("driver", "real-TCP lane could not set up sockets: %s" % r["panic"], slim)
            else:
                ctx.fail("panic/" + key, "Proxy panicked on real TCP connections", slim)
            continue
        if r["clientKind"] != "tcp":
            ctx.broken("driver", "the client connection handed to Proxy is not a *net.TCPConn", slim)
        if not r["returned"]:
            ctx.fail("no-return/" + key, "Proxy did not return within %d ms after a peer ended / stalled (real TCP on both sides): "
                     "one direction ended while the other stayed blocked" % c["bound_ms"], slim)
            continue
        for side in ("client", "covert"):
            o = r[side]
            # a peer that was not reading sees the end only after the station's lingering socket has pushed out its
            # backlog (zero-window probes back off for many seconds): closure is judged at the peers that read
            if c[side]["read"] in ("drain", "slow") and (o["sawClose"] == "" or o["sawClose"].startswith("other")):
                ctx.fail("not-closed/%s/%s" % (key, side), "after Proxy returned the %s peer did not see its connection closed "
                         "(read side ended with %r)" % (side, o["sawClose"]), slim)
            if not o["gotOK"]:
                ctx.fail("corrupt/%s/%s" % (key, side), "the %s peer received bytes that are not a prefix of what the other peer sent" % side, slim)
        if r["covert"]["got"] > r["client"]["sent"] or r["client"]["got"] > r["covert"]["sent"]:
            ctx.fail("invented/" + key, "a peer received more bytes than the other one sent", slim)
        graceful = c["name"].startswith(("client-sends-then-closewrite", "covert-sends-then-closewrite"))
        if graceful and (r["covert"]["got"] != r["client"]["sent"] or r["client"]["got"] != r["covert"]["sent"]):
            ctx.fail("lost-data/" + key, "graceful half-close, yet %d of %d bytes arrived up and %d of %d down"
                     % (r["covert"]["got"], r["client"]["sent"], r["client"]["got"], r["covert"]["sent"]), slim)
        # faithful forwarding judged AT THE PEER: delivered = counted = sent, the same bytes, then a clean end of stream
        for d, snd, rcv, cnt in tcp_faithful_dirs(c):
            so, ro = r[snd], r[rcv]
            if so["sent"] != c[snd]["send"]:
                ctx.broken("driver", "real-TCP lane: the sending peer of %s got only %d of its %d bytes into the kernel"
                           % (c["name"], so["sent"], c[snd]["send"]), slim)
                continue
            how = {"eof": "end of stream", "reset": "ECONNRESET", "": "nothing (no end within the bound)"}.get(ro["sawClose"], ro["sawClose"])
            told = ("the tunnel reports %d bytes %s" % (r[cnt], d)) if r["summary"] else "no tunnel summary was printed"
            if ro["got"] != so["sent"] and not graceful:
                ctx.fail("lost-data/%s/%s" % (key, d), "the %s peer sent %d bytes and ended its stream cleanly; the %s peer, %sreading "
                         "everything until its stream ended, received %d of them and then %s; %s (bytes the relay accepted and counted "
                         "were still in the station's send queue at teardown)"
                         % (snd, so["sent"], rcv, "slower but " if c[rcv]["read"] == "slow" else "", ro["got"], how, told), slim)
            elif ro["got"] == so["sent"] and ro["hash"] != so["sentHash"]:
                ctx.fail("corrupt/%s/%s" % (key, d), "the %s peer received %d bytes whose SHA-256 differs from that of the %d bytes sent"
                         % (rcv, ro["got"], so["sent"]), slim)
            if ro["sawClose"] != "eof":
                ctx.fail("reset-instead-of-eof/%s/%s" % (key, d), "the %s peer ended its stream cleanly, yet the %s peer's stream ended with %s "
                         "after %d of %d bytes instead of a clean end of stream" % (snd, rcv, how, ro["got"], so["sent"]), slim)
            if not r["summary"]:
                ctx.broken("driver", "real-TCP lane: no tunnel summary line in the log of %s" % c["name"], slim)
            elif r[cnt] != ro["got"]:
                ctx.fail("count/%s/%s" % (key, d), "the tunnel reports %d bytes %s but the %s peer received %d (sent: %d)"
                         % (r[cnt], d, rcv, ro["got"], so["sent"]), slim)
        if c.get("probe"):
            for nm in ("probeA", "probeB"):
                pr = r.get(nm)
                if not pr or not pr["found"] or pr["err"]:
                    ctx.broken("driver", "real-TCP lane: could not read the socket options of the station's %s socket in %s: %s"
                               % ("client" if nm == "probeA" else "covert", c["name"], (pr or {}).get("err")), slim)
    if out["gauge1"] != out["gauge0"]:
        ctx.fail("gauge/tcp", "session gauge %d before the real-TCP lane, %d after every Proxy call ended" % (out["gauge0"], out["gauge1"]), {"mode": "tcp"})
    if out["gleak"] > 0:
        ctx.fail("goroutine-leak/tcp", "%d goroutine(s) still alive 13 s after every Proxy call of the real-TCP lane ended "
                 "(the linger bound of the source closers is 10 s)" % out["gleak"], {"mode": "tcp"})
    ctx.cov["tcp_lane"] = {"cases": len(cases), "max_return_ms": max([r["returnedMs"] for r in out["cases"]] + [0]),
                           "goroutines_1s_after": out["gleakEarly"], "goroutines_13s_after": out["gleak"]}


# ------------------------------------------------------------------ Gallina emitters
def g_ts(t):
    if t is None:
        t = T([])
    rs = glist(t["reads"], lambda r: "(%s, %s)" % (bspec_in(GEN.get(r["d"], bytes.fromhex(r["d"]))), gN(ERR[r["e"]])))
    ws = glist(t["writes"], lambda w: "(%s, %s)" % (gN(w["n"]), gN(ERR[w["e"]])))
    ds = glist(t["dls"], lambda d: gN(ERR[d]))
    return "(%s, %s, %s, %s, %s, %s)" % (rs, ws, ds, gN(ERR[t["cdst"]]), gN(ERR[t["csrc"]]), gbool(t.get("csrc_blocks", False)))


def g_bytes_obs(h):
    b = bytes.fromhex(h)
    return hexs(b)


def err_code(s):
    return ERR.get(s, 99)


def offered(t, ri):
    return b"".join(bytes.fromhex(r["d"]) for r in t["reads"][:ri])


def check_direction(ctx, case, name, t, cnt, delivered, counted, tag):
    """the property's own statement on one direction's observables; returns a failure key or None"""
    off = offered(t, cnt["ri"])
    mode = case["mode"]
    if delivered != off[:len(delivered)]:
        return ("corrupt/" + tag, "bytes delivered %s are not a prefix of the bytes read %s (loss, duplication or reordering)"
                % (delivered.hex()[:80], off.hex()[:80]))
    if not cnt["wfail"] and delivered != off:
        # which read's data was lost?
        lost_with_err = False
        acc = 0
        for r in t["reads"][:cnt["ri"]]:
            acc += len(r["d"]) // 2
            if acc > len(delivered):
                lost_with_err = r["e"] != ""
                break
        key = "lost-data-returned-with-error/" + tag if lost_with_err else "lost-data/" + tag
        return (key, "no write failed, yet only %d of the %d bytes read were delivered%s"
                % (len(delivered), len(off), " (the lost bytes were returned together with a read error)" if lost_with_err else ""))
    if counted != len(delivered):
        return ("count/" + tag, "reported byte count %d but %d bytes were delivered" % (counted, len(delivered)))
    return None


def run(ctx):
    ctx.assumptions += [
        "connections obey Go's io.Reader/io.Writer contract (0 <= n <= len(buf)); a closed connection fails every call",
        "a silent peer is modelled by the stall deadline firing (Read returns a timeout when its script is exhausted)",
        "the code between two I/O calls of one direction is atomic with respect to the other direction "
        "(validated with -race in the thorough tier, not proved)",
        "goroutine lifetime of the asynchronous source closer when Close blocks is modelled (the closer is a thread of the LTS: C05_no_goroutine_left_behind) and measured on the code (goroutine delta)",
        "the in-package Go driver, the case generator and the JSON->Gallina emitter are trusted",
    ]
    ctx.cov["trusted_base"] = [
        "Coq 8.16.1 kernel (coqc; coqchk in the thorough tier); vm_compute used for evaluating the model on cases; no native_compute",
        "no axioms: every theorem prints 'Closed under the global context'",
        "hand-written model coq/C05/Model.v (halfPipe as a function of read/write/deadline/close scripts; the relay as a "
        "labelled transition system over five threads) tied to pkg/station/lib/proxies.go by the correspondence run",
        "scripted net.Conn implementation and call-gating scheduler in harness/inpkg/c05 (trusted)",
    ]
    ctx.cov["rule"] = ("a case is one (scripts, schedule) pair; it is non-trivial if it is hash-distinct; classes: every chunking of a "
                       "4-5 byte stream into <=3-4 reads x each fault position x each fault kind (read error with/without data, "
                       "short/failing/partial write, failing SetDeadline at every call index, failing Close in both orders), "
                       "pairs of faults, exhaustive schedules of depth 5-7 over 4 thread ids on fixed scripts, random scripts x random schedules")
    ctx.coq_props()
    rc_e, out_e = ctx.coq_make(["C05/Examples.vo"])
    if rc_e != 0:
        ctx.broken("examples", "C05/Examples.v (non-vacuity) no longer checks: %s" % out_e[-400:])

    cases = []
    rp = ctx.replay or {}
    for c in rp.get("cases", []) + [f.get("case") for f in rp.get("failures", [])] + \
            [(b.get("case") or {}).get("case") for b in rp.get("theorem_or_correspondence", []) + rp.get("broken", [])]:
        if isinstance(c, dict) and c.get("mode") in ("half", "pair", "free"):
            c = dict(c)
            c.setdefault("why", "replay")
            if c["mode"] == "half":
                c.setdefault("cf", len(c.get("sched", [])) == 0)
            cases.append(c)
    n_replay = len(cases)
    cases += gen_half(ctx) + gen_pair(ctx) + gen_free(ctx)
    proxy_cases = [dict(f["case"], why="proxy/replay") for f in rp.get("failures", [])
                   if isinstance(f.get("case"), dict) and f["case"].get("mode") == "proxy"] + gen_proxy(ctx)
    for c in cases:
        if c["mode"] == "half":
            t = c["dir"][0].upper()
            if "sched" not in c:
                # closer first: round robin lets the closer run as soon as it exists; otherwise the
                # direction runs to completion before its closer is scheduled
                c["sched"] = [] if c["cf"] else [t] * (4 * len(c[c["dir"]]["reads"]) + 12)
    jc = [{k: v for k, v in c.items() if k not in ("why", "cf")} for c in cases]
    files = {"zz_verif_driver_test.go": "c05/halfpipe_driver_test.go", "zz_verif_tcp_test.go": "c05/tcp_driver_test.go",
             "zz_verif_seq_test.go": "c05/seq_driver_test.go"}
    # the real-TCP lane runs in its own test process, concurrently with the scripted cases
    tcp_cases = [{k: v for k, v in f["case"].items() if k != "mode"} for f in rp.get("failures", [])
                 if isinstance(f.get("case"), dict) and f["case"].get("mode") == "tcp" and "client" in f["case"]] + gen_tcp(ctx)
    tcp_box = {}
    seq_cases = [{k: v for k, v in f["case"].items() if k != "mode"} for f in rp.get("failures", [])
                 if isinstance(f.get("case"), dict) and f["case"].get("mode") == "seq" and "tunnels" in f["case"]] + gen_seq(ctx)

    def tcp_lane():
        tcp_box["r"] = ctx.go_inpkg(".", "pkg/station/lib", files, "^TestVerifC05TCP$", tcp_cases, timeout=300)

    def seq_lane():
        tcp_box["s"] = ctx.go_inpkg(".", "pkg/station/lib", files, "^TestVerifC05Seq$", seq_cases, timeout=300)
    import threading
    th = threading.Thread(target=tcp_lane)
    th.start()
    th2 = threading.Thread(target=seq_lane)
    th2.start()
    rc, out, res = ctx.go_inpkg(".", "pkg/station/lib", files, "^TestVerifC05$", jc, timeout=900)
    th.join()
    th2.join()
    if res is None or len(res) != len(cases):
        ctx.broken("driver", "Go driver did not produce results (rc=%s): %s" % (rc, out[-1200:]))
        return
    rct, outt, rest = tcp_box.get("r", (1, "lane did not run", None))
    if rest is None or len(rest.get("cases", [])) != len(tcp_cases):
        ctx.broken("driver", "Go driver (real-TCP lane) did not produce results (rc=%s): %s" % (rct, outt[-1200:]))
    else:
        check_tcp(ctx, tcp_cases, rest)
    rcs, outs, ress = tcp_box.get("s", (1, "lane did not run", None))
    seq_terms, seq_meta = [], []
    if ress is None or len(ress) != len(seq_cases):
        ctx.broken("driver", "Go driver (sequence lane) did not produce results (rc=%s): %s" % (rcs, outs[-1200:]))
    else:
        seq_terms, seq_meta = check_seq(ctx, seq_cases, ress)
    rc2, out2, pres = ctx.go_inpkg(".", "pkg/station/lib", files, "^TestVerifC05$",
                                   [{k: v for k, v in c.items() if k != "why"} for c in proxy_cases], timeout=900)
    if pres is None or len(pres) != len(proxy_cases):
        ctx.broken("driver", "Go driver (proxy mode) did not produce results (rc=%s): %s" % (rc2, out2[-1200:]))
        return
    if ctx.tier == "thorough":
        free = [c for c in jc if c["mode"] == "free"]

        def quiet(t):
            """same script with closed-class errors only, so that no statistics error string is ever written"""
            q = {"reads": [{"d": x["d"], "e": ("eof" if x["e"] else "")} for x in t["reads"]] + [{"d": "", "e": "eof"}],
                 "writes": [{"n": w["n"], "e": ("pipe" if w["e"] else "")} for w in t["writes"] if w["e"] or w["n"] >= 9],
                 "dls": [("closed" if x else "") for x in t["dls"]], "cdst": "", "csrc": ""}
            return q
        quiet_cases = [{"mode": "free", "up": quiet(c["up"]), "down": quiet(c["down"]), "sched": []} for c in free]
        rc3, out3, rres = ctx.go_inpkg(".", "pkg/station/lib", files, "^TestVerifC05$", quiet_cases, race=True, timeout=1200)
        ctx.cov["race_run"] = {"rc": rc3, "cases": len(quiet_cases), "data_race_reported": "DATA RACE" in out3}
        if rres is None:
            ctx.broken("driver", "Go driver did not run under -race: %s" % out3[-800:])
        elif "DATA RACE" in out3:
            ctx.fail("race/halfPipe", "the race detector reports a data race while two halfPipes relay (no error strings involved): %s"
                     % out3[out3.find("DATA RACE"):][:1500], {"mode": "free"})
        # with read/write/close errors both directions and the asynchronous closers record error strings in
        # the shared tunnelStats while the summary may already be printed: race-free since /repo 75ee005
        rc4, out4, rres4 = ctx.go_inpkg(".", "pkg/station/lib", files, "^TestVerifC05$", free, race=True, timeout=1200)
        ctx.cov["race_run_with_error_strings"] = {"rc": rc4, "cases": len(free), "data_race_reported": "DATA RACE" in out4}
        if rres4 is None:
            ctx.broken("driver", "Go driver did not run under -race (error-string cases): %s" % out4[-800:])
        elif "DATA RACE" in out4:
            ctx.fail("race/tunnelStats-error-strings", "the race detector reports a data race on the tunnel statistics while two "
                     "halfPipes relay and fail: %s" % out4[out4.find("DATA RACE"):][:1500], {"mode": "free"})

    terms = []
    for c, r in zip(cases, res):
        mode = c["mode"]
        slim = {k: v for k, v in c.items() if k != "why"}
        kind = mode + "/" + c["why"]
        ctx.count(slim, nontrivial=True, kind=kind)
        # ---- direct oracle
        tag = mode
        if r["panic"]:
            ctx.fail("panic/" + tag, "halfPipe panicked: %s" % r["panic"], slim)
            continue
        if r["hang"] or not r["wgZero"]:
            ctx.fail("hang/" + tag, "a direction did not return / the WaitGroup did not reach zero", slim)
            continue
        ups = c.get("up") if (mode != "half" or c["dir"] == "up") else None
        downs = c.get("down") if (mode != "half" or c["dir"] == "down") else None
        bad = None
        if ups is not None:
            bad = bad or check_direction(ctx, c, "up", ups, r["up"], bytes.fromhex(r["recvB"]), r["bytesUp"], tag + "/up")
        if downs is not None:
            bad = bad or check_direction(ctx, c, "down", downs, r["down"], bytes.fromhex(r["recvA"]), r["bytesDown"], tag + "/down")
        if bad is None and (r["ncloseA"] < 1 or r["ncloseB"] < 1):
            bad = ("not-closed/" + tag, "a connection was never closed (Close calls: client side %d, covert side %d)"
                   % (r["ncloseA"], r["ncloseB"]))
        nblk = sum(1 for t in (ups, downs) if t is not None and t.get("csrc_blocks"))
        if bad is None and (r["gleak"] > 0 or r["blocked"] > nblk or r["gleakAfter"] > 0):
            bad = ("goroutine-leak/" + tag, "goroutines left behind after both directions returned: %d beyond the %d source closer(s) "
                   "blocked inside Close (%d alive in total, %d after the blocked Close calls were released)"
                   % (max(r["gleak"], r["blocked"] - nblk), nblk, r["blocked"], r["gleakAfter"]))
        if bad:
            ctx.fail(bad[0], bad[1], slim)
        # ---- correspondence term
        if mode == "half":
            d = c["dir"]
            cnt = r[d]
            dv = r["recvB"] if d == "up" else r["recvA"]
            counted = r["bytesUp"] if d == "up" else r["bytesDown"]
            rd, wr = (r["clientErr"], r["covertErr"]) if d == "up" else (r["covertErr"], r["clientErr"])
            terms.append("CHalf (%s, %s, (%s, %s, %s, %s, %s, %s, %s))" % (
                g_ts(c[d]), gbool(c["cf"]), g_obs(dv), gN(counted), gN(err_code(rd)), gN(err_code(wr)),
                gN(cnt["nr"]), gN(cnt["nw"]), gN(cnt["nd"])))
        elif mode == "pair":
            terms.append("CPair (%s, %s, %s, (%s, %s, %s, %s, %s, %s, %s, %s, (%s, %s, %s), (%s, %s, %s), %s))" % (
                g_ts(c["up"]), g_ts(c["down"]), glist(c["sched"], lambda t: gN(TID[t])),
                g_obs(r["recvA"]), g_obs(r["recvB"]), gN(r["bytesUp"]), gN(r["bytesDown"]),
                gN(err_code(r["clientErr"])), gN(err_code(r["covertErr"])), gN(r["ncloseA"]), gN(r["ncloseB"]),
                gN(r["up"]["nr"]), gN(r["up"]["nw"]), gN(r["up"]["nd"]),
                gN(r["down"]["nr"]), gN(r["down"]["nw"]), gN(r["down"]["nd"]), gN(max(r["blocked"], 0))))
        else:
            terms.append(None)
    # ---- the real Proxy()
    for c, r in zip(proxy_cases, pres):
        slim = {k: v for k, v in c.items() if k != "why"}
        ctx.count(slim, nontrivial=True, kind=c["why"])
        if r["panic"]:
            ctx.fail("panic/proxy", "Proxy panicked: %s" % r["panic"], slim)
            continue
        if r["hang"] or not r["returned"]:
            ctx.fail("hang/proxy", "Proxy did not return", slim)
            continue
        if r["gauge1"] != r["gauge0"]:
            ctx.fail("gauge/proxy", "session gauge %d before, %d after Proxy returned" % (r["gauge0"], r["gauge1"]), slim)
        if c["covert"]["no_listen"] or r["dialErr"]:
            # the dial failed (a covert that resets at once can fail the connect itself): nothing to relay
            ctx.cov["histogram"]["proxy/dial-failed"] = ctx.cov["histogram"].get("proxy/dial-failed", 0) + 1
            continue
        if r["gaugeMid"] != -1 and r["gaugeMid"] != r["gauge0"] + 1:   # -1: the session ended before the client was ever read
            ctx.fail("gauge-mid/proxy", "session gauge during the session was %d, expected %d" % (r["gaugeMid"], r["gauge0"] + 1), slim)
        got = bytes.fromhex(r["covertGot"])
        off = offered(c["up"], r["up"]["ri"])
        if got != off[:len(got)]:
            ctx.fail("corrupt/proxy/up", "covert server received %s, client sent %s" % (got.hex()[:80], off.hex()[:80]), slim)
        elif c["covert"]["read_max"] < 0 and got != off:
            lost_err = any(x["e"] not in ("", ) for x in c["up"]["reads"][:r["up"]["ri"]][-1:])
            ctx.fail(("lost-data-returned-with-error/proxy/up" if lost_err else "lost-data/proxy/up"),
                     "covert server accepted everything, yet it received %d of the %d bytes the client sent" % (len(got), len(off)), slim)
        if r["ncloseA"] < 1:
            ctx.fail("not-closed/proxy", "the client connection was never closed by the relay", slim)
        if r["gleak"] > 0:
            ctx.fail("goroutine-leak/proxy", "%d goroutine(s) left behind after Proxy returned" % r["gleak"], slim)
    ctx.sample({"case": {k: v for k, v in cases[n_replay + 5].items()}, "observed": res[n_replay + 5]})
    ctx.sample({"case": {k: v for k, v in cases[-70].items()}, "observed": res[-70]})
    ctx.sample({"case": proxy_cases[0], "observed": pres[0]})
    ctx.require_kinds(["half/nofault", "half/read-fault/data", "half/read-fault/nodata", "half/write-fault/short",
                       "half/write-fault/err", "half/deadline-fault", "half/close-fault", "half/close-blocks", "half/pair/read+write",
                       "half/pair/read+deadline", "half/large", "pair/exh-sched", "pair/random", "free/free", "proxy/dialfail",
                       "tcp/down-blocked-client", "tcp/up-blocked-covert", "tcp/client-sends-then", "tcp/both-blocked-client",
                       "tcp/slow-up", "tcp/slow-down", "tcp/probe-client", "tcp/probe-covert",
                       "seq/after-dialfail", "seq/after-hdrfail", "seq/after-dlfail", "seq/after-mixed"])
    idx = [i for i, t in enumerate(terms) if t is not None]
    # real-TCP lane: kinds seen by the driver, Proxy returned, the reading peers saw their connection closed
    tcp_terms, tcp_meta = [], []
    if rest is not None and len(rest.get("cases", [])) == len(tcp_cases):
        for c, r in zip(tcp_cases, rest["cases"]):
            if r["panic"]:
                continue

            def seen(side):
                o = r[side]
                return c[side]["read"] not in ("drain", "slow") or (o["sawClose"] != "" and not o["sawClose"].startswith("other"))
            tcp_terms.append("CTcp (%s, %s, %s, %s, %s)" % (gbool(r["clientKind"] == "tcp"), gbool(True), gbool(r["returned"]),
                                                              gbool(r["returned"] and seen("client")), gbool(r["returned"] and seen("covert"))))
            tcp_meta.append((c, r, "connection kind TCP/TCP: caller returns, full SetLinger+Close on both connections"))
            if c.get("probe") and r.get("probeA") and r.get("probeB") and r["probeA"]["found"] and r["probeB"]["found"] \
                    and not r["probeA"]["err"] and not r["probeB"]["err"] and r["returned"]:
                gp = lambda t: "(%s, %s, %s, %s, %s, %s)" % (gbool(t[0]), gbool(t[1]), gN(t[2]), gbool(t[3]), gbool(t[4]), gbool(t[5]))
                tcp_terms.append("CTcpOps (%s, %s)" % (gp(probe_tuple(r["probeA"])), gp(probe_tuple(r["probeB"]))))
                tcp_meta.append((c, r, "the shutdown calls and their arguments as read back from the station's sockets (SO_LINGER on/seconds, "
                                 "half shutdowns, descriptor closed: client %s, covert %s) against the model's shutdown-call log "
                                 "[SetLinger 10; Close]* executed on the socket model"
                                 % (probe_tuple(r["probeA"])[1:], probe_tuple(r["probeB"])[1:])))
            for d, snd, rcv, cnt in tcp_faithful_dirs(c):
                if not c["name"].startswith("slow-") or not r["summary"] or r[snd]["sent"] != c[snd]["send"]:
                    continue
                ms = r[rcv]["endMs"] - r[snd]["actMs"] if r[rcv]["endMs"] >= 0 and r[snd]["actMs"] >= 0 else 99999
                tcp_terms.append("CTcpSlow (%s, %s, %s, %s, %s, %s)" % (gbool(d == "up"), gN(r[snd]["sent"]), gN(r[rcv]["got"]), gN(r[cnt]),
                                                                         gbool(r[rcv]["sawClose"] == "eof"), gN(max(ms, 0))))
                tcp_meta.append((c, r, "slow-but-complete reader drained within the linger time (%d ms): the socket model delivers every written "
                                 "byte and then EOF; observed %d of %d bytes, counted %d, stream ended with %r"
                                 % (max(ms, 0), r[rcv]["got"], r[snd]["sent"], r[cnt], r[rcv]["sawClose"])))
    tcp_terms += seq_terms
    tcp_meta += [(dict(c, mode="seq"), r, what) for c, r, what in seq_meta]
    mm = ctx.coq_mismatches("hp", HEADER, [terms[i] for i in idx] + tcp_terms, "chk", shard=400, need_vo=["C05/Run.vo"])
    tcp_mm = [m for m in mm if m >= len(idx)]
    mm = [m for m in mm if m < len(idx)]
    if tcp_mm:
        c, r, what = tcp_meta[tcp_mm[0] - len(idx)]
        ctx.cov["mismatches"] += len(tcp_mm)
        ctx.broken("correspondence", "model C05 and the implementation disagree on %d real-TCP / sequence term(s); first: %s — %s"
                   % (len(tcp_mm), c["name"], what), {"case": dict(c, mode=c.get("mode", "tcp")), "observed": r})
    if mm:
        ctx.cov["mismatches"] += len(mm)
        i = idx[mm[0]]
        ctx.broken("correspondence", "model C05 and the implementation disagree on %d case(s); first: %s %s"
                   % (len(mm), cases[i]["mode"], cases[i]["why"]),
                   {"case": {k: v for k, v in cases[i].items() if k != "why"}, "observed": res[i]})


def g_obs(h):
    return bspec_obs(bytes.fromhex(h))
