"""C17 — client addresses never reach the station's logs unless logging them is enabled.

Static part: harness/logsites (go/ast walker, standard library only) regenerates the table of log
sites of the anchored files on every run -> coq/C17/Sites.v; the kernel re-checks
`all_sites_safe` over that table (vm_compute) and the general lemma `safe_site => no address in
the rendered line` is proved once.
Dynamic part: the real handleNewTCPConn / Proxy / ingest worker are driven with distinctive
client addresses, every error shape is injected at every I/O call, everything written to the log
writers is captured and searched for the address in every textual form.  The model predicts what
the sanitiser prints per (call site, error shape); prediction and observation must agree.
"""
import json
import os
import re
import shutil
import subprocess

import lib
from lib import gN, gbool

HEADER = "From CJ Require Import Common.Base C17.Model C17.Run.\n"
ARG = {"Const": "AConst", "ClientAddr": "AClientAddr", "Placeholder": "APlaceholder", "Digest": "ADigest"}
CONNOP = {"read": "OpRead", "write": "OpWrite", "close": "OpClose", "file": "OpFile", "set": "OpSet", "rawcontrol": "OpRawControl"}
PRODUCER = {"fileconn": "PFileConn", "syscall": "PSyscall", "accept": "PAccept", "dial-covert": "PDialCovert",
            "connect-client": "PConnectClient", "geoip": "PGeoIP", "transport": "PTransport", "proxy-header": "PProxyHeader",
            "reviewed": "PReviewed", "unknown": "PUnknown"}
UNSAFE = {}   # site key -> (site, unsafe arguments) of this run's regenerated table
# mirror of the model's addr_free_producer, for messages only (the kernel decides on the regenerated table)
ADDR_FREE = {"conn:tcp:set", "conn:tcp:rawcontrol", "syscall", "accept", "dial-covert", "reviewed"}


def g_producer(p):
    """walker's producer kind -> the model's [producer]"""
    p = p or "unknown"
    if p.startswith("conn:"):
        _, t, o = p.split(":")
        return "(PConn %s %s)" % ("TcpConn" if t == "tcp" else "AnyConn", CONNOP.get(o, "OpRead"))
    return PRODUCER.get(p, "PUnknown")
ERRNO_TEXT = {11: "resource temporarily unavailable", 22: "invalid argument", 32: "broken pipe",
              101: "network is unreachable", 103: "software caused connection abort", 104: "connection reset by peer",
              105: "no buffer space available", 5: "input/output error", 100: "network is down", 107: "transport endpoint is not connected", 110: "connection timed out",
              111: "connection refused", 113: "no route to host", 24: "too many open files", 2: "no such file or directory",
              92: "protocol not available", 95: "operation not supported", 9: "bad file descriptor", 88: "socket operation on non-socket"}
SENT = {"rst": 1, "timeout": 2, "refused": 3, "unreachable": 4, "aborted": 5, "closed": 6}


# ------------------------------------------------------------------ static: the site table
def fmt_prefix(fmt):
    s = fmt[1:-1] if len(fmt) >= 2 and fmt[0] in "\"`" else fmt
    s = s.replace("\\n", "").replace('\\"', '"')
    return s.split("%")[0]


def site_key(s):
    return "site:%s:%s:%s:%s" % (os.path.basename(s["file"]), s["func"], s["method"], fmt_prefix(s["format"])[:48].strip())


def prints_default(level, order, default):
    return level == "Print" or order[default] <= order[level]


def run_walker(ctx):
    env = dict(os.environ)
    env.update({"GOPROXY": "off", "GOSUMDB": "off", "GOTOOLCHAIN": "local", "GO111MODULE": "off", "GOFLAGS": ""})
    rc, out = lib.sh(["go", "run", os.path.join(lib.VERIF, "harness", "logsites", "main.go"), lib.REPO],
                     cwd=lib.BUILD, env=env, timeout=300)
    if rc != 0:
        ctx.broken("walker", "the log-site walker failed: %s" % out[-600:])
        return None
    try:
        return json.loads(out[out.index("{"):])
    except Exception as ex:
        ctx.broken("walker", "unreadable walker output: %s / %s" % (ex, out[-300:]))
        return None


def emit_sites(ctx, tab):
    order = tab["level_order"]
    files = sorted({s["file"] for s in tab["sites"]})
    fid = {f: i + 1 for i, f in enumerate(files)}
    lines = ["(* GENERATED on every run by driver/props/c17.py from harness/logsites — do not edit.",
             "   walked packages: %s" % " ".join(tab.get("packages") or []),
             "   files: %s *)" % ", ".join("%d=%s" % (i, f) for f, i in fid.items()),
             "From CJ Require Import Common.Base C17.Model.", "", "Definition sites : list site := ["]
    rows = []
    for s in tab["sites"]:
        args = []
        for a in s["args"] or []:
            if a["class"] == "Sanitised":
                args.append("ASanitised %s" % ("Conns" if s["file"].startswith("cmd/") else "Proxies"))
            elif a["class"] in ("RawErr", "InternalErr"):
                args.append("AErr %s" % g_producer(a.get("producer")))
            else:
                args.append(ARG[a["class"]])
        rows.append("  {| s_file := %d; s_line := %d; s_level := %s; s_args := [%s] |}" % (
            fid[s["file"]], s["line"], s["level"], "; ".join(args)))
    lines.append(";\n".join(rows))
    lines.append("].")
    lv = ["(%d, %d)" % (i + 1, order.get(n, 0)) for i, n in enumerate(["Trace", "Debug", "Warn", "Error", "Info"])]
    lines.append("Definition level_table : list (N * N) := [%s]." % "; ".join(lv))
    lines.append("Definition default_rank : N := %d." % order.get(tab["default_level"], 0))
    txt = "\n".join(lines) + "\n"
    path = os.path.join(lib.COQ, "C17", "Sites.v")
    old = open(path).read() if os.path.exists(path) else ""
    if old != txt:
        with open(path, "w") as f:
            f.write(txt)


def static_part(ctx):
    tab = run_walker(ctx)
    if tab is None:
        return None
    emit_sites(ctx, tab)
    order, default = tab["level_order"], tab["default_level"]
    known = {k["key"] for k in ctx.known}
    unsafe = []
    for s in tab["sites"]:
        bad = [a for a in (s["args"] or []) if a["class"] == "ClientAddr" or
               (a["class"] in ("RawErr", "InternalErr") and (a.get("producer") or "unknown") not in ADDR_FREE)]
        if bad and prints_default(s["level"], order, default):
            unsafe.append((site_key(s), s, bad))
    UNSAFE.clear()
    for key, s, bad in unsafe:
        ctx.count(("site", key), nontrivial=True, kind="site/unsafe")
        UNSAFE[key] = (s, bad)
        if key not in known:
            prod = ""
            if bad[0]["class"] != "ClientAddr":
                prod = ("; producer kind %s = %s, which can return an error naming the client address (model: "
                        "can_produce %s leak_witness, e.g. `file tcp <local>-><client>: fcntl: too many open files`)"
                        % (bad[0].get("producer"), g_producer(bad[0].get("producer")), g_producer(bad[0].get("producer"))))
            ctx.broken("site-table", "log site %s:%d (%s.%s %s) prints at the default level with argument %s classified %s: %s%s"
                       % (s["file"], s["line"], s["recv"], s["method"], s["format"][:60], bad[0]["text"], bad[0]["class"], bad[0]["why"], prod),
                       {"site": s})
    prods = {}
    for s in tab["sites"]:
        for a in s["args"] or []:
            if a.get("producer"):
                k = "%s%s" % ("sanitised:" if a["class"] == "Sanitised" else "raw:", a["producer"])
                prods[k] = prods.get(k, 0) + 1
                ctx.count(("producer", s["file"], s["line"], a["text"]), nontrivial=True, kind="producer/" + a["producer"].split(":")[0])
    ctx.cov["producers"] = prods
    for s in tab["sites"]:
        ctx.count(("site", s["file"], s["line"], s["method"]), nontrivial=True, kind="site/" + s["level"])
        if s["method"] in ("errtext", "panic"):
            ctx.count(("sink", s["file"], s["line"]), nontrivial=True, kind="site/record-sink" if s["method"] == "errtext" else "site/panic")
    # the sanitiser's shape: the model is written for exactly these cases
    want = {
        "cmd/application/conns.go": ["closed-class => errConnClosed", "ECONNRESET", "ECONNREFUSED", "ECONNABORTED", "EHOSTUNREACH",
                                     "fallback => addressFreeErr(err)"],
        "pkg/station/lib/proxies.go": ["closed-class => nil", "ECONNRESET", "ECONNREFUSED", "ECONNABORTED", "EHOSTUNREACH", "ErrShortWrite",
                                       "fallback => addressFreeErr(err)"],
    }
    ctx.cov["sanitiser_cases"] = tab.get("sanitiser")
    for f, cases in (tab.get("sanitiser") or {}).items():
        if not cases or not cases[-1].startswith("fallback => addressFreeErr("):
            ctx.broken("sanitiser-shape", "generalizeErr in %s falls back to `%s` for errors it does not know (model: addressFreeErr)"
                       % (f, cases[-1] if cases else "?"))
    ctx.cov["site_table"] = {"sites": len(tab["sites"]), "default_level": default, "level_order": order,
                             "unsafe_at_default": [k for k, _, _ in unsafe], "typed": tab.get("typed"),
                             "type_note": tab.get("type_note"), "packages": tab.get("packages"),
                             "files": sorted({s["file"] for s in tab["sites"]})}
    ctx.cov["gates"] = tab.get("gates")
    for g in tab.get("gates") or []:
        ctx.count(("gate", g["where"]), nontrivial=True, kind="site/gate")
        if not g["ok"]:
            ctx.broken("gate", "%s decides whether a client address is printed with `%s`: %s (the station's rule is "
                       "strconv.ParseBool(os.Getenv(\"LOG_CLIENT_IP\")) accepted as true, false on error)" % (g["where"], g["expr"][:200], g["why"]))
    if not any(g["where"].startswith("cmd/application") for g in tab.get("gates") or []):
        ctx.broken("gate", "cmd/application no longer sets logClientIP from LOG_CLIENT_IP in a way the walker recognises")
    if not tab.get("typed"):
        ctx.broken("walker", "the walker could not type-check the station's packages and fell back to names: %s" % tab.get("type_note"))
    elif tab.get("type_note"):
        ctx.broken("walker", "type errors while walking: %s" % tab.get("type_note")[:400])
    for must in ("cmd/application", "pkg/station/lib", "pkg/transports/connecting/dtls", "pkg/dtls"):
        if must not in (tab.get("packages") or []):
            ctx.broken("walker", "package %s is no longer in the walked set (dependency closure of cmd/application)" % must)
    return tab


# ------------------------------------------------------------------ dynamic: error shapes
def leaf(v):
    return {"k": "leaf", "v": v}


def sysx(i):
    return {"k": "sys", "i": i}


def op(i, addr=True):
    return {"k": "op", "addr": addr, "i": i}


def wrap(i, addr=True):
    return {"k": "wrap", "addr": addr, "i": i}


def g_shape(e):
    k = e["k"]
    if k == "leaf":
        v = e["v"]
        m = {"eof": "LEOF", "netclosed": "LNetClosed", "osclosed": "LOsClosed", "deadline": "LDeadline",
             "shortwrite": "LShortWrite", "text": "(LText false)", "textaddr": "(LText true)"}
        if v.startswith("errno:"):
            return "(JLeaf (LErrno %s))" % gN(int(v[6:]))
        return "(JLeaf %s)" % m[v]
    if k == "sys":
        return "(JSys %s)" % g_shape(e["i"])
    if k == "op":
        return "(JOp %s %s)" % (gbool(e["addr"]), g_shape(e["i"]))
    return "(JWrap %s %s)" % (gbool(e["addr"]), g_shape(e["i"]))


def shape_name(e):
    k = e["k"]
    if k == "leaf":
        return e["v"]
    if k == "sys":
        return "sys(%s)" % shape_name(e["i"])
    return "%s%s(%s)" % (k, "+addr" if e["addr"] else "", shape_name(e["i"]))


def shapes(ctx):
    """every error shape: each anticipated errno, unanticipated errnos, timeouts, sentinels, text —
    bare, as SyscallError, as OpError with and without endpoints, and wrapped"""
    out = []
    anticipated = [32, 104, 111, 103, 113]
    unanticipated = [101, 105, 22, 107, 24]
    timeouts = [110, 11]
    for n in anticipated + unanticipated + timeouts:
        l = leaf("errno:%d" % n)
        out += [l, sysx(l), op(sysx(l)), op(sysx(l), addr=False), op(l), wrap(op(sysx(l))), wrap(op(sysx(l), addr=False), addr=False)]
    for v in ("eof", "netclosed", "osclosed", "deadline", "shortwrite", "text", "textaddr"):
        l = leaf(v)
        out += [l, op(l), wrap(l), wrap(l, addr=False), wrap(op(l))]
    return out


def nested_shapes():
    """layered connections: an operation error whose Err is the socket's own operation error.  2 and 3 levels,
    endpoints on the inner level only and on both, for errnos outside the sanitiser's list and for two inside it"""
    out = []
    for n in (5, 105, 100, 101, 22, 107, 104, 110):
        inner = op(sysx(leaf("errno:%d" % n)))                      # carries both endpoints
        out += [op(inner, addr=False), op(inner), op(op(inner, addr=False), addr=False), op(op(inner), addr=False),
                wrap(op(inner, addr=False), addr=False), op(op(leaf("errno:%d" % n)), addr=False)]
    return out


# fixed-width components: no address is a textual prefix of another one
UNSET = "\x00unset"
ENV_VALUES = [UNSET, "", "false", "FALSE", "False", "0", "f", "F", "no", "off", "n", "disabled", "none", "false ", " false", "false\r",
              "\"false\"", "garbage", "2", "-1", "yes", "on", "enabled", "tRuE", "true ", "\"true\"", "true", "1", "t", "T", "TRUE", "True"]
GO_TRUE = {"1", "t", "T", "TRUE", "true", "True"}
GO_FALSE = {"0", "f", "F", "FALSE", "false", "False"}


def env_class(v):
    """class of a LOG_CLIENT_IP value w.r.t. strconv.ParseBool: 0 unset/empty, 1 true, 2 false, 3 other"""
    if v == UNSET or v == "":
        return 0
    return 1 if v in GO_TRUE else 2 if v in GO_FALSE else 3


CLIENTS = {"v4": lambda i: "198.18.%d.%d" % (100 + (i // 150) % 150, 100 + i % 150),
           "v6": lambda i: "2001:db8:%x::c1:%x" % (0x100 + (i >> 8), 0x100 + (i & 255)),
           "v4mapped": lambda i: "::ffff:198.19.%d.%d" % (100 + (i // 150) % 150, 100 + i % 150)}


def gen_cases(ctx):
    rng = ctx.rng
    quick = ctx.tier == "quick"
    cases = []
    ctr = [0]

    def add(scenario, point, at, shape, kind=None, **kw):
        i = ctr[0]
        ctr[0] += 1
        fam = kind or rng.choice(["v4", "v6", "v4mapped"])
        c = {"scenario": scenario, "client": CLIENTS[fam](i), "port": 20000 + i % 40000, "addr_kind": "tcp", "reads": [],
             "err_at": {}, "geo": {}, "wrap": [], "wrap_err": None, "dial": "ok", "proxy_hdr": False, "log_ip": False,
             "level": "", "hold": False, "ct_mode": "", "geo_after": 0, "log_env": None, "real": None}
        c.update(kw)
        if at:
            c["err_at"] = dict(c["err_at"])
            c["err_at"][at] = shape
        c["_point"], c["_at"], c["_shape"], c["_fam"] = point, at, shape, fam
        cases.append(c)
        return c

    sh = shapes(ctx)
    nested = nested_shapes()
    data = ["6162", "636465"]
    for e in sh + nested:
        if e in nested:
            # every relay I/O call on the client connection, plus one site of each other kind
            sel = [7, 8, 9, 6] + ([0, 5, 2] if not quick else [rng.choice([0, 1, 3, 4, 5, 2])])
        elif quick and rng.random() < 0.35:
            sel = rng.sample(range(12), 5)
        else:
            sel = range(12)
        for j in sel:
            if j == 0:
                add("noreg", "PDiscard", "read:0", e)
            elif j == 1:
                add("noreg", "PDiscard", "read:1", e, reads=data[:1])
            elif j == 2:
                add("noreg", "PPlain", "setdeadline:0", e, err_at={"read:0": leaf("eof")})
            elif j == 3:
                add("notransport", "PDiscard", "read:1", e, reads=data[:1], wrap=["not"])
            elif j == 4:
                add("readerr", "PReadLoop", "read:0", e, wrap=["again"])
            elif j == 5:
                add("readerr", "PReadLoop", "read:1", e, reads=data[:1], wrap=["again"])
            elif j == 6:
                add("found", "PPlain", "setdeadline:1", e, reads=data, wrap=["found"])
            elif j == 7:
                add("found", "PStats", "read:2", e, reads=data, wrap=["found"])                 # relay: client read
            elif j == 8:
                add("found", "PStats", "write:0", e, reads=data, wrap=["found"], hold=True)     # relay: write to the client
            elif j == 9:
                add("found", "PStatsAsync", "close:0", e, reads=data, wrap=["found"])
            elif j == 10:
                c = add("geo", "PPlain", "", e)
                c["geo"] = {rng.choice(["cc", "asn"]): e}
            elif j == 11:
                c = add("ingest_geo", "PLib", "", e, kind=rng.choice(["v4", "v6"]))
                c["geo"] = {rng.choice(["cc", "asn"]): e}
    # relay: halfPipe's own SetDeadline calls (no error text is logged there, only the tag)
    for k in (2, 3, 4, 5):
        add("found", None, "setdeadline:%d" % k, op(sysx(leaf("errno:22"))), reads=data, wrap=["found"])
    # dial failure and PROXY header (the header error embeds the client address when it has no port)
    for fam in ("v4", "v6", "v4mapped"):
        add("found", None, "", leaf("text"), kind=fam, reads=data, wrap=["found"], dial="fail")
        add("found", None, "", leaf("text"), kind=fam, reads=data, wrap=["found"], proxy_hdr=True, addr_kind="noport")
        add("found", None, "", leaf("text"), kind=fam, reads=data, wrap=["found"], proxy_hdr=True, addr_kind="hostport")
        add("ingest_blocklisted", None, "", leaf("text"), kind=fam if fam != "v4mapped" else "v4")
        add("ingest_blocklisted", None, "", leaf("text"), kind=fam if fam != "v4mapped" else "v4", log_ip=True)
        # positive control: with LOG_CLIENT_IP the address must be found (the search works)
        add("noreg", None, "read:0", op(sysx(leaf("errno:104"))), kind=fam, log_ip=True)
    # connecting transports (the station dials the client): registration through the real ingest worker,
    # then Connect fails / the relay runs on the dialled connection / the GeoIP lookup of the registrant fails
    for e in (rng.sample(sh, 10) if quick else sh):
        add("ct", "PStats", "read:1", e, kind=rng.choice(["v4", "v6"]), ct_mode="relay", reads=data[:1])
        add("ct", None, "", e, kind=rng.choice(["v4", "v6"]), ct_mode="fail", wrap_err=e)
        c = add("ct", "PLibPlain", "", e, kind=rng.choice(["v4", "v6"]), ct_mode="geo", geo_after=1)
        c["geo"] = {"cc": e}
    for fam in ("v4", "v6"):
        add("ct", None, "", leaf("text"), kind=fam, ct_mode="relay", reads=data, log_ip=False)
        # the real DTLS transport (stand-in DNAT): the dial to the distinctive client address fails / times out
        add("dtls_real", None, "", leaf("text"), kind=fam)
    # the gate: the address-printing sites under every kind of LOG_CLIENT_IP value.  "Disabled" is every value the
    # station itself (cmd/application/main.go: strconv.ParseBool, false on error) does not accept as true.
    for v in ENV_VALUES:
        for fam in (("v4", "v6") if quick else ("v4", "v6", "v4mapped")):
            add("ingest_blocklisted", None, "", leaf("text"), kind=fam if fam != "v4mapped" else "v4", log_env=v, _gate="ingest")
            add("noreg", None, "read:0", op(sysx(leaf("errno:104"))), kind=fam, log_env=v, _gate="prefix")
            add("found", None, "read:2", op(sysx(leaf("errno:104"))), kind=fam, reads=data, wrap=["found"], log_env=v, _gate="summary")
    # transport error path (Warn level; sleeps until the classification deadline)
    for e in ([op(sysx(leaf("errno:101"))), wrap(leaf("textaddr"))] if quick else rng.sample(sh, 12)):
        add("wraperr", None, "", e, reads=data[:1], wrap=["err"], wrap_err=e, level="warn")
        add("wraperr", None, "", e, reads=data[:1], wrap=["err"], wrap_err=e)
    # real-socket lane: the REAL failure modes of the calls whose errors reach log sites outside the relay and the
    # classification loop — File() on the accepted socket (closed socket; descriptor exhaustion in a child process),
    # getsockopt(SO_ORIGINAL_DST), Accept, SetDeadline on the real *net.TCPConn — and the real accept loop -> handleNewConn ->
    # handleNewTCPConn -> min transport -> Proxy pipeline on real TCP connections (private network namespace with REDIRECT)
    def real(mode, fault, fam, env=None):
        return add("real", None, "", None, kind=fam, real={"mode": mode, "fault": fault}, log_env=env, _real=(mode, fault))
    for fam in ("v4", "v6"):
        real("direct", "none", fam)
        real("direct", "closed", fam)
        real("direct", "emfile", fam)
        real("direct_tcp", "tcp_closed", fam)
        real("accept", "emfile", fam)
        real("accept", "relay_rst", fam)
    real("direct", "closed", "v4", env="false")
    real("direct", "emfile", "v6", env="0")
    real("direct", "emfile", "v4", env="disabled")
    real("direct", "closed", "v6", env="true")
    real("accept", "emfile", rng.choice(["v4", "v6"]), env=rng.choice(["false", "no", ""]))
    for fault in ("rst", "fin", "data_rst", "junk_rst", "relay_fin", "none"):
        real("accept", fault, rng.choice(["v4", "v6"]))
    real("accept", "rst", "v4", env="true")        # positive control: the connection description carries the address
    real("accept", "rst", "v6", env="1")
    real("accept", "rst", rng.choice(["v4", "v6"]), env=rng.choice(["off", "garbage", "FALSE", "true "]))
    for _ in range(4 if quick else 24):
        mode = rng.choice(["direct", "direct", "accept", "accept", "direct_tcp"])
        fault = rng.choice({"direct": ["none", "closed", "emfile"], "direct_tcp": ["tcp_closed"],
                            "accept": ["emfile", "rst", "fin", "data_rst", "junk_rst", "relay_rst", "relay_fin"]}[mode])
        real(mode, fault, rng.choice(["v4", "v6"]), env=rng.choice([None, None, "false", "f", "nope"]))
    rp = ctx.replay or {}
    for c in rp.get("cases", []) + [f.get("case") for f in rp.get("failures", [])] + \
            [(b.get("case") or {}).get("case") for b in rp.get("theorem_or_correspondence", []) + rp.get("broken", [])]:
        if isinstance(c, dict) and "scenario" in c:
            c = dict(c)
            c["client"] = CLIENTS["v6" if ":" in c["client"] and not c["client"].startswith("::ffff:") else
                                  ("v4mapped" if c["client"].startswith("::ffff:") else "v4")](ctr[0])   # keep addresses unique
            ctr[0] += 1
            c.setdefault("_point", None)
            c.setdefault("_at", next(iter(c.get("err_at") or {}), ""))
            c.setdefault("_shape", (c.get("err_at") or {}).get(c["_at"]) or c.get("wrap_err") or next(iter((c.get("geo") or {}).values()), None))
            c.setdefault("_fam", "replay")
            cases.insert(0, c)
    return cases


def parse_code(text):
    """text printed for a sanitised error -> the model's code"""
    t = text.strip()
    if t in ("", "<nil>", "%!w(<nil>)", "%!v(<nil>)"):
        return 0
    if t in SENT:
        return SENT[t]
    if t == "short write":
        return 7
    if t.startswith("unrecognized error ("):
        return 9
    for n, s in ERRNO_TEXT.items():
        if t == s:
            return 100 + n
        if re.fullmatch(r"[a-z]+: " + re.escape(s), t):
            return 1000 + n
    return 8


LINE_AFTER = {
    "PDiscard": r"error occurred discarding data \(read \d+ B\): ?(.*)",
    "PReadLoop": r"got error while reading from connection, giving up after \d+ bytes: (.*)",
}


def observed_code(c, out):
    p = c["_point"]
    if p in LINE_AFTER:
        m = re.search(LINE_AFTER[p], out)
        return parse_code(m.group(1)) if m else 0
    if p == "PPlain":
        if c["scenario"] == "geo":
            m = re.search(r"Failed to get (?:CC|ASN): ?(.*)", out)
        else:
            m = re.search(r"error occurred while setting deadline: ?(.*)", out)
        return parse_code(m.group(1)) if m else 0
    if p in ("PStats", "PStatsAsync"):
        m = re.search(r"proxy closed (\{.*\})", out)
        if not m:
            return 8
        try:
            st = json.loads(m.group(1))
        except Exception:
            return 8
        v = st.get("ClientConnErr", "")
        if c["_at"].startswith("close") and not v:
            v = st.get("CovertConnErr", "")
        return parse_code(v)
    if p == "PLibPlain":
        m = re.search(r"Failed to get (?:CC|ASN): ?(.*)", out)
        return parse_code(m.group(1)) if m else 0
    if p == "PLib":
        m = re.search(r"failed geoip (?:cc|asn) lookup: (.*)", out)
        return parse_code(m.group(1)) if m else 0
    return None


# real-socket lane: (mode, fault) -> (function, start of the format of the log site the provoked failure reaches,
#                                      regex for what the site printed after its message, assumed shape when the driver
#                                      cannot repeat the call itself)
RST = {"k": "op", "addr": True, "i": {"k": "sys", "i": {"k": "leaf", "v": "errno:104"}}}
EMFILE = {"k": "op", "addr": True, "i": {"k": "sys", "i": {"k": "leaf", "v": "errno:24"}}}
REAL_SITE = {
    ("direct", "closed"): ("handleNewConn", "failed to get file descriptor", r"failed to get file descriptor on clientConn: ?(.*)", None),
    ("direct", "emfile"): ("handleNewConn", "failed to get file descriptor", r"failed to get file descriptor on clientConn: ?(.*)", None),
    ("accept", "emfile"): ("handleNewConn", "failed to get file descriptor", r"failed to get file descriptor on clientConn: ?(.*)", EMFILE),
    ("direct", "none"): ("handleNewConn", "failed to getOriginalDst", r"failed to getOriginalDst from fd: ?(.*)", "errno-from-text"),
    ("direct_tcp", "tcp_closed"): ("handleNewTCPConn", "error occurred while setting deadline", r"error occurred while setting deadline: ?(.*)", None),
}


def find_site(tab, func, prefix):
    for s in tab["sites"]:
        if s["func"] == func and fmt_prefix(s["format"]).strip().startswith(prefix):
            for a in s["args"] or []:
                if a.get("producer"):
                    return s, a
    return None, None


def netns_possible():
    """can the real accept loop be run here?  (a private network namespace with REDIRECT: root + util-linux + iproute2 + iptables)"""
    if os.environ.get("VERIF_C17_NO_NETNS") == "1":
        return False
    try:
        if os.geteuid() != 0 or not (shutil.which("ip") and shutil.which("iptables") and shutil.which("unshare")):
            return False
        r = subprocess.run(["unshare", "-n", "sh", "-c", "ip link set lo up && iptables -t nat -A OUTPUT -p tcp --dport 443 -j REDIRECT --to-ports 41245"],
                           capture_output=True, timeout=20)
        return r.returncode == 0
    except Exception:
        return False


def handle_real(ctx, tab, c, r, slim, alltext, all_lines, terms, tcases, st):
    """one case of the real-socket lane: direct oracle + the terms for the correspondence"""
    mode, fault = c["real"]["mode"], c["real"]["fault"]
    hist = ctx.cov["histogram"]

    def bump(k):
        hist[k] = hist.get(k, 0) + 1
    if r.get("skipped"):
        bump("real-skipped/%s/%s" % (mode, fault))
        st["skipped"].append("%s/%s: %s" % (mode, fault, r["skipped"]))
        return
    bump("real/%s/%s" % (mode, fault))
    bump("real-mode/" + (r.get("real_mode") or "?"))
    client = r.get("client") or c["client"]
    enabled = c.get("log_env") in GO_TRUE
    leaked = [f for f in r["forms"] if f in alltext]
    produced = r.get("produced")
    if produced and produced.get("k") not in (None, "", "nil"):
        bump("real-outcome/call-failed/%s" % fault)
    if r.get("echo") == "hello covert":
        bump("real-outcome/relayed")
    if r.get("echo") == "closed-at-once":
        bump("real-outcome/closed-at-once")
    if mode == "accept" and (r["out"].strip() or r.get("echo")):
        bump("real-outcome/accepted")
    env_txt = c.get("log_env")
    env_txt = "<unset>" if env_txt in (None, UNSET) else repr(env_txt)
    if enabled:
        if mode == "accept" and fault == "rst":
            if leaked:
                st["controls"] += 1
            else:
                ctx.broken("generator-selftest", "real-socket positive control: with LOG_CLIENT_IP=%s the client address %s was not found in the "
                           "connection description of the real accept path" % (env_txt, client), slim)
        return
    site, arg = None, None
    if (mode, fault) in REAL_SITE:
        fn, pre, rx, assumed = REAL_SITE[(mode, fault)]
        site, arg = find_site(tab, fn, pre)
    if leaked:
        lines = [l for l in all_lines if any(f in l for f in leaked)]
        key = (leak_key(tab, lines[0]) if lines else None) or "leak:unattributed:real/%s/%s" % (mode, fault)
        prod = ""
        if site is not None and key == site_key(site):
            prod = " [site %s:%d, argument `%s` from producer kind %s (%s)]" % (site["file"], site["line"], arg["text"], arg.get("producer"), arg.get("producer_why"))
        ctx.fail(key, "client address %s (form %r) appears in the log with LOG_CLIENT_IP=%s (client-address logging disabled) on a REAL TCP connection "
                 "[%s]: provoked failure %s/%s%s%s: %s"
                 % (client, leaked[0], env_txt, r.get("real_mode"), mode, fault,
                    (", the real call returned `%s`" % r["produced_text"]) if r.get("produced_text") and r["produced_text"] != "<nil>" else "",
                    prod, lines[0][:300] if lines else "?"), slim)
    # correspondence
    if site is not None:
        fn, pre, rx, assumed = REAL_SITE[(mode, fault)]
        m = re.search(rx, r["out"])
        oc = parse_code(m.group(1)) if m else 0
        shape = None
        if produced and produced.get("k") not in (None, "", "nil"):
            shape = produced
        elif assumed == "errno-from-text":
            if m and 100 <= oc < 1000:
                shape = leaf("errno:%d" % (oc - 100))
            elif m:
                shape = leaf("textaddr" if leaked else "text")
        elif assumed is not None and m:
            shape = assumed
        if shape is not None:
            point = "PRaw" if arg["class"] != "Sanitised" else ("PPlain" if site["file"].startswith("cmd/") else "PLibPlain")
            terms.append("LProd (%s, %s, %s, %s, %s)" % (g_producer(arg.get("producer")), point, g_shape(shape), gN(oc), gbool(bool(leaked))))
            tcases.append((dict(c, _point=point, _shape=shape, _at="%s/%s" % (mode, fault)), r))
            bump("real-corr/producer")
        else:
            st["unmatched"] += 1
    elif mode == "accept" and fault in ("rst", "data_rst", "junk_rst", "fin", "none"):
        shape = RST if "rst" in fault else leaf("eof")
        cc = dict(c, _point="PDiscard", _shape=shape, _at="%s/%s" % (mode, fault))
        terms.append("LErr (PDiscard, %s, %s, %s)" % (g_shape(shape), gN(observed_code(cc, r["out"])), gbool(bool(leaked))))
        tcases.append((cc, r))
        bump("real-corr/discard")
    elif mode == "accept" and fault in ("relay_rst", "relay_fin") and r.get("echo") == "hello covert":
        shape = RST if fault == "relay_rst" else leaf("eof")
        cc = dict(c, _point="PStats", _shape=shape, _at="read:%s" % fault)
        terms.append("LErr (PStats, %s, %s, %s)" % (g_shape(shape), gN(observed_code(cc, r["out"])), gbool(bool(leaked))))
        tcases.append((cc, r))
        bump("real-corr/relay")


def leak_key(tab, line):
    best = None
    for s in tab["sites"]:
        pre = fmt_prefix(s["format"]).strip()
        if len(pre) >= 8 and pre in line and (best is None or len(pre) > len(fmt_prefix(best["format"]).strip())):
            best = s
    return site_key(best) if best else None


def run(ctx):
    ctx.assumptions += [
        "the log-site walker (harness/logsites, go/ast + go/types over the dependency closure of the station packages) finds every logging call and "
        "classifies argument origins by type and data flow within the function; the list of reviewed address-free error producers in it is a human review",
        "log sites of every conjure package the station links (14 packages) are in the table; third-party libraries' own logging is not",
        "error texts are modelled as token lists in which an embedded address is one token; fmt verbs, json escaping and the "
        "textual forms searched for (dotted, hex, expanded, v4-mapped, decimal) are the driver's",
        "the in-package Go driver, the case generator and the JSON->Gallina emitter are trusted",
    ]
    ctx.cov["trusted_base"] = [
        "Coq 8.16.1 kernel (coqc; coqchk in the thorough tier); vm_compute for the table check and for evaluating the model on cases; no native_compute",
        "no axioms: every theorem prints 'Closed under the global context'",
        "hand-written model coq/C17/Model.v (error shapes, both generalizeErr copies, level order, site rendering); "
        "coq/C17/Sites.v regenerated from the source by harness/logsites on every run (walker trusted)",
        "scripted net.Conn / GeoIP / transport and log capture in harness/inpkg/c17 (trusted)",
    ]
    ctx.cov["rule"] = ("a dynamic case is (call site, error shape, client address family); non-trivial if hash-distinct; classes: "
                       "every error shape (12 errnos x 7 wrappings, 7 sentinels/texts x 5 wrappings = 119, plus 48 nested operation errors: 2-3 levels, endpoints inner only / on both, 8 errnos) x 12 injection points "
                       "(discard paths, read loop, both SetDeadline sites, relay read/write/close, GeoIP in handler and ingest), "
                       "dial failure, PROXY header, blocklisted covert, transport error path, positive controls with LOG_CLIENT_IP; "
                       "static cases are the regenerated log sites")
    tab = static_part(ctx)
    ctx.coq_props(props_files=["C17/Props.v", "C17/PropsSites.v"])
    rc_e, out_e = ctx.coq_make(["C17/Examples.vo"])
    if rc_e != 0:
        ctx.broken("examples", "C17/Examples.v (non-vacuity) no longer checks: %s" % out_e[-400:])
    if tab is None:
        return
    cases = gen_cases(ctx)
    jc = [{k: v for k, v in c.items() if not k.startswith("_")} for c in cases]
    rc, out, res = ctx.go_inpkg("cmd/application", ".", {"zz_verif_driver_test.go": "c17/c17_driver_test.go", "zz_verif_driver2_test.go": "c17/c17_real_driver_test.go"}, "^TestVerifC17$", jc,
                                extra_overlay={"pkg/station/lib/zz_verif_c17_export.go": "c17/lib_export.go"}, timeout=900)
    if res is None or len(res) != len(cases) + 1:
        ctx.broken("driver", "Go driver did not produce results (rc=%s): %s" % (rc, out[-1500:]))
        return
    alltext = "\n".join([r["out"] for r in res] + [x for r in res for x in (r.get("setup") or [])])
    all_lines = alltext.split("\n")
    terms, tcases = [], []
    controls_ok = 0
    real_st = {"skipped": [], "controls": 0, "unmatched": 0}
    for c, r in zip(cases, res):
        slim = {k: v for k, v in c.items() if not k.startswith("_")}
        shape = c.get("_shape")
        kind = "%s/%s" % (c["scenario"], (c.get("_at") or "-").split(":")[0])
        ctx.count(slim, nontrivial=True, kind=kind)
        ctx.cov["histogram"]["family/" + c.get("_fam", "?")] = ctx.cov["histogram"].get("family/" + c.get("_fam", "?"), 0) + 1
        if r["panic"] == "dtls transport unavailable":
            ctx.cov["dtls_real_unavailable"] = True     # UDP port 41245 taken by another process on this machine
            continue
        if r["panic"]:
            ctx.fail("panic/" + c["scenario"], "handler panicked: %s" % r["panic"], slim)
            continue
        if r["timeout"]:
            ctx.broken("driver", "scenario %s did not finish in 20 s%s" % (c["scenario"], (": " + r["out"][-600:]) if c["scenario"] == "real" else ""), slim)
            continue
        if c["scenario"] == "real":
            handle_real(ctx, tab, c, r, slim, alltext, all_lines, terms, tcases, real_st)
            continue
        leaked = [f for f in r["forms"] if f in alltext]
        if c.get("log_env") is not None:
            v = c["log_env"]
            enabled = v in GO_TRUE
            ctx.cov["histogram"]["gate/%s/%s" % (c.get("_gate"), "enabled" if enabled else "disabled")] = \
                ctx.cov["histogram"].get("gate/%s/%s" % (c.get("_gate"), "enabled" if enabled else "disabled"), 0) + 1
            if not (c.get("_gate") == "summary" and enabled):
                # the tunnel summary never prints the client address, whatever the setting: only "absent when disabled" applies
                terms.append("LGate (%s, %s)" % (gN(env_class(v)), gbool(bool(leaked))))
                tcases.append((c, r))
            if leaked and not enabled:
                lines = [l for l in all_lines if any(f in l for f in leaked)]
                key = (leak_key(tab, lines[0]) if lines else None) or "leak:unattributed:%s" % c["scenario"]
                ctx.fail("gate:" + key, "client address %s appears in the log with LOG_CLIENT_IP=%r, a value the station (strconv.ParseBool, "
                         "false on error) treats as logging disabled: %s" % (c["client"], v if v != UNSET else "<unset>", lines[0][:300] if lines else "?"), slim)
            continue
        if c["log_ip"]:
            if leaked:
                controls_ok += 1
            else:
                ctx.broken("generator-selftest", "positive control: with LOG_CLIENT_IP set the client address was not found in the capture", slim)
            continue
        if leaked:
            lines = [l for l in all_lines if any(f in l for f in leaked)]
            key = leak_key(tab, lines[0]) if lines else None
            if key is None:
                key = "leak:unattributed:%s/%s" % (c["scenario"], c.get("_at"))
            ctx.fail(key, "client address %s (form %r) appears in the log with client-address logging disabled, error shape %s injected at %s/%s: %s"
                     % (c["client"], leaked[0], shape_name(shape) if shape else "-", c["scenario"], c.get("_at"), lines[0][:300] if lines else "?"),
                     slim)
        if c.get("_point") and shape is not None:
            oc = observed_code(c, r["out"])
            terms.append("LErr (%s, %s, %s, %s)" % (c["_point"], g_shape(shape), gN(oc), gbool(bool(leaked))))
            tcases.append((c, r))
    ctx.cov["positive_controls"] = controls_ok + real_st["controls"]
    ctx.cov["real_socket_lane"] = {"mode": next((r.get("real_mode") for r in res if r.get("real_mode")), None),
                                   "skipped": real_st["skipped"][:12], "positive_controls": real_st["controls"],
                                   "cases_without_matching_site": real_st["unmatched"],
                                   "child_setup": [x[:300] for r in res for x in (r.get("setup") or []) if not x.startswith(("setup-log", "stats-log"))][:8]}
    # an unsafe site of the table without a failing run found by the dynamic lanes
    failing_keys = {f["key"] for f in ctx.failures} | {k for k in ctx.known_printed}
    for key, (s_, bad) in UNSAFE.items():
        if key not in failing_keys and ("gate:" + key) not in failing_keys:
            ctx.cov.setdefault("unsafe_sites_without_failing_run", []).append(key)
    ctx.sample({"case": {k: v for k, v in cases[3].items() if not k.startswith("_")}, "observed": res[3]["out"][-400:]})
    ctx.sample({"case": {k: v for k, v in cases[40].items() if not k.startswith("_")}, "observed": res[40]["out"][-400:]})
    ctx.sample({"statistics_output": res[-1]["out"][-600:]})
    ctx.require_kinds(["noreg/read", "noreg/setdeadline", "notransport/read", "readerr/read", "found/setdeadline", "found/read",
                       "found/write", "found/close", "geo/-", "ingest_geo/-", "ingest_blocklisted/-", "wraperr/-", "ct/read", "ct/-", "dtls_real/-", "gate/ingest/disabled", "gate/ingest/enabled", "gate/prefix/disabled",
                       "gate/prefix/enabled", "gate/summary/disabled", "site/gate",
                       "family/v4", "family/v6", "family/v4mapped", "site/Error", "site/Info", "site/Print", "site/Debug", "site/Warn",
                       "producer/conn", "producer/syscall", "producer/accept", "producer/geoip", "producer/reviewed",
                       "real/direct/closed", "real/direct/emfile", "real/direct/none", "real/direct_tcp/tcp_closed",
                       "real-outcome/call-failed/closed", "real-outcome/call-failed/emfile", "site/record-sink"] +
                      (["real/accept/emfile", "real/accept/rst", "real/accept/relay_rst", "real/accept/relay_fin", "real/accept/junk_rst",
                        "real-outcome/relayed", "real-outcome/accepted", "real-mode/netns-redirect"] if netns_possible() else []))
    mm = ctx.coq_mismatches("log", HEADER, terms, "chk", shard=500, need_vo=["C17/Run.vo"])
    if mm:
        ctx.cov["mismatches"] += len(mm)
        c, r = tcases[mm[0]]
        if c.get("log_env") is not None:
            what = "the gate: with LOG_CLIENT_IP=%r the %s site %s the client address, the station's rule says the opposite" % (
                c["log_env"] if c["log_env"] != UNSET else "<unset>", c.get("_gate"), "printed" if any(f in alltext for f in r["forms"]) else "did not print")
        elif c["scenario"] == "real":
            what = "real-socket lane %s, point %s, error value %s (the real call returned `%s`): the model's producer does not allow that value or predicts a different line; printed: %s" % (
                c["_at"], c["_point"], shape_name(c["_shape"]), r.get("produced_text"), r["out"][-300:])
        else:
            what = "%s at %s/%s, shape %s, observed code %s" % (c["_point"], c["scenario"], c["_at"], shape_name(c["_shape"]), observed_code(c, r["out"]))
        ctx.broken("correspondence", "model C17 and the implementation disagree on %d case(s); first: %s" % (len(mm), what),
                   {"case": {k: v for k, v in c.items() if not k.startswith("_")}, "observed": r["out"][-600:]})
