"""C08 — registrations expire on schedule: never early, never kept past their lifetime; tracked state bounded.

The real RegisteredDecoys (through the RegistrationManager entry points) is driven with operation
histories; after every operation the projected observables are
  (a) judged by a direct oracle: a per-registration transcription of the property statement
      (age since the first Track of the current life, used flag, kept iff age <= 10 min or used and
      age <= 6 h) evaluated in Python from the ages the harness itself imposed, and
  (b) compared with the Coq model's state (C08/Run.v, `chk`) on the same history.
"""
import itertools
import json
import os
import re

import lib
from lib import REPO, gN, gbool, glist

HEADER = ("From CJ Require Import Common.Base C08.Model C08.Run.\n"
          "Definition K (s : N) (t : tr) (p : N) : regkey := Build_regkey s t p.\n"
          "Definition O := Build_obs.\n")
TRS = ["Min", "Obfs4", "Prefix", "Dtls", "Other"]
NS = 1000000000
TEN_MIN, SIX_H = 600 * NS, 21600 * NS      # nanoseconds, like the model

GO_PKG = "pkg/station/lib"
GO_FILES = {"zz_verif_driver_test.go": "c08/registry_driver_test.go",
            "zz_verif_clock_fake_test.go": "c08/clock_fake_test.go",
            "zz_verif_clock_real_test.go": "c08/clock_real_test.go",
            "zz_verif_bulk_driver_test.go": "c08/bulk_driver_test.go"}


def adv_ns(o):
    return o["d"] * NS + o.get("ns", 0)


def go_run(ctx, moddir, pkg, files, run, cases, mode, real_timeout, extra_files=None, extra_overlay=None):
    """like lib.Ctx.go_inpkg, plus what the fake clock needs: -tags faketime, -ldflags=-checklinkname=0 (the driver
    moves runtime.faketime itself), no test alarm (it would run on the fake clock), a real-time limit on the process"""
    tagid = "%s_%s_%s_%d" % (ctx.pid, re.sub(r"\W", "_", run), mode, os.getpid())
    pkgdir = os.path.normpath(os.path.join(REPO, moddir, pkg))
    repl = {os.path.join(pkgdir, name): os.path.join(lib.INPKG, src) for name, src in files.items()}
    for name, path in (extra_files or {}).items():
        repl[os.path.join(pkgdir, name)] = path
    for dst, src in (extra_overlay or {}).items():      # files of other packages (export shims), relative to the repo root
        repl[os.path.join(REPO, dst)] = os.path.join(lib.INPKG, src)
    ov = os.path.join(lib.BUILD, "ov_%s.json" % tagid)
    cpath = os.path.join(lib.BUILD, "cases_%s.json" % tagid)
    opath = os.path.join(lib.BUILD, "out_%s.json" % tagid)
    with open(ov, "w") as f:
        json.dump({"Replace": repl}, f)
    with open(cpath, "w") as f:
        json.dump(cases, f)
    if os.path.exists(opath):
        os.remove(opath)
    e = dict(lib.GOENV)
    e.pop("GOFLAGS")
    e.update({"VERIF_CASES": cpath, "VERIF_OUT": opath, "VERIF_TIER": ctx.tier, "VERIF_SEED": str(ctx.seed), "VERIF_C08_MODE": mode})
    cmd = ["go", "test", "-count=1", "-vet=off", "-overlay", ov, "-run", run]
    if mode == "fake":
        e["GOMAXPROCS"] = "1"
        cmd += ["-tags", "faketime", "-ldflags=-checklinkname=0", "-timeout", "0"]
    else:
        cmd += ["-timeout", "%ds" % real_timeout]
    cmd += [pkg if pkg.startswith("./") else "./" + pkg]
    rc, out = lib.sh(cmd, cwd=os.path.join(REPO, moddir), env=e, timeout=real_timeout + 60)
    res = None
    if os.path.exists(opath):
        try:
            with open(opath) as f:
                res = json.load(f)
        except Exception as ex:
            out += "\n[unreadable driver output: %s]" % ex
    for q in (ov, cpath, opath):
        if os.path.exists(q) and os.environ.get("VERIF_KEEP") != "1":
            os.remove(q)
    return rc, "".join(ch for ch in out if ch.isprintable() or ch in "\n\t"), res


# ----------------------------------------------------------------------------- direct oracle
class Spec:
    """The property statement, per registration, as a function of the history (no table)."""

    def __init__(self):
        self.life = {}      # key -> [age_ns, used, validated, times seen]
        self.open = {}      # connection id -> key: tunnels that are open (connection lane)
        self.recognised = None   # connection lane: must the last connect have been recognised

    def apply(self, o):
        """returns what the operation must cause besides: (announcements, lifetime updates, validated registrations expired)"""
        op = o["op"]
        new, upd, expv = [], [], 0
        if op in ("track", "tracknx", "validate", "validate_stale"):
            k = (o["s"], o["t"], o["p"])
            if o["t"] < 4:                       # transport enabled at the station
                fresh = k not in self.life
                if fresh:
                    self.life[k] = [0, False, False, 1]
                elif op in ("track", "tracknx"):
                    self.life[k][3] += 1         # a duplicate is counted, nothing else
                # AddRegistration validates the caller's own object only: the tracked one, or a new one
                if op == "validate" or (op == "validate_stale" and fresh):
                    if not self.life[k][2]:
                        new.append(k)            # announced to the detector once per life
                    self.life[k][2] = True
        elif op == "active":
            k = (o["s"], o["t"], o["p"])
            if k in self.life:
                self.life[k][1] = True
                upd.append(k)
        elif op == "connect":
            # a connection arrives for k: it is carried iff k is alive and validated at that moment, and from
            # that moment on k "has carried a connection" - however long the tunnel then stays open
            k = (o["s"], o["t"], o["p"])
            self.recognised = k in self.life and self.life[k][2]
            if self.recognised:
                self.life[k][1] = True
                upd.append(k)
                self.open[o["c"]] = k
        elif op == "close":
            self.open.pop(o["c"], None)        # the end of a tunnel changes nothing for the registration
        elif op == "advance":
            for v in self.life.values():
                v[0] += adv_ns(o)
        elif op == "sweep":
            for k in list(self.life):
                a, u, val, _ = self.life[k]
                if not (a <= TEN_MIN or (u and a <= SIX_H)):
                    expv += 1 if val else 0
                    del self.life[k]
        return new, upd, expv

    def tracked(self):
        return set(self.life)

    def matched(self):
        return {k for k, v in self.life.items() if v[2]}


def relation_class(k, hist_keys):
    """how the key relates to the other registrations named in the history (for narrow finding keys)"""
    rel = set()
    for q in hist_keys:
        if q != k and q[0] == k[0] and q[1] == k[1]:
            rel.add("same-secret-other-phantom")
        if q == k or q[2] != k[2]:
            continue
        if q[0] == k[0] and q[1] != k[1]:
            rel.add("same-secret-other-transport")
        elif q[0] != k[0] and q[0] >= 100 and k[0] >= 100 and q[0] // 2 == k[0] // 2:
            rel.add("secrets-share-8-byte-prefix")
    return rel


def rel_str(rels):
    return "+".join(sorted(rels)) or "unrelated"


def oracle(ctx, case, res, defer_further=False):
    """evaluate the property on the implementation's observables; returns True if clean.
    defer_further (connection lane): a difference in the further observables (regCount, detector notifications, gauges)
    does not end the history; it is reported after the history's lifetime verdicts (tracked / matched / residue), so that
    the first failure of a history is stated in the property's own words whenever there is one"""
    spec = Spec()
    hist_keys = {(o["s"], o["t"], o["p"]) for o in case["ops"] if "s" in o}
    alphabet = {tuple(k) for k in case["keys"]}
    clean = True
    later = []

    def further(key, what, c):
        if defer_further:
            later.append((key, what, c))
            return True
        ctx.fail(key, what, c)
        return False

    def done(verdict):
        for key, what, c in later:
            ctx.fail(key, what, c)
        return verdict and not later

    def relcls(k, hk):
        r = relation_class(k, hk)
        if k in spec.open.values():
            r = r | {"tunnel-open"}           # the registration's tunnel is open at this moment (connection lane)
        return r
    for i, (o, ob) in enumerate(zip(case["ops"], res["obs"])):
        if o["op"] == "sweep":
            for a, u, _, _ in spec.life.values():
                if a == (SIX_H if u else TEN_MIN):
                    kd = "boundary/sweep-at-limit-%s" % ("used" if u else "unused")
                    ctx.cov["histogram"][kd] = ctx.cov["histogram"].get(kd, 0) + 1
        new, upd, expv = spec.apply(o)
        if ob["panic"]:
            ctx.fail("panic:%s" % o["op"], "operation %s panicked on the real table: %s" % (o["op"], ob["panic"][:200]),
                     {"case": case, "at": i})
            return done(False)
        if o["op"] == "connect" and ob.get("recognised") is not None and ob["recognised"] != spec.recognised:
            k = (o["s"], o["t"], o["p"])
            if ob["recognised"]:
                ctx.fail("conn:expired-still-recognised" if k not in spec.life else "conn:recognised-before-validation",
                         "the connection handler relayed connection #%d for registration (secret %d, transport %s, phantom %d) "
                         "(operation #%d) although the history says that registration is %s" % (
                             o["c"], k[0], TRS[k[1]], k[2], i, "expired or was never registered" if k not in spec.life else "not validated"),
                         {"case": case, "at": i, "key": k})
            else:
                ctx.fail("conn:live-registration-not-recognised",
                         "the connection handler did not relay connection #%d for the live, validated registration (secret %d, "
                         "transport %s, phantom %d) (operation #%d)" % (o["c"], k[0], TRS[k[1]], k[2], i),
                         {"case": case, "at": i, "key": k})
            return done(False)
        want = spec.tracked() & alphabet
        got = {tuple(t[:3]) for t in ob["tracked"]}
        after_sweep = o["op"] == "sweep"
        for k in sorted(got - want):
            what = "kept-past-lifetime" if (after_sweep or k in hist_keys) else "tracked-never-registered"
            ctx.fail("%s:%s" % (what, rel_str(relcls(k, hist_keys))),
                     "registration (secret %d, transport %s, phantom %d) is still tracked after operation #%d (%s) although "
                     "the history says it is expired or was never registered" % (k[0], TRS[k[1]], k[2], i, o["op"]),
                     {"case": case, "at": i, "key": k, "observed_tracked": sorted(got), "expected_tracked": sorted(want)})
            clean = False
        for k in sorted(want - got):
            ctx.fail("expired-early:%s" % rel_str(relcls(k, hist_keys)),
                     "registration (secret %d, transport %s, phantom %d) is no longer tracked after operation #%d (%s) although it "
                     "is inside its lifetime" % (k[0], TRS[k[1]], k[2], i, o["op"]),
                     {"case": case, "at": i, "key": k, "observed_tracked": sorted(got), "expected_tracked": sorted(want)})
            clean = False
        gotm = {tuple(t) for t in ob["matched"]}
        wantm = spec.matched() & alphabet
        for k in sorted(gotm - wantm):
            what = "expired-still-matched" if k not in spec.tracked() else "matched-before-validation"
            ctx.fail("%s:%s" % (what, rel_str(relcls(k, hist_keys))),
                     "a lookup on phantom %d returns registration (secret %d, transport %s) after operation #%d (%s); the history "
                     "says it must not match" % (k[2], k[0], TRS[k[1]], i, o["op"]),
                     {"case": case, "at": i, "key": k, "observed_matched": sorted(gotm), "expected_matched": sorted(wantm)})
            clean = False
        for k in sorted(wantm - gotm):
            ctx.fail("valid-not-matched:%s" % rel_str(relcls(k, hist_keys)),
                     "a lookup on phantom %d does not return the live, validated registration (secret %d, transport %s) after "
                     "operation #%d (%s)" % (k[2], k[0], TRS[k[1]], i, o["op"]),
                     {"case": case, "at": i, "key": k, "observed_matched": sorted(gotm), "expected_matched": sorted(wantm)})
            clean = False
        # further observables: regCount, detector notifications, expiry statistics
        for t in ob["tracked"]:
            k = tuple(t[:3])
            if k in spec.life and t[4] != spec.life[k][3]:
                clean &= further("regcount-wrong:%s" % o["op"], "registration (secret %d, transport %s, phantom %d) has regCount %d after operation "
                                 "#%d (%s); it was seen %d times in its current life" % (k[0], TRS[k[1]], k[2], t[4], i, o["op"], spec.life[k][3]),
                                 {"case": case, "at": i, "key": k})
        if [tuple(x) for x in ob["new_notif"]] != new or [tuple(x) for x in ob["upd_notif"]] != upd:
            which = "new" if [tuple(x) for x in ob["new_notif"]] != new else "update"
            clean &= further("notification-wrong:%s/%s" % (which, o["op"]),
                             "operation #%d (%s) sent detector notifications new=%s update=%s; the history prescribes new=%s update=%s"
                             % (i, o["op"], ob["new_notif"], ob["upd_notif"], new, upd), {"case": case, "at": i})
        if ob["exp_valid"] != expv or ob["stat_delta"] != expv:
            clean &= further("expiry-stat-wrong", "operation #%d (%s) lowered the active-registration gauges by %d (manager) / %d (Stat()); %d "
                             "validated registrations expired" % (i, o["op"], ob["exp_valid"], ob["stat_delta"], expv), {"case": case, "at": i})
        if ob["unknown_id"]:
            ctx.fail("matched-unknown-identifier", "a lookup returned an identifier that belongs to no registration of the history",
                     {"case": case, "at": i})
            clean = False
        # forgotten entirely / bounded: no residue in either map (all history keys are in the alphabet)
        if hist_keys <= alphabet:
            n = len(spec.tracked())
            nph = len({k[2] for k in spec.tracked()})
            if ob["total"] != n or ob["ntimeouts"] != n or ob["nphantoms"] != nph:
                cls = rel_str(set().union(*[relcls(k, hist_keys) for k in hist_keys]))
                ctx.fail("residue:%s" % cls,
                         "after operation #%d (%s) the table holds %d registrations, %d timeout records and %d phantom maps; "
                         "the history has %d live registrations on %d phantoms" % (i, o["op"], ob["total"], ob["ntimeouts"],
                                                                                ob["nphantoms"], n, nph),
                         {"case": case, "at": i})
                clean = False
            cnt = [len([k for k in spec.tracked() if k[2] == p]) for p in case["phantoms"]]
            if cnt != ob["counts"]:
                ctx.fail("count-wrong", "CountRegistrations per phantom %s, expected %s after operation #%d" % (ob["counts"], cnt, i),
                         {"case": case, "at": i})
                clean = False
        if not clean:
            return done(False)
    return done(True)


# ----------------------------------------------------------------------------- generators
def T(s, t, p):
    return {"op": "track", "s": s, "t": t, "p": p}


def TNX(s, t, p):
    return {"op": "tracknx", "s": s, "t": t, "p": p}


def V(s, t, p):
    return {"op": "validate", "s": s, "t": t, "p": p}


def VS(s, t, p):
    return {"op": "validate_stale", "s": s, "t": t, "p": p}


def A(s, t, p):
    return {"op": "active", "s": s, "t": t, "p": p}


def ADV(d, ns=0):
    """advance by d seconds (+ ns nanoseconds: only the fake clock can do that)"""
    return {"op": "advance", "d": d, "ns": ns} if ns else {"op": "advance", "d": d}


SW = {"op": "sweep"}


def L(p):
    return {"op": "lookup", "p": p}


def C(p):
    return {"op": "count", "p": p}


def mk_case(ops, extra_keys=()):
    keys = []
    for o in ops:
        if "s" in o:
            k = [o["s"], o["t"], o["p"]]
            if k not in keys:
                keys.append(k)
    for k in extra_keys:
        if list(k) not in keys:
            keys.append(list(k))
    phs = sorted({k[2] for k in keys} | {o["p"] for o in ops if o["op"] in ("lookup", "count")})
    return {"ops": ops, "keys": keys, "phantoms": phs}


def corpus_cases():
    """histories that once exhibited a defect, and the boundary instants; always run first"""
    cs = []
    # candidate #3: one secret, two transports, one phantom
    cs.append(mk_case([T(0, 0, 0), V(0, 0, 0), T(0, 2, 0), ADV(660), SW, L(0), ADV(86400), SW, L(0)]))
    cs.append(mk_case([V(0, 0, 0), A(0, 0, 0), V(0, 3, 0), ADV(21601), SW, L(0)]))
    cs.append(mk_case([T(0, 1, 1), T(0, 0, 1), T(0, 2, 1), T(0, 3, 1), ADV(601), SW, C(1), T(0, 1, 1), ADV(601), SW, C(1)]))
    # activation of one transport's registration must not extend the other's life
    cs.append(mk_case([V(0, 0, 0), V(0, 2, 0), A(0, 0, 0), ADV(601), SW, L(0), ADV(21000), SW, L(0)]))
    cs.append(mk_case([V(0, 0, 0), A(0, 2, 0), ADV(601), SW, L(0)]))
    cs.append(mk_case([V(0, 0, 0), A(0, 4, 0), ADV(601), SW, L(0)]))
    # secrets whose logging ids (first 8 bytes) coincide
    cs.append(mk_case([T(100, 0, 0), T(101, 0, 0), ADV(660), SW, C(0)]))
    cs.append(mk_case([V(100, 0, 0), V(101, 0, 0), A(101, 0, 0), ADV(660), SW, L(0), ADV(21000), SW, L(0)]))
    # both address families / several phantoms
    cs.append(mk_case([V(0, 0, 0), V(0, 0, 1), ADV(300), A(0, 0, 1), ADV(301), SW, L(0), L(1), ADV(20999), SW, L(1), ADV(1), SW, L(1)]))
    # boundaries: one second and (fake clock) one nanosecond around the limit, and the limit itself
    for u, lim in ((False, 600), (True, 21600)):
        for d, ns in ((lim - 1, 0), (lim, 0), (lim + 1, 0), (lim - 1, NS - 1), (lim, 1)):
            ops = [V(1, 1, 1)] + ([A(1, 1, 1)] if u else []) + [ADV(d, ns), SW, L(1), C(1)]
            cs.append(mk_case(ops))
        # the limit reached in two steps, with a sweep at the exact instant and one a nanosecond later
        cs.append(mk_case([T(1, 0, 0)] + ([A(1, 0, 0)] if u else []) + [ADV(lim // 2, 5), ADV(lim - lim // 2 - 1, NS - 5), SW, C(0), ADV(0, 1), SW, C(0)]))
    # duplicates do not refresh; re-registration after expiry starts a new life
    cs.append(mk_case([T(2, 0, 0), ADV(400), T(2, 0, 0), TNX(2, 0, 0), V(2, 0, 0), ADV(201), SW, C(0), T(2, 0, 0), L(0), ADV(600), SW, C(0)]))
    # expired but not yet swept: still there until the sweep
    cs.append(mk_case([V(3, 2, 2), ADV(700), L(2), A(3, 2, 2), SW, L(2), ADV(20900), SW, L(2), ADV(1), SW, L(2)]))
    # unknown transport
    cs.append(mk_case([T(0, 4, 0), V(0, 4, 0), VS(0, 4, 0), TNX(0, 4, 0), A(0, 4, 0), SW, C(0)]))
    # AddRegistration with an object that is not the tracked one validates nothing, and does not refresh
    cs.append(mk_case([T(4, 0, 0), VS(4, 0, 0), L(0), ADV(601), SW, C(0), VS(4, 0, 0), L(0), ADV(300), VS(4, 0, 0), T(4, 0, 0),
                       ADV(301), SW, C(0)]))
    return cs


def exhaustive_cases(depth, small):
    """every history of the given length over a small alphabet (one secret x two transports, plus a
    second secret / the second family in the larger variant), boundary-straddling time steps"""
    if small:
        ops = [T(0, 0, 0), T(0, 2, 0), V(0, 0, 0), A(0, 0, 0), A(0, 2, 0), ADV(301), ADV(21300), SW]
    else:
        ops = [T(0, 0, 0), T(0, 2, 0), T(0, 0, 1), T(100, 0, 0), T(101, 0, 0), V(0, 0, 0), V(0, 2, 0), VS(0, 0, 0), A(0, 0, 0),
               A(0, 2, 0), A(101, 0, 0), ADV(301), ADV(21300), SW]
    keys = [[0, 0, 0], [0, 2, 0], [0, 0, 1], [100, 0, 0], [101, 0, 0]]
    out = []
    for h in itertools.product(ops, repeat=depth):
        if not any(o["op"] == "sweep" for o in h):
            continue
        if h[0]["op"] in ("sweep", "advance", "active", "validate_stale"):
            continue
        out.append(mk_case(list(h), extra_keys=keys))
    return out


ADV_CHOICES = [0, 1, 59, 299, 300, 301, 599, 600, 601, 660, 900, 3600, 7200, 20999, 21000, 21599, 21600, 21601, 43200]


def random_case(rng, nops, big, exact=False):
    secrets = rng.sample([0, 1, 2, 3, 100, 101, 102, 103], rng.choice([1, 2, 3]) if not big else rng.choice([3, 5, 8]))
    trs = rng.sample([0, 1, 2, 3, 4], rng.choice([2, 3]) if not big else 5)
    phs = rng.sample([0, 1, 2, 3], rng.choice([1, 2]) if not big else rng.choice([2, 4]))
    keys = [(s, t, p) for s in secrets for t in trs for p in phs]
    spec = Spec()
    ops = []
    for _ in range(nops):
        x = rng.random()
        if x < 0.30:
            k = rng.choice(keys)
            o = rng.choice([T, T, T, TNX])(*k)
        elif x < 0.45:
            o = rng.choice([V, V, VS])(*rng.choice(keys))
        elif x < 0.57:
            live = sorted(spec.tracked())
            k = rng.choice(live) if live and rng.random() < 0.8 else rng.choice(keys)
            o = A(*k)
        elif x < 0.77:
            live = sorted(spec.tracked())
            d = rng.choice(ADV_CHOICES)
            ns = 0
            if live and rng.random() < 0.6:        # bring one live registration to (just around) its limit
                k = rng.choice(live)
                a, u, _, _ = spec.life[k]
                tgt = (SIX_H if u else TEN_MIN) + rng.choice([-NS, 0, 0, NS, NS, 60 * NS] if not exact else [-1, 0, 0, 1, -NS, NS])
                if tgt > a:
                    d, ns = divmod(tgt - a, NS)
            o = ADV(d, ns)
        elif x < 0.94:
            o = SW
        elif x < 0.98:
            o = L(rng.choice(phs))
        else:
            o = C(rng.choice(phs))
        spec.apply(o)
        ops.append(o)
    c = mk_case(ops)
    # observe the whole alphabet (also keys that were never registered)
    for k in keys:
        if list(k) not in c["keys"] and len(c["keys"]) < 24:
            c["keys"].append(list(k))
    c["phantoms"] = sorted(set(c["phantoms"]) | set(phs))
    return c


def gen_cases(ctx):
    quick = ctx.tier == "quick"
    cases = []
    rp = ctx.replay or {}
    for f in rp.get("failures", []):
        c = f.get("case", {})
        if isinstance(c, dict) and "case" in c:
            cases.append(c["case"])
    for b in rp.get("theorem_or_correspondence", []):
        c = b.get("case") or {}
        if isinstance(c, dict) and "case" in c:
            cases.append(c["case"])
    cases += rp.get("cases", [])
    cases = [c for c in cases if c.get("lane") != "conn"]        # handler histories are replayed by the connection lane
    if ctx.replay is not None:
        # replay mode: exactly the recorded histories, on the implementation and on the model
        return cases, len(cases), len(cases)
    cdir = os.path.join(os.path.dirname(os.path.dirname(os.path.dirname(os.path.abspath(__file__)))), "corpus", "C08")
    if os.path.isdir(cdir):
        for fn in sorted(os.listdir(cdir)):
            if fn.endswith(".json"):
                with open(os.path.join(cdir, fn)) as f:
                    d = json.load(f)
                if isinstance(d, dict):      # replay-file format
                    cases += [x["case"]["case"] for x in d.get("failures", [])]
                else:
                    cases += d
    cases += corpus_cases()
    n_fixed = len(cases)
    cases += exhaustive_cases(3, small=False)
    if quick:
        cases += exhaustive_cases(4, small=True)
    else:
        cases += exhaustive_cases(4, small=False)
        cases += exhaustive_cases(5, small=True)
        cases += exhaustive_cases(6, small=True)
    n_exh = len(cases)
    rng = ctx.rng
    for _ in range(150 if quick else 1500):
        cases.append(random_case(rng, rng.choice([5, 10, 20, 40]), big=False))
    for _ in range(60 if quick else 600):      # nanosecond steps around the limits (fake clock only)
        cases.append(random_case(rng, rng.choice([5, 10, 20, 40]), big=False, exact=True))
    for _ in range(25 if quick else 300):
        cases.append(random_case(rng, rng.choice([80, 120, 200]), big=True))
    return cases, n_fixed, n_exh


def is_exact(case):
    return any(o.get("ns") for o in case["ops"])


# ----------------------------------------------------------------------------- Gallina emission
def gkey(k):
    return "(K %s %s %s)" % (gN(k[0]), TRS[k[1]], gN(k[2]))


def gop(o):
    op = o["op"]
    if op == "track":
        return "Track " + gkey((o["s"], o["t"], o["p"]))
    if op == "tracknx":
        return "TrackNX " + gkey((o["s"], o["t"], o["p"]))
    if op == "validate":
        return "Validate " + gkey((o["s"], o["t"], o["p"]))
    if op == "validate_stale":
        return "ValidateStale " + gkey((o["s"], o["t"], o["p"]))
    if op == "active":
        return "MarkActive " + gkey((o["s"], o["t"], o["p"]))
    if op == "advance":
        return "Advance %s" % gN(adv_ns(o))
    if op == "sweep":
        return "Sweep"
    if op == "lookup":
        return "Lookup %s" % gN(o["p"])
    return "Count %s" % gN(o["p"])


def gobs(ob):
    return "(O %s %s %s %s %s %s %s %s %s %s %s %s)" % (
        gbool(ob["err"]), gN(ob["ret"]),
        glist(ob["tracked"], lambda t: "(%s, (%s, %s))" % (gkey(t), gbool(t[3] == 1), gN(t[4]))),
        glist(ob["matched"], gkey), glist(ob["counts"], gN),
        gN(ob["total"]), gN(ob["ntimeouts"]), gN(ob["nphantoms"]),
        glist(ob["new_notif"], gkey), glist(ob["upd_notif"], gkey), gN(max(ob["exp_valid"], 0)), gN(max(ob["stat_delta"], 0)))


def gcase(case, res):
    hist = glist(list(zip(case["ops"], res["obs"])), lambda x: "(%s, %s)" % (gop(x[0]), gobs(x[1])))
    return "(Build_case %s %s %s %s %s)" % (glist(case["keys"], gkey), glist(case["phantoms"], gN),
                                            gN(res["timeout_unused_ns"]), gN(res["timeout_active_ns"]), hist)


# ----------------------------------------------------------------------------- wiring
def wiring(ctx):
    """the station must actually call the sweep and the activation (cmd/application is package main and its
    goroutines cannot be driven from a test): a tolerant source check - some non-test file of cmd/application
    calls RemoveOldRegistrations from a ticker loop and MarkActive on the matched registration"""
    d = os.path.join(REPO, "cmd", "application")
    src = ""
    for fn in sorted(os.listdir(d)):
        if fn.endswith(".go") and not fn.endswith("_test.go"):
            with open(os.path.join(d, fn)) as f:
                src += re.sub(r"//[^\n]*", "", f.read())
    sweeps = re.search(r"NewTicker\([^)]*\)(?:(?!\n}\n).)*?\.RemoveOldRegistrations\(\)", src, flags=re.S)
    ctx.cov["histogram"]["wiring/sweeper"] = 1 if sweeps else 0
    if not sweeps:
        ctx.broken("wiring", "no ticker loop in cmd/application calls RegistrationManager.RemoveOldRegistrations(): "
                   "expired registrations would never be swept by the running station")
    mark_sites(ctx)


def mark_sites(ctx):
    """The table of tunnel sites, regenerated from the source on every run (harness/inpkg/c08/marksites, go/ast): every call
    of Proxy (a tunnel is relayed for a registration) with how its registration was found and whether MarkActive is called
    on that registration between the finding and the relay.  Rule: a registration that a WRAPPING transport found for a
    client connection (WrapConnection) is marked used before its tunnel is relayed - not after, not deferred.  A CONNECTING
    transport's registration (Connect: the station dials out while it ingests the registration, nothing looks it up again) is
    listed; conjure does not mark it, and the property's connect is the handler's match (notes/C08.md).  The verdict with a
    failing input is the connection lane's; this table makes a removed or moved call visible by file and line."""
    env = dict(os.environ)
    env.update({"GOPROXY": "off", "GOSUMDB": "off", "GOTOOLCHAIN": "local", "GO111MODULE": "off", "GOFLAGS": ""})
    rc, out = lib.sh(["go", "run", os.path.join(lib.INPKG, "c08", "marksites", "main.go"), REPO, "cmd/application", "pkg/station/lib"],
                     cwd=lib.BUILD, env=env, timeout=300)
    try:
        fns = json.loads(out[out.index("["):]) if rc == 0 else None
    except Exception:
        fns = None
    if fns is None:
        ctx.cov["mark_sites"] = "walker failed: %s" % out[-300:]
        ctx.broken("mark-sites", "the call-site walker (harness/inpkg/c08/marksites) failed: %s" % out[-400:])
        return
    table, callers = [], []
    for f in fns:
        calls = f["calls"]
        for c in calls:
            if c["name"] == "MarkActive":
                callers.append("%s:%d %s" % (f["file"], c["line"], f["func"]))
        for i, c in enumerate(calls):
            if c["name"] != "Proxy":
                continue
            found = [x for x in calls[:i] if x["name"] in ("WrapConnection", "Connect")]
            kind = "unknown" if not found else ("wrapping" if found[-1]["name"] == "WrapConnection" else "connecting")
            since = found[-1]["pos"] if found else 0
            marks = [x for x in calls if x["name"] == "MarkActive" and x["arg"] == c["arg"]]
            before = [x for x in marks if since < x["pos"] < c["pos"] and not x["deferred"] and not x["in_go"]]
            row = {"file": f["file"], "func": f["func"], "proxy_line": c["line"], "registration": c["arg"], "found_by": kind,
                   "marked_before_relay": bool(before), "mark_lines": [x["line"] for x in marks]}
            table.append(row)
            ctx.count(("mark-site", f["file"], f["func"], kind), nontrivial=True, kind="marksite/" + kind)
            if kind == "wrapping" and not before and marks:
                # the call is there but in the wrong place (after the relay, deferred, in a goroutine).  A function without
                # any MarkActive call is left to the connection lane: the call may live in a helper.
                ctx.broken("mark-sites", "%s %s: the registration a wrapping transport found is relayed (Proxy, line %d) before it is "
                           "marked used: MarkActive(%s) is called at line %s, i.e. not between the match and the relay; the "
                           "registration stays 'unused' for as long as its tunnel is open" % (
                               f["file"], f["func"], c["line"], c["arg"], marks[0]["line"]), {"site": row})
    ctx.cov["mark_sites"] = {"tunnel_sites": table, "mark_active_callers": callers}
    ctx.cov["histogram"]["wiring/markactive"] = len(callers)
    if not callers:
        ctx.broken("wiring", "no non-test code of cmd/application or pkg/station/lib calls RegistrationManager.MarkActive: a connection "
                   "would not mark its registration used")


# ----------------------------------------------------------------------------- shrinking
class Rec:
    """stands in for ctx when a candidate history is only judged, not reported"""

    def __init__(self):
        self.keys = []
        self.cov = {"histogram": {}}

    def fail(self, key, what, case):
        self.keys.append(key)


def shrink(ctx, case, key, mode, max_rounds=30):
    """delta debugging over the operation list: drop chunks (halves, quarters, ... single operations) as long as the real
    table still fails in the same way (same kind of failure; the relation class in the key may narrow as unrelated
    registrations disappear); every round is one run of the Go driver on all candidates"""
    kind = key.split(":")[0]
    ops = list(case["ops"])
    n, rounds = 2, 0
    while len(ops) >= 2 and rounds < max_rounds:
        rounds += 1
        chunk = max(1, len(ops) // n)
        cands = [ops[:i] + ops[i + chunk:] for i in range(0, len(ops), chunk)]
        cands = [c for c in cands if c]
        cs = [{"ops": c, "keys": case["keys"], "phantoms": case["phantoms"]} for c in cands]
        rc, out, res = go_run(ctx, ".", GO_PKG, GO_FILES, "^TestVerifC08Registry$", cs, mode, 300)
        if res is None or len(res) != len(cs):
            break
        hit = None
        for c, r in zip(cs, res):
            if r["slow"]:
                continue
            rec = Rec()
            oracle(rec, c, r)
            if any(k2.split(":")[0] == kind for k2 in rec.keys):
                hit = c
                break
        if hit is not None:
            ops = hit["ops"]
            n = max(n - 1, 2)
        elif chunk == 1:
            break
        else:
            n = min(len(ops), n * 2)
    return {"ops": ops, "keys": case["keys"], "phantoms": case["phantoms"]}, rounds


def shrink_failures(ctx, mode, limit=2):
    done = 0
    for f in ctx.failures:
        c = f.get("case") or {}
        if done >= limit or not isinstance(c, dict) or "case" not in c or len(c["case"].get("ops", [])) <= 4:
            continue
        small, rounds = shrink(ctx, c["case"], f["key"], mode)
        if len(small["ops"]) < len(c["case"]["ops"]):
            f["case"] = {"case": small, "shrunk_from_ops": len(c["case"]["ops"]), "shrink_rounds": rounds,
                         "key": c.get("key")}
            f["what"] += " [history shrunk from %d to %d operations; the operation index refers to the original]" % (
                f["case"]["shrunk_from_ops"], len(small["ops"]))
        done += 1


# ----------------------------------------------------------------------------- the real sweeper loop of main.go
SW_FILES = {"zz_verif_driver_test.go": "c08/sweeper_driver_test.go",
            "zz_verif_clock_fake_test.go": "c08/clock_fake_main_test.go",
            "zz_verif_clock_real_test.go": "c08/clock_real_main_test.go"}
MIN = 60 * NS


def cut_sweeper(ctx):
    """brace-match the `go func(...) {...}(...)` statement of main() that calls RemoveOldRegistrations and wrap it,
    verbatim, into a function of (ctx, wg, regManager)"""
    src = open(os.path.join(REPO, "cmd/application/main.go")).read()
    at = src.find(".RemoveOldRegistrations()")
    if at < 0:
        return None, "main.go does not call RemoveOldRegistrations()"
    i = src.rfind("go func(", 0, at)
    if i < 0:
        return None, "the call of RemoveOldRegistrations() is not inside a `go func(...)` statement"
    k = src.index("{", i)
    depth = 0
    while k < len(src):
        if src[k] == "{":
            depth += 1
        elif src[k] == "}":
            depth -= 1
            if depth == 0:
                break
        k += 1
    if not (k < len(src) and k > at and src[k + 1:k + 2] == "("):
        return None, "could not delimit the goroutine that calls RemoveOldRegistrations()"
    end = src.index(")", k) + 1
    stmt = src[i:end]
    text = ("package main\n\n// GENERATED on every run by /verif/driver/props/c08.py: the sweeper goroutine of main(), verbatim.\n"
            "import (\n\t\"context\"\n\t\"sync\"\n\t\"time\"\n\n\tcj \"github.com/refraction-networking/conjure/pkg/station/lib\"\n)\n\n"
            "var _ = time.Second\n\n"
            "func verifC08StartSweeper(ctx context.Context, wg *sync.WaitGroup, regManager *cj.RegistrationManager) {\n\twg.Add(1)\n\t"
            + stmt + "\n}\n")
    path = os.path.join(lib.BUILD, "c08_sweepercut_%d.go" % os.getpid())
    with open(path, "w") as f:
        f.write(text)
    return path, stmt


def sweeper_scripts(ctx):
    """clock scripts: every minute boundary and the nanosecond before it for 40 min, a new registration every minute
    (also exactly at tick instants); a cancelled run"""
    s1 = [{"to": 0, "track": 2, "cancel": False}]
    for m in range(1, 41):
        s1.append({"to": m * MIN - 1, "track": 0, "cancel": False})
        s1.append({"to": m * MIN, "track": 1 if m <= 25 else 0, "cancel": False})
    s2 = [{"to": 0, "track": 1, "cancel": False}, {"to": 5 * MIN, "track": 1, "cancel": False},
          {"to": 7 * MIN, "track": 0, "cancel": True}]
    for m in range(8, 30):
        s2.append({"to": m * MIN, "track": 0, "cancel": False})
    rng = ctx.rng
    s3, t = [{"to": 0, "track": 1, "cancel": False}], 0
    for _ in range(60):
        t += rng.choice([1, NS, 17 * NS, MIN - 1, MIN, MIN + 1, 3 * MIN - 1, 2 * MIN])
        s3.append({"to": t, "track": rng.choice([0, 0, 1, 2]), "cancel": False})
    return [s1, s2, s3]


def run_sweeper(ctx):
    """main.go's own ticker loop, executed on the fake clock, judged by the same per-registration specification with a
    sweep at every multiple of 3 minutes"""
    if ctx.replay is not None:
        return
    path, stmt = cut_sweeper(ctx)
    if path is None:
        ctx.broken("main-cut", "the sweeper goroutine of cmd/application/main.go could not be located: %s" % stmt)
        return
    scripts = sweeper_scripts(ctx)
    old = os.environ.get("PHANTOM_SUBNET_LOCATION")
    os.environ["PHANTOM_SUBNET_LOCATION"] = os.path.join(REPO, "pkg/station/lib/test/phantom_subnets.toml")
    try:
        rc, out, res = go_run(ctx, "cmd/application", ".", SW_FILES, "^TestVerifC08Sweeper$", scripts, "fake", 600,
                              extra_files={"zz_verif_sweepercut.go": path})
    finally:
        if old is None:
            os.environ.pop("PHANTOM_SUBNET_LOCATION", None)
        else:
            os.environ["PHANTOM_SUBNET_LOCATION"] = old
        if os.path.exists(path) and os.environ.get("VERIF_KEEP") != "1":
            os.remove(path)
    if res is None or len(res) != len(scripts):
        if "faketime" in out and "not in effect" in out or "checklinkname" in out:
            ctx.cov["sweeper_loop"] = "not executed (no fake clock): " + out[-200:]
            return
        ctx.broken("main-cut", "the sweeper goroutine cut out of main.go did not compile/run as a function of (ctx, wg, regManager): %s"
                   % out[-900:])
        return
    PERIOD = 3 * MIN
    for script, r in zip(scripts, res):
        ctx.count(("sweeper", repr(script)), kind="mainloop/sweeper")
        if r["panic"] or len(r["obs"]) != len(script):
            ctx.fail("sweeper:panic", "main.go's sweeper loop panicked or stopped early: %s" % r["panic"][:300], {"script": script})
            continue
        spec, nreg, now, cancelled_at = Spec(), 0, 0, None
        for i, (st, ob) in enumerate(zip(script, r["obs"])):
            # a tick instant in (now, to]: the loop runs its sweep as soon as it is scheduled, i.e. at clock `to`
            # (the scripts never jump over two ticks)
            ticked = st["to"] // PERIOD > now // PERIOD
            spec.apply({"op": "advance", "d": 0, "ns": st["to"] - now})
            now = st["to"]
            if ticked and cancelled_at is None:
                spec.apply({"op": "sweep"})
            for _ in range(st["track"]):
                spec.apply({"op": "track", "s": nreg, "t": 0, "p": 0})
                nreg += 1
            if st["cancel"]:
                cancelled_at = now
            want = sorted(k[0] for k in spec.tracked())
            if ob["present"] != want:
                late = set(ob["present"]) - set(want)
                ctx.fail("sweeper:%s" % ("not-swept-on-schedule" if late else "swept-early"),
                         "main.go's sweeper loop: %d ns after start the manager tracks registrations %s; with a sweep every 3 minutes "
                         "(none after the stop request) it must track %s" % (now, ob["present"], want),
                         {"script": script, "step": i, "cancelled_at": cancelled_at})
                break
            if cancelled_at is not None and not ob["stopped"]:
                ctx.fail("sweeper:not-stopped", "main.go's sweeper goroutine has not returned after its context was cancelled",
                         {"script": script, "step": i})
                break
    ctx.cov["sweeper_loop"] = "executed: `%s...` cut from main.go, %d clock scripts" % (stmt[:40].replace("\n", " "), len(scripts))


# ----------------------------------------------------------------------------- the bulk lane (scale)
# A population far above any plausible per-sweep batch is tracked and validated through the real RegistrationManager on the
# fake clock, a few registrations carry a connection, time passes, a young batch is added, time passes, ONE sweep runs.
# Oracle, in the property's words: after the sweep nothing older than its lifetime is tracked / matches / holds a timeout
# record, and everything within its lifetime is still there.
BULK_HEADER = ("From CJ Require Import Common.Base C08.Model C08.Capped.\n")
BULK_COQ_MAX = 2600      # the assoc-list model is quadratic: 1000 registrations 0.9 s, 3000 6 s, 9000 about a minute


def bulk_cases(ctx):
    rng = ctx.rng
    S = NS
    cs = []

    def mk(kind, n, nph, used, adv1, young, adv2):
        cs.append({"kind": kind, "n": n, "nph": nph, "used": sorted(set(used)), "adv1": adv1, "young": young, "adv2": adv2})
    # 20 000 registrations, 3 used, 11 minutes old at the sweep; 7 young ones exactly 10 minutes old (kept: > comparison)
    mk("bulk/large-one-sweep", 20000, 64, [5, 9000, 19999], 60 * S, 7, 600 * S)
    mk("bulk/medium-one-sweep", 1000, 16, [0, 999], 61 * S, 3, 600 * S - 1)
    mk("bulk/medium-one-sweep", 5000, 32, [17, 4000], 0, 0, 660 * S)
    mk("bulk/medium-one-sweep", 9000, 64, [1, 2, 8999], 5 * 3600 * S + 50 * 60 * S, 3000, 9 * 60 * S)
    # the 6-hour arm at scale: 5000 registrations, 2400 of them used, all older than 6 h at the sweep
    mk("bulk/six-hour-arm", 5000, 32, list(range(0, 4800, 2)), 0, 0, 6 * 3600 * S + 1)
    # everything within its lifetime: one sweep removes nothing
    mk("bulk/nothing-expired", 3000, 8, [4], 0, 10, 600 * S)
    for _ in range(2 if ctx.tier == "quick" else 8):
        n = rng.randint(300, 2400)
        used = [rng.randrange(n) for _ in range(rng.randint(0, 6))]
        young = rng.randint(0, 100)
        old = rng.choice([601 * S, 660 * S, 600 * S + 1, 6 * 3600 * S, 6 * 3600 * S + 1])
        adv2 = rng.choice([0, 1, 599 * S, 600 * S])
        mk("bulk/random", n, rng.choice([1, 2, 16, 64]), used, max(0, old - adv2), young, adv2)
    for _ in range(0 if ctx.tier == "quick" else 3):
        n = rng.randint(10000, 40000)
        mk("bulk/random-large", n, 64, [rng.randrange(n) for _ in range(4)], 30 * S, rng.randint(0, 50), 600 * S)
    return cs


def bulk_expected(c):
    age_old, age_young = c["adv1"] + c["adv2"], c["adv2"]
    want = set()
    if age_old <= TEN_MIN:
        want |= set(range(c["n"]))
    if age_old <= SIX_H:
        want |= set(c["used"])
    if age_young <= TEN_MIN:
        want |= set(range(c["n"], c["n"] + c["young"]))
    return want


def run_bulk(ctx):
    if ctx.replay is not None:
        return
    cases = bulk_cases(ctx)
    rc, out, res = go_run(ctx, ".", GO_PKG, GO_FILES, "^TestVerifC08Bulk$", [{k: v for k, v in c.items() if k != "kind"} for c in cases],
                          "fake", 600)
    if res is None or len(res) != len(cases):
        if "faketime" in out and "not in effect" in out or "checklinkname" in out:
            ctx.cov["bulk_lane"] = "not executed (no fake clock): " + out[-200:]
            return
        ctx.broken("driver", "bulk lane: the Go driver did not produce results (rc=%s): %s" % (rc, out[-900:]))
        return
    terms, kept = [], []
    for c, r in zip(cases, res):
        n, tot = c["n"], c["n"] + c["young"]
        inp = {k: v for k, v in c.items() if k != "kind"}
        if len(inp["used"]) > 12:
            inp["used"] = inp["used"][:12] + ["... %d in all" % len(c["used"])]
        ctx.count(("bulk", repr(c)), kind=c["kind"])
        if r["panic"]:
            ctx.fail("panic:bulk", "bulk lane: the registry panicked on a population of %d" % tot, {"bulk": inp})
            continue
        if r["before"] != [tot, tot, tot]:
            ctx.broken("driver", "bulk lane: before the sweep the manager tracks / holds timeout records for / matches %s of %d "
                       "distinct registrations" % (r["before"], tot), {"bulk": inp})
            continue
        want = bulk_expected(c)
        obs = {"tracked": set(r["tracked"]), "matching": set(r["matching"]), "holding a timeout record": set(r["has_timeout"])}
        late = {w: sorted(v - want) for w, v in obs.items() if v - want}
        early = {w: sorted(want - v) for w, v in obs.items() if want - v}
        sweep_at = c["adv1"] + c["adv2"]
        if late:
            ctx.fail("kept-past-lifetime:bulk/N=%d" % n,
                     "bulk lane: %d registrations tracked at 0 ns (%d of them used), %d more at %d ns, ONE sweep at %d ns: after the "
                     "sweep %s registrations older than their lifetime are still %s (%d survivors, %d timeout records; %d "
                     "registrations are within their lifetime); first offenders: %s"
                     % (n, len(c["used"]), c["young"], c["adv1"], sweep_at,
                        ", ".join("%d" % len(v) for v in late.values()), " / ".join(late.keys()), r["total"], r["ntimeouts"], len(want),
                        {w: v[:6] for w, v in late.items()}),
                     {"bulk": inp, "sweep_at_ns": sweep_at, "survivors": r["total"], "timeout_records": r["ntimeouts"],
                      "expected_survivors": len(want)})
        if early:
            ctx.fail("expired-early:bulk/N=%d" % n,
                     "bulk lane: %d registrations tracked at 0 ns (%d used), %d more at %d ns, one sweep at %d ns: registrations within "
                     "their lifetime are no longer %s after the sweep; first: %s"
                     % (n, len(c["used"]), c["young"], c["adv1"], sweep_at, " / ".join(early.keys()), {w: v[:6] for w, v in early.items()}),
                     {"bulk": inp, "sweep_at_ns": sweep_at, "survivors": r["total"], "expected_survivors": len(want)})
        if not late and not early and (r["total"] != len(want) or r["ntimeouts"] != len(want)):
            ctx.fail("residue:bulk/N=%d" % n, "bulk lane: after the sweep TotalRegistrations = %d and %d timeout records, %d "
                     "registrations are within their lifetime" % (r["total"], r["ntimeouts"], len(want)), {"bulk": inp})
        if tot <= BULK_COQ_MAX:
            nl = lambda xs: "(@nil N)" if not xs else "[" + "; ".join("%d%%N" % x for x in xs) + "]"
            terms.append("(%d%%N, %d%%nat, %s, %d%%N, %d%%nat, %d%%N, (%s, (%d%%nat, %d%%nat)))"
                         % (c["nph"], n, nl(c["used"]), c["adv1"], c["young"], c["adv2"], nl(r["tracked"]), r["total"], r["ntimeouts"]))
            kept.append((c, r))
    ctx.require_kinds(["bulk/large-one-sweep", "bulk/medium-one-sweep", "bulk/six-hour-arm", "bulk/nothing-expired", "bulk/random"])
    ctx.cov["bulk_lane"] = ("%d populations (%s registrations) through the real manager, one sweep each; %d of them (<= %d "
                            "registrations) also evaluated by the model (C08.Capped.bulk_chk)"
                            % (len(cases), ", ".join(str(c["n"] + c["young"]) for c in cases), len(terms), BULK_COQ_MAX))
    if terms:
        mm = ctx.coq_mismatches("bulk", BULK_HEADER, terms, "bulk_chk", shard=1, need_vo=["C08/Capped.vo"])
        if mm:
            ctx.cov["mismatches"] += len(mm)
            c, r = kept[mm[0]]
            ctx.broken("correspondence", "bulk lane: the survivors of one sweep over %d registrations differ between the real "
                       "RegisteredDecoys and the model (C08.Capped.bulk_after sweep)" % (c["n"] + c["young"]),
                       {"bulk": {k: v for k, v in c.items() if k != "kind"}, "survivors": r["total"]})



# ----------------------------------------------------------------------------- the connection lane
# `connect` events that come from the real handleNewTCPConn (cmd/application/conns.go): a TCP peer with the real
# client transport's first flight, a covert echo server, tunnels that stay OPEN across clock steps and sweeps.
CONN_FILES = {"zz_verif_c08_conn_driver_test.go": "c08/conn_driver_test.go"}
CONN_EXTRA = {"pkg/station/lib/zz_verif_c08_export.go": "c08/lib_export_c08.go"}
CONN_HEADER = ("From CJ Require Import Common.Base C08.Model C08.ModelConn C08.Run C08.RunConn.\n"
               "Definition K (s : N) (t : tr) (p : N) : regkey := Build_regkey s t p.\n"
               "Definition O := Build_obs.\nDefinition CO := Build_cobs.\n")
CONN_MARGIN = 45 * NS       # ages at a sweep stay this far from a limit: the lane runs on the real clock (a case may take 30 s)


def CN(c, s, t, p):
    return {"op": "connect", "c": c, "s": s, "t": t, "p": p}


def CL(c):
    return {"op": "close", "c": c}


def conn_case(ops, extra_keys=()):
    c = mk_case(ops, extra_keys)
    c["lane"] = "conn"
    return c


def conn_corpus():
    cs = []
    for t in (0, 2):        # min, prefix
        k = (0, t, 0)
        # the first tunnel stays open while the registration passes the 10-minute unused lifetime; sweeps; a reconnect;
        # the tunnels close; it is removed only once it is older than 6 hours
        cs.append(conn_case([V(*k), ADV(60), CN(1, *k), ADV(600), SW, L(0), CN(2, *k), ADV(20000), SW, CL(1), SW, CL(2),
                             ADV(880), SW, C(0), ADV(120), SW, C(0), CN(3, *k)]))
        # a short tunnel (closed long before the registration is 10 minutes old)
        cs.append(conn_case([V(*k), CN(1, *k), CL(1), ADV(660), SW, C(0), ADV(20880), SW, C(0), ADV(120), SW, C(0)]))
    k, k2, k6 = (1, 0, 0), (2, 0, 0), (1, 0, 1)
    # tracked but not validated: the connection is not recognised, nothing is marked
    cs.append(conn_case([T(*k), CN(1, *k), ADV(660), SW, C(0)]))
    # expired but not yet swept: still matched, the connection saves it (it has carried a connection, younger than 6 h)
    cs.append(conn_case([V(*k), ADV(700), CN(1, *k), SW, L(0), ADV(20000), SW, CL(1), L(0)]))
    # expired and swept: stops matching connections
    cs.append(conn_case([V(*k), ADV(700), SW, CN(1, *k), C(0), V(*k), CN(2, *k), ADV(700), SW, C(0)]))
    # two registrations on one phantom: the connection marks its own only
    cs.append(conn_case([V(*k), V(*k2), CN(1, *k), ADV(660), SW, L(0), CL(1), ADV(660), SW, L(0)]))
    # one secret on its v4 and its v6 phantom
    cs.append(conn_case([V(*k), V(*k6), CN(1, *k6), ADV(660), SW, L(0), L(1), CL(1)]))
    # the 6 hours count from the registration, not from the connection nor from the end of the tunnel
    cs.append(conn_case([V(*k), ADV(500), CN(1, *k), ADV(20500), SW, C(0), CL(1), ADV(660), SW, C(0), CN(2, *k)]))
    # a connection for a registration nobody made
    cs.append(conn_case([CN(1, *k), V(*k2), CN(2, *k), CN(3, *k2), ADV(660), SW, C(0), CL(3)]))
    # duplicate registrations while the tunnel is open do not refresh the age
    cs.append(conn_case([V(*k), CN(1, *k), ADV(21000), T(*k), VS(*k), ADV(660), SW, C(0), CL(1)]))
    return cs


def conn_margin_ok(spec):
    return all(abs(a - (SIX_H if u else TEN_MIN)) >= CONN_MARGIN for a, u, _, _ in spec.life.values())


def conn_random(rng, nops):
    secrets = rng.sample([0, 1, 2, 3], rng.choice([1, 2, 3]))
    trs = rng.sample([0, 2], rng.choice([1, 2]))
    phs = rng.sample([0, 1, 2], rng.choice([1, 2]))
    keys = [(s, t, p) for s in secrets for t in trs for p in phs]
    spec, ops, nc = Spec(), [], 0
    for _ in range(nops):
        x = rng.random()
        live = sorted(spec.tracked())
        if x < 0.22:
            o = rng.choice([V, V, V, T, VS])(*rng.choice(keys))
        elif x < 0.42:
            if not live and rng.random() < 0.8:       # an unrecognised peer costs its waiting time: keep them few
                o = V(*rng.choice(keys))
            else:
                nc += 1
                k = rng.choice(live) if live and rng.random() < 0.85 else rng.choice(keys)
                o = CN(nc, *k)
        elif x < 0.52:
            if not spec.open:
                continue
            o = CL(rng.choice(sorted(spec.open)))
        elif x < 0.76:
            d = rng.choice([60, 300, 570, 630, 660, 3600, 20000, 21000])
            if live and rng.random() < 0.6:        # bring one live registration just past / just short of its limit
                k = rng.choice(live)
                a, u, _, _ = spec.life[k]
                tgt = (SIX_H if u else TEN_MIN) + rng.choice([-90, -60, 60, 90, 600]) * NS
                if tgt > a:
                    d = (tgt - a) // NS
            o = ADV(d)
        elif x < 0.94:
            if not conn_margin_ok(spec):
                spec.apply(ADV(100))
                ops.append(ADV(100))
                if not conn_margin_ok(spec):
                    continue
            o = SW
        else:
            o = rng.choice([L, C])(rng.choice(phs))
        spec.apply(o)
        ops.append(o)
    c = conn_case(ops, extra_keys=keys[:12])
    c["phantoms"] = sorted(set(c["phantoms"]) | set(phs))
    return c


def conn_cases(ctx):
    rp = ctx.replay
    if rp is not None:
        out = []
        for f in rp.get("failures", []) + rp.get("theorem_or_correspondence", []):
            c = f.get("case") or {}
            if isinstance(c, dict) and isinstance(c.get("case"), dict) and c["case"].get("lane") == "conn":
                out.append(c["case"])
        return out + [c for c in rp.get("cases", []) if c.get("lane") == "conn"]
    cs = conn_corpus()
    for _ in range(40 if ctx.tier == "quick" else 400):
        cs.append(conn_random(ctx.rng, ctx.rng.choice([6, 10, 16, 24])))
    return cs


def ghev(o):
    if o["op"] == "connect":
        return "HConnect %s %s" % (gN(o["c"]), gkey((o["s"], o["t"], o["p"])))
    if o["op"] == "close":
        return "HClose %s" % gN(o["c"])
    return "HReg (%s)" % gop(o)


def gccase(case, res):
    hist = glist(list(zip(case["ops"], res["obs"])),
                 lambda x: "(%s, CO %s %s %s %s)" % (ghev(x[0]), gobs(x[1]), gbool(x[1]["recognised"]),
                                                     glist(x[1]["used"], gkey), gN(x[1]["open"])))
    return "(Build_ccase %s %s %s %s %s)" % (glist(case["keys"], gkey), glist(case["phantoms"], gN),
                                             gN(res["timeout_unused_ns"]), gN(res["timeout_active_ns"]), hist)


def conn_classify(ctx, case):
    """which classes of handler histories the case contains (generator self-test)"""
    spec, h = Spec(), ctx.cov["histogram"]

    def hit(kd):
        h[kd] = h.get(kd, 0) + 1
    had_open_sweep = set()
    for o in case["ops"]:
        if o["op"] == "sweep":
            for k in set(spec.open.values()):
                a, u, _, _ = spec.life.get(k, (0, False, False, 0))
                if k in spec.life and a > TEN_MIN and a <= SIX_H:
                    hit("conn/sweep-under-open-tunnel-past-10min")
                    had_open_sweep.add(k)
            before = set(spec.life)
            spec.apply(o)
            for k in before - set(spec.life):
                if k in had_open_sweep:
                    hit("conn/removed-after-6h-once-used")
            continue
        spec.apply(o)
        if o["op"] == "connect":
            k = (o["s"], o["t"], o["p"])
            hit("conn/recognised" if spec.recognised else "conn/unrecognised")
            if spec.recognised and k in had_open_sweep:
                hit("conn/reconnect-after-sweep")
            if spec.recognised and spec.life[k][0] > TEN_MIN and list(spec.open.values()).count(k) == 1:
                hit("conn/matched-while-expired-unswept")
        elif o["op"] == "close":
            hit("conn/close")


def run_conn(ctx):
    cases = conn_cases(ctx)
    if not cases:
        return
    rc, out, res = go_run(ctx, "cmd/application", ".", CONN_FILES, "^TestVerifC08Conn$", cases, "shift", 900,
                          extra_overlay=CONN_EXTRA)
    if res is None or len(res) != len(cases):
        ctx.broken("driver", "the connection-lane driver (real handleNewTCPConn) did not produce results (rc=%s): %s" % (rc, out[-1500:]))
        return
    terms, kept = [], []
    for case, r in zip(cases, res):
        nconn = sum(1 for o in case["ops"] if o["op"] == "connect")
        nsweep = sum(1 for o in case["ops"] if o["op"] == "sweep")
        ctx.count(("conn", case["ops"]), nontrivial=bool(nconn and nsweep), kind="conn/history")
        for o in case["ops"]:
            if o["op"] in ("connect", "close"):
                ctx.cov["histogram"]["op/" + o["op"]] = ctx.cov["histogram"].get("op/" + o["op"], 0) + 1
        if r.get("err"):
            ctx.broken("driver", "connection-lane driver: %s" % r["err"][:400], {"case": case})
            continue
        notes = [ob["note"] for ob in r["obs"] if ob.get("note")]
        if notes:
            ctx.broken("driver", "connection-lane driver trouble (not a verdict about conjure): %s" % notes[0][:300], {"case": case})
            continue
        if r["id_collision"]:
            ctx.broken("assumption", "transport identifiers of the alphabet are not pairwise distinct", {"case": case})
            continue
        if r["slow"] or len(r["obs"]) != len(case["ops"]):
            ctx.cov["histogram"]["conn/skipped-slow"] = ctx.cov["histogram"].get("conn/skipped-slow", 0) + 1
            continue
        if r["timeout_unused_ns"] != TEN_MIN or r["timeout_active_ns"] != SIX_H:
            ctx.fail("lifetime-constant", "the table is created with lifetimes unused=%d ns active=%d ns; the property says 10 min / 6 h"
                     % (r["timeout_unused_ns"], r["timeout_active_ns"]), {"case": case})
        conn_classify(ctx, case)
        oracle(ctx, case, r, defer_further=True)
        terms.append(gccase(case, r))
        kept.append((case, r))
    if ctx.cov["histogram"].get("conn/skipped-slow", 0) > max(2, len(cases) // 10):
        ctx.broken("driver", "more than 10% of the connection-lane cases could not be run within the timing margin")
    if kept:
        ctx.sample({"lane": "conn", "ops": kept[0][0]["ops"][:10], "last_observation": kept[0][1]["obs"][-1]})
    if ctx.replay is None:
        ctx.require_kinds(["conn/sweep-under-open-tunnel-past-10min", "conn/removed-after-6h-once-used", "conn/recognised",
                           "conn/unrecognised", "conn/reconnect-after-sweep", "conn/matched-while-expired-unswept", "conn/close"])
    mm = ctx.coq_mismatches("conn", CONN_HEADER, terms, "chk_conn", shard=max(40, (len(terms) + 3) // 4), need_vo=["C08/RunConn.vo"])
    if mm:
        ctx.cov["mismatches"] += len(mm)
        case, r = kept[mm[0]]
        where = ctx.coq_show("cwhere", CONN_HEADER, "where_cbad %s" % gccase(case, r))
        ctx.broken("correspondence", "the real connection handler + RegisteredDecoys disagree with the handler-level model C08.ModelConn.hstep "
                   "and/or its specification hgstep on %d handler histories; first: %d events, first differing event (model, "
                   "specification): %s" % (len(mm), len(case["ops"]), where[-200:]), {"case": case, "observed": r["obs"][-1]})


# ----------------------------------------------------------------------------- run
def run(ctx):
    ctx.assumptions += [
        "Transport.GetIdentifier is injective in (transport, shared secret) (HMAC-SHA256 / obfs4 key derivation collision-free); "
        "re-checked on every generated alphabet by the driver",
        "the phantom address string never contains the separator used by timeoutKey",
        "the operations on RegisteredDecoys are executed one at a time (the mutex makes them atomic; interleavings are C09's subject)",
        "time is an input: the driver moves the Go runtime's fake clock (build tag faketime, runtime.faketime set through "
        "go:linkname), so ages are exact to the nanosecond, including age == limit; a subset is re-run with the real clock and "
        "shifted registrationTime (whole seconds, 0.5 s slack) and must give the same observations",
        "connection lane: real clock with shifted registrationTime (real sockets need a running clock); ages at a sweep stay >= 45 s "
        "from a limit, a case that takes more than 30 s of real time is re-run (3 times) or skipped and counted",
        "MarkActive has no caller but the connection handler (hypothesis handler_only of C08_conn_never_late): the tunnel-site table "
        "lists every caller on every run",
    ]
    ctx.cov["trusted_base"] = [
        "Coq 8.16.1 kernel (coqc; coqchk in the thorough tier); vm_compute only for evaluating the model on recorded cases",
        "no axioms: every theorem prints 'Closed under the global context'",
        "hand-written model coq/C08/Model.v of RegisteredDecoys (track/register/markActive/getExpiredRegistrations/"
        "removeRegistration/getRegistrations/countRegistrations), tied to /repo's working tree by the correspondence run",
        "Go in-package driver harness/inpkg/c08/registry_driver_test.go, the case generator and the JSON->Gallina emitter",
        "hand-written model coq/C08/ModelConn.v of the connection handler's effect on the registry (match => MarkActive at once, relay, "
        "return), tied to cmd/application/conns.go by the connection lane: harness/inpkg/c08/conn_driver_test.go (real handleNewTCPConn, "
        "TCP peers, real min/prefix client transports, loopback covert echo) with the export shim lib_export_c08.go overlaid into "
        "pkg/station/lib; the go/ast walker harness/inpkg/c08/marksites for the tunnel-site table",
    ]
    ctx.cov["rule"] = ("a case is a history of track / track-if-new / validate (own or foreign object) / connect / advance / sweep / lookup / count operations "
                       "executed on the real RegisteredDecoys; it is counted as non-trivial if it is hash-distinct and contains at "
                       "least one sweep and one registration; exhaustive histories of length 3-4 (quick) or 3-6 (thorough) over small alphabets (one secret "
                       "with two transports, two phantoms, two secrets with a common id prefix) plus random histories of up to "
                       "200 operations over up to 8 secrets x 5 transports x 4 phantoms, with time steps aimed at the 10 min / 6 h "
                       "limits +- 1 s; connection lane: handler histories (registry operations, connections through the real "
                       "handleNewTCPConn, tunnel closes; 12 fixed + 40/400 random) with tunnels open across clock steps and sweeps, "
                       "non-trivial if hash-distinct with at least one connection and one sweep")
    import time as _time
    t0 = [_time.time()]
    ctx.cov["phase_s"] = {}

    def tick(name):
        now = _time.time()
        ctx.cov["phase_s"][name] = round(ctx.cov["phase_s"].get(name, 0) + now - t0[0], 1)
        t0[0] = now
    ctx.coq_props()
    tick("coq_props")
    rc, out = ctx.coq_make(["C08/Examples.vo", "C08/Legacy.vo", "C08/ExamplesConn.vo", "C08/LateMark.vo"])
    if rc != 0:
        ctx.broken("examples", "non-vacuity examples / legacy witness / late-mark witness no longer check: " + out[-600:])
    only = os.environ.get("VERIF_C08_ONLY")      # development aid: run a single lane (never set by the registered commands)
    if only == "conn":
        run_conn(ctx)
        return
    if only == "bulk":
        run_bulk(ctx)
        return
    tick("examples")
    wiring(ctx)
    tick("wiring+mark-sites")
    run_sweeper(ctx)
    tick("sweeper-loop")
    run_bulk(ctx)
    tick("bulk-lane")
    run_conn(ctx)
    tick("connection-lane")
    cases, n_fixed, n_exh = gen_cases(ctx)
    # primary run: the runtime's fake clock, moved by the driver - every age is exact to the nanosecond
    rc, out, res = go_run(ctx, ".", GO_PKG, GO_FILES, "^TestVerifC08Registry$", cases, "fake", 900)
    fake_ok = res is not None and len(res) == len(cases)
    tick("registry-lane go (fake clock)")
    if fake_ok:
        ctx.cov["clock"] = "faketime (runtime clock moved by the driver; ages exact)"
        # cross-check with the real clock and shifted timestamps (whole seconds, 0.5 s slack): same observations
        sel = [i for i, c in enumerate(cases) if not is_exact(c) and (i < n_fixed or ctx.tier != "quick" or i % 4 == 0)]
        rc2, out2, res2 = go_run(ctx, ".", GO_PKG, GO_FILES, "^TestVerifC08Registry$", [cases[i] for i in sel], "shift", 900)
        if res2 is None or len(res2) != len(sel):
            ctx.broken("driver", "Go driver (real clock, shifted timestamps) did not produce results (rc=%s): %s" % (rc2, out2[-1200:]))
        else:
            ndiff = 0
            for i, r2 in zip(sel, res2):
                ctx.cov["histogram"]["clock/shift-crosscheck"] = ctx.cov["histogram"].get("clock/shift-crosscheck", 0) + 1
                if r2["slow"]:
                    continue
                if r2["obs"] != res[i]["obs"]:
                    ndiff += 1
                    if oracle(ctx, cases[i], r2) and ndiff == 1:
                        ctx.broken("clock-modes-disagree", "the same history gives different observations with the fake clock and with "
                                   "shifted timestamps", {"case": cases[i]})
    else:
        # toolchain without a usable fake clock: everything through shifted timestamps, nanosecond cases dropped
        ctx.cov["clock"] = "faketime unavailable (%s); real clock with shifted timestamps, boundary instant NOT checked" % out[-300:]
        keep = [i for i, c in enumerate(cases) if not is_exact(c)]
        n_fixed = sum(1 for i in keep if i < n_fixed)
        n_exh = sum(1 for i in keep if i < n_exh)
        cases = [cases[i] for i in keep]
        rc, out, res = go_run(ctx, ".", GO_PKG, GO_FILES, "^TestVerifC08Registry$", cases, "shift", 900)
        if res is None or len(res) != len(cases):
            ctx.broken("driver", "Go driver did not produce results (rc=%s): %s" % (rc, out[-1200:]))
            return
    tick("registry-lane go (shifted cross-check)")
    terms, kept_cases = [], []
    for idx, (case, r) in enumerate(zip(cases, res)):
        nsweep = sum(1 for o in case["ops"] if o["op"] == "sweep")
        nreg = sum(1 for o in case["ops"] if o["op"] in ("track", "tracknx", "validate", "validate_stale"))
        removed = any(a["total"] > b["total"] for a, b in zip(r["obs"], r["obs"][1:]))
        kind = "corpus" if idx < n_fixed else ("exhaustive" if idx < n_exh else "random")
        kind += "/expiring" if removed else ("/sweep" if nsweep else "/nosweep")
        ctx.count(case["ops"], nontrivial=bool(nsweep and nreg), kind=kind)
        for o in case["ops"]:
            ctx.cov["histogram"]["op/" + o["op"]] = ctx.cov["histogram"].get("op/" + o["op"], 0) + 1
        if r["id_collision"]:
            ctx.broken("assumption", "transport identifiers of the alphabet are not pairwise distinct", {"case": case})
            continue
        if r["slow"]:
            # could not be executed within the timing slack even after retries: not judged
            ctx.cov["histogram"]["skipped/slow"] = ctx.cov["histogram"].get("skipped/slow", 0) + 1
            continue
        if r["timeout_unused_ns"] != TEN_MIN or r["timeout_active_ns"] != SIX_H:
            ctx.fail("lifetime-constant", "the table is created with lifetimes unused=%d ns active=%d ns; the property says 10 min / 6 h"
                     % (r["timeout_unused_ns"], r["timeout_active_ns"]), {"case": case})
        oracle(ctx, case, r)
        terms.append(gcase(case, r))
        kept_cases.append((case, r))
    if ctx.failures and ctx.replay is None:
        shrink_failures(ctx, "fake" if fake_ok else "shift")
    if ctx.cov["histogram"].get("skipped/slow", 0) > len(cases) // 10:
        ctx.broken("driver", "more than 10% of the cases could not be run within the timing slack")
    for i in (0, n_fixed + 5, len(cases) - 1):
        if i < len(cases):
            ctx.sample({"ops": cases[i]["ops"][:12], "last_observation": res[i]["obs"][-1] if res[i]["obs"] else None})
    if ctx.replay is None and fake_ok:
        ctx.require_kinds(["boundary/sweep-at-limit-unused", "boundary/sweep-at-limit-used"])
    if ctx.replay is None:
        ctx.require_kinds(["corpus/expiring", "exhaustive/expiring", "exhaustive/sweep", "random/expiring",
                           "op/track", "op/tracknx", "op/validate", "op/validate_stale", "op/active", "op/advance", "op/sweep", "op/lookup", "op/count"])
    tick("registry-lane oracle")
    mm = ctx.coq_mismatches("hist", HEADER, terms, "chk", shard=max(60, (len(terms) + 15) // 16), need_vo=["C08/Run.vo"])
    tick("registry-lane coq")
    if mm:
        ctx.cov["mismatches"] += len(mm)
        case, r = kept_cases[mm[0]]
        where = ctx.coq_show("where", HEADER, "where_bad %s" % gcase(case, r))
        ctx.broken("correspondence", "the real RegisteredDecoys disagrees with the model C08.Model.step and/or the ghost "
                   "specification on %d histories; first: %d ops, first differing operation (model, ghost): %s"
                   % (len(mm), len(case["ops"]), where[-200:]),
                   {"case": case, "observed": r["obs"][-1]})
