"""C02, connection level — "currently validated and unexpired" must hold AT THE MOMENT OF THE MATCH.

Histories that interleave registry operations (real TrackRegistration / AddRegistration / RemoveOldRegistrations
after the timeout records have been moved into the past) with the steps of ONE open connection handled by the real
handleNewTCPConn (cmd/application): arrival, every piece of the first flight.  Driver:
harness/inpkg/c02/conn_driver_test.go (forced schedule points: registry operations run only while the handler is
parked in a Read).  Every registration object has its own covert listener; a connection arriving there is an opened
tunnel to that registration.

Direct oracle (the property's words, from the scripted history and the provenance of the stream, independent of the
Coq model): a tunnel opened in step k  =>  the stream is a genuine flight of that object's secret, transport and
prefix, the object lives on the phantom the client connected to, and it is the stored, validated, unexpired
registration of its (phantom, identifier) in the registry state of step k — the bookkeeping of the history up to
step k and the real GetRegistrations observed right before step k must both say so.
Correspondence: coq/C02/RunConn.v replays every observed WrapConnection call through the handler model
(coq/C02/ModelConn.v) against the model registry of that step."""
import copy

from lib import gN

MOD = "cmd/application"
FILES = {"zz_verif_c02conn_test.go": "c02/conn_driver_test.go"}
EXTRA = {"pkg/station/lib/zz_verif_c02_export.go": "c02/lib_export_conn.go",
         "pkg/transports/wrapping/obfs4/zz_verif_c02_export.go": "c02/obfs4_export_conn.go"}
HEADER = "From CJ Require Import Common.Base C02.Model C02.ModelConn C02.ModelTime C02.Run C02.RunConn C02.RunTime.\n"
TT = {"min": 1, "obfs4": 2, "prefix": 4}
TRCODE = {"min": 0, "prefix": 1, "obfs4": 2}
CLS = {"again": 0, "not": 1, "err_transport": 2, "err_prefix": 3, "found": 4, "err_other": 5, "found_foreign": 7}
TAGEND = {"min": 32, "obfs4": None}          # prefix: offset + 64 of the row
TRANSPORTS = ("min", "prefix", "obfs4")


def hexs(b):
    if len(b) == 0:
        return "(@nil N)"
    return "(unhexN 0x1%s%%N)" % bytes(b).hex()


def rhex(rng, n):
    return bytes(rng.getrandbits(8) for _ in range(n)).hex()


# ------------------------------------------------------------------ generation
def S(op, reg=-1, n=0):
    return {"op": op, "reg": reg, "n": n}


def G(secs):
    """secs seconds pass for every record of the case's phantoms, then the real sweep"""
    return {"op": "age", "reg": -1, "n": secs}


def templates(tr):
    """deterministic history classes; object 0 is the one whose flight is sent, 1 shares its secret (a re-registration:
    a NEW object under the same key), 2 is another client's registration on the same phantom, 3 is object 0's twin on
    the other phantom.  A = first piece of the flight (ends before the tag is complete), R = the rest.
    The last element is the outcome the property and the model require: the object that gets the tunnel, or None."""
    V, T, X = "validate", "track", "expire"
    return [
        ("baseline", [S(V, 0), S("accept"), "A", "R"], 0),
        ("sweep-nothing-expired", [S(V, 0), S("accept"), "A", S("sweep"), "R"], 0),
        # the registration expires and is swept while the connection is inside its classification window
        ("expired-while-classifying", [S(V, 0), S("accept"), "A", S(X, 0), "R"], None),
        ("expired-while-classifying-nothing-sent", [S(V, 0), S("accept"), S(X, 0), "A", "R"], None),
        ("lifetime-elapsed-while-classifying", [S(V, 0), S(V, 2), S("accept"), "A", S("advance"), "R"], None),
        ("expired-while-classifying-others-stay", [S(V, 2), S(V, 0), S("accept"), "A", S(X, 0), S("sweep"), "R"], None),
        ("expired-before-arrival", [S(V, 0), S(X, 0), S("accept"), "A", "R"], None),
        ("expired-before-arrival-others-stay", [S(V, 0), S(V, 2), S(X, 0), S("accept"), "A", "R"], None),
        # mirror: validated only after the connection arrived, before the flight is complete - valid at match time
        ("validated-after-arrival", [S(T, 0), S("accept"), "A", S(V, 0), "R"], 0),
        ("validated-after-arrival-nothing-sent", [S(T, 0), S("accept"), S(V, 0), "A", "R"], 0),
        ("registered-after-arrival", [S(V, 2), S("accept"), "A", S(V, 0), "R"], 0),
        ("never-validated", [S(T, 0), S("accept"), "A", S("sweep"), "R"], None),
        ("nothing-tracked-at-arrival", [S("accept"), S(V, 0), "A", "R"], None),
        # re-registration while the connection is open: a NEW object under the same key
        ("reregistered-while-classifying", [S(V, 0), S("accept"), "A", S(X, 0), S(V, 1), "R"], 1),
        ("reregistered-tracked-only", [S(V, 0), S("accept"), "A", S(X, 0), S(T, 1), "R"], None),
        ("expired-revalidated-same-object", [S(V, 0), S("accept"), "A", S(X, 0), S(V, 0), "R"], 0),
        ("revalidate-by-other-object-ignored", [S(V, 0), S("accept"), "A", S(V, 1), "R"], 0),
        # other registrations come and go on the phantom
        ("other-registered-while-classifying", [S(V, 0), S("accept"), "A", S(V, 2), "R"], 0),
        ("other-expired-while-classifying", [S(V, 0), S(V, 2), S("accept"), "A", S(X, 2), "R"], 0),
        # the twin on another phantom does not count, whatever happens to it
        ("twin-on-other-phantom-only", [S(V, 3), S(V, 2), S("accept"), "A", "R"], None),
        ("twin-stays-own-expires", [S(V, 0), S(V, 3), S("accept"), "A", S(X, 0), "R"], None),
        ("twin-expires-own-stays", [S(V, 0), S(V, 3), S("accept"), "A", S(X, 3), "R"], 0),
        ("expired-after-match", [S(V, 0), S("accept"), "A", "R", S(X, 0)], 0),
        # several connections, one after the other, against one registry (the outcome named is the LAST connection's)
        ("second-connection-after-expiry", [S(V, 0), S("accept"), "A", "R", S("close"), S(X, 0), S("accept"), "A", "R"], None),
        ("second-connection-after-lifetime", [S(V, 0), S(V, 2), S("accept"), "R", S("close"), S("advance"), S("accept"), "R"], None),
        ("second-connection-after-reregistration", [S(V, 0), S("accept"), "R", S("close"), S(X, 0), S(V, 1), S("accept"), "A", "R"], 1),
        ("second-connection-after-validation", [S(T, 0), S("accept"), "R", S("close"), S(V, 0), S("accept"), "A", "R"], 0),
        ("second-connection-same-flight-still-live", [S(V, 0), S("accept"), "R", S("close"), S("sweep"), S("accept"), "A", "R"], 0),
        # the same registration is received AGAIN (TrackRegistration / the ingest path's TrackRegIfNotExists /
        # AddRegistration) with time passing before and after it ("age": every clock shifted relatively + the real sweep):
        # the lifetime counts from the ORIGINAL registration - 10 min while never used, 6 h once a connection was matched
        ("dup-then-lifetime/unused-track", [S(V, 0), S(V, 2), G(540), S(T, 0), G(120), S("accept"), "A", "R"], None),
        ("dup-then-lifetime/unused-ingest", [S(V, 0), G(540), S("track_ine", 0), G(120), S("accept"), "A", "R"], None),
        ("dup-then-lifetime/unused-validate", [S(V, 0), G(540), S(V, 0), G(120), S("accept"), "A", "R"], None),
        ("dup-then-lifetime/unused-other-object", [S(V, 0), G(540), S("track_ine", 1), S(V, 1), G(120), S("accept"), "A", "R"], None),
        ("dup-then-lifetime/unused-resent-often", [S(V, 0), G(187), S("track_ine", 0), G(187), S(T, 0), G(187), S(V, 0), G(187), S("accept"), "A", "R"], None),
        ("dup-then-lifetime/unused-while-open", [S(V, 0), G(540), S("accept"), "A", S("track_ine", 0), G(120), "R"], None),
        ("dup-then-lifetime/unused-no-duplicate", [S(V, 0), G(540), G(120), S("accept"), "A", "R"], None),
        ("dup-within-lifetime/unused", [S(V, 0), G(307), S("track_ine", 0), G(187), S("accept"), "A", "R"], 0),
        ("dup-then-lifetime/used", [S(V, 0), S("accept"), "R", S("close"), G(540), S("track_ine", 0), S(T, 0), G(120), S("accept"), "A", "R"], 0),
        ("dup-then-lifetime/used-six-hours", [S(V, 0), S("accept"), "R", S("close"), G(21000), S("track_ine", 0), S(V, 0), G(700), S("accept"), "A", "R"], None),
    ]


def mk_regs(rng, tr, table_ids):
    s0, s2 = rhex(rng, 32), rhex(rng, 32)
    pid = rng.choice(table_ids)
    tr2 = rng.choice(TRANSPORTS)
    return [
        {"transport": tr, "prefix_id": pid, "secret": s0, "other": False},
        {"transport": tr, "prefix_id": pid, "secret": s0, "other": False},
        {"transport": tr2, "prefix_id": rng.choice(table_ids), "secret": s2, "other": False},
        {"transport": tr, "prefix_id": pid, "secret": s0, "other": True},
    ]


def tag_end(tr, pid, table):
    if tr == "min":
        return 32
    if tr == "prefix":
        row = [r for r in table if r["id"] == pid][0]
        return row["offset"] + 64
    return 4000     # obfs4: the mark sits at the end of a handshake of 141..8192 bytes; cut early


def expand(rng, steps, tr, pid, table, cut=None):
    """A -> one or two sends that end before the tag is complete; R -> the rest (sometimes in two pieces)"""
    te = tag_end(tr, pid, table)
    if tr == "obfs4":
        a = cut if cut is not None else rng.choice([1, 63, 64, 100, 140])
    else:
        a = cut if cut is not None else rng.choice([1, te // 2, te - 1, te - 1, rng.randrange(1, te)])
    out = []
    for s in steps:
        if s == "A":
            if a > 1 and rng.random() < 0.3:
                k = rng.randrange(1, a)
                out += [S("send", n=k), S("send", n=a - k)]
            else:
                out.append(S("send", n=a))
        elif s == "R":
            if rng.random() < 0.25:
                out += [S("send", n=rng.choice([1, 2, 7])), S("send", n=0)]
            else:
                out.append(S("send", n=0))
        else:
            out.append(dict(s))
    out.append(S("close"))
    return out


def gen_cases(ctx, table):
    rng = ctx.rng
    quick = ctx.tier == "quick"
    table_ids = [r["id"] for r in table]
    cases = []

    def add(cls, tr, regs, stream, steps, expect="any"):
        cases.append({"class": cls, "transport": tr, "expect": expect,
                      "case": {"regs": regs, "stream": stream, "steps": steps}})

    for tr in TRANSPORTS:
        for name, steps, expect in templates(tr):
            for rep in range(1 if (quick and tr == "obfs4") else (2 if quick else 5)):
                regs = mk_regs(rng, tr, table_ids)
                stream = {"kind": "flight", "reg": 0, "key": rng.choice([0, 0, 1]),
                          "extra_len": 0 if tr == "obfs4" else rng.choice([0, 1, 40]), "extra_seed": rng.randrange(1 << 30)}
                add(name, tr, regs, stream, expand(rng, steps, tr, regs[0]["prefix_id"], table), expect)
        # the tag is complete before the registry changes: the match has already happened
        regs = mk_regs(rng, tr, table_ids)
        if tr != "obfs4":
            te = tag_end(tr, regs[0]["prefix_id"], table)
            add("matched-before-expiry", tr, regs, {"kind": "flight", "reg": 0, "key": 0, "extra_len": 30, "extra_seed": 3},
                [S("validate", 0), S("accept"), S("send", n=te), S("expire", 0), S("send", n=0), S("close")], 0)
            # every cut position inside the tag, expiry in between (thorough) / a sample (quick)
            pid0 = regs[0]["prefix_id"]
            cuts = list(range(1, te)) if not quick else sorted(rng.sample(range(1, te), 4))
            for cpos in cuts:
                regs = mk_regs(rng, tr, table_ids)
                for k in (0, 1, 3):
                    regs[k]["prefix_id"] = pid0        # same row of the prefix table: the tag ends where `te` says
                add("expired-while-classifying", tr, regs, {"kind": "flight", "reg": 0, "key": 0, "extra_len": 5, "extra_seed": cpos},
                    expand(rng, [S("validate", 0), S("accept"), "A", S("expire", 0), "R"], tr, regs[0]["prefix_id"], table, cut=cpos), None)
        # near misses at connection level: a flight for another prefix / to a foreign station key / random bytes,
        # with registry operations in between
        regs = mk_regs(rng, tr, table_ids)
        add("random-stream", tr, regs, {"kind": "raw", "hex": rhex(rng, rng.choice([40, 100, 300]))},
            [S("validate", 0), S("accept"), S("send", n=20), S("expire", 0), S("validate", 1), S("send", n=0), S("close")], None)
        if tr == "prefix":      # only the prefix tag is encrypted to a station key
            add("foreign-station-key", tr, mk_regs(rng, tr, table_ids), {"kind": "flight", "reg": 0, "key": -1, "extra_len": 3, "extra_seed": 1},
                [S("validate", 0), S("accept"), S("send", n=10), S("sweep"), S("send", n=0), S("close")], None)
    regs = mk_regs(rng, "prefix", table_ids)
    wrong = rng.choice([i for i in table_ids if i != regs[0]["prefix_id"]])
    add("wrong-prefix", "prefix", regs, {"kind": "flight", "reg": 0, "key": 0, "prefix_id": wrong, "extra_len": 0, "extra_seed": 1},
        [S("validate", 0), S("accept"), S("send", n=5), S("sweep"), S("send", n=0), S("close")], None)

    # random interleavings
    for _ in range(40 if quick else 400):
        tr = rng.choice(["min", "min", "prefix", "prefix", "obfs4"])
        regs = mk_regs(rng, tr, table_ids)
        te = tag_end(tr, regs[0]["prefix_id"], table)
        nseg = rng.choice([1, 2, 2, 3, 4])
        conn = [S("accept")]
        left = te + 3
        for i in range(nseg - 1):
            k = rng.randrange(1, max(2, left // 2))
            conn.append(S("send", n=k))
            left = max(2, left - k)
        conn.append(S("send", n=0))
        nops = rng.randrange(1, 8)
        ops = []
        timed = rng.random() < 0.4
        for _ in range(nops):
            op = rng.choice(["track", "validate", "validate", "validate", "expire", "expire", "sweep", "advance"])
            if timed:       # time passes in stretches shorter than the lifetime, registrations are received again
                op = rng.choice(["track", "track_ine", "validate", "validate", "age", "age", "age", "sweep"])
            if op == "age":
                ops.append(G(rng.choice([67, 127, 187, 307, 427])))
            else:
                ops.append(S(op, rng.choice([0, 0, 0, 1, 2, 3])) if op in ("track", "track_ine", "validate", "expire") else S(op))
        # merge: registry operations at random positions among the connection's steps
        steps = list(conn)
        for o in ops:
            steps.insert(rng.randrange(len(steps) + 1), o)
        steps.append(S("close"))
        stream = {"kind": "flight", "reg": rng.choice([0, 0, 0, 2]), "key": rng.choice([0, 1]),
                  "extra_len": 0 if tr == "obfs4" else rng.choice([0, 9]), "extra_seed": rng.randrange(1 << 30)}
        if stream["reg"] == 2 and regs[2]["transport"] == "obfs4":
            stream["extra_len"] = 0
        add("random-interleaving", tr, regs, stream, steps)
    return cases


# ------------------------------------------------------------------ bookkeeping of the history (direct oracle)
class Book:
    """'currently validated and unexpired', step by step, from the executed history alone"""

    def __init__(self, regs, res):
        self.regs, self.res = regs, res
        self.st = {}

    def key(self, k):
        return (self.regs[k]["other"], self.res["ids"][k])

    def sweep(self):
        # unexpired = lifetime counted from the ORIGINAL registration: 10 min while never used, 6 h once used
        for key in [k for k, e in self.st.items() if e[2] > (21600 if e[3] else 600)]:
            del self.st[key]

    def used(self, k):
        e = self.st.get(self.key(k))
        if e is not None:
            e[3] = True

    def apply(self, step, sres):
        op = step["op"]
        if op == "advance":
            self.st.clear()
            return
        if op == "age":
            for e in self.st.values():
                e[2] += step["n"]
            self.sweep()
            return
        if op == "sweep":
            self.sweep()
            return
        if op == "track_ine":
            op = "track"
        if op not in ("track", "validate", "expire"):
            return
        k = step["reg"]
        if k < 0 or k >= len(self.regs) or self.res["obj_err"][k] or sres.get("note") == "noobj" or not self.res["ids"][k]:
            return
        key = self.key(k)
        if op == "track":
            self.st.setdefault(key, [k, False, 0, False])        # received again: nothing changes
        elif op == "validate":
            e = self.st.setdefault(key, [k, False, 0, False])
            if e[0] == k:                     # register() validates only the caller's own object
                e[1] = True
        else:
            self.st.pop(key, None)

    def live(self, k):
        e = self.st.get(self.key(k))
        return e is not None and e[0] == k and e[1]


def oracle(ctx, gc, res):
    """tunnel opened in step k => the property's condition holds in the registry state of step k"""
    case = gc["case"]
    regs, stream = case["regs"], case["stream"]
    book = Book(regs, res)
    live_at_accept = {}
    opened = []          # per connection: objects that got a tunnel
    for step, sres in zip(case["steps"], res["steps"]):
        if step["op"] == "accept" and not sres.get("note"):
            live_at_accept = {k: book.live(k) for k in range(len(regs))}
            opened.append([])
        if step["op"] in ("send", "close") and sres["tunnel"] >= 0:
            j = sres["tunnel"]
            tr = regs[j]["transport"]
            if not opened:
                opened.append([])
            opened[-1].append(j)

            def bad(key, what):
                ctx.fail(key, what, {"conn_case": gc, "observed": {"tunnel_to_object": j, "step": sres, "phantom": res["phantom"],
                                                                   "connection": len(opened)}})
            if stream["kind"] != "flight":
                bad("conn:accept-unknown-secret/" + tr, "a stream that proves no secret opened a tunnel to object %d" % j)
            elif stream.get("key", 0) < 0:
                bad("conn:accept-foreign-station/" + tr, "a flight encrypted to a key that is not the station's opened a tunnel to object %d" % j)
            elif regs[stream["reg"]]["secret"] != regs[j]["secret"] or regs[stream["reg"]]["transport"] != tr:
                bad("conn:accept-wrong-registration/" + tr, "the flight proves the secret of object %d (%s), the tunnel went to object %d (%s)"
                    % (stream["reg"], regs[stream["reg"]]["transport"], j, tr))
            elif regs[j]["other"]:
                bad("conn:accept-cross-phantom/" + tr, "connection to %s was matched to a registration that lives on %s" % (res["phantom"], res["other"]))
            elif not book.live(j):
                e = book.st.get(book.key(j))
                if e is None and live_at_accept.get(j):
                    bad("conn:accept-expired-while-open/" + tr,
                        "the registration was validated when the connection arrived, then expired and was swept while the connection was still being "
                        "classified; the first flight completed afterwards was nevertheless matched to it and a tunnel to its covert address was opened "
                        "(the registry offered %s on the phantom at that moment)" % sres["view"])
                elif e is None:
                    bad("conn:accept-not-registered/" + tr, "tunnel to object %d, which is not tracked on the phantom at the moment of the match "
                        "(expired before the connection arrived, or never registered)" % j)
                elif e[0] != j:
                    bad("conn:accept-stale-object/" + tr, "tunnel to object %d, but the registration stored under its key at the moment of the match is "
                        "object %d (re-registration after expiry)" % (j, e[0]))
                else:
                    bad("conn:accept-not-validated/" + tr, "tunnel to object %d, which is tracked but not validated at the moment of the match" % j)
            elif step["op"] == "send" and j not in sres["view"]:
                bad("conn:accept-not-in-live-view/" + tr, "tunnel to object %d although GetRegistrations(phantom) did not offer it right before the "
                    "bytes that completed the flight were sent (it offered %s)" % (j, sres["view"]))
            elif tr == "prefix" and stream.get("prefix_id") is not None and stream["prefix_id"] != regs[j]["prefix_id"]:
                bad("conn:accept-wrong-prefix", "flight sent under prefix id %d opened a tunnel to a registration of prefix id %d"
                    % (stream["prefix_id"], regs[j]["prefix_id"]))
        if step["op"] in ("send", "close") and sres["tunnel"] >= 0:
            book.used(sres["tunnel"])          # a connection was matched to it: from now on the active lifetime
        book.apply(step, sres)
    total = sum(res["tunnels"])
    if total != sum(len(o) for o in opened) or any(len(o) > 1 for o in opened):
        ctx.fail("conn:tunnel-count", "%d connection(s) opened %d covert connections (per object: %s; attributed per connection: %s)"
                 % (len(opened), total, res["tunnels"], opened), {"conn_case": gc})
    return opened


# ------------------------------------------------------------------ Gallina emission
def g_table(table):
    return "[" + "; ".join("P (%d)%%Z %s %s %s %s" % (r["id"], hexs(bytes.fromhex(r["static"])), gN(r["offset"]),
                                                     gN(r["minlen"]), gN(r["maxlen"])) for r in table) + "]"


def emit(ci, gc, res, nkeys):
    """-> (definition lines, case term)"""
    case = gc["case"]
    regs = case["regs"]
    stream = bytes.fromhex(res["stream"])
    sname = "cst_%d" % ci
    defs = ["Definition %s : bytes := Eval vm_compute in %s." % (sname, hexs(stream))]
    ids = set(i for i in res["ids"] if i)

    def reg_term(k):
        r = regs[k]
        prm = "(PPrefix (%d)%%Z)" % r["prefix_id"] if r["transport"] == "prefix" else "PGeneric"
        return "(R %s %s %s)" % (gN(k + 1), gN(TT[r["transport"]]), prm)

    evs = []             # (connection index or None for registry operations, term)
    # histories in which time passes in stretches ("age") go through the timed registry of ModelTime.v: what a sweep
    # removes is decided by the model's own timeout records (RunTime.flat_x)
    timed = any(st["op"] == "age" for st in case["steps"])

    def key_of(k):
        return gN(1 if regs[k]["other"] else 0), hexs(bytes.fromhex(res["ids"][k]))
    off = 0
    conn = -1
    hs_true = set()
    for step, sres in zip(case["steps"], res["steps"]):
        op = step["op"]
        k = step["reg"]
        if op in ("track", "track_ine", "validate", "expire"):
            if k < 0 or k >= len(regs) or res["obj_err"][k] or sres.get("note") == "noobj" or not res["ids"][k]:
                continue
            ph, ident = key_of(k)
            if op in ("track", "track_ine"):
                evs.append((None, "XReg (Track %s %s %s)" % (ph, ident, reg_term(k))))
            elif op == "validate":
                evs.append((None, "XReg (Validate %s %s %s)" % (ph, ident, reg_term(k))))
            else:
                evs.append((None, "XReg (Expire %s %s)" % (ph, ident)))
        elif op == "sweep":
            evs.append((None, "XReg Sweep"))
        elif op == "advance":
            evs.append((None, "XReg ExpireAll"))
        elif op == "age":
            evs.append((None, "TT (TAge %s)" % gN(step["n"])))
            evs.append((None, "TT TSweep"))
        elif op == "accept":
            if sres.get("note"):
                continue
            conn += 1
            off = 0
            evs.append((conn, "XAccept"))
        elif op == "send":
            reads = sres["reads"] or []
            calls = sres["calls"] or []
            cum = off
            groups = []
            for n in reads:
                cum += n
                groups.append((n, cum, []))
            for cl in calls:
                g = [x for x in groups if x[1] == cl["n"]]
                if g:
                    g[0][2].append(cl)
                elif groups:
                    groups[-1][2].append(dict(cl, res="found_foreign"))     # a call on a buffer length no Read produced
                else:
                    groups.append((0, cum, [cl]))
            for gi, (n, cumn, cls_) in enumerate(groups):
                cts = []
                for cl in cls_:
                    name = cl["obj"] + 1 if cl["obj"] >= 0 and cl["res"] in ("found", "err_other") else 0
                    cons = cl["consumed"] if cl["res"] == "found" else 0
                    if cl["res"] == "found" and cl["t"] == "obfs4" and cl["obj"] >= 0:
                        hs_true.add(cl["obj"])
                    cts.append("(%s, (%s, %s, %s))" % (gN(TRCODE[cl["t"]]), gN(CLS[cl["res"]]), gN(name), gN(cons)))
                tun = sres["tunnel"] + 1 if (sres["tunnel"] >= 0 and gi == len(groups) - 1) else 0
                chunk = "(take %s (drop %s %s))" % (gN(n), gN(cumn - n), sname) if n else "(@nil N)"
                evs.append((conn, "XRead %s %s %s" % (chunk, "[" + "; ".join(cts) + "]" if cts else "(@nil ocall)", gN(tun))))
            if not groups and sres["tunnel"] >= 0:
                evs.append((conn, "XRead (@nil N) (@nil ocall) %s" % gN(sres["tunnel"] + 1)))
            off = cum
        elif op == "close":
            if sres["tunnel"] >= 0:     # a tunnel nothing announced
                evs.append((conn, "XRead (@nil N) (@nil ocall) %s" % gN(sres["tunnel"] + 1)))
            evs.append((conn, "XErr"))
        if timed and op in ("send", "close") and sres["tunnel"] >= 0 and res["ids"][sres["tunnel"]]:
            # the handler marks the matched registration active (the replay checks that the tunnel observed is the
            # registration the model is matched to)
            evs.append((None, "TT (TUse %s %s)" % key_of(sres["tunnel"])))
    if timed:
        def tw(t):
            if t.startswith("TT "):
                return t
            if t == "XReg Sweep":
                return "TT TSweep"
            if t == "XReg ExpireAll":
                return "TT (TAge 25200); TT TSweep"
            if t.startswith("XReg "):
                return "TT (TO %s)" % t[5:]
            return "TX (%s)" % t
        evs = [(c_, tw(t)) for (c_, t) in evs]
    rt = "[" + "; ".join("(%s, %s, %s)" % (gN(e["key"]), gN(e["off"]), ("Some %s" % hexs(bytes.fromhex(e["id"]))) if e["id"] in ids else "G")
                         for e in (res["reveals"] or [])) + "]" if res["reveals"] else "(@nil (N * N * option bytes))"
    marks = {}          # per identifier: objects that share a secret share the identifier, the mark and the handshake keys
    for m in (res["marks"] or []):
        i = res["ids"][m["obj"]]
        if i:
            e = marks.setdefault(i, [m["mark"], False])
            e[1] = e[1] or m["obj"] in hs_true
    mt = "[" + "; ".join("(%s, %s, %s)" % (hexs(bytes.fromhex(i)), hexs(bytes.fromhex(mk)), "true" if h else "false")
                         for i, (mk, h) in sorted(marks.items())) + "]" if marks else "(@nil (bytes * bytes * bool))"
    # the handler never changes what the transports look up: every connection of the case is replayed on its own
    # against the registry operations of the whole case
    terms = []
    for cn in range(max(conn, 0) + 1):
        mine = [t for (c_, t) in evs if c_ is None or c_ == cn]
        terms.append("(ctbl, %s, 0, %s, %s, %s, %s[%s]%s)" % (gN(nkeys), rt, mt, sname, "(flat_x " if timed else "", ";\n   ".join(mine), ")" if timed else ""))
    return defs, terms


# ------------------------------------------------------------------ lane
REQUIRED = []
for _tr in TRANSPORTS:
    for _name, _steps, _exp in templates(_tr):
        REQUIRED.append("conn/%s/%s/%s" % (_name, _tr, "tunnel" if _exp is not None else "no-tunnel"))
REQUIRED += ["conn/matched-before-expiry/min/tunnel", "conn/matched-before-expiry/prefix/tunnel", "conn/wrong-prefix/prefix/no-tunnel",
             "conn/random-interleaving/tunnel", "conn/random-interleaving/no-tunnel", "conn/random-stream/min/no-tunnel",
             "conn/foreign-station-key/prefix/no-tunnel"]


def driver_problem(out):
    out = out or ""
    if "[build failed]" in out or "undefined:" in out or "has no field or method" in out or "cannot use" in out:
        errs = [l for l in out.splitlines() if ".go:" in l][:6]
        return ("the in-package driver harness/inpkg/c02/conn_driver_test.go (+ its two export shims) no longer COMPILES against the tree "
                "under test (no statement about conjure's behaviour; it calls connManager.handleNewTCPConn(regManager, conn, phantom), "
                "newConnManager, RegistrationManager.{NewRegistration, TrackRegistration, AddRegistration, RemoveOldRegistrations, "
                "GetRegistrations, CountRegistrations, GetWrappingTransports, AddTransport} and reads RegisteredDecoys.{decoysTimeouts, m, "
                "transports, registerForDetector, updateInDetector}, DecoyTimeout.{decoy, identifier, registrationTime}): %s" % " | ".join(errs))
    if "panic:" in out:
        return "the connection driver process crashed: " + out[out.index("panic:"):][:600]
    return "the connection driver did not produce results: " + out[-800:]


def run_lane(ctx, table_hint=None):
    """returns nothing; reports through ctx"""
    ctx.assumptions += [
        "connection lane: the kernel's TCP is replaced by an in-memory pipe (a Write returns when the handler has read the bytes); registry "
        "operations are interleaved with the connection at Read granularity (they run while the handler is parked in a Read) - mutation "
        "concurrent with one lookup is C09's; the station's single sweeper is represented by serialised calls of the real RemoveOldRegistrations",
        "connection lane: expiry = the timeout record moved 7 h into the past + the real sweep (the 10 min / 6 h lifetimes themselves are C08's; "
        "composed in coq/C02/PropsBridge.v)",
    ]
    ctx.cov["trusted_base"] = list(ctx.cov.get("trusted_base", [])) + [
        "hand-written handler model coq/C02/ModelConn.v tied to cmd/application/conns.go handleNewTCPConn by the replay of every recorded "
        "connection (coq/C02/RunConn.v; the replay is proved sound for the model's step function: C02_conn_replay_is_model_run)",
        "overlay-only export shims harness/inpkg/c02/{lib_export_conn.go, obfs4_export_conn.go} (detector hooks, ageing of timeout records, "
        "the station's obfs4 mark derivation)",
    ]
    ctx.cov["rule"] = (ctx.cov.get("rule", "") + "; connection lane: a case is one history (registry operations interleaved with the steps of "
                       "one or two connections handled by the real handleNewTCPConn), hash-distinct by (class, transport, steps, outcome, "
                       "stream); kinds are conn/<history class>/<transport>/<tunnel|no-tunnel>")
    replayed = []
    for f in (ctx.replay or {}).get("failures", []) + (ctx.replay or {}).get("theorem_or_correspondence", []):
        c = f.get("case") or {}
        if "conn_case" in c:
            replayed.append(c["conn_case"])
    # the prefix table of the running code is needed to place the cuts: a first empty run dumps it
    rc, out, res = ctx.go_inpkg(MOD, ".", FILES, "^TestVerifC02Conn$", [], extra_overlay=EXTRA)
    if not res or not res.get("table"):
        ctx.broken("driver", driver_problem(out))
        return
    table, nkeys = res["table"], res["nkeys"]
    gcs = replayed + gen_cases(ctx, table)
    rc, out, res = ctx.go_inpkg(MOD, ".", FILES, "^TestVerifC02Conn$", [g["case"] for g in gcs], extra_overlay=EXTRA, timeout=900)
    if not res or len(res.get("results", [])) != len(gcs):
        ctx.broken("driver", driver_problem(out))
        return
    defs = ["Definition ctbl : list pfx := %s." % g_table(res["table"])]
    terms, meta = [], []
    hist = ctx.cov["histogram"]
    for ci, (gc, r) in enumerate(zip(gcs, res["results"])):
        if r["err"]:
            ctx.broken("driver", "connection case could not be executed: %s" % r["err"], {"conn_case": gc})
            continue
        if any(r["obj_err"]):
            ctx.broken("generator", "registration object could not be built: %s" % r["obj_err"], {"conn_case": gc})
            continue
        for step, sres in zip(gc["case"]["steps"], r["steps"]):
            if sres.get("note", "").startswith(("error", "write", "unknown", "not accepted")):
                ctx.broken("generator", "step %s did not apply: %s" % (step, sres["note"]), {"conn_case": gc})
            if sres["stalled"] and not any(c["res"].startswith("err") for c in sres["calls"]):
                ctx.broken("driver", "the handler neither went back to reading nor returned within 5 s after step %s (no transport error was "
                           "recorded)" % step, {"conn_case": gc})
        opened_all = oracle(ctx, gc, r)
        opened = opened_all[-1] if opened_all else []
        outcome = "tunnel" if opened else "no-tunnel"
        cls = gc["class"]
        kind = "conn/%s/%s" % (cls, outcome) if cls == "random-interleaving" else "conn/%s/%s/%s" % (cls, gc["transport"], outcome)
        ctx.count(("conn", gc["class"], gc["transport"], [(s["op"], s["reg"], s["n"]) for s in gc["case"]["steps"]], outcome, r["stream"][:64]),
                  nontrivial=True, kind=kind)
        if gc["expect"] != "any":
            want = gc["expect"]
            got = opened[0] if opened else None
            if want != got:
                kk = "conn/unexpected-outcome/%s/%s" % (cls, gc["transport"])
                hist[kk] = hist.get(kk, 0) + 1
        d, ts = emit(ci, gc, r, nkeys)
        defs += d
        for t in ts:
            terms.append(t)
            meta.append((gc, r))
        if ci < 2:
            ctx.sample({"lane": "connection", "class": gc["class"], "transport": gc["transport"],
                        "steps": [(s["op"], s["reg"], s["n"]) for s in gc["case"]["steps"]],
                        "observed": [(s["op"], s["tunnel"], [(c["t"], c["res"]) for c in s["calls"]]) for s in r["steps"] if s["op"] == "send"]})
    for base in ("unused", "used"):      # aggregate kinds of the duplicate-then-lifetime classes
        hist["conn/dup-then-lifetime/" + base] = sum(v for k_, v in hist.items() if k_.startswith("conn/dup-then-lifetime/" + base + "-") or
                                                     k_.startswith("conn/dup-then-lifetime/" + base + "/"))
    ctx.require_kinds(REQUIRED + ["conn/dup-then-lifetime/unused", "conn/dup-then-lifetime/used"])
    import os
    dname = "defs_C02_conn_%d" % os.getpid()
    rc, o3 = ctx.coq_eval(dname, HEADER + "\n".join(defs) + "\n")
    if rc != 0:
        ctx.broken("model-eval", "coqc failed on the generated connection definitions: %s" % o3[-600:])
        return
    header = HEADER + "From CJ Require Import gen.%s.\n" % dname
    mm = ctx.coq_mismatches("conn", header, terms, "chk_conn", shard=max(20, (len(terms) + 7) // 8))
    if mm:
        ctx.cov["mismatches"] += len(mm)
        gc, r = meta[mm[0]]
        shown = ctx.coq_show("cmm", header, "show_conn %s" % terms[mm[0]])
        ctx.broken("correspondence", "the handler model (coq/C02/ModelConn.v) and the real handleNewTCPConn disagree on %d connection histor%s; first: "
                   "class %s, %s: steps %s; observed %s; model states after each event: %s"
                   % (len(mm), "y" if len(mm) == 1 else "ies", gc["class"], gc["transport"],
                      [(s["op"], s["reg"], s["n"]) for s in gc["case"]["steps"]],
                      [(s["op"], "tunnel=%d" % s["tunnel"], [(c["t"], c["n"], c["res"], c["obj"]) for c in s["calls"]]) for s in r["steps"] if s["op"] in ("send", "accept")],
                      shown[-500:]),
                   {"conn_case": gc})
    if os.environ.get("VERIF_KEEP") != "1":
        import lib
        for fn in os.listdir(lib.GEN):
            if fn.startswith((dname + ".", "." + dname + ".")):
                os.remove(os.path.join(lib.GEN, fn))
