"""C20 — the client's stored ClientConf is replaced atomically.

Tie to the code (pkg/client/assets/assets.go), on every run:
 (a) scripted stores of the real client library run in child processes under strace; the system
     calls touching the assets directories are projected onto the model's step alphabet and must
     equal the model's trace (Coq, vm_compute), together with the result of every call, the
     in-memory configuration after it and the directory listings;
 (b) kill test: children storing small and multi-megabyte configurations in a loop are SIGKILLed
     at random instants; the file must be the previous or the new configuration;
 (c) injected failures: unwritable directory (euid / read-only mount), RLIMIT_FSIZE and a full
     tmpfs as quota, directory removed before a store and between close and rename.
The direct oracle evaluates the property's own statement on these observables, independently of
the Coq model.
"""
import re

from lib import gN, gbool, hexs, glist, gopt

HEADER = "From CJ Require Import Common.Base C20.Model C20.Run.\n"
ALPHA = "0123456789abcdefghijklmnopqrstuvwxyzABCDEFGHIJKLMNOPQRSTUVWXYZ"
TMP_RE = re.compile(r"^\.ClientConf\.([0-9a-zA-Z]{5})\.tmp$")
STORE_OPS = ("setconf", "setgen", "setdecoys", "setpubkey", "setsubnets")
READONLY_CALLS = {"newfstatat", "stat", "lstat", "statx", "access", "faccessat", "faccessat2", "readlink",
                  "readlinkat", "statfs", "getxattr", "lgetxattr", "listxattr", "llistxattr", "fstat", "chdir",
                  "inotify_add_watch", "execve", "fsync", "fdatasync", "sync_file_range", "syncfs"}
# calls that neither create nor change the content of a file; ignored on temporaries (clean-up, permissions)
TMP_HOUSEKEEPING = {"unlink", "unlinkat", "chmod", "fchmod", "fchmodat", "fchmodat2", "chown", "fchown", "fchownat",
                    "utimensat", "utime", "utimes", "futimesat"}


def b62(s):
    n = 0
    for ch in s:
        n = n * 62 + ALPHA.index(ch)
    return n


# ------------------------------------------------------------------ case generation
class Case:
    def __init__(self, name, ndirs=2, unshare=False):
        self.name = name
        self.ndirs = ndirs          # the last directory is the scratch directory the child starts in
        self.script = []
        self.meta = []              # per script op: the injected cause in force
        self.inject = []
        self.unshare = unshare
        self.intervene = None
        self.kill = None
        self.pre = None
        self.quiet = False
        self.kp = None
        self.needs = []
        self.seed = 0
        self.valid = []             # hex strings known to be marshalled configurations (beyond the observed ones)
        self.env = {"euid": 0, "rlimit": None, "ro": set(), "full": set(), "gone": set(), "mode": {},
                    "rename_fail": False, "close_fail": False, "interv": None}
        self.add("setdir", dir="$D%d" % (ndirs - 1))

    def add(self, op, **kw):
        d = {"op": op}
        d.update(kw)
        self.script.append(d)
        e = self.env
        self.meta.append({"euid": e["euid"], "rlimit": e["rlimit"], "ro": set(e["ro"]), "full": set(e["full"]),
                          "gone": set(e["gone"]), "mode": dict(e["mode"]), "rename_fail": e["rename_fail"],
                          "close_fail": e["close_fail"], "interv": e["interv"]})
        if op in STORE_OPS:
            e["interv"] = None
        return self

    def ls_all(self):
        for i in range(self.ndirs - 1):
            self.add("ls", dir="$D%d" % i)
        return self

    def store(self, op, **kw):
        self.add(op, **kw)
        return self.ls_all()

    def to_json(self):
        d = {"name": self.name, "script": self.script, "ndirs": self.ndirs, "strace": True, "inject": self.inject,
             "unshare": self.unshare, "seed": self.seed}
        if self.intervene:
            d["intervene"] = self.intervene
        if self.pre:
            d["pre"] = self.pre
        d["quiet"] = self.quiet
        d["needs"] = self.needs
        if self.kill:
            d = {"name": self.name, "ndirs": 1, "kill": self.kill, "seed": self.seed, "script": []}
        return d


def ser_case(c):
    return {"name": c.name, "ndirs": c.ndirs, "unshare": c.unshare, "script": c.script, "inject": c.inject, "needs": c.needs,
            "intervene": c.intervene, "valid": c.valid,
            "meta": [{k: (sorted(v) if isinstance(v, set) else v) for k, v in m.items()} for m in c.meta]}


def replay_items(ctx, key):
    """cases stored in a replay file (under failures[].case / theorem_or_correspondence[].case)"""
    rp = ctx.replay or {}
    out = []
    for ent in (rp.get("failures") or []) + (rp.get("theorem_or_correspondence") or []) + (rp.get("broken") or []):
        cs = ent.get("case") or {}
        for x in cs.get(key) or []:
            if x not in out:
                out.append(x)
    return out


def cfg(rng, size="small", gen=None, **kw):
    nd = {"tiny": rng.randrange(0, 3), "small": rng.randrange(1, 12), "medium": rng.randrange(20, 90)}[size]
    d = {"gen": gen if gen is not None else rng.randrange(1, 1 << 20), "ndecoys": nd, "seed": rng.randrange(1 << 30),
         "keylen": rng.choice([0, 16, 32, 32, 32])}
    d.update(kw)
    return d


KINDS = ["setconf", "setgen", "setdecoys", "setpubkey", "setsubnets"]


def store_kind(c, rng, kind, size="small", **kw):
    """one store through the named API call (setconf = whole ClientConf, the others edit one field in place)"""
    if kind == "setconf":
        c.store("setconf", cfg=cfg(rng, size, **kw))
    elif kind == "setgen":
        c.store("setgen", gen=rng.randrange(1, 1 << 31))
    elif kind == "setdecoys":
        c.store("setdecoys", n=rng.randrange(1, 40), seed=rng.randrange(1 << 30))
    elif kind == "setpubkey":
        c.store("setpubkey", n=rng.choice([16, 32]), seed=rng.randrange(1 << 30))
    else:
        c.store("setsubnets", n=rng.randrange(1, 100))


def all_kinds(c, rng, size="small"):
    for k in KINDS:
        store_kind(c, rng, k, size)


def rand_store(c, rng, size=None):
    k = rng.random()
    size = size or rng.choice(["tiny", "small", "small", "medium"])
    if k < 0.5:
        c.store("setconf", cfg=cfg(rng, size))
    elif k < 0.62:
        c.store("setgen", gen=rng.randrange(1, 1 << 31))
    elif k < 0.74:
        c.store("setdecoys", n=rng.randrange(0, 40), seed=rng.randrange(1 << 30))
    elif k < 0.84:
        c.store("setpubkey", n=rng.choice([0, 16, 32]), seed=rng.randrange(1 << 30))
    elif k < 0.92:
        c.store("setsubnets", n=rng.randrange(1, 100))
    elif k < 0.96:
        c.store("setconf", cfg={"empty": True})
    else:
        c.store("setconf", cfg=cfg(rng, "small", bad=True))


def finish_case(c):
    """reload through the real loader: switch to the scratch directory and back"""
    for i in range(c.ndirs - 1):
        if i in c.env["gone"]:
            continue
        c.add("setdir", dir="$D%d" % (c.ndirs - 1))
        c.add("setdir", dir="$D%d" % i)
    c.ls_all()
    return c


def gen_scripted(ctx):
    """Every fault class puts EVERY kind of store (whole-ClientConf replacement and each single-field
    mutator) under the fault; one-shot interventions rotate through the kinds."""
    rng = ctx.rng
    quick = ctx.tier == "quick"
    cases = []
    # S1 healthy sequences over two assets directories
    for n in range(6 if quick else 40):
        c = Case("healthy%d" % n, ndirs=3)
        c.add("setdir", dir="$D0")
        if n % 3 == 0:
            all_kinds(c, rng)
            c.store("setconf", cfg=cfg(rng, "small", bad=True))     # proto.Marshal fails: rollback, no system call
        for _ in range(rng.randrange(3, 9)):
            if rng.random() < 0.2:
                c.add("setdir", dir="$D%d" % rng.randrange(0, 2))
            rand_store(c, rng)
        cases.append(finish_case(c))
    # S2 initial contents: absent / valid / garbage / empty file, stale temporaries
    inits = [None, "1005", "10ffffffff0f", "ffffffffff", "0a05", ""]
    for n, init in enumerate(inits if quick else inits * 3):
        c = Case("init%d" % n, ndirs=2)
        if init is not None:
            c.add("writefile", dir="$D0", name="ClientConf", data=init)
        if init in ("1005", "10ffffffff0f", ""):
            c.valid.append(init)
        if rng.random() < 0.7:
            c.add("writefile", dir="$D0", name=".ClientConf.%s.tmp" % "".join(rng.choice(ALPHA) for _ in range(5)),
                  data="00112233")
        c.add("setdir", dir="$D0").ls_all()
        store_kind(c, rng, KINDS[n % 5])      # the first store on top of that initial content, by every kind of call
        for _ in range(rng.randrange(0, 3)):
            rand_store(c, rng)
        cases.append(finish_case(c))
    # S3 quota through RLIMIT_FSIZE: a write lands k bytes, then fails
    ks = [0, 1, 2, 50, 101, 102, 103, 400, 4095, 4096, 4097, 100000]
    for n in range(len(ks) if quick else 4 * len(ks)):
        k = ks[n % len(ks)] if n < len(ks) else rng.choice([rng.randrange(0, 300), rng.randrange(0, 6000)])
        c = Case("rlimit%d" % n, ndirs=2)
        c.add("setdir", dir="$D0")
        c.store("setconf", cfg={"gen": 7, "ndecoys": 2, "seed": 1, "keylen": 32})
        c.add("rlimit", k=k)
        c.env["rlimit"] = k
        c.store("setconf", cfg=cfg(rng, rng.choice(["tiny", "small", "medium"])))
        if k < 100:
            all_kinds(c, rng)                 # every kind of store rewrites the whole file: all of them hit the quota
        elif rng.random() < 0.5:
            rand_store(c, rng)
        c.add("rlimit", k=-1)
        c.env["rlimit"] = None
        rand_store(c, rng, "small")
        cases.append(finish_case(c))
    # S4 unwritable directory: the store runs with an unprivileged effective uid
    for n in range(2 if quick else 8):
        c = Case("euid%d" % n, ndirs=2)
        c.needs = ["root"]
        c.add("setdir", dir="$D0")
        if n % 2 == 0:
            c.store("setconf", cfg=cfg(rng, "small"))
        if n % 4 >= 2:
            c.add("chmod", dir="$D0", k=0o555)
        c.add("seteuid", uid=65534)
        c.env["euid"] = 65534
        all_kinds(c, rng)
        c.add("seteuid", uid=0)
        c.env["euid"] = 0
        if n % 4 >= 2:
            c.add("chmod", dir="$D0", k=0o755)
        rand_store(c, rng, "small")
        cases.append(finish_case(c))
    # S5 a separate, small file system (tmpfs in a private mount namespace): healthy, full, read-only
    for n in range(2 if quick else 8):
        c = Case("tmpfs%d" % n, ndirs=2, unshare=True)
        c.needs = ["mount"]
        c.add("mount_tmpfs", dir="$D0", size="256k")
        c.add("setdir", dir="$D0")
        c.store("setconf", cfg=cfg(rng, "small"))
        c.add("fill", dir="$D0", k=rng.choice([0, 100]))            # no free page: nothing of the write lands
        c.env["full"].add(0)
        all_kinds(c, rng, "medium")
        c.add("fill", dir="$D0", k=4096)                            # one free page: a prefix lands
        c.store("setconf", cfg=cfg(rng, "medium", ndecoys=rng.randrange(125, 180)))
        store_kind(c, rng, KINDS[1 + n % 4])
        c.add("remount_ro", dir="$D0")
        c.env["ro"].add(0)
        all_kinds(c, rng)
        c.ls_all()
        cases.append(c)
    # S6 the directory vanishes (and re-appears) between stores
    for n in range(3 if quick else 9):
        c = Case("vanish%d" % n, ndirs=3)
        c.add("setdir", dir="$D0")
        c.store("setconf", cfg=cfg(rng, "small"))
        c.add("rmdir", dir="$D0")
        c.env["gone"].add(0)
        all_kinds(c, rng)
        if n % 3 == 1:
            c.add("setdir", dir="$D1")
            c.store("setconf", cfg=cfg(rng, "small"))
            c.add("setdir", dir="$D0")      # stat fails: stays in $D1
            rand_store(c, rng, "small")
        if n % 3 != 2:
            c.add("mkdir", dir="$D0")
            c.env["gone"].discard(0)
            rand_store(c, rng, "small")
        cases.append(finish_case(c))
    # S7 the directory is removed under one store: between close and rename (rename entry delayed by strace) or
    #    between open and write (open exit delayed; the write then goes to an unlinked file); every kind of store
    for n in range(10 if quick else 20):
        c = Case("midrm%d" % n, ndirs=2)
        c.needs = ["strace"]
        at_open = n % 2 == 1
        act = "rmdir" if (n // 2) % 2 == 0 else "rmdir_mkdir"
        c.add("setdir", dir="$D0")
        if at_open:
            c.inject = ["openat:delay_exit=400000:when=300+"]
            c.add("arm_open")
            c.intervene = {"wait_tmp_size": -1, "action": act, "dir": "$D0", "delay_ms": 0}
        else:
            c.inject = ["renameat:delay_enter=1000000"]
            c.intervene = {"wait_tmp_size": -1, "action": act, "dir": "$D0", "delay_ms": 60}
        c.env["interv"] = act + ("@open" if at_open else "")
        store_kind(c, rng, KINDS[(n // 2) % 5])
        if act == "rmdir":
            c.env["gone"].add(0)
        c.store("setconf", cfg=cfg(rng, "small"))
        cases.append(finish_case(c))
    # S8 rename itself fails (error injected by strace)
    for n in range(1 if quick else 4):
        c = Case("renfail%d" % n, ndirs=2)
        c.needs = ["strace"]
        c.add("writefile", dir="$D0", name="ClientConf", data="1005")
        c.valid.append("1005")
        c.inject = ["renameat:error=" + rng.choice(["EIO", "ENOSPC", "EACCES"])]
        c.env["rename_fail"] = True
        c.add("setdir", dir="$D0")
        all_kinds(c, rng)
        cases.append(finish_case(c))
    # S9 close fails after a complete write (error injected by strace into every close of the child)
    for n in range(1 if quick else 4):
        c = Case("closefail%d" % n, ndirs=2)
        c.needs = ["strace"]
        c.add("writefile", dir="$D0", name="ClientConf", data="1005")
        c.valid.append("1005")
        c.inject = ["close:error=EIO:when=400+"]
        c.add("setdir", dir="$D0")
        c.add("arm_close")
        c.env["close_fail"] = True
        all_kinds(c, rng)
        cases.append(finish_case(c))
    for c in replay_items(ctx, "scripted"):
        rc = Case(c["name"] + "_replay", ndirs=c["ndirs"], unshare=c.get("unshare", False))
        rc.script, rc.meta, rc.inject, rc.intervene, rc.valid = c["script"], c["meta"], c.get("inject", []), c.get("intervene"), c.get("valid", [])
        rc.needs = c.get("needs", [])
        for m in rc.meta:
            for k in ("ro", "full", "gone"):
                m[k] = set(m[k])
        cases.insert(0, rc)
    return cases


def gen_kill(ctx):
    rng = ctx.rng
    quick = ctx.tier == "quick"
    small = [{"gen": 1, "ndecoys": 3, "seed": 11, "keylen": 32}, {"gen": 1, "ndecoys": 40, "seed": 12, "keylen": 32},
             {"gen": 1, "ndecoys": 1, "seed": 13, "keylen": 16}]
    big = [{"gen": 1, "ndecoys": 70000, "seed": 21, "keylen": 32}, {"gen": 1, "ndecoys": 45000, "seed": 22, "keylen": 32}]
    mixed = [big[0], small[0], big[1], small[1]]
    out = []
    plan = [("small", small, 12 if quick else 120, 6.0), ("big", big, 14 if quick else 150, 120.0),
            ("mixed", mixed, 14 if quick else 130, 80.0)]
    for name, vs, trials, maxms in plan:
        # several independent children in parallel
        parts = 2 if quick else 6
        for p in range(parts):
            c = Case("kill_%s_%d" % (name, p), ndirs=1)
            c.kill = {"trials": max(1, trials // parts), "variants": vs, "max_ms": maxms}
            c.seed = rng.randrange(1 << 30)
            out.append(c)
    # two processes storing into the same directory at the same time
    for name, vs, trials, maxms in [("small", small, 16 if quick else 160, 8.0), ("mixed", mixed, 8 if quick else 80, 80.0)]:
        parts = 2 if quick else 4
        for p in range(parts):
            c = Case("kill2_%s_%d" % (name, p), ndirs=1)
            c.kill = {"trials": max(1, trials // parts), "variants": vs, "max_ms": maxms, "writers": 2,
                      "count": 40 if name == "small" else 6}
            c.seed = rng.randrange(1 << 30)
            out.append(c)
    for n, k in enumerate(replay_items(ctx, "killcase")):
        c = Case("kill_%s_replay%d" % (k.get("kind", "small"), n), ndirs=1)
        c.kill = {"trials": k.get("trials", 20), "variants": k["variants"], "max_ms": k.get("max_ms", 50.0),
                  "writers": k.get("writers", 1), "count": k.get("count", 0)}
        if c.kill["writers"] == 2:
            c.name = "kill2_%s_replay%d" % (k.get("kind", "small"), n)
        c.seed = k.get("seed", 0)
        out.insert(0, c)
    return out


def gen_killpoints(ctx):
    """deterministic crash points: strace kills the child on entry of the store's first write / of its rename"""
    rng = ctx.rng
    out = []
    for n in range(6 if ctx.tier == "quick" else 36):
        c = Case("kp%d" % n, ndirs=2)
        c.quiet = True
        a = cfg(rng, "small")
        if n % 3 == 0:
            c.inject, c.kp, c.needs = ["renameat:signal=SIGKILL"], "before-rename", ["strace"]
            b = cfg(rng, rng.choice(["tiny", "small", "medium"]))
        else:
            c.kp = "mid-write"
            b = cfg(rng, "medium")
        c.kp_has_prev = (n // 3) % 3 != 2
        c.pre = [{"op": "setdir", "dir": "$D1"}, {"op": "setdir", "dir": "$D0"}]
        if c.kp_has_prev:
            c.pre.append({"op": "setconf", "cfg": a})
        c.pre.append({"op": "digest", "cfg": b})
        c.add("setdir", dir="$D0")
        if c.kp == "mid-write":
            c.kp_k = rng.choice([0, 1, rng.randrange(2, 500), rng.randrange(2, 500)])
            c.add("rlimit", k=c.kp_k)
            c.add("xfsz_default")
        c.add("setconf", cfg=b)
        out.append(c)
    # multi-megabyte stores that the Coq model rebuilds from the byte generator (lcg_bytes): killed before the rename
    # and in the middle of the write
    sizes = [400000, 400000] if ctx.tier == "quick" else [1200000, 1200000, 2300000, 2300000, 700000, 700000]
    for n, size in enumerate(sizes):
        c = Case("kpbig%d" % n, ndirs=2)
        c.quiet, c.kp_big, c.kp_has_prev = True, True, True
        a = cfg(rng, "small")
        b = {"gen": rng.randrange(1, 1 << 20), "ndecoys": rng.randrange(1, 6), "seed": rng.randrange(1 << 30), "keylen": 0,
             "keygen_seed": rng.randrange(1, 1 << 30), "keygen_n": size}
        if n % 2 == 0:
            c.inject, c.kp, c.needs = ["renameat:signal=SIGKILL"], "before-rename", ["strace"]
        else:
            c.kp = "mid-write"
        c.pre = [{"op": "setdir", "dir": "$D1"}, {"op": "setdir", "dir": "$D0"}, {"op": "setconf", "cfg": a}, {"op": "digest", "cfg": b}]
        c.add("setdir", dir="$D0")
        if c.kp == "mid-write":
            c.kp_k = rng.randrange(size // 8, size - 1000)
            c.add("rlimit", k=c.kp_k)
            c.add("xfsz_default")
        c.add("setconf", cfg=b)
        out.append(c)
    return out


def same_dig(a, b):
    return bool(a and b and a.get("has") and b.get("has") and a["len"] == b["len"] and a["sha"] == b["sha"])


def g_ospec(dig):
    if "hex" in dig or dig["len"] == 0:
        return "(OLit %s)" % ihex(bytes.fromhex(hx(dig)))
    return "(OSamp %s %s)" % (gN(dig["len"]), glist(dig.get("samp") or [], lambda gv: "(%d%%nat, %s)" % (gv[0], gN(gv[1]))))


def eval_kp(ctx, c, out):
    if out.get("skipped"):
        ctx.count((c.name, "skipped"), nontrivial=False, kind="skipped/no-%s/kill-point-%s" % (out["skipped"], c.kp))
        return []
    pre = out.get("pre_res") or []
    case_id = {"case": c.name, "crash_point": c.kp, "pre": c.pre, "script": c.script, "exit": out["exit"]}
    if len(pre) != len(c.pre) or ("killed" not in out["exit"] and "file size limit" not in out["exit"]):
        ctx.broken("driver", "kill-point case %s: pre-phase %d/%d results, child exit %s (expected to be killed by strace at %s)"
                   % (c.name, len(pre), len(c.pre), out["exit"], c.kp))
        return []
    prev = pre[2]["want"] if c.kp_has_prev else {"has": False, "len": 0}
    new = pre[-1]["want"]
    ls = (out.get("post_ls") or [[]])[0] or []
    file = next((e["dig"] for e in ls if e["name"] == "ClientConf"), None)
    temps = [e for e in ls if e["name"] != "ClientConf"]
    big = bool(getattr(c, "kp_big", False))
    if file is None:
        match = "prev" if not prev["has"] else "absent"
    elif same_dig(file, prev):
        match = "prev"
    elif same_dig(file, new):
        match = "new"
    else:
        match = "none"
    ctx.count((c.name, c.kp, match, len(temps)), nontrivial=True,
              kind="kill/kp%s-%s/%s/%s" % ("big" if big else "", c.kp, match, "in-temp" if temps else "between"))
    if match == "none":
        ctx.fail("kill:kp-%s:file-neither-previous-nor-new" % c.kp, "process killed at '%s': the ClientConf file (%d bytes) is neither the "
                 "previous nor the new configuration" % (c.kp, file["len"]), case_id)
    elif match == "absent":
        ctx.fail("kill:kp-%s:file-missing" % c.kp, "process killed at '%s': the ClientConf file is missing" % c.kp, case_id)
    global INTERN
    INTERN = Intern()
    if big:
        parts = pre[-1].get("parts")
        if not parts:
            ctx.broken("driver", "kill-point case %s: the generated key was not found in the marshalled configuration" % c.name)
            return []
        obs = []
        if file is not None:
            obs.append("(Target, %s)" % g_ospec(file))
        r = 0
        for e in temps:
            r = proj_path(out["dirs"][0] + "/" + e["name"], out["dirs"])[1][1]
            obs.append("(Tmp %s, %s)" % (gN(r), g_ospec(e["dig"])))
        newb = "(%s ++ lcg_bytes %s %s ++ %s)" % (ihex(bytes.fromhex(parts["head"])), gN(parts["seed"]), gN(parts["n"]),
                                                  ihex(bytes.fromhex(parts["tail"])))
        nsteps, fw = (3, "NoFault") if c.kp == "before-rename" else (2, "(FailAfter %s)" % gN(c.kp_k))
        pv = "(Some %s)" % ihex(bytes.fromhex(hx(prev))) if prev["has"] else "None"
        return [("big", INTERN.wrap("(%s, %s, %s, %d%%nat, %s, %s)" % (pv, newb, gN(r), nsteps, fw, glist(obs)), "kbig"))]
    obs = []
    if file is not None:
        obs.append("(Target, %s)" % g_bspec(file))
    r, tl = 0, 0
    for e in temps:
        if not hx(new).startswith(hx(e["dig"])):
            ctx.broken("correspondence", "the temporary left at crash point '%s' is not a prefix of the new configuration" % c.kp, case_id)
        pp = proj_path(out["dirs"][0] + "/" + e["name"], out["dirs"])
        r, tl = pp[1][1], e["dig"]["len"]
        obs.append("(Tmp %s, %s)" % (gN(r), g_bspec(e["dig"])))
    pv = "(Some %s)" % ihex(bytes.fromhex(hx(prev))) if prev["has"] else "None"
    return [("small", INTERN.wrap("(%s, %s, %s, %s, %s)" % (pv, ihex(bytes.fromhex(hx(new))), gN(r), gN(tl), glist(obs)), "kcase"))]


# ------------------------------------------------------------------ strace projection
LINE = re.compile(r"^(\d+)\s+(.*)$")


def merge_lines(lines):
    """join '<unfinished ...>' / '<... resumed>' pairs per pid; returns [(pid, text)]"""
    pend, out = {}, []
    for ln in lines:
        m = LINE.match(ln)
        if not m:
            continue
        pid, rest = m.group(1), m.group(2)
        if rest.endswith("<unfinished ...>"):
            pend[pid] = rest[:-len("<unfinished ...>")].rstrip()
            continue
        r = re.match(r"^<\.\.\. (\w+) resumed>(.*)$", rest)
        if r:
            head = pend.pop(pid, r.group(1) + "(")
            out.append((pid, head + r.group(2)))
            continue
        out.append((pid, rest))
    return out


def parse_call(text):
    m = re.match(r"^(\w+)\((.*)\)\s+=\s+(-?\d+|\?)(<[^>]*>)?\s*(.*)$", text)
    if not m:
        return None
    name, args, ret, _, tail = m.groups()
    errno = None
    t = re.match(r"^([A-Z]+)\b", tail)
    if t and ret == "-1":
        errno = t.group(1)
    return {"name": name, "args": args, "ret": int(ret) if ret != "?" else None, "errno": errno, "raw": text}


def proj_path(p, dirs):
    p = p.replace(" (deleted)", "")
    for i, d in enumerate(dirs):
        if p == d:
            return (i, ("dir", 0))
        if p.startswith(d + "/"):
            base = p[len(d) + 1:]
            if base == "ClientConf":
                return (i, ("Target",))
            m = TMP_RE.match(base)
            if m:
                return (i, ("Tmp", b62(m.group(1))))
            # any other file of the directory plays the role of a temporary (the naming scheme is not the property)
            h = 0
            for ch in base.encode():
                h = (h * 131 + ch) % 1000003
            return (i, ("Tmp", 62 ** 5 + h))
    return (99, ("Other", 0))


def project_trace(lines, dirs):
    """-> {op index: [tsteps]}, {op index: [r suffixes]}, list of direct findings.
    A tstep is a tuple; only modifying calls that touch an assets directory are kept."""
    steps, rs, notes = {}, {}, []
    cur = None
    fds = {}     # (pid-agnostic) fd path -> [landed, ok, requested]
    for pid, text in merge_lines(lines):
        mk = re.search(r'"/c20-marker/(\d+)/(begin|end)"', text)
        if mk:
            cur = int(mk.group(1)) if mk.group(2) == "begin" else None
            if cur is not None:
                steps.setdefault(cur, [])
                rs.setdefault(cur, [])
            continue
        if cur is None:
            continue
        c = parse_call(text)
        if c is None:
            continue
        touched = [d for d in dirs if d in c["args"] or d in text]
        if not touched:
            continue
        name, args = c["name"], c["args"]
        if name in READONLY_CALLS:
            continue
        if name in ("openat", "open", "creat"):
            m = re.search(r'"([^"]*)", ([A-Z_|0-9a-fx]+)', args)
            if not m:
                steps[cur].append(("TOther", 1))
                continue
            path, flags = m.group(1), set(m.group(2).split("|"))
            if not (flags & {"O_WRONLY", "O_RDWR", "O_CREAT", "O_TRUNC", "O_APPEND"}) and name != "creat":
                continue    # opened for reading
            pp = proj_path(path, dirs)
            ok = c["ret"] is not None and c["ret"] >= 0
            steps[cur].append(("TCreate", pp, ok))
            if ok:
                fds[path] = [0, True, pp]
            if pp[1][0] == "Tmp":
                rs[cur].append(pp[1][1])
            continue
        if name in ("write", "pwrite64", "writev", "pwritev", "pwritev2"):
            m = re.match(r"^\d+<([^>]*)>", args)
            path = m.group(1).replace(" (deleted)", "") if m else None
            if path not in fds:
                steps[cur].append(("TOther", 3))
                continue
            if name != "write":
                steps[cur].append(("TOther", 4))
            if c["ret"] is not None and c["ret"] >= 0:
                fds[path][0] += c["ret"]
            else:
                fds[path][1] = False
            continue
        if name == "close":
            m = re.match(r"^\d+<([^>]*)>", args)
            path = m.group(1).replace(" (deleted)", "") if m else None
            if path in fds:
                landed, wok, pp = fds.pop(path)
                steps[cur].append(("TAppend", pp, landed, wok))
                steps[cur].append(("TClose", pp, c["ret"] == 0))
            continue
        if name in ("rename", "renameat", "renameat2"):
            ps = re.findall(r'"([^"]*)"', args)
            if len(ps) == 2:
                steps[cur].append(("TRename", proj_path(ps[0], dirs), proj_path(ps[1], dirs), c["ret"] == 0))
            else:
                steps[cur].append(("TOther", 5))
            continue
        ps = [proj_path(x, dirs) for x in re.findall(r'"([^"]*)"', args) + re.findall(r"\d+<([^>]*)>", args)]
        if name in TMP_HOUSEKEEPING and ps and all(q[1][0] == "Tmp" or q[0] == 99 for q in ps):
            continue
        steps[cur].append(("TOther", 6, name, any(q[1][0] == "Target" for q in ps)))
    return steps, rs, notes


def g_fname(f):
    if f[0] == "Target":
        return "Target"
    if f[0] == "Tmp":
        return "(Tmp %s)" % gN(f[1])
    return "(Other %s)" % gN(f[1])


def g_path(p):
    return "(%s, %s)" % (gN(p[0]), g_fname(p[1]))


def g_tstep(s):
    if s[0] == "TCreate":
        return "TCreate %s %s" % (g_path(s[1]), gbool(s[2]))
    if s[0] == "TAppend":
        return "TAppend %s %s %s" % (g_path(s[1]), gN(s[2]), gbool(s[3]))
    if s[0] == "TClose":
        return "TClose %s %s" % (g_path(s[1]), gbool(s[2]))
    if s[0] == "TRename":
        return "TRename %s %s %s" % (g_path(s[1]), g_path(s[2]), gbool(s[3]))
    return "TOther %s" % gN(s[1])


def hx(dig):
    return dig.get("hex", "")


class Intern:
    """names for the byte strings of one case, so that every literal is written (and type-checked) once"""
    def __init__(self):
        self.names = {}

    def __call__(self, b):
        h = bytes(b).hex()
        if len(h) < 24:
            return hexs(bytes.fromhex(h))
        if h not in self.names:
            self.names[h] = "b%d" % len(self.names)
        return self.names[h]

    def wrap(self, term, ty):
        """the type annotation keeps a lone `None` / `[]` inside a one-term shard from staying unresolved"""
        lets = "".join("let %s := unhex \"%s\" in\n" % (n, h) for h, n in self.names.items())
        return "((%s%s) : %s)" % (lets, term, ty)


INTERN = Intern()


def ihex(b):
    return INTERN(b)


def g_bspec(dig):
    return "(Lit %s)" % ihex(bytes.fromhex(hx(dig)))


def g_fault(f):
    if f is None:
        return "NoFault"
    if f == "now":
        return "FailNow"
    return "(FailAfter %s)" % gN(f)


# ------------------------------------------------------------------ evaluation of one scripted case
def dir_index(path, dirs):
    for i, d in enumerate(dirs):
        if path == d:
            return i
    return 98


def eval_scripted(ctx, c, out):
    """direct oracle + Gallina term for one scripted case; returns the term or None"""
    dirs = out["dirs"]
    res = out["res"] or []
    name = c.name
    kind = re.sub(r"\d+$", "", name)
    if out.get("skipped"):
        ctx.count((name, "skipped"), nontrivial=False, kind="skipped/no-%s/%s" % (out["skipped"], kind))
        return None
    straced = bool(out.get("straced"))
    if out["exit"] != "ok" or len(res) != len(c.script):
        ctx.broken("driver", "child of case %s did not complete: exit=%s results=%d/%d stderr=%s"
                   % (name, out["exit"], len(res), len(c.script), out.get("stderr", "")[-300:]))
        return None
    if c.intervene and out.get("interv") != "done":
        ctx.count((name, "skipped"), nontrivial=False, kind="skipped/intervention-missed")
        return None
    steps, rs, _ = project_trace(out["trace"] or [], dirs)
    names_seen = {}                    # dir index -> file names listed so far (to spot a new temporary without a trace)
    global INTERN
    INTERN = Intern()
    for r in res:
        for k in ("want", "mem"):
            if r.get(k) and r[k]["has"] and "hex" not in r[k] and r[k]["len"] > 0:
                ctx.broken("driver", "case %s: configuration too large for the scripted check" % name)
                return None
    # ---- direct oracle: the property's statement on the observables
    disk = {}                          # dir index -> hex content or None (as last listed)
    cwd = None
    mem_before = None
    mem0 = None
    valid = set(c.valid)
    items = []
    trace_terms = []
    for i, (op, meta, r) in enumerate(zip(c.script, c.meta, res)):
        o = op["op"]
        case_id = {"case": name, "op_index": i, "op": op, "cause": {k: (sorted(v) if isinstance(v, set) else v) for k, v in meta.items()},
                   "result": {k: v for k, v in r.items() if k in ("err",)}, "scripted": [ser_case(c)]}
        if o == "ls":
            d = dir_index(r["dir"], dirs)
            if r["err"] == "ok":
                ents = []
                disk[d] = None
                names_seen[d] = set(e["name"] for e in r.get("ls") or [])
                for e in r.get("ls") or []:
                    if e["name"] == "filler":
                        continue
                    pp = proj_path(r["dir"] + "/" + e["name"], dirs)
                    if "hex" not in e["dig"] and e["dig"]["len"] > 0:
                        ents.append("(%s, Dig %s %s)" % (g_fname(pp[1]), gN(e["dig"]["len"]), gN(0)))
                    else:
                        ents.append("(%s, %s)" % (g_fname(pp[1]), g_bspec(e["dig"])))
                    if e["name"] == "ClientConf":
                        disk[d] = e["dig"].get("hex", "")
                items.append("ILs %s %s" % (gN(d), glist(ents)))
            else:
                disk[d] = None
                items.append("ILs %s []" % gN(d))
            continue
        if o == "writefile":
            pp = proj_path(dirs[int(op["dir"][2:])] + "/" + op["name"], dirs)
            items.append("IWrite %s %s" % (g_path(pp), ihex(bytes.fromhex(op["data"]))))
            if op["name"] == "ClientConf":
                disk[pp[0]] = op["data"]
            continue
        if o == "rmdir":
            d = int(op["dir"][2:])
            items.append("IEnv (RmDir %s)" % gN(d))
            disk[d] = None
            continue
        if o == "mkdir":
            items.append("IEnv (MkDir %s)" % gN(int(op["dir"][2:])))
            continue
        if o in ("seteuid", "rlimit", "chmod", "mount_tmpfs", "remount_ro", "fill", "arm_close", "arm_open", "xfsz_default", "digest"):
            if r["err"] != "ok":
                if o in ("seteuid", "mount_tmpfs", "remount_ro") and r["err"] in ("EPERM", "EACCES"):
                    ctx.count((name, "skipped"), nontrivial=False, kind="skipped/no-privilege-for-%s" % o)
                    return None
                ctx.broken("driver", "case %s: harness operation %s failed: %s" % (name, o, r["err"]))
                return None
            continue
        ok = r["err"] == "ok"
        memd = r.get("mem")
        mem_hex = hx(memd) if memd and memd["has"] else None
        if o == "setdir":
            d = int(op["dir"][2:])
            if mem0 is None:
                mem0 = mem_hex           # the defaults, read after the first (failing) load from the scratch directory
                cwd = d
                mem_before = mem_hex
                valid.add(mem_hex)
                continue
            pl = "mkPlan 0 NoFault NoFault NoFault NoFault []"
            items.append("IOp (SetDir %s) (%s) (%s, %s)" % (gN(d), pl, gbool(ok), gopt(mem_hex, lambda h: "(Lit %s)" % ihex(bytes.fromhex(h)))))
            trace_terms += [g_tstep(s) for s in steps.get(i, [])]
            newcwd = dir_index(r["dir"], dirs)
            cwd_before = cwd
            # oracle: a successful load makes the in-memory configuration equal to the file
            if newcwd == d and d != cwd and ok and disk.get(d) is not None and mem_hex != disk.get(d):
                ctx.fail("reload:memory-differs-from-file", "after AssetsSetDir the in-memory configuration is not the stored file", case_id)
            if newcwd == d and d != cwd and not ok and disk.get(d) in valid and disk.get(d) is not None:
                ctx.fail("reload:stored-file-not-parseable/%s" % kind, "the real loader cannot read the ClientConf left on disk (%s)" % r["err"], case_id)
            cwd = newcwd
            mem_before = mem_hex
            ctx.count((name, i, "setdir"), nontrivial=True, kind="setdir/" + ("same" if d == cwd_before else "ok" if ok else "err"))
            continue
        # ---- a store
        want = r["want"]
        want_hex = hx(want) if want["has"] else None
        if want_hex is not None:
            valid.add(want_hex)
        d = cwd
        prev = disk.get(d)
        # which cause is in force, and the adversary plan describing it
        fc = fw = fcl = frn = None
        envs = []
        cause = "healthy"
        stp = steps.get(i, [])
        landed = next((s[2] for s in stp if s[0] == "TAppend"), None)
        if landed is None and not straced:
            # without a trace: the bytes that landed are the length of the temporary the store left behind
            for k in range(i + 1, len(res)):
                if c.script[k]["op"] != "ls":
                    break
                if dir_index(res[k]["dir"], dirs) == d:
                    for e in res[k].get("ls") or []:
                        if e["name"] not in ("ClientConf", "filler") and e["name"] not in names_seen.get(d, set()):
                            landed = e["dig"]["len"]
        if want_hex is None:
            cause = "marshal"
        elif d in meta["gone"]:
            cause = "dir-gone"
        elif meta["euid"] != 0:
            fc, cause = "now", "unwritable"
        elif d in meta["ro"]:
            fc, cause = "now", "readonly-fs"
        elif meta["rlimit"] is not None and want["len"] > meta["rlimit"]:
            fw, cause = meta["rlimit"], "quota-rlimit"
        elif d in meta["full"] and landed is not None and landed < want["len"]:
            fw, cause = landed, "quota-enospc"      # how many bytes fit is the file system's choice
        elif d in meta["full"] and landed is None and not ok:
            fc, cause = "now", "quota-enospc-create"
        elif meta["interv"]:
            at = 1 if meta["interv"].endswith("@open") else 3
            envs = ["(%d, RmDir %s)" % (at, gN(d))] + (["(%d, MkDir %s)" % (at, gN(d))] if meta["interv"].startswith("rmdir_mkdir") else [])
            cause = "dir-removed-before-write" if at == 1 else "dir-removed-before-rename"
        elif meta["rename_fail"]:
            frn, cause = "now", "rename-fails"
        elif meta.get("close_fail"):
            fcl, cause = "now", "close-fails"
        if cause in ("dir-removed-before-rename", "dir-removed-before-write") and ok:
            # the parent lost the race against the (delayed) rename: nothing was injected
            ctx.count((name, "skipped"), nontrivial=False, kind="skipped/intervention-missed")
            return None
        after_ls = {}
        new_tmp = []
        for k in range(i + 1, len(res)):
            if c.script[k]["op"] != "ls":
                break
            dd = dir_index(res[k]["dir"], dirs)
            cont = None
            if res[k]["err"] == "ok":
                for e in res[k].get("ls") or []:
                    if e["name"] == "ClientConf":
                        cont = e["dig"].get("hex", "")
                    elif dd == d and e["name"] != "filler" and e["name"] not in names_seen.get(dd, set()):
                        new_tmp.append(proj_path(res[k]["dir"] + "/" + e["name"], dirs)[1][1])
            after_ls[dd] = cont
        after = after_ls.get(d, prev)
        removed = cause in ("dir-gone", "dir-removed-before-rename", "dir-removed-before-write")
        cls = "ok" if ok else "err"
        ctx.count((name, i, o, cause), nontrivial=True, kind="%s/%s/%s" % (o, cause, cls))
        if after is None and prev is not None and not removed:
            ctx.fail("atomic:%s:file-missing" % cause, "the ClientConf file is gone after a store (%s)" % cause, case_id)
        elif after is not None and after != prev and after != want_hex:
            ctx.fail("atomic:%s:neither-previous-nor-new" % cause,
                     "after a store under '%s' the file (%d bytes) is neither the previous (%s) nor the new configuration (%s bytes)"
                     % (cause, len(after) // 2, "absent" if prev is None else "%d bytes" % (len(prev) // 2),
                        "-" if want_hex is None else len(want_hex) // 2), case_id)
        elif ok and after != want_hex and not removed:
            ctx.fail("atomic:%s:reported-ok-but-not-stored" % cause, "the store returned nil but the file does not hold the new configuration", case_id)
        elif not ok and after is not None and after != prev:
            ctx.fail("atomic:%s:reported-error-but-replaced" % cause, "the store returned an error but the file changed", case_id)
        for dd, cont in after_ls.items():
            if dd != d and cont != disk.get(dd) and not (cont is None and dd in meta["gone"]):
                ctx.fail("atomic:other-directory-touched", "a store changed the ClientConf of another directory", case_id)
        if cause == "healthy" and not ok:
            ctx.fail("liveness:healthy-store-failed:%s" % r["err"].split(":")[0],
                     "a store into a healthy directory failed with %s" % r["err"], case_id)
        if o == "setconf" and not ok and mem_hex != mem_before:
            ctx.fail("rollback:%s" % cause, "SetClientConf failed (%s) but the in-memory configuration is not the previous one" % r["err"], case_id)
        if o == "setconf" and ok and mem_hex != want_hex:
            ctx.fail("rollback:ok-but-memory-not-new", "SetClientConf succeeded but the in-memory configuration is not the new one", case_id)
        # the trace itself: the target may only be touched by a rename from a temporary of the same directory
        for s in (stp if straced else []):
            if s[0] in ("TCreate", "TAppend") and s[1][1][0] == "Target":
                ctx.fail("trace:target-written-in-place", "the store opens/writes the ClientConf file itself (%s): a crash between "
                         "these system calls leaves a truncated file" % s[0], case_id)
            if s[0] == "TOther" and len(s) > 3 and s[3]:
                ctx.fail("trace:target-modified-outside-rename", "the store applies %s to the ClientConf file itself: a crash right "
                         "after it leaves no (or a damaged) ClientConf" % s[2], case_id)
            if s[0] == "TRename" and s[2][1][0] == "Target" and (s[1][0] != s[2][0] or s[1][1][0] != "Tmp"):
                if not any(b["kind"] == "correspondence" and "same directory" in b["what"] for b in ctx.brokens):
                    ctx.broken("correspondence", "the file renamed over ClientConf is not a temporary in the same directory: %s" % (s,), case_id)
        for dd, cont in after_ls.items():
            disk[dd] = cont
        mem_before = mem_hex
        r0 = rs.get(i) or new_tmp or [0]    # the suffix comes from the trace, else from the temporary the store left behind
        rr = r0[0]
        pl = "mkPlan %s %s %s %s %s %s" % (gN(rr), g_fault(fc), g_fault(fw), g_fault(fcl), g_fault(frn), glist(envs))
        wt = "None" if want_hex is None else "(Some %s)" % ihex(bytes.fromhex(want_hex))
        opt = "SetConf %s" % wt if o == "setconf" else "Mutate (fun _ => %s)" % wt
        items.append("IOp (%s) (%s) (%s, %s)" % (opt, pl, gbool(ok), gopt(mem_hex, lambda h: "(Lit %s)" % ihex(bytes.fromhex(h)))))
        trace_terms += [g_tstep(s) for s in stp]
    vt = glist(sorted(v for v in valid if v is not None), lambda h: ihex(bytes.fromhex(h)))
    term = "(%s, %s, %s, %s, %s, %s)" % (vt, ihex(bytes.fromhex(mem0)), gN(c.ndirs - 1), "[" + ";\n  ".join(items) + "]",
                                         glist(trace_terms) if trace_terms else "(@nil tstep)", gbool(straced))
    return INTERN.wrap(term, "scase")


def eval_kill2(ctx, c, out):
    """two writers on one directory: the file must be the complete configuration of a store of one of them"""
    kind = c.name.split("_")[1]
    for t, k in enumerate(out.get("kills2") or []):
        temps = k.get("temps") or []
        case_id = {"case": c.name, "trial": t, "observed": {x: k[x] for x in ("last", "errs", "errcls", "killed", "match", "match_i",
                                                                                 "parse_ok", "gen_in_file", "delay_ms")},
                   "file_len": k["file"]["len"],
                   "killcase": [{"kind": kind, "variants": c.kill["variants"], "seed": c.seed, "trials": c.kill["trials"],
                                 "max_ms": c.kill["max_ms"], "writers": 2, "count": c.kill["count"]}]}
        mode = "killed" if k["killed"] else "to-end"
        ctx.count((c.name, t, tuple(k["last"]), k["match"], len(temps)), nontrivial=sum(k["last"]) > 0,
                  kind="kill2/%s/%s/%s" % (kind, mode, k["match"] if k["match"] in ("prev", "none", "absent") else "writer"))
        if k["match"] == "none":
            ctx.fail("kill2:%s:file-is-no-stored-configuration" % kind,
                     "two processes storing into one directory (%s): the ClientConf file (%d bytes, generation %s) is not the complete "
                     "configuration of any store of either process%s" % (mode, k["file"]["len"], k["gen_in_file"],
                                                                       "" if k["parse_ok"] else " and does not parse"), case_id)
        elif k["match"] == "absent":
            ctx.fail("kill2:%s:file-missing" % kind, "two processes storing into one directory: the ClientConf file is missing", case_id)
        elif not k["killed"] and k["match"].startswith("writer") and k["match_i"] != c.kill["count"]:
            ctx.fail("kill2:%s:final-file-is-not-a-last-store" % kind, "both processes ran to the end but the file holds store %d of %d"
                     % (k["match_i"], c.kill["count"]), case_id)
        if sum(k["errs"]):
            ctx.fail("kill2:%s:healthy-store-failed" % kind, "two processes storing into one healthy directory: %d store(s) returned an "
                     "error (%s)" % (sum(k["errs"]), ",".join(k.get("errcls") or [])), case_id)
        if not k["killed"] and temps:
            ctx.fail("kill2:%s:temporary-left-after-success" % kind, "both processes finished all stores but a temporary is left behind", case_id)
        if not all(k.get("temp_ok") or []):
            ctx.broken("correspondence", "two writers: a leftover temporary is not a prefix of a configuration being stored", case_id)


def eval_kill(ctx, c, out):
    if c.kill.get("writers") == 2:
        eval_kill2(ctx, c, out)
        return []
    terms = []
    kind = c.name.split("_")[1]
    for t, k in enumerate(out.get("kills") or []):
        k["temps"] = k.get("temps") or []
        k["temp_prefix"] = k.get("temp_prefix") or []
        case_id = {"case": c.name, "trial": t, "observed": {x: k[x] for x in ("last_done", "delay_ms", "match", "parse_ok", "reload_err")},
                   "file_len": k["file"]["len"], "prev_len": k["prev"]["len"], "new_len": k["new"]["len"],
                   "killcase": [{"kind": kind, "variants": c.kill["variants"], "seed": c.seed, "trials": c.kill["trials"],
                                 "max_ms": c.kill["max_ms"]}]}
        phase = "in-temp" if k["temps"] else "between"
        ctx.count((c.name, t, k["last_done"], k["match"], len(k["temps"])), nontrivial=k["last_done"] > 0,
                  kind="kill/%s/%s/%s" % (kind, k["match"], phase))
        if k["match"] == "none":
            ctx.fail("kill:%s:file-neither-previous-nor-new" % kind,
                     "after SIGKILL the ClientConf file (%d bytes) is neither the previous (%d bytes) nor the new (%d bytes) configuration%s"
                     % (k["file"]["len"], k["prev"]["len"], k["new"]["len"], "" if k["parse_ok"] else " and does not parse"), case_id)
        elif k["match"] == "absent":
            ctx.fail("kill:%s:file-missing" % kind, "after SIGKILL the ClientConf file is missing", case_id)
        elif k["file"]["has"] and not k["parse_ok"]:
            ctx.fail("kill:%s:file-not-parseable" % kind, "after SIGKILL the ClientConf file does not parse", case_id)
        if k["reload_gen"] in (-1, -3) and k["file"]["has"]:
            ctx.fail("kill:%s:reload-failed" % kind, "the real loader could not load the file left by a killed store (%s)" % k["reload_err"], case_id)
        if k["errs"]:
            ctx.fail("liveness:healthy-store-failed:loop", "a store into a healthy directory failed during the kill loop", case_id)
        if not all(k["temp_prefix"]):
            ctx.broken("correspondence", "a temporary left by a killed store is not a prefix of the configuration being stored", case_id)
        # model side (small configurations only)
        small = lambda d: (not d["has"]) or d["len"] == 0 or "hex" in d
        if small(k["new"]) and small(k["file"]) and small(k["prev"]) \
                and all("hex" in e["dig"] or e["dig"]["len"] == 0 for e in k["temps"]) and k["match"] in ("prev", "new"):
            global INTERN
            INTERN = Intern()
            obs = []
            if k["file"]["has"]:
                obs.append("(Target, %s)" % g_bspec(k["file"]))
            r, tl = 0, 0
            for e in k["temps"]:
                pp = proj_path("/d/" + e["name"], ["/d"])
                r, tl = pp[1][1], e["dig"]["len"]
                obs.append("(Tmp %s, %s)" % (gN(r), g_bspec(e["dig"])))
            prev = "(Some %s)" % ihex(bytes.fromhex(hx(k["prev"]))) if k["prev"]["has"] else "None"
            terms.append(INTERN.wrap("(%s, %s, %s, %s, %s)" % (prev, ihex(bytes.fromhex(hx(k["new"]))), gN(r), gN(tl), glist(obs)), "kcase"))
    return terms


def props_with_retry(ctx):
    """ctx.coq_props(), retried when a concurrent check of the same property rebuilt Props.vo between lib's
    removal of the file and its make (then make prints 'is up to date' and no Print Assumptions output exists)"""
    import time
    for attempt in range(5):
        nb, ob, di, th = len(ctx.brokens), ctx.cov["obligations"], ctx.cov["discharged"], list(ctx.cov["theorems"])
        if ctx.coq_props():
            return True
        if any("is up to date" in (b["what"] or "") for b in ctx.brokens[nb:]):
            del ctx.brokens[nb:]
            ctx.cov["obligations"], ctx.cov["discharged"], ctx.cov["theorems"] = ob, di, th
            time.sleep(1 + 2 * attempt)
            continue
        return False
    return ctx.coq_props()


def cleanup_gen(tagpid):
    import glob
    import os
    from lib import GEN
    for f in glob.glob(os.path.join(GEN, "*C20_*%s*" % tagpid)) + glob.glob(os.path.join(GEN, ".*C20_*%s*" % tagpid)):
        try:
            os.remove(f)
        except OSError:
            pass


def run(ctx):
    ctx.assumptions += [
        "rename(2) is atomic and a failed open/rename has no effect (POSIX); this is the semantics of the model's Rename/Create steps",
        "power loss / fsync is outside the property (process crash, kill and write failures only)",
        "an open descriptor whose directory was removed writes to an unlinked file (modelled as: the write has no visible effect)",
        "protobuf marshal/unmarshal are abstract in the theorems (arbitrary functions); in the correspondence run configurations "
        "are represented by their marshalled bytes",
        "the Go in-package driver, the strace projection, the case generator and the JSON->Gallina emitter are trusted",
    ]
    ctx.cov["trusted_base"] = [
        "Coq 8.16.1 kernel (coqc; coqchk in the thorough tier); vm_compute used for evaluating the model on cases; no native_compute",
        "no axioms: every theorem prints 'Closed under the global context'",
        "hand-written model coq/C20/Model.v tied to the code by the correspondence run (strace projection, driver and emitter trusted)",
        "rename(2) atomicity (POSIX) is built into the model's Rename step",
    ]
    ctx.cov["rule"] = ("scripted stores of the real client library under strace (healthy sequences over several directories, initial "
                       "contents, RLIMIT_FSIZE and full-tmpfs quotas, unwritable and read-only directories, directories removed before "
                       "a store and between close and rename, failing rename) plus SIGKILL trials on loops of small and multi-megabyte "
                       "stores; a case is non-trivial if it is a hash-distinct (case, call, cause) that reached the store or a kill "
                       "trial in which at least one store had completed")
    import time
    tm = {}
    t0 = time.time()
    props_with_retry(ctx)
    tm["coq_props"] = round(time.time() - t0, 1)
    scripted = gen_scripted(ctx)
    kills = gen_kill(ctx)
    kps = gen_killpoints(ctx)
    allc = scripted + kills + kps
    rc, outtxt, outs = ctx.go_inpkg(".", "pkg/client/assets", {"zz_verif_driver_test.go": "c20/assets_driver_test.go"},
                                    "^TestVerifC20$", [c.to_json() for c in allc], timeout=2400)
    tm["go"] = round(time.time() - t0 - tm["coq_props"], 1)
    ctx.cov["timing"] = tm
    if outs is None or len(outs) != len(allc):
        ctx.broken("driver", "Go driver did not produce results: rc=%s %s" % (rc, outtxt[-1200:]))
        return
    terms, term_cases = [], []
    for c, o in zip(scripted, outs[:len(scripted)]):
        t = eval_scripted(ctx, c, o)
        if t is not None:
            terms.append(t)
            term_cases.append((c, o))
    kterms = []
    for c, o in zip(kills, outs[len(scripted):len(scripted) + len(kills)]):
        kterms += eval_kill(ctx, c, o)
    bigterms = []
    for c, o in zip(kps, outs[len(scripted) + len(kills):]):
        for kd, t in eval_kp(ctx, c, o):
            (bigterms if kd == "big" else kterms).append(t)
    if scripted:
        c, o = scripted[0], outs[0]
        ctx.sample({"case": c.name, "script": c.script[:6], "results": [{k: v for k, v in r.items() if k in ("op", "err")} for r in (o.get("res") or [])[:6]],
                    "trace_lines": (o.get("trace") or [])[:8]})
    if kills:
        o = outs[len(scripted)]
        ctx.sample({"case": kills[0].name, "trials": o.get("kills", [])[:3]})
    hist = ctx.cov["histogram"]
    caps = next((o.get("caps") for o in outs if o.get("caps")), {}) or {}
    skipped = sorted(k for k in hist if k.startswith("skipped/"))
    ctx.cov["capabilities"] = caps
    ctx.cov["skipped_classes"] = {k: hist[k] for k in skipped}
    if skipped:
        ctx.assumptions.append("case classes skipped because a privilege is missing in this environment (strace/ptrace, "
                               "CAP_SYS_ADMIN for a private tmpfs, root for an unprivileged euid): %s" % ", ".join(skipped))
    # generator self-test: every kind of store (whole ClientConf and each single-field mutator) under every fault class
    persistent = {"unwritable": "root", "quota-rlimit": None, "quota-enospc": "mount", "readonly-fs": "mount",
                  "dir-gone": None, "rename-fails": "strace", "close-fails": "strace"}
    need = ["setconf/marshal/err", "setdir/ok", "setdir/err", "kill/kp-mid-write/prev/in-temp"]
    need += ["%s/healthy/ok" % k for k in KINDS]
    for cause, cap in persistent.items():
        if cap is None or caps.get(cap):
            need += ["%s/%s/err" % (k, cause) for k in KINDS]
    if caps.get("strace"):
        need.append("kill/kp-before-rename/prev/in-temp")
        if not hist.get("skipped/intervention-missed"):
            need += ["%s/dir-removed-before-rename/err" % k for k in KINDS] + ["%s/dir-removed-before-write/err" % k for k in KINDS]
    ctx.require_kinds(need)
    for kind in ("small", "mixed"):
        for mode in ("killed", "to-end"):
            if not any(k.startswith("kill2/%s/%s/" % (kind, mode)) for k in hist):
                ctx.broken("generator-selftest", "no two-writer trial %s/%s ran" % (kind, mode))
    for kind in ("small", "big", "mixed"):
        if not any(k.startswith("kill/%s/" % kind) for k in hist):
            ctx.broken("generator-selftest", "no kill trial of kind %s ran" % kind)
    if not any(k.startswith("kill/") and k.endswith("/in-temp") for k in hist):
        ctx.broken("generator-selftest", "no kill landed inside a store (no temporary was ever left behind)")
    t1 = time.time()
    import os
    tagpid = "p%d" % os.getpid()        # concurrent checks of this property must not share case files
    rcm, outm = ctx.coq_make(["C20/Run.vo"])
    if rcm != 0:
        ctx.broken("model-build", "model does not compile: " + outm[-500:])
        return
    from concurrent.futures import ThreadPoolExecutor
    with ThreadPoolExecutor(max_workers=3) as ex:      # the three evaluations are independent coqc runs
        f_script = ex.submit(ctx.coq_mismatches, "script" + tagpid, HEADER, terms, "chk", 5)
        f_kill = ex.submit(ctx.coq_mismatches, "kill" + tagpid, HEADER, kterms, "chk_kill", 40) if kterms else None
        f_big = ex.submit(ctx.coq_mismatches, "big" + tagpid, HEADER, bigterms, "chk_kill_big", 1) if bigterms else None
        mm = f_script.result()
        mk = f_kill.result() if f_kill else None
        mb = f_big.result() if f_big else None
    tm["coq_cases"] = round(time.time() - t1, 1)
    if mm:
        ctx.cov["mismatches"] += len(mm)
        c, o = term_cases[mm[0]]
        shown = ctx.coq_show("mm" + tagpid, HEADER, "show (%s)" % terms[mm[0]])
        ctx.broken("correspondence", "model C20.Run and the implementation disagree on %d scripted case(s); first: %s; model says: %s"
                   % (len(mm), c.name, shown[-900:]),
                   {"scripted": [ser_case(c)], "observed": {"res": o["res"], "trace": (o.get("trace") or [])[:60]}})
    if mk:
        ctx.cov["mismatches"] += len(mk)
        ctx.broken("correspondence", "the directory left by %d SIGKILL trial(s) is not one the model reaches at any crash point; first term: %s"
                   % (len(mk), kterms[mk[0]][:600]))
    if mb:
        ctx.cov["mismatches"] += len(mb)
        ctx.broken("correspondence", "multi-megabyte store killed at a fixed crash point: the directory is not the one the model "
                   "computes from the generated bytes (%d case(s)); first term: %s" % (len(mb), bigterms[mb[0]][:400]))
    ctx.cov["kill_trials"] = sum(v for k, v in hist.items() if k.startswith("kill/"))
    if os.environ.get("VERIF_KEEP") != "1":
        cleanup_gen(tagpid)
