"""Minimal protobuf wire encoder for the C11 case generators (no protobuf package in this sandbox).

Messages are described as Python dicts of *present* fields; an absent key is an absent field.  The
Go drivers never trust this description: they ask the real protobuf library what it parsed (the view)
and that view is what goes to the Coq model."""


def varint(n):
    n &= (1 << 64) - 1
    out = bytearray()
    while True:
        b = n & 0x7F
        n >>= 7
        if n:
            out.append(b | 0x80)
        else:
            out.append(b)
            return bytes(out)


def tag(field, wt):
    return varint((field << 3) | wt)


def f_varint(field, v):
    return tag(field, 0) + varint(int(v))


def f_bytes(field, b):
    b = bytes(b)
    return tag(field, 2) + varint(len(b)) + b


def f_fixed32(field, v):
    return tag(field, 5) + int(v & 0xFFFFFFFF).to_bytes(4, "little")


def enc_any(a):
    """a: {"url": str, "value": bytes}"""
    out = b""
    if "url" in a:
        out += f_bytes(1, a["url"].encode())
    if "value" in a:
        out += f_bytes(2, a["value"])
    return out


def enc_generic(g):
    out = b""
    if "rand" in g:
        out += f_varint(13, g["rand"])
    return out


def enc_prefix(p):
    out = b""
    if "id" in p:
        out += f_varint(1, p["id"])
    if "prefix" in p:
        out += f_bytes(2, p["prefix"])
    if "flush" in p:
        out += f_varint(3, p["flush"])
    if "rand" in p:
        out += f_varint(13, p["rand"])
    return out


def enc_addr(a):
    out = b""
    if "ip" in a:
        out += f_bytes(1, a["ip"])
    if "port" in a:
        out += f_varint(2, a["port"])
    return out


def enc_dtls(d):
    out = b""
    if "src4" in d:
        out += f_bytes(1, enc_addr(d["src4"]))
    if "src6" in d:
        out += f_bytes(2, enc_addr(d["src6"]))
    if "rand" in d:
        out += f_varint(3, d["rand"])
    if "unordered" in d:
        out += f_varint(4, d["unordered"])
    return out


def enc_c2s(c):
    out = b""
    if "gen" in c:
        out += f_varint(2, c["gen"])
    if "libver" in c:
        out += f_varint(5, c["libver"])
    if "disable" in c:
        out += f_varint(6, c["disable"])
    if "transport" in c:
        out += f_varint(12, c["transport"])
    if "params" in c:
        out += f_bytes(13, enc_any(c["params"]))
    if "covert" in c:
        out += f_bytes(20, c["covert"].encode())
    if "v6" in c:
        out += f_varint(22, c["v6"])
    if "v4" in c:
        out += f_varint(23, c["v4"])
    if "padding" in c:
        out += f_bytes(100, c["padding"])
    return out


def enc_resp(r):
    out = b""
    if "ipv4" in r:
        out += f_fixed32(1, r["ipv4"])
    if "ipv6" in r:
        out += f_bytes(2, r["ipv6"])
    if "dstport" in r:
        out += f_varint(3, r["dstport"])
    if "cc" in r:
        out += f_bytes(6, f_varint(2, r["cc"]))   # ClientConf{generation}
    if "params" in r:
        out += f_bytes(10, enc_any(r["params"]))
    if "portrand" in r:
        out += f_varint(11, r["portrand"])
    return out


def enc_wrapper(w):
    out = b""
    if "secret" in w:
        out += f_bytes(1, w["secret"])
    if "payload" in w:
        p = w["payload"]
        out += f_bytes(3, p if isinstance(p, (bytes, bytearray)) else enc_c2s(p))
    if "source" in w:
        out += f_varint(4, w["source"])
    if "regaddr" in w:
        out += f_bytes(6, w["regaddr"])
    if "decoyaddr" in w:
        out += f_bytes(7, w["decoyaddr"])
    if "resp" in w:
        r = w["resp"]
        out += f_bytes(8, r if isinstance(r, (bytes, bytearray)) else enc_resp(r))
    if "rrbytes" in w:
        out += f_bytes(9, w["rrbytes"])
    if "rrsig" in w:
        out += f_bytes(10, w["rrsig"])
    return out


URL = "type.googleapis.com/"
T_GENERIC = URL + "proto.GenericTransportParams"
T_PREFIX = URL + "proto.PrefixTransportParams"
T_DTLS = URL + "proto.DTLSTransportParams"
