"""C02 — only proof of a validated registration's secret on that phantom opens a tunnel.

Scenarios (registry history + first flights + probes) are executed by the in-package driver
harness/inpkg/c02/wrap_driver_test.go against the real registry and the real WrapConnection of the
min / prefix / obfs4 transports; the observations are judged by a direct oracle (the property's own
statement, computed from the provenance of each probe) and compared with the Coq model
(coq/C02/Model.v via coq/C02/Run.v)."""
import copy
import os
import time

import lib
from lib import gN
from props import c02_conn


def hexs(b):
    """bytes -> Gallina term (one hexadecimal number literal, decoded by C02.Run.unhexN)"""
    if len(b) == 0:
        return "(@nil N)"
    return "(unhexN 0x1%s%%N)" % bytes(b).hex()


HEADER = "From CJ Require Import Common.Base C02.Model C02.ModelTime C02.Run.\n"
TT = {"min": 1, "obfs4": 2, "prefix": 4}
TRCODE = {"min": 0, "prefix": 1, "obfs4": 2}
CLS = {"tryagain": 0, "nottransport": 1, "incorrect_transport": 2, "incorrect_prefix": 3, "found": 4,
       "err_other": 5, "panic": 6}
EXPECT_CONSTS = {"tt_min": 1, "tt_obfs4": 2, "tt_prefix": 4, "obfs4_min_hs": 64, "obfs4_max_hs": 8192,
                 "obfs4_min_pad": 77, "obfs4_mark_len": 16, "obfs4_mac_len": 16}
PHANTOMS = ["192.0.2.1", "192.0.2.77", "2001:db8::5", "198.51.100.9"]
NPREFIX = 10


def rhex(rng, n):
    return bytes(rng.getrandbits(8) for _ in range(n)).hex()


# ------------------------------------------------------------------ scenario generation
def base_objects(rng, nsecrets=5):
    """objects over several phantoms, secrets and transports, including the near-miss constellations"""
    secrets = [rhex(rng, 32) for _ in range(nsecrets)]
    objs = []

    def add(s, tr, ph, kind="generic", pid=0, libver=4):
        objs.append({"secret": secrets[s], "transport": tr, "phantom": ph, "libver": libver,
                     "params": {"kind": kind, "prefix_id": pid}})
        return len(objs) - 1
    add(0, "min", 0)
    add(1, "prefix", 0, "prefix", rng.randrange(NPREFIX))
    add(2, "obfs4", 0)
    add(0, "prefix", 0, "prefix", rng.randrange(NPREFIX))        # same secret, two transports, same phantom
    add(1, "prefix", 2, "prefix", objs[1]["params"]["prefix_id"])  # same secret and transport on another phantom
    add(3, "min", 1)
    add(3, "obfs4", 1)
    add(4, "prefix", 1, "prefix", rng.randrange(NPREFIX))
    add(4, "prefix", 1, "prefix", (objs[-1]["params"]["prefix_id"] + 1 + rng.randrange(NPREFIX - 1)) % NPREFIX)  # re-registration, other prefix
    add(2, "min", 3, libver=rng.choice([0, 2, 4]))
    # registration flags (set by the client or by the station that shared the registration) say nothing about this
    # station's own validation
    for o in objs:
        o["flags"] = [f for f in ("prescanned", "upload_only", "dark_decoy", "proxy_header", "use_til") if rng.random() < 0.35]
    objs[rng.randrange(len(objs))]["flags"] = ["prescanned"]
    return objs


def gen_history(rng, objs, stages=None):
    """interleaved life cycles: each object is driven to a random stage"""
    per = []
    for k, o in enumerate(objs):
        st = rng.choice(["never", "tracked", "valid", "valid", "valid", "valid2", "expired", "expired_tracked",
                         "expired_valid", "unval_expired"]) if stages is None else stages[k]
        seq = {"never": [], "tracked": ["track"], "valid": ["track", "validate"], "valid2": ["validate", "track"],
               "expired": ["track", "validate", "expire"], "expired_tracked": ["validate", "expire", "track"],
               "expired_valid": ["track", "validate", "expire", "validate"], "unval_expired": ["track", "expire"]}[st]
        per.append([{"op": ("track_ine" if op == "track" and rng.random() < 0.4 else op), "obj": k} for op in seq])
    ops = []
    while any(per):
        k = rng.choice([i for i, p in enumerate(per) if p])
        ops.append(per[k].pop(0))
        if rng.random() < 0.1:
            ops.append({"op": "sweep", "obj": 0})
    if stages is None and rng.random() < 0.4:       # the lifetime of everything tracked so far runs out at some point
        ops.insert(rng.randrange(len(ops) + 1), {"op": "advance", "obj": 0})
    return ops


def std_flights(rng, objs, table_ids):
    """flights: genuine ones for every object, wrong-prefix, crafted cross-transport, foreign station, raw"""
    fl = []

    def add(**kw):
        kw.setdefault("obj", 0)
        kw.setdefault("station", 0)
        kw.setdefault("extra", rhex(rng, rng.choice([0, 0, 1, 7, 40])))
        fl.append(kw)
        return len(fl) - 1
    for k, o in enumerate(objs):
        pid = o["params"].get("prefix_id", 0)
        if o["transport"] != "obfs4":
            add(kind="genuine", obj=k, prefix_id=pid, station=rng.choice([0, 0, 1]), role="own")
        if o["transport"] == "prefix":
            other = rng.choice([i for i in table_ids if i != pid])
            add(kind="genuine", obj=k, prefix_id=other, role="wrongprefix")
            add(kind="crafted", obj=k, prefix_id=pid, label="prefix", role="own")
            add(kind="genuine", obj=k, prefix_id=pid, station=-1, role="foreign")
        if o["transport"] == "min":
            add(kind="crafted", obj=k, prefix_id=rng.choice(table_ids), label="min", role="mintag_as_prefix")
        if o["transport"] == "obfs4":
            add(kind="genuine", obj=k, station=0, role="own", extra="")
    return fl


def raw_flights(rng, table):
    fl = []
    for n in [0, 1, 31, 32, 33, 63, 64, 65, 108, 109, 140, 141, 142, 8191, 8192, 8193]:
        fl.append({"kind": "raw", "hex": rhex(rng, n), "role": "random", "extra": ""})
    for row in table:
        st = row["static"]
        for n in [row["offset"] + 63, row["offset"] + 64, row["offset"] + 65]:
            body = rhex(rng, max(0, n - len(st) // 2))
            fl.append({"kind": "raw", "hex": (st + body)[:2 * n], "role": "random", "extra": ""})
        fl.append({"kind": "raw", "hex": st, "role": "random", "extra": ""})
        if len(st) >= 4:
            fl.append({"kind": "raw", "hex": st[:len(st) // 4 * 2], "role": "random", "extra": ""})
    return fl


def std_probes(rng, objs, flights, quick, want_flips=False, want_trunc=False):
    probes = []
    nph = len(PHANTOMS)

    def add(f, tr, ph, mut=None, **kw):
        p = {"flight": f, "transport": tr, "phantom": ph, "mut": mut or {"kind": "none"}}
        p.update(kw)
        probes.append(p)
    for i, f in enumerate(flights):
        if f["kind"] == "raw":
            for tr in ("min", "prefix", "obfs4"):
                add(i, tr, rng.randrange(nph))
            continue
        o = objs[f["obj"]]
        home_tr = "prefix" if f["kind"] == "crafted" else o["transport"]
        ph = o["phantom"]
        add(i, home_tr, ph, alt16=rng.random() < 0.3)                      # aimed where it belongs
        for q in range(nph):                                                # replay against every other phantom
            if q != ph:
                add(i, home_tr, q)
        for tr in ("min", "prefix", "obfs4"):                               # replay against the other transports
            if tr != home_tr:
                add(i, tr, ph)
        if f.get("role") == "own":
            add(i, home_tr, ph, repeat=2, replay=True)                      # the very same flight twice, same phantom
            n = {"min": 32, "prefix": 64, "obfs4": 64}[home_tr]
            add(i, home_tr, ph, {"kind": "trunc", "a": n - 1})
            add(i, home_tr, ph, {"kind": "flipbit", "a": rng.randrange(8 * n)})
            add(i, home_tr, ph, {"kind": "append", "hex": rhex(rng, rng.choice([1, 16, 100]))})
            if home_tr == "prefix":
                add(i, home_tr, ph, {"kind": "negrep"})
    if want_trunc:
        seen = set()
        for i, f in enumerate(flights):
            if f.get("role") == "own" and f["kind"] == "genuine":
                o = objs[f["obj"]]
                if o["transport"] not in seen:
                    seen.add(o["transport"])
                    add(i, o["transport"], o["phantom"], {"kind": "truncall"})
    if want_flips:
        seen = {}
        for i, f in enumerate(flights):
            if f.get("role") == "own" and f["kind"] == "genuine":
                o = objs[f["obj"]]
                key = (o["transport"], f.get("prefix_id") if o["transport"] == "prefix" else 0)
                lim = {"min": 1, "obfs4": 1, "prefix": 2 if quick else NPREFIX}[o["transport"]]
                if key in seen or sum(1 for s in seen if s[0] == o["transport"]) >= lim:
                    continue
                seen[key] = 1
                add(i, o["transport"], o["phantom"], {"kind": "fliptag", "a": 1})
    return probes


def gen_scenarios(ctx, table):
    rng = ctx.rng
    quick = ctx.tier == "quick"
    table_ids = [r["id"] for r in table]
    scs = []
    subnets = os.path.join(lib.REPO, "internal/test_assets/phantom_subnets.toml")

    def mk(objs, ops, flights, probes, **kw):
        sc = {"nkeys": 2, "phantoms": PHANTOMS, "objects": objs, "ops": ops, "flights": flights, "probes": probes,
              "subnets": subnets}
        sc.update(kw)
        scs.append(sc)
        return sc

    # 1. everything validated: all flips of every tag bit, all truncations
    objs = base_objects(rng)
    if not quick:       # one Prefix registration per row of the table, so that every tag position is bit-flipped
        have = {o["params"]["prefix_id"] for o in objs if o["transport"] == "prefix"}
        for pid in table_ids:
            if pid not in have:
                objs.append({"secret": rhex(rng, 32), "transport": "prefix", "phantom": 3, "libver": 4,
                             "params": {"kind": "prefix", "prefix_id": pid}})
    ops = gen_history(rng, objs, stages=["valid"] * len(objs))
    fl = std_flights(rng, objs, table_ids) + raw_flights(rng, table)
    mk(objs, ops, fl, std_probes(rng, objs, fl, quick, want_flips=True, want_trunc=True), name="all-valid")

    # 2. random life cycles (tracked-but-unvalidated, expired, re-tracked, ...)
    for _ in range(5 if quick else 40):
        objs = base_objects(rng)
        ops = gen_history(rng, objs)
        fl = std_flights(rng, objs, table_ids)
        if rng.random() < 0.3:
            fl += raw_flights(rng, table)[:12]
        mk(objs, ops, fl, std_probes(rng, objs, fl, quick), name="lifecycle")

    # 3. registrations the transport's own ParseParams yields for absent / unusual parameters, including the
    #    real ingest path (RegistrationManager.NewRegistration with the repository's test subnets)
    s = [rhex(rng, 32) for _ in range(8)]
    objs = [
        {"secret": s[0], "transport": "prefix", "phantom": 0, "libver": 4, "params": {"kind": "absent"}},
        {"secret": s[1], "transport": "prefix", "phantom": 0, "libver": 4, "params": {"kind": "typednil"}},
        {"secret": s[2], "transport": "prefix", "libver": 4, "params": {"kind": "absent"}, "ingest": True, "gen": 1},
        {"secret": s[3], "transport": "prefix", "libver": 4, "params": {"kind": "absent"}, "ingest": True, "gen": 2},
        {"secret": s[4], "transport": "prefix", "libver": 4, "params": {"kind": "prefix", "prefix_id": 2}, "ingest": True, "gen": 1},
        {"secret": s[5], "transport": "min", "libver": 4, "params": {"kind": "absent"}, "ingest": True, "gen": 1},
        # states no ingest produces, but the registry can hold: params of another transport's type
        {"secret": s[6], "transport": "min", "phantom": 1, "libver": 4, "params": {"kind": "prefix", "prefix_id": 3, "force": True}},
        {"secret": s[7], "transport": "prefix", "phantom": 1, "libver": 4, "params": {"kind": "generic", "force": True}},
    ]
    ops = [{"op": "validate", "obj": k} for k in range(len(objs))]
    fl = []
    for k, o in enumerate(objs):
        if o["transport"] == "prefix":
            for pid in ([0, 1, 2, 6] if quick else table_ids):
                fl.append({"kind": "genuine", "obj": k, "prefix_id": pid, "station": 0, "extra": "aa55",
                           "role": "own" if o["params"].get("prefix_id") == pid and o["params"]["kind"] == "prefix" else "wrongprefix"})
        else:
            fl.append({"kind": "genuine", "obj": k, "station": 0, "extra": "aa55", "role": "own"})
            for pid in ([0, 3] if quick else table_ids):
                fl.append({"kind": "crafted", "obj": k, "prefix_id": pid, "label": "min", "station": 0, "extra": "aa55",
                           "role": "mintag_as_prefix"})
    probes = [{"flight": i, "transport": "prefix" if f["kind"] == "crafted" else objs[f["obj"]]["transport"],
               "phantom": -(f["obj"] + 1), "mut": {"kind": "none"}} for i, f in enumerate(fl)]
    mk(objs, ops, fl, probes, name="params")

    # 3b. two objects under one key (re-registration with another prefix id): only the stored object's own
    #     validation counts
    for variant in range(3):
        s2 = rhex(rng, 32)
        ida, idb = rng.sample(table_ids, 2)
        objs = [{"secret": s2, "transport": "prefix", "phantom": 0, "libver": 4, "params": {"kind": "prefix", "prefix_id": ida}},
                {"secret": s2, "transport": "prefix", "phantom": 0, "libver": 4, "params": {"kind": "prefix", "prefix_id": idb}}]
        ops = [[("track", 0), ("validate", 1)],
               [("validate", 1), ("track", 0), ("validate", 0)],
               [("validate", 0), ("expire", 0), ("track", 1), ("validate", 0), ("validate", 1)]][variant]
        ops = [{"op": a, "obj": b} for a, b in ops]
        fl = [{"kind": "genuine", "obj": k, "prefix_id": objs[k]["params"]["prefix_id"], "station": 0, "extra": "", "role": "own"} for k in (0, 1)]
        probes = [{"flight": i, "transport": "prefix", "phantom": 0, "mut": {"kind": "none"}} for i in (0, 1)]
        mk(objs, ops, fl, probes, name="revalidate")

    # 3d. flagged registrations that are tracked but not (or no longer) validated
    sec = [rhex(rng, 32) for _ in range(3)]
    objs = [{"secret": sec[0], "transport": "min", "phantom": 0, "libver": 4, "params": {"kind": "generic"}, "flags": ["prescanned"]},
            {"secret": sec[1], "transport": "prefix", "phantom": 0, "libver": 4, "params": {"kind": "prefix", "prefix_id": table_ids[0]},
             "flags": ["prescanned", "proxy_header"]},
            {"secret": sec[2], "transport": "obfs4", "phantom": 1, "libver": 4, "params": {"kind": "generic"}, "flags": ["prescanned"]},
            {"secret": sec[0], "transport": "min", "phantom": 2, "libver": 4, "params": {"kind": "generic"}, "flags": ["prescanned"]}]
    ops = [{"op": "track", "obj": 0}, {"op": "track_ine", "obj": 1}, {"op": "track", "obj": 2}, {"op": "validate", "obj": 3},
           {"op": "expire", "obj": 3}, {"op": "track", "obj": 3}]
    fl = [{"kind": "genuine", "obj": k, "prefix_id": table_ids[0], "station": 0, "extra": "", "role": "own"} for k in range(4)]
    probes = [{"flight": k, "transport": objs[k]["transport"], "phantom": objs[k]["phantom"], "mut": {"kind": "none"}} for k in range(4)]
    mk(objs, ops, fl, probes, name="flagged")

    # 3c. dual-stack: ONE (secret, transport) tracked and validated on two and three phantoms (what ingest does for a
    #     v4+v6 client), other secrets sharing those phantoms, one secret with several transports on one phantom;
    #     expiry through the real sweep after time has passed, then genuine flights at every phantom
    for variant in range(6):
        sec = [rhex(rng, 32) for _ in range(4)]
        pid = rng.choice(table_ids)

        def ob(si, tr, ph, kind="generic", p=0):
            return {"secret": sec[si], "transport": tr, "phantom": ph, "libver": 4, "params": {"kind": kind, "prefix_id": p}}
        objs = [ob(0, "min", 0), ob(0, "min", 2), ob(0, "min", 3),                   # one secret+transport, three phantoms
                ob(1, "prefix", 0, "prefix", pid), ob(1, "prefix", 2, "prefix", pid),  # two phantoms
                ob(2, "obfs4", 1), ob(2, "obfs4", 2),
                ob(0, "prefix", 0, "prefix", pid),                                      # same secret, another transport, same phantom
                ob(3, "min", 0), ob(3, "min", 2)]                                      # another secret sharing both phantoms
        order = list(range(len(objs)))
        if variant % 2:
            rng.shuffle(order)
        ops = []
        for k in order:
            ops += [{"op": rng.choice(["track", "track_ine"]), "obj": k}, {"op": "validate", "obj": k}]
        tail = [[("advance", 0)],
                [("expire", 0)],                                   # the twin tracked first
                [("expire", 1), ("expire", 4), ("expire", 6)],     # the twins tracked later
                [("advance", 0), ("validate", 1), ("validate", 3)],
                [("expire", 0), ("expire", 2), ("expire", 3), ("expire", 5), ("expire", 8)],
                [("expire", order[0]), ("sweep", 0), ("expire", order[1])]][variant]
        ops += [{"op": a, "obj": b} for a, b in tail]
        fl = [{"kind": "genuine", "obj": k, "prefix_id": pid, "station": 0, "extra": "" if objs[k]["transport"] == "obfs4" else "c0de",
               "role": "own"} for k in range(len(objs))]
        probes = [{"flight": k, "transport": objs[k]["transport"], "phantom": q, "mut": {"kind": "none"}}
                  for k in range(len(objs)) for q in range(len(PHANTOMS))]
        mk(objs, ops, fl, probes, name="dualstack")

    # 3e. the same registration is received AGAIN (duplicate through TrackRegIfNotExists - the ingest path - and
    #     through TrackRegistration / AddRegistration) with time passing before and after it, then the REAL sweep and
    #     genuine flights.  Time passes by shifting every record's clock relatively ("age"); the lifetime of a
    #     registration counts from its ORIGINAL registration.
    DUP_VIAS = ["track", "track_ine", "validate", "track_other", "track_ine_other", "validate_other"]
    for variant in range(9 if quick else 30):
        sec = [rhex(rng, 32) for _ in range(3)]
        tr = ["min", "prefix", "obfs4"][variant % 3]
        pid = rng.choice(table_ids)
        ph = rng.randrange(len(PHANTOMS))

        def ob(si, q):
            return {"secret": sec[si], "transport": tr, "phantom": q, "libver": 4,
                    "params": {"kind": "prefix" if tr == "prefix" else "generic", "prefix_id": pid if tr == "prefix" else 0}}
        # 0 subject (never used), 1 another object under the subject's key, 2 control without duplicate,
        # 3 used registration, 4 another object under its key
        objs = [ob(0, ph), ob(0, ph), ob(1, ph), ob(2, ph), ob(2, ph)]

        def dup(k, via):
            return {"op": via.replace("_other", ""), "obj": k + 1 if via.endswith("_other") else k, "dup": True}
        via = DUP_VIAS[variant % len(DUP_VIAS)] if variant < 6 else rng.choice(DUP_VIAS)
        via2 = rng.choice(DUP_VIAS)
        V = lambda k: [{"op": rng.choice(["track", "track_ine"]), "obj": k}, {"op": "validate", "obj": k}] if rng.random() < 0.5 else [{"op": "validate", "obj": k}]
        A = lambda n: {"op": "age", "obj": 0, "secs": n}
        SW = {"op": "sweep", "obj": 0}
        shape = variant if variant < 6 else rng.randrange(7)
        if shape in (0, 1, 2):     # 9 min, duplicate, 2 min, sweep: unused gone (like the control), used stays
            ops = V(0) + V(2) + V(3) + [{"op": "use", "obj": 3}, A(540), dup(0, via), dup(3, via2), A(120), SW]
            if shape == 2:         # duplicates re-sent every few minutes
                ops = V(0) + V(2) + V(3) + [{"op": "use", "obj": 3}] + [x for _ in range(4) for x in (A(187), dup(0, via), dup(3, via2))] + [SW]
        elif shape == 3:           # within the lifetime nothing goes; then it runs out
            ops = V(0) + V(2) + [A(307), dup(0, via), A(187), SW] + ([A(127), dup(0, via2), SW] if rng.random() < 0.5 else [])
        elif shape == 4:           # used: 6 h from the original registration, duplicates or not
            ops = V(0) + V(3) + [{"op": "use", "obj": 3}, A(21000), dup(3, via), SW, A(700), dup(3, via2), SW]
        elif shape == 5:           # first validation long after tracking; re-registration after expiry is a new registration
            ops = [{"op": "track_ine", "obj": 0}, A(547), {"op": "validate", "obj": 0}, A(67), SW] + \
                  ([{"op": "validate", "obj": 0}, A(427), dup(0, via), SW] if rng.random() < 0.6 else [])
        else:                      # random interleaving
            ops = V(0) + V(2) + V(3)
            for _ in range(rng.randrange(4, 12)):
                c = rng.random()
                if c < 0.35:
                    ops.append(A(rng.choice([67, 127, 187, 307, 427, 547])))
                elif c < 0.65:
                    ops.append(dup(rng.choice([0, 3]), rng.choice(DUP_VIAS)))
                elif c < 0.8:
                    ops.append(SW)
                elif c < 0.9:
                    ops.append({"op": "use", "obj": rng.choice([0, 3])})
                else:
                    ops += V(rng.choice([0, 2, 3]))
            ops.append(SW)
        fl = [{"kind": "genuine", "obj": k, "prefix_id": pid, "station": 0, "extra": "" if tr == "obfs4" else "c0de", "role": "own"}
              for k in (0, 2, 3)]
        probes = [{"flight": i, "transport": tr, "phantom": ph, "mut": {"kind": "none"}} for i in range(3)]
        mk(objs, ops, fl, probes, name="duplife", timed=True)

    # 4. table-driven reveal function and custom prefix tables (iteration-order dependence, thresholds)
    for _ in range(1 if quick else 6):
        scs.append(gen_synthetic(rng, 120 if quick else 400))
    return scs


def hmac_id(secret_hex, label):
    import hashlib
    import hmac
    return hmac.new(bytes.fromhex(secret_hex), label.encode(), hashlib.sha256).hexdigest()


SYN_TABLE = [
    {"id": 0, "static": "", "offset": 0, "minlen": 64, "maxlen": 64},
    {"id": 1, "static": "4142", "offset": 2, "minlen": 66, "maxlen": 66},
    {"id": 2, "static": "414243", "offset": 3, "minlen": 67, "maxlen": 67},
    {"id": 3, "static": "41", "offset": 1, "minlen": 40, "maxlen": 65},      # MinLen below Offset+64: the second try-again branch
    {"id": 4, "static": "5a", "offset": 1, "minlen": 65, "maxlen": 70},      # MaxLen above Offset+64: the skip-until-MaxLen branch
    {"id": 7, "static": "4158", "offset": 5, "minlen": 69, "maxlen": 69},    # Offset beyond the static bytes
]


def gen_synthetic(rng, n_streams):
    """custom prefix tables and a table-driven TagObfuscator: exercises the loop of tryFindReg for arbitrary reveal
    functions (several tags in one stream, several station keys, thresholds that the default table never reaches);
    the outcome may depend on Go's map iteration order, every probe is repeated"""
    secrets = [rhex(rng, 32) for _ in range(6)]
    objs = [
        {"secret": secrets[0], "transport": "prefix", "phantom": 0, "libver": 4, "params": {"kind": "prefix", "prefix_id": 1}},
        {"secret": secrets[1], "transport": "prefix", "phantom": 0, "libver": 4, "params": {"kind": "prefix", "prefix_id": 2}},
        {"secret": secrets[2], "transport": "prefix", "phantom": 0, "libver": 4, "params": {"kind": "prefix", "prefix_id": 0}},
        {"secret": secrets[3], "transport": "min", "phantom": 0, "libver": 4, "params": {"kind": "generic"}},
        {"secret": secrets[4], "transport": "prefix", "phantom": 0, "libver": 4, "params": {"kind": "prefix", "prefix_id": 3}},
        {"secret": secrets[5], "transport": "prefix", "phantom": 1, "libver": 4, "params": {"kind": "prefix", "prefix_id": 4}},
        {"secret": secrets[5], "transport": "prefix", "phantom": 0, "libver": 4, "params": {"kind": "prefix", "prefix_id": 7}},
        {"secret": secrets[0], "transport": "prefix", "phantom": 2, "libver": 4, "params": {"kind": "prefix", "prefix_id": 1}},
    ]
    ids = [hmac_id(o["secret"], "MinTrasportHMACString" if o["transport"] == "min" else "PrefixTransportHMACString") for o in objs]
    ops = [{"op": "validate", "obj": k} for k in range(len(objs)) if k != 7] + [{"op": "track", "obj": 7}]
    flights, probes, reveal = [], [], {}
    for _ in range(n_streams):
        head = rng.choice(["414243", "4142", "41", "5a", "4158", "41", "", "4143"])
        n = rng.choice([38, 39, 40, 41, 63, 64, 65, 66, 67, 68, 69, 70, 71, 72, 80])
        body = head + rhex(rng, 100)
        data = bytes.fromhex(body)[:n]
        for row in SYN_TABLE:
            off = row["offset"]
            if off + 64 <= len(data):
                for key in (0, 1):
                    r = rng.random()
                    if r < 0.45:
                        continue                      # TryReveal fails for this key
                    val = rng.choice(ids) if r < 0.85 else rhex(rng, 32)
                    reveal.setdefault((key, data[off:off + 64].hex()), val)
        flights.append({"kind": "raw", "hex": data.hex(), "role": "synthetic", "extra": ""})
        probes.append({"flight": len(flights) - 1, "transport": "prefix", "phantom": rng.choice([0, 0, 0, 1, 2]),
                       "mut": {"kind": "none"}, "repeat": 6})
    # engineered: two terminal verdicts in one stream (row 1 reveals a Prefix registration of prefix id 1, row 2 the
    # min registration), so that the result depends on which row Go's map iteration reaches first
    for _ in range(5):
        data = bytes.fromhex("414243" + rhex(rng, 70))
        reveal[(rng.choice([0, 1]), data[2:66].hex())] = ids[0]
        reveal[(rng.choice([0, 1]), data[3:67].hex())] = ids[3]
        flights.append({"kind": "raw", "hex": data.hex(), "role": "synthetic", "extra": ""})
        probes.append({"flight": len(flights) - 1, "transport": "prefix", "phantom": 0, "mut": {"kind": "none"}, "repeat": 16})
    return {"nkeys": 2, "phantoms": PHANTOMS, "objects": objs, "ops": ops, "flights": flights, "probes": probes,
            "table": SYN_TABLE, "reveal": [[str(k), c, v] for (k, c), v in reveal.items()], "name": "synthetic", "subnets": ""}


# ------------------------------------------------------------------ Gallina emission
def g_params(kind, pid):
    return {"absent": "PAbsent", "typednil": "PTypedNil", "generic": "PGeneric", "other": "POther"}.get(kind) or \
        "(PPrefix (%d)%%Z)" % pid


def g_table(table):
    return "[" + "; ".join("P (%d)%%Z %s %s %s %s" % (r["id"], hexs(bytes.fromhex(r["static"])), gN(r["offset"]),
                                                     gN(r["minlen"]), gN(r["maxlen"])) for r in table) + "]"


class Scn:
    """one executed scenario: maps strings to the model's numbering and rebuilds the history term"""

    def __init__(self, idx, sc, out):
        self.idx, self.sc, self.out = idx, sc, out
        names = set(out["views"].keys()) | {o["phantom"] for o in out["objects"] if o["phantom"]} | \
            {r["phantom"] for r in out["results"]}
        self.phs = {s: i for i, s in enumerate(sorted(names))}
        self.objs = out["objects"]
        self.ids = {o["id"] for o in self.objs if o["id"]}
        self.foreign_validates = 0

    def reg_term(self, k):
        o = self.objs[k]
        return "(R %s %s %s)" % (gN(k + 1), gN(o["transport"]), g_params(o["params"], o["prefix_id"]))

    def ops_term(self):
        if self.sc.get("timed"):
            return self.timed_ops_term()
        ts = []
        for op, note in zip(self.sc["ops"], self.out["op_notes"]):
            if op["op"] == "sweep":
                ts.append("Sweep")
                continue
            if op["op"] == "advance":
                ts.append("ExpireAll")
                continue
            o = self.objs[op["obj"]]
            if o["err"] or note == "noobj":
                continue
            ph, ident = gN(self.phs[o["phantom"]]), hexs(bytes.fromhex(o["id"]))
            if op["op"] in ("track", "track_ine"):
                ts.append("Track %s %s %s" % (ph, ident, self.reg_term(op["obj"])))
            elif op["op"] == "validate":
                ts.append("Validate %s %s %s" % (ph, ident, self.reg_term(op["obj"])))
            elif op["op"] == "expire":
                ts.append("Expire %s %s" % (ph, ident))
        return "[" + "; ".join(ts) + "]"

    def timed_ops_term(self):
        """history over virtual time (ModelTime.v): flattened by the model itself into the registry operations"""
        ts = []
        for op, note in zip(self.sc["ops"], self.out["op_notes"]):
            if op["op"] == "sweep":
                ts.append("TSweep")
                continue
            if op["op"] == "age":
                ts.append("TAge %s" % gN(op["secs"]))
                continue
            if op["op"] == "advance":
                ts.append("TAge 25200; TSweep")
                continue
            o = self.objs[op["obj"]]
            if o["err"] or note == "noobj":
                continue
            ph, ident = gN(self.phs[o["phantom"]]), hexs(bytes.fromhex(o["id"]))
            if op["op"] in ("track", "track_ine"):
                ts.append("TO (Track %s %s %s)" % (ph, ident, self.reg_term(op["obj"])))
            elif op["op"] == "validate":
                ts.append("TO (Validate %s %s %s)" % (ph, ident, self.reg_term(op["obj"])))
            elif op["op"] == "use":
                ts.append("TUse %s %s" % (ph, ident))
            elif op["op"] == "expire":
                ts.append("TO (Expire %s %s)" % (ph, ident))
        return "(flat [" + "; ".join(ts) + "])"

    def live(self):
        """direct bookkeeping of 'currently validated and unexpired', from the executed history; an entry is
        [object, validated, seconds since its ORIGINAL registration, used]"""
        st = {}
        for op, note in zip(self.sc["ops"], self.out["op_notes"]):
            if op["op"] == "sweep":
                # the lifetime counts from the original registration: 10 min while never used, 6 h once used
                for key in [k for k, e in st.items() if e[2] > (21600 if e[3] else 600)]:
                    del st[key]
                continue
            if op["op"] == "age":
                for e in st.values():
                    e[2] += op["secs"]
                continue
            if op["op"] == "advance":
                st.clear()
                continue
            o = self.objs[op["obj"]]
            if o["err"] or note == "noobj":
                continue
            key = (o["phantom"], o["id"])
            if op["op"] in ("track", "track_ine"):
                st.setdefault(key, [op["obj"], False, 0, False])      # received again: nothing changes
            elif op["op"] == "use":
                if key in st:
                    st[key][3] = True
            elif op["op"] == "validate":
                e = st.setdefault(key, [op["obj"], False, 0, False])
                if e[0] == op["obj"]:       # register() validates only the caller's own object
                    e[1] = True
                else:
                    self.foreign_validates += 1
            elif op["op"] == "expire":
                st.pop(key, None)
        return st


def flight_intact(fl_out, res):
    """the bytes that make up the tag are all present and unchanged in the probed stream"""
    base = bytes.fromhex(fl_out["hex"])
    data = bytes.fromhex(res["data"])
    for a, b in fl_out["tag"]:
        if len(data) < b or data[a:b] != base[a:b]:
            return False
    if res["transport"] == "obfs4":
        # the mark and MAC sit at the tail of the (at most 8192-byte) handshake, which the MAC covers entirely
        return data[:8192] == base[:8192] and (len(data) == len(base) or len(base) >= 8192)
    return True


def oracle(ctx, S, res, scn_for_replay):
    """accepted => proves the secret of a registration that is valid on that phantom, same transport and prefix,
    and is matched to exactly that registration"""
    if res["class"] != "found":
        return
    sc, out = S.sc, S.out
    p = sc["probes"][res["probe"]]
    f = sc["flights"][p["flight"]]
    fo = out["flights"][p["flight"]]

    def bad(key, what):
        rp = copy.deepcopy(sc)
        pp = copy.deepcopy(p)
        if res["mut"].startswith(("flipbit:", "trunc:")):
            kind, a = res["mut"].split(":")
            pp["mut"] = {"kind": kind, "a": int(a)}
        rp["probes"] = [pp]
        ctx.fail(key, what, {"scenario": rp, "observed": {k: res[k] for k in ("class", "obj", "mut", "transport", "phantom")},
                             "stream": res["data"][:400]})

    tr = res["transport"]
    if sc.get("name") == "synthetic":
        # the property relative to the scripted reveal function: some (row, key) reveals the identifier of the
        # matched registration, which is valid on that phantom, of the Prefix transport and registered for that row
        got = res["obj"]
        go = S.objs[got] if got >= 0 else None
        lv = S.live().get((res["phantom"], go["id"])) if go else None
        rows = [r for r in out["table"] if r["offset"] + 64 == res["consumed"] and res["data"].startswith(r["static"])]
        ok = go is not None and lv is not None and lv[1] and lv[0] == got and go["transport"] == 4 and go["params"] == "prefix" \
            and any(r["id"] == go["prefix_id"] and any(e["off"] == r["offset"] and e["id"] == go["id"] for e in (res["reveal"] or []))
                    for r in rows)
        if not ok:
            bad("accept:synthetic-reveal", "with a scripted reveal function the prefix transport matched object %d although no "
                "(prefix row, key) reveals the identifier of a validated Prefix registration of that row on %s" % (got, res["phantom"]))
        return
    if f["kind"] == "raw":
        return bad("accept:unknown-secret/" + tr, "a stream that proves no secret was accepted by %s (registration object %d)" % (tr, res["obj"]))
    k = f["obj"]
    o, oo = sc["objects"][k], S.objs[k]
    got = res["obj"]
    flight_tr = "prefix" if f["kind"] == "crafted" else o["transport"]
    flight_label = f.get("label", o["transport"]) if f["kind"] == "crafted" else o["transport"]
    if not flight_intact(fo, res):
        m = res["mut"]
        if tr == "prefix" and m.startswith("flipbit:") and fo["tag"]:
            rel = int(m.split(":")[1]) - 8 * fo["tag"][0][0]
            if rel in (31 * 8 + 6, 31 * 8 + 7):
                return bad("accept:altered-tag/prefix/elligator-pad-bits",
                           "prefix flight accepted although bit %d of the obfuscated tag was flipped (the two padding bits of the Elligator representative are masked by TryReveal)" % rel)
        return bad("accept:altered-tag/" + tr, "%s accepted a flight whose tag was altered (%s)" % (tr, m))
    if f.get("station", 0) < 0:
        return bad("accept:foreign-station/" + tr, "flight encrypted to a key that is not the station's was accepted")
    if got < 0 or sc["objects"][got]["secret"] != o["secret"]:
        return bad("accept:wrong-registration/" + tr, "flight proving the secret of object %d matched to object %d" % (k, got))
    g, go = sc["objects"][got], S.objs[got]
    if go["phantom"] != res["phantom"]:
        return bad("accept:cross-phantom/" + tr, "flight accepted on phantom %s, the matched registration lives on %s" % (res["phantom"], go["phantom"]))
    live = S.live().get((res["phantom"], go["id"]))
    if live is None or not live[1] or live[0] != got:
        return bad("accept:not-valid/" + tr, "matched registration (object %d) is not currently validated and unexpired on %s: %s" % (got, res["phantom"], live))
    if tr != g["transport"] or flight_tr != tr or flight_label != tr:
        return bad("accept:cross-transport/%s-as-%s" % (flight_label, tr),
                   "flight produced for %s (tag label %s) accepted by %s for a %s registration" % (flight_tr, flight_label, tr, g["transport"]))
    if tr == "prefix":
        if go["params"] != "prefix":
            return bad("accept:prefix-params-%s" % go["params"],
                       "prefix flight (prefix id %d) accepted for a Prefix registration ingested with %s params: no prefix id was registered" % (f.get("prefix_id", 0), go["params"]))
        if go["prefix_id"] != f.get("prefix_id", 0):
            return bad("accept:wrong-prefix", "flight sent with prefix id %d accepted for a registration of prefix id %d" % (f.get("prefix_id", 0), go["prefix_id"]))


# ------------------------------------------------------------------ run
def data_term(res, flname, base_hex):
    m = res["mut"]
    base = bytes.fromhex(base_hex)
    data = bytes.fromhex(res["data"])
    if m == "none" and data == base:
        return flname
    if m.startswith("flipbit:"):
        i = int(m.split(":")[1])
        b = bytearray(base)
        if i // 8 < len(b):
            b[i // 8] ^= 1 << (i % 8)
        if bytes(b) == data:
            return "(xbit %s %s)" % (gN(i), flname)
    if m.startswith("trunc:"):
        n = int(m.split(":")[1])
        if base[:n] == data:
            return "(take %s %s)" % (gN(n), flname)
    return hexs(data)


PRIVATE = ("RegisteredDecoys.{decoysTimeouts, m, registerForDetector, updateInDetector}, DecoyTimeout.{decoy, identifier, "
           "registrationTime}, DecoyRegistration.{transportParams, clientLibVer, registrationAddr}, "
           "RegistrationManager.{registeredDecoys}, newRegistrationStats, prefix.Transport.SupportedPrefixes rows "
           "{StaticMatch, Offset, MinLen, MaxLen, MinVer, DefaultDstPort} (by reflection)")


def driver_problem(out):
    """a readable reason when the in-package driver produced nothing"""
    out = out or ""
    if "[build failed]" in out or "undefined:" in out or "has no field or method" in out or "cannot use" in out:
        errs = [l for l in out.splitlines() if ".go:" in l][:6]
        return ("the in-package driver harness/inpkg/c02/wrap_driver_test.go no longer COMPILES against the tree under test "
                "(no statement about conjure's behaviour; the driver reads internals of pkg/station/lib and the transports: %s - "
                "a rename or signature change there needs the driver updated): %s" % (PRIVATE, " | ".join(errs)))
    if "panic:" in out:
        return "the driver process crashed: " + out[out.index("panic:"):][:600]
    return "Go driver did not produce results: " + out[-800:]


def run(ctx):
    """the WrapConnection / registry lane, then the connection-level lane (real handleNewTCPConn, histories that interleave
    registry operations with the steps of an open connection: props/c02_conn.py)"""
    ok = run_wrap(ctx)
    if ok is not False:
        lane0 = time.time()
        c02_conn.run_lane(ctx)
        ctx.cov.setdefault("timing", {})["conn-lane"] = round(time.time() - lane0, 1)


def run_wrap(ctx):
    ctx.assumptions += [
        "TagObfuscator.TryReveal (X25519 + Elligator + AES-CTR), the obfs4 mark (HMAC-SHA256) and the obfs4 library's "
        "server handshake (MAC over the epoch hour, ntor) are section variables of the model; their observed values are "
        "supplied by the driver for the correspondence run",
        "that only a holder of the shared secret can produce a stream whose revealed tag / mark equals a registration's "
        "identifier is the cryptographic assumption (HMAC, ECDH), not proved",
        "the Go in-package driver, the scenario generator and the JSON->Gallina emitter are trusted",
    ]
    ctx.cov["trusted_base"] = [
        "Coq 8.16.1 kernel (coqc; coqchk in the thorough tier); vm_compute for evaluating the model on cases; no native_compute",
        "no axioms: every theorem prints 'Closed under the global context'; crypto enters as Section variables with hypotheses",
        "hand-written model coq/C02/Model.v tied to the code by the correspondence run (driver + emitter trusted)",
        "prefix table dumped from the running prefix.Default(...) transport by reflection on every run; its well-formedness lemma is re-checked by coqc",
    ]
    ctx.cov["rule"] = ("a case is one call of a real WrapConnection on a real registry; non-trivial = hash-distinct (history, transport, "
                       "phantom, stream class) that reached the registry lookup or a length/threshold decision; kinds are transport/outcome "
                       "and probe classes (cross-phantom, cross-transport, wrong-prefix, unvalidated, expired, truncated, bit-flipped)")
    # composition theorems (PropsBridge.v) depend on the other builders' developments C08 (registry over real time)
    # and C01/C14 (derivations); they are obligations of this check whenever those developments build
    ctx.extra_dirs += ["C08", "C14", "C01"]
    rc, out = ctx.coq_make(["C08/History.vo", "C01/Model.vo"])
    if rc == 0:
        ctx.coq_props(props_files=["C02/Props.v", "C02/PropsConn.v", "C02/PropsTime.v", "C02/PropsBridge.v"])
        ctx.cov["composition"] = "PropsBridge.v checked against coq/C08 and coq/C01"
    else:
        ctx.extra_dirs[:] = []
        ctx.coq_props(props_files=["C02/Props.v", "C02/PropsConn.v", "C02/PropsTime.v"])
        ctx.cov["composition"] = "NOT checked in this run: coq/C08 or coq/C01 does not build: " + out[-300:]
        ctx.assumptions.append("composition theorems (C02/PropsBridge.v) were not re-checked: a dependency outside C02 does not build")
    for fn in os.listdir(lib.GEN):
        if fn.startswith(("cases_C02_", ".cases_C02_")):
            os.remove(os.path.join(lib.GEN, fn))
    rc, out = ctx.coq_make(["C02/Run.vo", "C02/RunConn.vo", "C02/ModelTime.vo", "C02/RunTime.vo", "C02/Examples.vo", "C02/ExamplesConn.vo", "C02/ExamplesTime.vo", "C02/Refuted.vo"] +
                           (["C02/ExamplesBridge.vo"] if ctx.extra_dirs else []))
    if rc != 0:
        rc2, out2 = ctx.coq_make(["C02/Run.vo", "C02/RunConn.vo", "C02/ModelTime.vo", "C02/RunTime.vo"])
        if rc2 != 0:
            ctx.broken("model-build", "model does not compile: " + out2[-500:])
            return False
        ctx.broken("proof-obligation", "non-vacuity examples / refutation witness no longer check: " + out[-500:])
    T = {"t0": time.time()}

    def lap(name):
        ctx.cov.setdefault("timing", {})[name] = round(time.time() - T["t0"], 1)
        T["t0"] = time.time()

    # prefix table of the running code (a first tiny scenario dumps it)
    rc, out, res = ctx.go_inpkg(".", "pkg/station/lib", {"zz_verif_driver_test.go": "c02/wrap_driver_test.go"},
                                "^TestVerifC02Wrap$", [{"nkeys": 1, "phantoms": PHANTOMS[:1], "objects": [], "ops": [], "flights": [], "probes": []}])
    if not res or res[0].get("panic") or not res[0].get("table"):
        ctx.broken("driver", driver_problem(out) if not res else "Go driver did not produce the prefix table: %s" % res[0].get("panic"))
        return
    table = res[0]["table"]
    if res[0]["consts"] != EXPECT_CONSTS:
        ctx.broken("constants", "transport constants differ from the model's: %s" % res[0]["consts"])
    rc, o2 = ctx.coq_eval("tables_C02_%d" % os.getpid(), HEADER + "Definition prefix_table : list pfx := %s.\n"
                          "Lemma prefix_table_wf : table_wf prefix_table = true.\nProof. vm_compute. reflexivity. Qed.\n" % g_table(table))
    if rc != 0:
        ctx.broken("proof-obligation", "prefix_table_wf no longer holds for the table dumped from the running code "
                   "(MinLen = MaxLen = Offset + 64, Offset = |StaticMatch|, ids distinct): %s" % o2[-400:], {"table": table})
    ctx.cov["prefix_table"] = table

    lap("table")
    scs = gen_scenarios(ctx, table)
    for f in (ctx.replay or {}).get("failures", []) + (ctx.replay or {}).get("theorem_or_correspondence", []):
        c = f.get("case") or {}
        if "scenario" in c:
            scs.insert(0, dict(c["scenario"], subnets=os.path.join(lib.REPO, "internal/test_assets/phantom_subnets.toml")))
    rc, out, outs = ctx.go_inpkg(".", "pkg/station/lib", {"zz_verif_driver_test.go": "c02/wrap_driver_test.go"},
                                 "^TestVerifC02Wrap$", scs, timeout=1500)
    if not outs or len(outs) != len(scs):
        ctx.broken("driver", driver_problem(out))
        return

    lap("go")
    defs, terms, meta, vterms, vmeta = [], [], [], [], []
    syn_seen = {}
    replay_seen = {}
    for si, (sc, o) in enumerate(zip(scs, outs)):
        if o.get("panic"):
            ctx.broken("driver", "scenario %d crashed: %s" % (si, o["panic"]), {"scenario": sc})
            continue
        S = Scn(si, sc, o)
        for k, (ob, oo) in enumerate(zip(sc["objects"], o["objects"])):
            if oo["err"]:
                ctx.count(("objerr", si, k), kind="object/" + ("rejected-at-ingest" if ob.get("ingest") else "error"))
                if not ob.get("ingest"):
                    ctx.broken("generator", "object could not be built: %s" % oo["err"], {"scenario": sc})
        for note in o["op_notes"]:
            if note == "expire_missing":      # the key was already gone: expiring it again is a no-op, in the model too
                ctx.cov["histogram"]["history/expire-of-untracked-key"] = ctx.cov["histogram"].get("history/expire-of-untracked-key", 0) + 1
            elif note and note != "noobj":
                ctx.broken("generator", "registry operation did not apply: %s" % note, {"scenario": sc})
        defs.append("Definition ops_%d : list rop := %s." % (si, S.ops_term()))
        defs.append("Definition tbl_%d : list pfx := %s." % (si, g_table(o["table"])))
        for fi, fo in enumerate(o["flights"]):
            if len(fo["hex"]) <= 2 * lib.BIG * 6:
                defs.append("Definition fl_%d_%d : bytes := Eval vm_compute in %s." % (si, fi, hexs(bytes.fromhex(fo["hex"]))))
        live = S.live()
        if any(op["op"] == "advance" for op in sc["ops"]):
            ctx.cov["histogram"]["history/lifetime-elapsed"] = ctx.cov["histogram"].get("history/lifetime-elapsed", 0) + 1
        tracked_ids = {}
        for oo in o["objects"]:
            if oo["id"]:
                tracked_ids.setdefault(oo["id"], set()).add(oo["phantom"])
        if any(len(phs) > 1 and 0 < sum(1 for q in phs if (q, i) in live and live[(q, i)][1]) < len(phs) for i, phs in tracked_ids.items()):
            ctx.cov["histogram"]["history/twin-expired-other-twin-live"] = ctx.cov["histogram"].get("history/twin-expired-other-twin-live", 0) + 1
        if sc.get("timed"):
            # generator self-test: a registration received again between two stretches of time, then the real sweep and
            # a genuine flight - for a never-used and for a used registration, with the outcome the flight had
            h = ctx.cov["histogram"]
            seen_dup, aged = {}, False
            for op, note in zip(sc["ops"], o["op_notes"]):
                if op["op"] == "age":
                    aged = True
                    for kk in seen_dup:
                        seen_dup[kk] = 2 if seen_dup[kk] >= 1 else seen_dup[kk]
                elif op.get("dup") and aged and not o["objects"][op["obj"]]["err"]:
                    oo = o["objects"][op["obj"]]
                    seen_dup.setdefault((oo["phantom"], oo["id"]), 1)
            swept = any(op["op"] == "sweep" for op in sc["ops"])
            for r in o["results"]:
                f = sc["flights"][sc["probes"][r["probe"]]["flight"]]
                oo = o["objects"][f["obj"]]
                if swept and seen_dup.get((oo["phantom"], oo["id"])) == 2:
                    u = "used" if any(op["op"] == "use" and o["objects"][op["obj"]]["id"] == oo["id"] for op in sc["ops"]) else "unused"
                    for kd in ("dup-then-lifetime/" + u, "dup-then-lifetime/%s/%s" % (u, "accepted" if r["class"] == "found" else "refused")):
                        h[kd] = h.get(kd, 0) + 1
        if S.foreign_validates:
            ctx.cov["histogram"]["history/validate-by-other-object"] = ctx.cov["histogram"].get("history/validate-by-other-object", 0) + 1
        # registry view correspondence
        for ph, view in o["views"].items():
            vo = "(@nil vobs)" if not view else "[" + "; ".join("(%s, %s, %s, %s)" % (hexs(bytes.fromhex(e["id"])), gN(e["obj"] + 1), gN(e["transport"]),
                                                        {"absent": "(0, 0%Z)", "typednil": "(1, 0%Z)", "generic": "(3, 0%Z)", "other": "(4, 0%Z)"}.get(e["params"])
                                                        or "(2, (%d)%%Z)" % e["prefix_id"]) for e in view) + "]"
            vterms.append("(ops_%d, %s, %s, %s)" % (si, gN(S.phs[ph]), vo, gN(o["tracked"][ph])))
            vmeta.append((si, ph))
            ctx.count(("view", S.ops_term(), ph), nontrivial=True, kind="view/%s" % ("nonempty" if view else "empty"))
            # direct oracle on the view: only validated, unexpired registrations of that phantom
            for e in view:
                lv = live.get((ph, e["id"]))
                if lv is None or not lv[1]:
                    ctx.fail("view:not-valid", "GetRegistrations(%s) returned a registration that is not validated and unexpired" % ph,
                             {"scenario": dict(sc, probes=[]), "entry": e})
        for r in o["results"]:
            p = sc["probes"][r["probe"]]
            f = sc["flights"][p["flight"]]
            fo = o["flights"][p["flight"]]
            oracle(ctx, S, r, sc)
            # classification of the probe for the generator self-test
            kinds = [r["transport"] + "/" + r["class"]]
            if p.get("replay") and r["class"] == "found":
                replay_seen[(si, r["probe"], r["transport"])] = replay_seen.get((si, r["probe"], r["transport"]), 0) + 1
            if sc.get("name") == "synthetic":
                kinds = ["synthetic/" + r["class"]]
                syn_seen.setdefault((si, r["probe"]), set()).add((r["class"], r["obj"], r["consumed"]))
            if f["kind"] != "raw":
                ob, oo = sc["objects"][f["obj"]], o["objects"][f["obj"]]
                home = "prefix" if f["kind"] == "crafted" else ob["transport"]
                lv = live.get((oo["phantom"], oo["id"]))
                if r["phantom"] != oo["phantom"]:
                    kinds.append("probe/cross-phantom")
                elif r["transport"] != home:
                    kinds.append("probe/cross-transport")
                elif f.get("role") == "mintag_as_prefix":
                    kinds.append("probe/min-tag-as-prefix-flight")
                elif f.get("role") == "wrongprefix":
                    kinds.append("probe/wrong-prefix")
                elif f.get("role") == "foreign":
                    kinds.append("probe/foreign-station")
                elif r["mut"].startswith("flipbit"):
                    kinds.append("probe/bitflip")
                elif r["mut"].startswith("trunc"):
                    kinds.append("probe/truncated")
                elif lv is None:
                    kinds.append("probe/untracked-or-expired")
                elif not lv[1]:
                    kinds.append("probe/unvalidated")
                    if "prescanned" in ob.get("flags", []):
                        kinds.append("probe/unvalidated-prescanned")
                else:
                    kinds.append("probe/genuine")
            for kd in kinds:
                ctx.cov["histogram"][kd] = ctx.cov["histogram"].get(kd, 0) + 1
            ctx.count((S.ops_term(), r["transport"], r["phantom"], r["data"][:200], r["mut"]),
                      nontrivial=r["class"] != "tryagain" or len(r["data"]) >= 64, kind=None)
            if r["class"] == "found" and not r["rest_ok"]:
                ctx.broken("correspondence", "bytes left for the relay are not the suffix of the stream", {"scenario": sc, "result": r})
            flname = "fl_%d_%d" % (si, p["flight"])
            dt = data_term(r, flname, fo["hex"]) if len(fo["hex"]) <= 2 * lib.BIG * 6 else hexs(bytes.fromhex(r["data"]))
            rt = "(@nil (N * N * option bytes))" if not r["reveal"] else "[" + "; ".join("(%s, %s, %s)" % (gN(e["key"]), gN(e["off"]), "None" if e["id"] is None else ("Some %s" % hexs(bytes.fromhex(e["id"])) if e["id"] in S.ids else "G"))
                                 for e in (r["reveal"] or [])) + "]"
            mt = "(@nil (bytes * bytes * bool))" if not r["marks"] else "[" + "; ".join("(%s, %s, %s)" % (hexs(bytes.fromhex(e["id"])), hexs(bytes.fromhex(e["mark"])), "true" if e["hs"] else "false")
                                 for e in (r["marks"] or [])) + "]"
            name = r["obj"] + 1 if r["class"] in ("found", "err_other") and r["obj"] >= 0 else 0
            cons = r["consumed"] if r["class"] == "found" else 0
            terms.append("(ops_%d, %s, %s, %s, tbl_%d, %s, %s, %s, (%s, %s, %s))" % (
                si, gN(TRCODE[r["transport"]]), gN(S.phs[r["phantom"]]), dt, si, gN(sc["nkeys"]), rt, mt,
                gN(CLS[r["class"]]), gN(name), gN(cons)))
            meta.append((si, r))
        if si < 2 and o["results"]:
            r0 = o["results"][0]
            ctx.sample({"scenario": sc.get("name"), "ops": sc["ops"][:8], "probe": sc["probes"][r0["probe"]],
                        "stream": r0["data"][:160], "observed": {k: r0[k] for k in ("class", "obj", "consumed")}})

    for (_, _, trn), cnt in replay_seen.items():
        if cnt >= 2:       # informational: outside the property (see notes/C02.md, "Same-phantom replay")
            kk = "boundary/same-phantom-replay-accepted-twice/" + trn
            ctx.cov["histogram"][kk] = ctx.cov["histogram"].get(kk, 0) + 1
    ctx.cov["histogram"]["synthetic/order-dependent-outcome-observed"] = sum(1 for v in syn_seen.values() if len(v) > 1)
    ctx.require_kinds(["synthetic/found", "synthetic/tryagain", "synthetic/nottransport", "synthetic/incorrect_transport",
                       "synthetic/incorrect_prefix", "synthetic/order-dependent-outcome-observed"])
    ctx.require_kinds(["min/found", "min/nottransport", "min/tryagain", "prefix/found", "prefix/tryagain", "prefix/nottransport",
                       "prefix/incorrect_transport", "prefix/incorrect_prefix", "obfs4/found", "obfs4/tryagain", "obfs4/nottransport",
                       "obfs4/err_other", "probe/cross-phantom", "probe/cross-transport", "probe/min-tag-as-prefix-flight",
                       "probe/wrong-prefix", "probe/foreign-station", "probe/bitflip", "probe/truncated", "probe/untracked-or-expired",
                       "probe/unvalidated", "probe/genuine", "view/nonempty", "view/empty", "object/rejected-at-ingest",
                       "probe/unvalidated-prescanned", "history/validate-by-other-object", "history/twin-expired-other-twin-live", "history/lifetime-elapsed",
                       "dup-then-lifetime/unused", "dup-then-lifetime/used", "dup-then-lifetime/unused/refused",
                       "dup-then-lifetime/used/accepted", "dup-then-lifetime/used/refused"])
    lap("oracle+emit")
    dname = "defs_C02_%d" % os.getpid()
    rc, o3 = ctx.coq_eval(dname, HEADER + "\n".join(defs) + "\n")
    if rc != 0:
        ctx.broken("model-eval", "coqc failed on the generated definitions: %s" % o3[-600:])
        return
    header = HEADER + "From CJ Require Import gen.%s.\n" % dname
    mm = ctx.coq_mismatches("wrap", header, terms, "chk", shard=max(60, (len(terms) + 15) // 16))
    if mm:
        ctx.cov["mismatches"] += len(mm)
        si, r = meta[mm[0]]
        shown = ctx.coq_show("mm", header, "show %s" % terms[mm[0]])
        sc = copy.deepcopy(scs[si])
        sc["probes"] = [sc["probes"][r["probe"]]]
        ctx.broken("correspondence", "model C02 and the implementation disagree on %d WrapConnection case(s); first: %s on %s, mutation %s: "
                   "observed %s obj=%d consumed=%d, model allows %s" % (len(mm), r["transport"], r["phantom"], r["mut"], r["class"], r["obj"],
                                                                        r["consumed"], shown[-300:]),
                   {"scenario": sc, "observed": {k: r[k] for k in ("class", "obj", "consumed", "mut", "err")}, "stream": r["data"][:400]})
    lap("coq-wrap")
    vm = ctx.coq_mismatches("view", header, vterms, "chk_view", shard=400)
    if vm:
        ctx.cov["mismatches"] += len(vm)
        si, ph = vmeta[vm[0]]
        ctx.broken("correspondence", "registry model and GetRegistrations/CountRegistrations disagree on %d view(s); first: phantom %s after %s"
                   % (len(vm), ph, scs[si]["ops"]), {"scenario": dict(scs[si], probes=[]), "view": outs[si]["views"][ph]})
    lap("coq-view")
    if os.environ.get("VERIF_KEEP") != "1":
        for fn in os.listdir(lib.GEN):
            if fn.startswith((dname + ".", "tables_C02_%d." % os.getpid(), "." + dname + ".", ".tables_C02_%d." % os.getpid())):
                os.remove(os.path.join(lib.GEN, fn))
