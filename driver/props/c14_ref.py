"""Python mirror of the phantom selectors (pkg/phantoms).  It is a SEARCH TOOL only:
it lets the case generators craft seeds that hit a wanted subnet / offset / error
path.  No verdict depends on it: every crafted case is executed on the Go code and
on the Coq model like any other."""
import hashlib
import hmac

_COOKED = None


def cooked():
    global _COOKED
    if _COOKED is None:
        from props.c14_rngtab import cooked as ck
        _COOKED = ck()
    return _COOKED


# ---------------------------------------------------------------- HKDF / rand.Int
class Hkdf:
    def __init__(self, secret, salt, info):
        if salt is None:
            salt = b"\0" * 32
        self.prk = hmac.new(salt, secret, hashlib.sha256).digest()
        self.info = info
        self.ctr = 1
        self.prev = b""
        self.buf = b""

    def read(self, n):
        remains = len(self.buf) + (256 - self.ctr) * 32
        if remains < n:
            return None
        out = self.buf[:n]
        self.buf = self.buf[n:]
        while len(out) < n:
            self.prev = hmac.new(self.prk, self.prev + self.info + bytes([self.ctr % 256]), hashlib.sha256).digest()
            self.ctr += 1
            need = n - len(out)
            out += self.prev[:need]
            self.buf = self.prev[need:]
        return out


def rand_int(reader, mx):
    """crypto/rand.Int; returns 'panic', None (reader error) or the value"""
    if mx <= 0:
        return "panic"
    bitlen = (mx - 1).bit_length()
    if bitlen == 0:
        return 0
    k = (bitlen + 7) // 8
    b = bitlen % 8 or 8
    while True:
        bs = reader.read(k)
        if bs is None:
            return None
        bs = bytes([bs[0] & ((1 << b) - 1)]) + bs[1:]
        n = int.from_bytes(bs, "big")
        if n < mx:
            return n


# ---------------------------------------------------------------- math/rand
M31 = 2147483647


def seedrand(x):
    hi, lo = divmod(x, 44488)
    x = 48271 * lo - 3399 * hi
    return x + M31 if x < 0 else x


class GoRand:
    def __init__(self, seed):
        seed %= M31
        if seed == 0:
            seed = 89482311
        x = seed
        for _ in range(20):
            x = seedrand(x)
        vec = []
        for c in cooked():
            x = seedrand(x); u = (x << 40) & 0xFFFFFFFFFFFFFFFF
            x = seedrand(x); u ^= x << 20
            x = seedrand(x); u ^= x
            vec.append(u ^ c)
        self.vec, self.tap, self.feed = vec, 0, 607 - 273
        self.val, self.pos = 0, 0

    def int63(self):
        self.tap = (self.tap - 1) % 607
        self.feed = (self.feed - 1) % 607
        x = (self.vec[self.feed] + self.vec[self.tap]) & 0xFFFFFFFFFFFFFFFF
        self.vec[self.feed] = x
        return x & 0x7FFFFFFFFFFFFFFF

    def int31(self):
        return self.int63() >> 32

    def intn(self, n):
        assert n > 0
        if n <= M31:
            if n & (n - 1) == 0:
                return self.int31() & (n - 1)
            mx = M31 - (1 << 31) % n
            v = self.int31()
            while v > mx:
                v = self.int31()
            return v % n
        if n & (n - 1) == 0:
            return self.int63() & (n - 1)
        mx = (1 << 63) - 1 - (1 << 63) % n
        v = self.int63()
        while v > mx:
            v = self.int63()
        return v % n

    def read(self, n):
        out = bytearray()
        for _ in range(n):
            if self.pos == 0:
                self.val = self.int63()
                self.pos = 7
            out.append(self.val & 255)
            self.val >>= 8
            self.pos -= 1
        return bytes(out)


def varint(buf):
    x, s = 0, 0
    for i, b in enumerate(buf):
        if i == 10:
            return 0, -(i + 1)
        if b < 0x80:
            if i == 9 and b > 1:
                return 0, -(i + 1)
            ux = x | (b << s)
            v = ux >> 1
            return (~v if ux & 1 else v), i + 1
        x |= (b & 0x7F) << s
        s += 7
    return 0, 0


# ---------------------------------------------------------------- networks
def net_eff(p):
    """p = (fam, addr, ones) -> dict as the selectors see it"""
    fam, addr, ones = p
    bits = 32 if fam == 4 else 128
    h = bits - ones
    base = (addr >> h) << h
    mapped = fam == 6 and (base >> 32) == 0xFFFF
    is4 = fam == 4 or mapped
    return {"fam": fam, "base": base, "ones": ones, "bits": bits, "is4": is4,
            "ebase": base & 0xFFFFFFFF if mapped else base, "alen": 4 if is4 else 16,
            "size": 1 << h,
            "count": ((1 << (32 - ones)) if ones <= 32 else 1) if is4 else 1 << (128 - ones)}


def parse_group(g):
    """-> list of (net, rp, (gi-less) ni) or None on error"""
    if g["nets"] is None or len(g["nets"]) == 0:
        return None
    out = []
    for ni, n in enumerate(g["nets"]):
        if n["p"] is None:
            return None
        out.append((net_eff(n["p"]), bool(g["rp"]), ni))
    return out


def isort(groups):
    out = []
    for g in groups:
        i = len(out)
        while i > 0 and (g[1]["w"] or 0) < (out[i - 1][1]["w"] or 0):
            i -= 1
        out.insert(i, g)
    return out


def select(seed, cfg, lv, v6):
    """mirror of PhantomIPSelector.Select on the FIXED code.
    -> ('ok', ip_bytes, rp, gi, ni, offset) | ('err', why) | ('panic', why)"""
    if cfg is None:
        return ("err", "generation")
    groups = list(enumerate(cfg["groups"]))
    if lv < 2:
        sv, n = varint(seed)
        if n == 0:
            return ("err", "varint")
        srt = isort([(gi, g) for gi, g in groups if g["nets"] is not None])
        tot = sum((g["w"] or 0) for _, g in srt)
        if tot < 1:
            return ("err", "chooser")
        r = GoRand(sv).intn(tot) + 1
        run = 0
        for gi, g in srt:
            run += g["w"] or 0
            if r <= run:
                break
    else:
        ch = [(gi, g) for gi, g in groups if g["nets"] is not None]
        tot = sum((g["w"] or 0) for _, g in ch)
        if tot <= 0:
            return ("err", "noweight")
        rnd = rand_int(Hkdf(seed, None, b"phantom-select-subnet"), tot)
        if rnd is None:
            return ("err", "entropy")
        for gi, g in isort(ch):
            rnd -= g["w"] or 0
            if rnd < 0:
                break
    nets = parse_group(g)
    if nets is None:
        return ("err", "parse")
    nets = [x for x in nets if x[0]["is4"] != v6]
    if lv == 0:
        total, rng = 0, []
        for x in nets:
            mn = total
            total += x[0]["count"] - 1
            rng.append((mn, total, x))
        if total <= 0:
            return ("err", "noaddrs")
        i = int.from_bytes(seed, "big")
        if i > total:
            i %= total
        hit = [x for mn, mx, x in rng if mx >= i and mn < i]
    else:
        total, rng = 0, []
        for x in nets:
            mn = total
            total += x[0]["count"]
            rng.append((mn, total - 1, x))
        if total <= 0:
            return ("err", "noaddrs")
        if lv == 1:
            i = int.from_bytes(seed, "big")
            if i >= total:
                i %= total
        else:
            i = rand_int(Hkdf(seed, None, b"phantom-addr-id"), total)
            if i is None:
                return ("err", "entropy")
        hit = [(x, i - mn) for mn, mx, x in rng if mn <= i <= mx]
    if not hit:
        return ("err", "nilresult")
    if lv >= 2:
        (net, rp, ni), off = hit[-1]
        if net["size"] <= off:
            return ("err", "offset")
    else:
        net, rp, ni = hit[-1] if lv == 0 else hit[-1][0]
        sv, n = varint(seed)
        rb = GoRand(sv).read(net["bits"] // 8)
        off = int.from_bytes(rb, "big") & (((1 << net["bits"]) - 1) >> net["ones"])
    a = net["ebase"] + off
    if a.bit_length() > 8 * net["alen"] or (net["alen"] == 16 and a >> 32 == 0xFFFF):
        return ("err", "offset")
    return ("ok", a.to_bytes(net["alen"], "big"), rp, gi, ni, off)
