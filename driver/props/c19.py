"""C19 — accepted configurations run housekeeping safely; a bad reload changes nothing."""
import itertools
import os

import lib
from lib import gN, gbool, gopt, glist
from props import c19_enforce

HEADER = "From CJ Require Import Common.Base C19.Model C19.Run.\n"
NPROBE = 6

# ------------------------------------------------------------------ the raw configuration record
# kv values: "U" unset, "Z" zero, ("V", n) valid, "M" malformed, "N" negative integer (cache capacities only)
KV = ["U", "Z", ("V", 1), "M"]
CAPKV = KV + ["N"]
CAPS = ("cap_live", "cap_non")
WORKKV = ["U", "Z", ("V", 1), ("V", 9), ("V", 10), ("V", 100), "M", "N"]     # ingest_worker_count
LISTS = ["block", "allow", "phantom", "domains"]
KEYS = ["dur_live", "cap_live", "dur_non", "cap_non", "workers", "public", "geo_cc", "geo_asn"]
BAD_CIDR = ["fc00::/7 ", "198.18.0.0/33", "not-a-subnet", "", "198.18.1.0", " 10.0.0.0/8", "2001:db8::/129"]
BAD_PATTERN = ["(", "[a-", "*abc", "a{2,1}", "(?P<x"]


def covert_net(n):
    return "198.18.%d.0/24" % n if n % 2 == 0 else "2001:db8:%x::/48" % n


def phantom_net(n):
    return "198.19.%d.0/24" % n if n % 2 == 0 else "2001:db8:ff%x::/48" % n


def domain_pat(n):
    return "^d%d\\\\.example$" % n


def default_raw():
    r = {k: "U" for k in KEYS}
    r.update({l: None for l in LISTS})
    r["other"] = False
    return r


def toml_of(raw, rng):
    """render the record as a TOML file (the text the real decoder gets)"""
    out = []

    def kvline(key, v, zero, valid, bad):
        if v == "U":
            return
        out.append("%s = %s" % (key, zero if v == "Z" else bad if v == "M" else str(rng.choice([-1, -3, -100000])) if v == "N" else valid(v[1])))

    if raw["other"]:
        out.append('log_level = "error"')
    kvline("cache_expiration_time", raw["dur_live"], '""', lambda n: '"%s"' % ["0s", "2.0h", "5m", "90s"][n % 4], '"%s"' % rng.choice(["abc", "5 parsecs", "1hh", "h"]))
    kvline("cache_capacity", raw["cap_live"], "0", lambda n: str(n), '"many"')
    kvline("cache_expiration_nonlive", raw["dur_non"], '""', lambda n: '"%s"' % ["0s", "2.0h", "5m", "90s"][n % 4], '"%s"' % rng.choice(["abc", "ten minutes", "-"]))
    kvline("cache_capacity_nonlive", raw["cap_non"], "0", lambda n: str(n), "true")
    if raw["workers"] == "N":
        out.append("ingest_worker_count = %d" % rng.choice([-1, -9, -10, -50, -300]))
    else:
        kvline("ingest_worker_count", raw["workers"], "0", lambda n: str(n), '"100"')
    kvline("covert_blocklist_public_addrs", raw["public"], "false", lambda n: "true", '"yes"')
    kvline("geoip_cc_db_path", raw["geo_cc"], '""', lambda n: '"/nonexistent"', '"/nonexistent/verif/cc.mmdb"')
    kvline("geoip_asn_db_path", raw["geo_asn"], '""', lambda n: '"/nonexistent"', '"/nonexistent/verif/asn.mmdb"')
    for l, key, net, bad in (("block", "covert_blocklist_subnets", covert_net, BAD_CIDR), ("allow", "covert_allowlist_subnets", covert_net, BAD_CIDR),
                             ("phantom", "phantom_blocklist", phantom_net, BAD_CIDR), ("domains", "covert_blocklist_domains", domain_pat, BAD_PATTERN)):
        if raw[l] is None:
            continue
        items = []
        for e in raw[l]:
            items.append('"%s"' % (net(e) if e is not None else rng.choice(bad)))
        out.append("%s = [%s]" % (key, ", ".join(items)))
    rng.shuffle(out)
    return "\n".join(out) + "\n"


def g_kv(v):
    return {"U": "Unset", "Z": "Zero", "M": "Malformed", "N": "Negative"}.get(v) or "(Valid %s)" % gN(v[1])


def g_raw(raw):
    def gl(l):
        return gopt(l, lambda es: glist(es, lambda e: "EMal" if e is None else "(EValid %s)" % gN(e)))
    return "(mkRaw %s %s %s %s %s %s %s %s %s %s %s %s %s)" % (
        g_kv(raw["dur_live"]), g_kv(raw["cap_live"]), g_kv(raw["dur_non"]), g_kv(raw["cap_non"]), g_kv(raw["workers"]),
        g_kv(raw["public"]), gl(raw["block"]), gl(raw["allow"]), gl(raw["phantom"]), gl(raw["domains"]),
        g_kv(raw["geo_cc"]), g_kv(raw["geo_asn"]), gbool(raw["other"]))


# files: ("raw", rawdict) | ("unreadable",) | ("syntax",) | ("shipped",)
def g_file(f):
    if f[0] == "raw":
        return "(Decoded %s)" % g_raw(f[1])
    if f[0] == "shipped":
        return "(Decoded %s)" % g_raw(SHIPPED_RAW)
    return "Unreadable" if f[0] == "unreadable" else "BadSyntax"


def g_sub(s):
    if s[0] == "ok":
        return "(SubOk %s)" % glist(sorted(s[1]), gN)
    return "SubUnreadable" if s[0] == "unreadable" else "SubMalformed"      # malformed and malformed2


def sub_text(s):
    if s[0] == "ok":
        t = "[Networks]\n"
        for g in sorted(s[1]):
            t += " [Networks.%d]\n  Generation = %d\n  [[Networks.%d.WeightedSubnets]]\n   Weight = 9\n   Subnets = [\"192.122.%d.0/24\", \"2001:48a8:687f:%x::/64\"]\n" % (g, g, g, g % 250, g)
        return {"kind": "text", "text": t}
    if s[0] == "malformed":
        return {"kind": "text", "text": "[Networks\n  Generation = = 1\n"}
    if s[0] == "malformed2":
        # valid TOML of the wrong shape: it fails in the SECOND stage of SubnetsFromTomlFile (unmarshal / generation keys),
        # after some generations may already have been read
        good = ""
        for g in (5, 6, 8):
            good += " [Networks.%d]\n  Generation = %d\n  [[Networks.%d.WeightedSubnets]]\n   Weight = 9\n   Subnets = [\"192.122.%d.0/24\"]\n" % (g, g, g, g)
        variants = [
            "[Networks]\n" + good + " [Networks.next]\n  Generation = 9\n  [[Networks.next.WeightedSubnets]]\n   Weight = 1\n   Subnets = [\"10.9.0.0/16\"]\n",
            "Networks = [1, 2, 3]\n",
            "[Networks]\n" + good + " [Networks.7]\n  Generation = 7\n  [[Networks.7.WeightedSubnets]]\n   Weight = \"heavy\"\n   Subnets = [\"10.7.0.0/16\"]\n",
            "[Networks]\n" + good + " [Networks.7]\n  Generation = 7\n  WeightedSubnets = \"none\"\n",
            "[Networks]\n [Networks.one]\n  Generation = 1\n" + good,
        ]
        return {"kind": "text", "text": variants[s[1] % len(variants)]}
    return {"kind": "unreadable"}


def cfg_json(f, rng):
    if f[0] == "raw":
        return {"kind": "text", "text": toml_of(f[1], rng)}
    if f[0] == "syntax":
        return {"kind": "text", "text": rng.choice(["enable_v4 = = true\n", "[[connect_sockets\n", "cache_capacity = 1 2\n", "\x00\x01garbage = ["])}
    if f[0] == "shipped":
        return {"kind": "shipped"}
    return {"kind": "unreadable"}


# the shipped cmd/application/app_config.toml as a raw record (kept in step with the file by shipped_selfcheck)
SHIPPED_RAW = dict(default_raw(), dur_live=("V", 1), cap_live="Z", dur_non=("V", 2), cap_non="Z", workers=("V", 100), public=("V", 1),
                   block=[], allow=[], phantom=[], domains=[], geo_cc="Z", geo_asn="Z", other=True)


def shipped_selfcheck(ctx):
    """the shipped file's own list entries are outside the probe ranges; check the facts the record above states"""
    p = os.path.join(lib.REPO, "cmd/application/app_config.toml")
    txt = open(p).read()
    import re
    ok = all(re.search(pat, txt, flags=re.M) for pat in [
        r'^cache_expiration_time = "2\.0h"', r"^cache_capacity = 0", r'^cache_expiration_nonlive = "5m"', r"^cache_capacity_nonlive = 0",
        r"^ingest_worker_count = 100", r"^covert_blocklist_public_addrs = true", r"^covert_allowlist_subnets = \[\]", r"^phantom_blocklist = \[\]",
        r'^geoip_cc_db_path = ""', r'^geoip_asn_db_path = ""'])
    if not ok:
        ctx.cov["shipped_record"] = "stale: the shipped app_config.toml changed; its start-up case is compared on outcome classes only"
    return ok


# ------------------------------------------------------------------ generators
def rand_list(rng, allow_bad, nmax=4):
    r = rng.random()
    if r < 0.3:
        return None
    if r < 0.4:
        return []
    es = [rng.randrange(NPROBE) for _ in range(rng.randrange(1, nmax + 1))]
    if allow_bad and rng.random() < 0.5:
        es.insert(rng.randrange(len(es) + 1), None)
    return es


def rand_raw(rng, p_bad=0.25, well_formed=False):
    r = default_raw()
    for k in KEYS:
        v = rng.choice(CAPKV if k in CAPS else WORKKV if k == "workers" else KV)
        if v == "M" and (well_formed or rng.random() > p_bad * 2):
            v = rng.choice(["U", "Z", ("V", 1)])
        if isinstance(v, tuple) and k != "workers":
            v = ("V", rng.choice([1, 2, 3, 7]))
        if k in ("geo_cc", "geo_asn") and isinstance(v, tuple):
            v = "Z"                                   # no GeoIP database is available in the sandbox
        r[k] = v
    for l in LISTS:
        r[l] = rand_list(rng, allow_bad=(not well_formed) and rng.random() < p_bad)
    r["other"] = rng.random() < 0.5
    return r


def pairwise_raws(rng):
    """every pair of (key, value-class) over the optional keys appears in some record (greedy covering)"""
    dims = {k: list(CAPKV if k in CAPS else WORKKV if k == "workers" else KV) for k in KEYS}
    dims["geo_cc"] = dims["geo_asn"] = ["U", "Z", "M"]
    for l in LISTS:
        dims[l] = ["unset", "empty", "valid", "bad"]
    names = list(dims)
    need = {(a, va, b, vb) for a, b in itertools.combinations(names, 2) for va in map(str, dims[a]) for vb in map(str, dims[b])}
    out = []
    while need and len(out) < 400:
        best, bestc = None, -1
        for _ in range(30):
            cand = {k: rng.choice(dims[k]) for k in names}
            c = sum(1 for a, b in itertools.combinations(names, 2) if (a, str(cand[a]), b, str(cand[b])) in need)
            if c > bestc:
                best, bestc = cand, c
        for a, b in itertools.combinations(names, 2):
            need.discard((a, str(best[a]), b, str(best[b])))
        r = default_raw()
        for k in KEYS:
            r[k] = best[k]
        for l in LISTS:
            r[l] = {"unset": None, "empty": [], "valid": [rng.randrange(NPROBE), rng.randrange(NPROBE)],
                    "bad": [rng.randrange(NPROBE), None, rng.randrange(NPROBE)]}[best[l]]
        r["other"] = rng.random() < 0.5
        out.append(r)
    return out


def single_key_raws():
    """each key alone in each of its classes (incl. the files that contain no RegConfig key at all)"""
    out = [default_raw(), dict(default_raw(), other=True)]
    for k in KEYS:
        for v in (CAPKV if k in CAPS else WORKKV if k == "workers" else KV):
            if k in ("geo_cc", "geo_asn") and isinstance(v, tuple):
                continue
            if v != "U":
                out.append(dict(default_raw(), **{k: v}))
    for l in LISTS:
        for v in ([], [0, 3], [2, None], [None]):
            out.append(dict(default_raw(), **{l: v}))
    # liveness: the full product of the four cache keys
    for dl, cl, dn, cn in itertools.product(KV, CAPKV, KV, CAPKV):
        out.append(dict(default_raw(), dur_live=dl, cap_live=cl, dur_non=dn, cap_non=cn, workers=WORKKV[len(out) % len(WORKKV)]))
    return out


def gen_cases(ctx):
    rng = ctx.rng
    quick = ctx.tier == "quick"
    good_sub = ("ok", [1, 2])
    cases = []      # (steps=[(file, sub)], tag)
    rp = ctx.replay or {}
    for c in rp.get("failures", []) + rp.get("broken", []) + rp.get("theorem_or_correspondence", []):
        cc = c.get("case") or {}
        if "steps" in cc:
            cases.append(([(tuple(f) if f[0] != "raw" else ("raw", norm_raw(f[1])), tuple(s) if s[0] != "ok" else ("ok", s[1])) for f, s in cc["steps"]], "replay"))
    # start-up: shipped file, single keys, liveness product, pairwise covering, random
    cases.append(([(("shipped",), good_sub)], "start/shipped"))
    for r in single_key_raws():
        cases.append(([(("raw", r), good_sub)], "start/single"))
    for r in pairwise_raws(rng):
        cases.append(([(("raw", r), good_sub)], "start/pairwise"))
    for _ in range(300 if quick else 6000):
        cases.append(([(("raw", rand_raw(rng)), rng.choice([good_sub, good_sub, good_sub, ("unreadable",), ("malformed",), ("malformed2", rng.randrange(5))]))], "start/random"))
    for f in (("unreadable",), ("syntax",)):
        cases.append(([(f, good_sub)], "start/nofile"))
    # reload sequences of length <= 3 over a file alphabet
    A = dict(default_raw(), dur_live=("V", 1), workers=("V", 2), block=[0, 1], domains=[0], phantom=[2], public="Z")
    B = dict(default_raw(), dur_non=("V", 2), workers=("V", 2), block=[2], allow=[3, 4], domains=[1, 5], phantom=[], public=("V", 1))
    cfg_alpha = [("raw", A), ("raw", B), ("raw", dict(A, block=[0, None, 1])), ("raw", dict(B, domains=[1, None])),
                 ("raw", dict(A, allow=[None])), ("syntax",), ("raw", dict(A, cap_live="M")), ("unreadable",), ("raw", default_raw()), ("shipped",)]
    sub_alpha = [("ok", [1, 2]), ("ok", [3]), ("malformed",), ("unreadable",), ("malformed2", 0), ("malformed2", 1), ("malformed2", 2),
                 ("malformed2", 3), ("malformed2", 4)]
    alpha = [(f, s) for f in cfg_alpha for s in sub_alpha]
    starts = [(("raw", A), ("ok", [1, 2])), (("raw", B), ("ok", [7])), (("shipped",), ("ok", [1]))]
    if quick:
        for st in starts[:2]:
            for x in alpha:
                cases.append(([st, x], "reload/len1"))
        for _ in range(250):
            cases.append(([rng.choice(starts)] + [rng.choice(alpha) for _ in range(rng.choice([2, 3]))], "reload/len23"))
    else:
        for st in starts:
            for x in alpha:
                cases.append(([st, x], "reload/len1"))
        for x, y in itertools.product(alpha, repeat=2):
            cases.append(([starts[0], x, y], "reload/len23"))
        for _ in range(6000):
            cases.append(([rng.choice(starts)] + [rng.choice(alpha) for _ in range(3)], "reload/len23"))
    # reloads with random files
    for _ in range(100 if quick else 2000):
        st = (("raw", rand_raw(rng, well_formed=True)), ("ok", [rng.randrange(1, 9)]))
        seq = []
        for _ in range(rng.randrange(1, 4)):
            f = rng.choice([("raw", rand_raw(rng)), ("raw", rand_raw(rng, well_formed=True)), ("syntax",), ("unreadable",)])
            seq.append((f, rng.choice([("ok", [rng.randrange(1, 9)]), ("malformed",), ("unreadable",), ("malformed2", rng.randrange(5))])))
        cases.append(([st] + seq, "reload/random"))
    return cases


# ------------------------------------------------------------------ expectations derived from what was written (oracle)
def norm_raw(r):
    """a record read back from a replay file: JSON turned the ("V", n) tuples into lists"""
    return {k: (tuple(v) if isinstance(v, list) and len(v) == 2 and v[0] == "V" else v) for k, v in r.items()}


def raw_of(f):
    return f[1] if f[0] == "raw" else SHIPPED_RAW if f[0] == "shipped" else None


def written_bad(raw):
    return any(raw[l] is not None and any(e is None for e in raw[l]) for l in LISTS)


def expected_decisions(raw):
    """decisions the written entries ask for (only meaningful when every entry is well-formed)"""
    allow = raw["allow"] or []
    block = raw["block"] or []
    cov = [(n not in allow) if allow else (n in block) for n in range(NPROBE)]
    dom = [n in (raw["domains"] or []) for n in range(NPROBE)]
    ph = [n in (raw["phantom"] or []) for n in range(NPROBE)]
    return cov, dom, ph


def hk_ok(o):
    return (all(v == "ok" for v in o["prints"].values()) and o.get("expiry", "ok") in ("ok", "")
            and all(v == "ok" for v in (o.get("prints_running") or {}).values()) and (o.get("pipe") or "ok") == "ok")


def cache_class(raw):
    l = isinstance(raw["dur_live"], tuple)
    n = isinstance(raw["dur_non"], tuple)
    return "live-only" if l and not n else "nonlive-only" if n and not l else "both" if l else "none"


def oracle(ctx, steps, res, shipped_ok):
    case = {"steps": [[list(f), list(s)] for f, s in steps]}
    obs = res["obs"]
    if not obs:
        return
    cur_pol, cur_gens, cur_sig = None, None, None
    for i, (o, (f, s)) in enumerate(zip(obs, steps)):
        raw = raw_of(f)
        where = "start-up" if i == 0 else "reload %d" % i
        # --- no panic anywhere
        if o["parse"] == "panic":
            cls = "no-reg-keys" if (raw is not None and all(raw[k] == "U" for k in KEYS) and all(raw[l] is None for l in LISTS)) else \
                  "malformed-pattern" if (raw is not None and raw["domains"] and None in raw["domains"]) else "other"
            ctx.fail("panic:ParseConfig/" + cls, "ParseConfig panicked at %s: %s" % (where, o["parse_msg"]), dict(case, step=i))
            return
        for stage in ("live", "mgr", "reload"):
            if str(o[stage]).startswith("panic"):
                ctx.fail("panic:%s" % stage, "%s panicked at %s: %s" % (stage, where, o[stage]), dict(case, step=i))
        for mod, v in o["prints"].items():
            if v != "ok":
                start_raw = raw_of(steps[0][0])
                ctx.fail("panic:print/%s/%s" % ("liveness" if mod.startswith("liveness") or mod == "all" else mod, cache_class(start_raw) if start_raw else "?"),
                         "statistics printer %s panicked after %s: %s" % (mod, where, v), dict(case, step=i))
        for mod, v in (o.get("prints_running") or {}).items():
            if v != "ok":
                start_raw = raw_of(steps[0][0])
                w = start_raw["workers"] if start_raw else "?"
                wcls = "1-9" if isinstance(w, tuple) and 1 <= w[1] <= 9 else ">=10" if isinstance(w, tuple) else str(w)
                ctx.fail("panic:print-running/%s/workers=%s" % ("liveness" if mod.startswith("liveness") else mod, wcls),
                         "with the ingest pipeline running (ingest_worker_count %s, job buffer capacity %s) the statistics printer %s panicked after %s: %s"
                         % (w, (o.get("pipecap") or 0) - 1, mod, where, v), dict(case, step=i))
        if i == 0 and (o.get("pipe") or "ok") not in ("ok", "skipped", ""):
            start_raw = raw_of(steps[0][0])
            ctx.fail("panic:ingest-launch/workers=%s" % (start_raw["workers"] if start_raw else "?",),
                     "HandleRegUpdates on an accepted configuration did not start normally: %s" % o["pipe"], dict(case, step=i))
        if o.get("expiry", "ok") not in ("ok", ""):
            ctx.fail("panic:expiry", "RemoveOldRegistrations panicked after %s: %s" % (where, o["expiry"]), dict(case, step=i))
        # --- accepted => every written entry enforced
        accepted = o["parse"] == "ok"
        if accepted and raw is not None and f[0] == "raw":
            if written_bad(raw):
                ctx.fail("enforced:unparsable-entry-dropped", "configuration with an unparsable list entry was accepted at %s (parsed %s of %s written entries)"
                         % (where, o["nparsed"], o["nwritten"]), dict(case, step=i))
            elif o["covert"] is not None and (i > 0 or o["mgr"] == "ok"):
                cov, dom, ph = expected_decisions(raw)
                if (o["covert"], o["domain"], o["phantom"]) != (cov, dom, ph):
                    ctx.fail("enforced:decision-differs", "policy decisions after %s do not reflect the written lists" % where, dict(case, step=i, observed=[o["covert"], o["domain"], o["phantom"]]))
        if accepted and f[0] == "shipped" and o["nwritten"] and o["nparsed"]:
            extra = 0
            if o["nparsed"][0] < o["nwritten"][0] or o["nparsed"][3] < o["nwritten"][3]:
                ctx.fail("enforced:unparsable-entry-dropped", "the shipped app_config.toml was accepted with %d of %d covert_blocklist_subnets entries parsed"
                         % (o["nparsed"][0], o["nwritten"][0]), dict(case, step=i))
        # --- reload: each part new iff it loaded, else exactly the old one
        if i == 0:
            if o["mgr"] != "ok":
                return
            cur_pol, cur_gens, cur_sig = (o["covert"], o["loop"], o["domain"], o["phantom"]), o["gens"], o.get("gensig")
        else:
            pol = (o["covert"], o["loop"], o["domain"], o["phantom"])
            if not accepted:
                if pol != cur_pol or o["gens"] != cur_gens:
                    ctx.fail("reload:failed-load-changed-state/%s" % ("policy" if pol != cur_pol else "subnets"),
                             "a reload whose configuration did not load changed the %s in force" % ("address policies" if pol != cur_pol else "phantom subnets"), dict(case, step=i))
            else:
                want_gens = sorted(s[1]) if s[0] == "ok" else cur_gens
                if o["gens"] != want_gens:
                    ctx.fail("reload:subnets-part/%s" % s[0], "after a reload with a %s subnet file the selector holds generations %s, expected %s"
                             % (s[0], o["gens"], want_gens), dict(case, step=i))
            if (not accepted or s[0] != "ok") and (o["gens"] != cur_gens or o.get("gensig") != cur_sig):
                ctx.fail("reload:subnets-part/%s" % s[0], "after a reload whose %s did not load the phantom subnets in force changed: generations %s -> %s"
                         % ("configuration" if not accepted else "subnet file (%s)" % s[0], cur_gens, o["gens"]), dict(case, step=i))
            cur_pol, cur_gens, cur_sig = pol, o["gens"], o.get("gensig")


# ------------------------------------------------------------------ Gallina emission of observations
def g_obs(o, i, nprobe):
    parse = {"ok": 0, "err": 1, "panic": 2}[o["parse"]]
    if i == 0:
        stage = 3 if o["parse"] != "ok" else 1 if o["live"] == "err" else 9 if str(o["live"]).startswith("panic") else \
                0 if o["mgr"] == "ok" else 2 if o["mgr"] == "nil" else 9
    else:
        stage = 0 if o["reload"] == "ok" else 1 if o["reload"] == "skipped" else 9
    bl = lambda l: glist(l or [], gbool)
    return "(mkObs %s %s %s %s %s %s %s %s %s)" % (gN(parse), gN(stage), gbool(hk_ok(o)), bl(o["covert"]), gbool(bool(o["loop"])),
                                                   bl(o["domain"]), bl(o["phantom"]), glist([g if g >= 0 else 99999 for g in (o["gens"] or [])], gN),
                                                   gN(o.get("pipecap") or 0))


# ------------------------------------------------------------------ the real SIGHUP loop of cmd/application/main.go
def cut_reload_loop(ctx):
    """brace-match `for sig := range sigCh { ... }` out of main.go and wrap it, verbatim, into a function"""
    src = open(os.path.join(lib.REPO, "cmd/application/main.go")).read()
    i = src.find("for sig := range sigCh {")
    if i < 0:
        return None, "no `for sig := range sigCh {` in cmd/application/main.go"
    j = src.index("{", i)
    depth, k = 0, j
    while k < len(src):
        ch = src[k]
        if ch == "{":
            depth += 1
        elif ch == "}":
            depth -= 1
            if depth == 0:
                break
        k += 1
    body = src[i:k + 1]
    imports = ['"os"', 'cj "github.com/refraction-networking/conjure/pkg/station/lib"', '"github.com/refraction-networking/conjure/pkg/station/log"']
    if "syscall." in body:
        imports.append('"syscall"')
    text = ("package main\n\n// GENERATED on every run by /verif/driver/props/c19.py: the SIGHUP loop of main(), verbatim.\n"
            "import (\n\t" + "\n\t".join(imports) + "\n)\n\n"
            "func verifC19ReloadLoop(sigCh chan os.Signal, logger *log.Logger, regManager *cj.RegistrationManager) {\n\t"
            + body + "\n}\n")
    path = os.path.join(lib.BUILD, "c19_reloadcut_%d.go" % os.getpid())
    with open(path, "w") as f:
        f.write(text)
    return path, body


def run_reload_real(ctx, cases):
    """reload sequences through the real loop; observables: covert/phantom decisions and selector generations"""
    path, body = cut_reload_loop(ctx)
    if path is None:
        ctx.broken("main-cut", "the SIGHUP loop of cmd/application/main.go could not be located: %s" % body)
        return
    sel = [(steps, tag) for steps, tag in cases if tag.startswith("reload/")]
    js = [{"nprobe": NPROBE, "steps": [{"cfg": cfg_json(f, ctx.rng), "sub": sub_text(s)} for f, s in steps]} for steps, _ in sel]
    rc, out, res = ctx.go_inpkg("cmd/application", ".", {"zz_verif_driver_test.go": "c19/reload_driver_test.go", "zz_verif_reloadcut.go": path},
                                "^TestVerifC19Reload$", js, env={"VERIF_C19_SHIPPED": os.path.join(lib.REPO, "cmd/application/app_config.toml")})
    # connStats: every connection-state transition around the periodic PrintAndReset (same test binary)
    rc3, out3, res3 = ctx.go_inpkg("cmd/application", ".", {"zz_verif_driver_test.go": "c19/reload_driver_test.go", "zz_verif_reloadcut.go": path},
                                   "^TestVerifC19ConnStats$", None)
    if res3 is None:
        ctx.broken("driver", "connStats driver produced no results: %s" % out3[-600:])
    else:
        for r in res3:
            ctx.count(("connstats", r["transition"], r["scenario"], r["v4"], r["cc"]), kind="connstats/" + r["scenario"])
            if r["outcome"] != "ok":
                ctx.fail("panic:connStats/%s/%s" % (r["transition"], r["scenario"]),
                         "connStats.%s(asn, %r, v4=%s) in scenario %s panicked (the station's connection goroutine would die): %s"
                         % (r["transition"], r["cc"], r["v4"], r["scenario"], r["outcome"]), r)
        ctx.cov["connstats"] = {"cases": len(res3), "panics": sum(1 for r in res3 if r["outcome"] != "ok")}
    if os.path.exists(path) and os.environ.get("VERIF_KEEP") != "1":
        os.remove(path)
    if res is None or len(res) != len(sel):
        ctx.broken("main-cut", "the SIGHUP loop cut out of main.go did not compile/run as a function of (sigCh, logger, regManager): %s" % out[-900:])
        return
    terms, keep = [], []
    for (steps, tag), r in zip(sel, res):
        ctx.count(("real-loop", repr(steps)), kind="mainloop/" + tag)
        case = {"steps": [[list(f), list(s)] for f, s in steps]}
        obs = r["obs"]
        if obs and str(obs[0].get("conn", "")).startswith("panic"):
            ctx.fail("panic:print/connStats", "connStats.PrintAndReset panicked after start-up: %s" % obs[0]["conn"], dict(case, step=0))
        if not obs or obs[0]["stage"] != "ok":
            continue
        cur = (obs[0]["covert"], obs[0]["loop"], obs[0]["phantom"])
        cur_gens = obs[0]["gens"]
        gobs = ["(mkObs 0 0 true %s %s [] %s %s 0)" % (glist(obs[0]["covert"], gbool), gbool(obs[0]["loop"]), glist(obs[0]["phantom"], gbool), glist(cur_gens, gN))]
        for i, (o, (f, s)) in enumerate(list(zip(obs, steps))[1:], start=1):
            if o["stage"] != "ok":
                ctx.fail("panic:reload-loop", "the SIGHUP loop of main.go panicked on reload %d: %s" % (i, o["stage"]), dict(case, step=i))
                break
            raw = raw_of(f)
            loads = raw is not None and not written_bad(raw) and not any(raw[k] == "M" for k in ("cap_live", "cap_non", "workers", "public"))
            pol = (o["covert"], o["loop"], o["phantom"])
            if not loads:
                if pol != cur or o["gens"] != cur_gens:
                    ctx.fail("reload:failed-load-changed-state/%s" % ("policy" if pol != cur else "subnets"),
                             "main.go's reload loop changed the %s in force although the new configuration does not load" % ("address policies" if pol != cur else "phantom subnets"),
                             dict(case, step=i))
            else:
                cov, dom, ph = expected_decisions(raw)
                if f[0] == "raw" and (o["covert"], o["phantom"]) != (cov, ph):
                    ctx.fail("enforced:decision-differs", "after main.go's reload loop the policy decisions do not reflect the new lists", dict(case, step=i))
                want = sorted(s[1]) if s[0] == "ok" else cur_gens
                if o["gens"] != want:
                    ctx.fail("reload:subnets-part/%s" % s[0], "after main.go's reload loop the selector holds generations %s, expected %s" % (o["gens"], want), dict(case, step=i))
            cur, cur_gens = pol, o["gens"]
            gobs.append("(mkObs %s %s true %s %s [] %s %s 0)" % (gN(0 if loads else 1), gN(0 if loads else 1), glist(o["covert"], gbool), gbool(o["loop"]),
                                                              glist(o["phantom"], gbool), glist([g if g >= 0 else 99999 for g in o["gens"]], gN)))
        if any(f[0] == "shipped" for f, _ in steps) and not ctx.cov.get("shipped_ok", True):
            continue
        terms.append("(%s, %s, %s)" % (glist(["(%s, %s)" % (g_file(f), g_sub(s)) for f, s in steps[:len(gobs)]]), gN(NPROBE), glist(gobs)))
        keep.append((steps, r))
    ctx.cov["main_reload_loop"] = {"sequences": len(sel), "compared": len(terms), "cut_chars": len(body)}
    mm = ctx.coq_mismatches("mainloop", HEADER, terms, "chk_lite", shard=max(100, len(terms) // 15 + 1), need_vo=["C19/Run.vo"])
    if mm:
        ctx.cov["mismatches"] += len(mm)
        i = min(mm, key=lambda j: len(keep[j][0]))
        steps, r = keep[i]
        ctx.broken("correspondence", "model C19.Run and the real SIGHUP loop of main.go disagree on %d reload sequences" % len(mm),
                   {"steps": [[list(f), list(s)] for f, s in steps], "observed": r})


# ------------------------------------------------------------------ concurrent lanes
# one set of overlay files for every lane in pkg/station/lib (one compilation of the test package)
CONC_FILES = {"zz_verif_driver_test.go": "c19/config_driver_test.go", "zz_verif_conc_test.go": "c19/conc_driver_test.go",
              "zz_verif_enforce_test.go": "c19/enforce_driver_test.go"}


def conc_raws():
    """configurations whose MIXTURES give decisions that none of them gives:
       probe 1 is refused by all three (A: not allowlisted, B: blocklisted, C: not allowlisted) and probe 3 is accepted by
       none, probe 5 is accepted by all; a flag/list mixture (allowlist flag of one, lists of another) breaks that"""
    A = dict(default_raw(), workers=("V", 2), allow=[0, 5], block=[3], domains=[0], phantom=[0, 1], public="Z")
    B = dict(default_raw(), workers=("V", 2), block=[1, 3, 4], domains=[1, 2], phantom=[2], public="Z")
    C = dict(default_raw(), workers=("V", 2), allow=[2, 5], block=[0, 1], domains=[], phantom=[1, 3], public="Z")
    return [A, B, C]


def run_concurrent(ctx, race):
    rng = ctx.rng
    quick = ctx.tier == "quick"
    tag = "conc-race" if race else "conc"
    raws = conc_raws()
    subs = [("ok", [1, 2]), ("ok", [3]), ("ok", [2, 4, 5])]
    texts = [toml_of(r, rng) for r in raws]
    subt = [sub_text(s)["text"] for s in subs]
    flips = (1500 if race else 3000) if quick else (6000 if race else 40000)
    cases = [{"cfgs": texts[:2], "subs": subt[:2], "flips": flips, "workers": 8, "nprobe": NPROBE},
             {"cfgs": texts, "subs": subt, "flips": flips, "workers": 12, "nprobe": NPROBE}]
    rc, out, res = ctx.go_inpkg(".", "pkg/station/lib", CONC_FILES, "^TestVerifC19ReloadReaders$", cases, race=race, timeout=900)
    if "DATA RACE" in out:
        ctx.fail("race:reload-vs-readers", "the race detector reports a data race between OnReload and policy readers",
                 {"output": out[out.find("DATA RACE") - 100:][:1800]})
    if res is None or len(res) != len(cases):
        if "DATA RACE" not in out:
            ctx.broken("driver", "reload-vs-readers driver produced no results: " + out[-900:])
    else:
        for c, r in zip(cases, res):
            ctx.count((tag, "rr", len(c["cfgs"])), kind=tag + "/reload-readers")
            info = {"configs": [{k: v for k, v in raw.items() if v not in ("U", None)} for raw in raws[:len(c["cfgs"])]], "flips": c["flips"],
                    "workers": c["workers"], "observed": {k: r[k] for k in ("calls", "bad", "bad_first", "bad_gens", "procs", "panic", "error")}}
            if r["error"] or r["panic"]:
                ctx.fail("conc:reload-readers-panic", "reload-vs-readers lane failed: %s %s" % (r["error"], r["panic"]), info)
                continue
            # the sequential decisions of each configuration must be what the lists ask for (ties the tables to the records)
            for raw, tab in zip(raws, r["tables"]):
                cov, dom, ph = expected_decisions(raw)
                if tab[:3 * NPROBE] != cov + dom + ph:
                    ctx.fail("enforced:decision-differs", "decisions of a parsed configuration differ from its written lists (concurrent lane set-up)", info)
            if r["bad"]:
                ctx.fail("reload:mixed-policy-observed", "while the configuration was being reloaded %d of %d policy decisions equal neither the previous nor the "
                         "new configuration's decision (first: %s; slots 0-5 covert, 6-11 domain, 12-17 phantom, 18 loopback)"
                         % (r["bad"], r["calls"], r["bad_first"]), info)
            if r["bad_gens"]:
                ctx.fail("reload:mixed-subnets-observed", "%d reads of the phantom selector during reloads saw generations of no configuration in force" % r["bad_gens"], info)
        ctx.cov[tag + "_reload_readers"] = [{k: r[k] for k in ("calls", "flips", "bad", "bad_gens", "procs")} for r in res]
    # housekeeping vs ingest accounting, child process
    base = dict(default_raw(), workers=("V", 2), dur_live=("V", 1), dur_non=("V", 2), block=[0], public="Z")
    ms = (400 if race else 800) if quick else (2000 if race else 6000)
    cases = [{"cfg": toml_of(base, rng), "sub": subt[0], "workers": 1, "millis": ms},
             {"cfg": toml_of(dict(base, cap_live=("V", 3), dur_non="U"), rng), "sub": subt[0], "workers": 4, "millis": ms}]
    rc, out, res = ctx.go_inpkg(".", "pkg/station/lib", CONC_FILES, "^TestVerifC19StatsIngest$", cases, race=race, timeout=900)
    if res is None or len(res) != len(cases):
        ctx.broken("driver", "stats-vs-ingest driver produced no results: " + out[-900:])
        return
    for c, r in zip(cases, res):
        ctx.count((tag, "si", c["workers"]), kind=tag + "/stats-ingest")
        if not r["clean"]:
            kind = "race" if "DATA RACE" in r["first"] else "fatal" if r["first"].startswith("fatal error") else "panic" if r["first"] else "exit"
            ctx.fail("conc:stats-vs-ingest/%s" % kind, "with %d ingest worker(s) accounting registrations the statistics printers brought the process down: %r "
                     "(%s; printer on the reported stack: %s)" % (c["workers"], r["first"], r["exit_err"], r["in_printer"]),
                     {"workers": c["workers"], "millis": c["millis"], "observed": r})
        elif r["prints"] == 0 or r["accounts"] == 0:
            ctx.broken("driver", "stats-vs-ingest child did no work: %s" % r)
    ctx.cov[tag + "_stats_ingest"] = res


def run(ctx):
    ctx.assumptions += [
        "TOML decoding (BurntSushi/toml) is represented by a record of optional keys; the driver writes real files from the same record",
        "net.ParseCIDR / regexp.Compile / time.ParseDuration are oracles: the generator knows which strings they accept (checked on every run by the outcome classes)",
        "GeoIP databases that open are not available in the sandbox: only absent, empty and non-openable paths are exercised",
        "the SIGHUP loop of cmd/application/main.go is cut textually out of main.go on every run and executed verbatim as a function (second driver); the start-up lines of main() are replicated in the drivers",
        "reader-side reload atomicity: the lock-protected sections are assumed atomic (ModelConc LTS); exercised by the concurrent lane, with -race in the thorough tier",
        "the Go in-package driver, the case generator and the JSON->Gallina emitter are trusted",
    ]
    ctx.cov["trusted_base"] = [
        "Coq 8.16.1 kernel (coqc; coqchk in the thorough tier); vm_compute evaluates the model on the recorded cases; no native_compute",
        "no axioms: every theorem prints 'Closed under the global context'",
        "hand-written model coq/C19/Model.v tied to the code by the correspondence run (driver + emitter trusted)",
    ]
    ctx.cov["rule"] = ("start-up with the shipped file, every key alone in each class, the full product of the four cache keys, a pairwise covering of all "
                       "(key, class) pairs and random records; reload sequences of length <= 3 over valid / malformed-entry / malformed-pattern / "
                       "type-error / syntax-error / unreadable / empty configuration files x valid / malformed / unreadable subnet files; "
                       "non-trivial = hash-distinct case whose start-up reaches a verdict (accepted or a distinct rejection class)")
    ctx.coq_props(props_files=["C19/Props.v", "C19/PropsEnforce.v"])
    rc_ex, out_ex = ctx.coq_make(["C19/Examples.vo", "C19/ExamplesEnforce.vo"])
    if rc_ex != 0:
        ctx.broken("examples", "non-vacuity examples no longer check: " + out_ex[-400:])
    shipped_ok = shipped_selfcheck(ctx)
    cases = gen_cases(ctx)
    js = []
    for steps, tag in cases:
        js.append({"nprobe": NPROBE, "steps": [{"cfg": cfg_json(f, ctx.rng), "sub": sub_text(s)} for f, s in steps]})
    rc, out, res = ctx.go_inpkg(".", "pkg/station/lib", CONC_FILES,
                                "^TestVerifC19Config$", js, env={"VERIF_C19_SHIPPED": os.path.join(lib.REPO, "cmd/application/app_config.toml")})
    if res is None or len(res) != len(cases):
        ctx.broken("driver", "Go driver did not produce results: %s" % out[-1200:])
        return
    terms, keep = [], []
    for (steps, tag), r in zip(cases, res):
        o0 = r["obs"][0] if r["obs"] else None
        cls = "none" if o0 is None else o0["parse"] if o0["parse"] != "ok" else ("fatal" if o0["live"] == "err" else "mgr-" + str(o0["mgr"])[:5])
        ctx.count(repr(steps), nontrivial=o0 is not None, kind=tag)
        ctx.cov["histogram"]["startup/" + cls] = ctx.cov["histogram"].get("startup/" + cls, 0) + 1
        if o0 is not None and o0.get("pipecap"):
            k = "pipecap/%d" % (o0["pipecap"] - 1)
            ctx.cov["histogram"][k] = ctx.cov["histogram"].get(k, 0) + 1
        for o in r["obs"][1:]:
            k = "reloadstep/" + o["parse"]
            ctx.cov["histogram"][k] = ctx.cov["histogram"].get(k, 0) + 1
        oracle(ctx, steps, r, shipped_ok)
        if any(f[0] == "shipped" for f, _ in steps) and not shipped_ok:
            continue
        obs = [g_obs(o, i, NPROBE) for i, o in enumerate(r["obs"])]
        terms.append("(%s, %s, %s)" % (glist(["(%s, %s)" % (g_file(f), g_sub(s)) for f, s in steps]), gN(NPROBE), glist(obs)))
        keep.append((steps, r))
    for steps, r in keep[:1] + keep[-2:]:
        ctx.sample({"steps": [[list(f)[:1], list(s)] for f, s in steps], "observed": [{k: o[k] for k in ("parse", "live", "mgr", "reload", "covert", "gens")} for o in r["obs"]]})
    ctx.require_kinds(["start/shipped", "start/single", "start/pairwise", "start/random", "reload/len1", "reload/len23", "reload/random",
                       "startup/err", "startup/fatal", "startup/mgr-ok", "startup/mgr-nil", "reloadstep/ok", "reloadstep/err",
                       "pipecap/0", "pipecap/1", "pipecap/10", "pipecap/30"])
    mm = ctx.coq_mismatches("cfg", HEADER, terms, "chk", shard=max(100, len(terms) // 15 + 1), need_vo=["C19/Run.vo"])
    if mm:
        ctx.cov["mismatches"] += len(mm)
        i = min(mm, key=lambda j: len(keep[j][0]))
        steps, r = keep[i]
        ctx.broken("correspondence", "model C19.Run and the implementation disagree on %d cases; shortest has %d step(s)" % (len(mm), len(steps)),
                   {"steps": [[list(f), list(s)] for f, s in steps], "observed": r})
    ctx.cov["shipped_ok"] = shipped_ok
    c19_enforce.run_enforce(ctx, CONC_FILES)
    run_reload_real(ctx, cases)
    ctx.require_kinds(["mainloop/reload/len1", "mainloop/reload/len23", "mainloop/reload/random"])
    run_concurrent(ctx, race=False)
    ctx.require_kinds(["conc/reload-readers", "conc/stats-ingest"])
    if ctx.tier == "thorough":
        run_concurrent(ctx, race=True)
