#!/usr/bin/env python3
"""Run the registered check(s) of a seeded change's property against a scratch worktree with the change applied.
   usage: seedrun.py seeded/<name> [--tier quick] [--props C05,C17]
   Creates /tmp/seedwt_<name> (git worktree of /repo HEAD), applies patch.diff, runs check.py with VERIF_REPO,
   writes seeded/<name>/result.json, removes the worktree."""
import json, os, subprocess, sys, time
V = os.path.dirname(os.path.dirname(os.path.abspath(__file__)))
d = os.path.abspath(sys.argv[1])
name = os.path.basename(d)
tier = "quick"
props = None
for i, a in enumerate(sys.argv):
    if a == "--tier": tier = sys.argv[i + 1]
    if a == "--props": props = sys.argv[i + 1].split(",")
meta = json.load(open(os.path.join(d, "meta.json")))
props = props or [meta["property"]]
wt = "/tmp/seedwt_%s_%d" % (name, os.getpid())
subprocess.run(["git", "-C", "/repo", "worktree", "remove", "--force", wt], capture_output=True)
subprocess.run(["git", "-C", "/repo", "worktree", "add", "-q", "--detach", wt, "HEAD"], check=True)
res = {"tier": tier, "repo_head": subprocess.run(["git", "-C", "/repo", "rev-parse", "--short", "HEAD"], capture_output=True, text=True).stdout.strip(), "checks": {}}
try:
    ap = subprocess.run(["git", "-C", wt, "apply", "--whitespace=nowarn", os.path.join(d, "patch.diff")], capture_output=True, text=True)
    if ap.returncode != 0:
        ap = subprocess.run(["git", "-C", wt, "apply", "-3", "--whitespace=nowarn", os.path.join(d, "patch.diff")], capture_output=True, text=True)
    res["applied"] = ap.returncode == 0
    res["apply_msg"] = ap.stderr[-400:]
    if ap.returncode == 0:
        for pid in props:
            t0 = time.time()
            env = dict(os.environ, VERIF_REPO=wt, VERIF_TIER=tier, VERIF_EVIDENCE_DIR=os.path.join(V, "build", "seed_evidence"))
            p = subprocess.run(["python3", os.path.join(V, "driver", "check.py"), pid, "--tier", tier], cwd=V, env=env, capture_output=True, text=True)
            lines = [l for l in p.stdout.splitlines() if l.startswith(("VIOLATION", "KNOWN-FINDING"))]
            detail = None
            for l in lines:
                if l.startswith("VIOLATION") and "replay=" in l:
                    rp = l.split("replay=")[1].split()[0]
                    try:
                        r = json.load(open(rp))
                        detail = (r.get("failures") or r.get("theorem_or_correspondence") or [{}])[0]
                        detail = {k: (str(v)[:400]) for k, v in detail.items()}
                    except Exception:
                        pass
            res["checks"][pid] = {"rc": p.returncode, "lines": lines, "first": detail, "wall_s": round(time.time() - t0, 1),
                                  "caught": p.returncode == 1 and any(l.startswith("VIOLATION") for l in lines),
                                  "with_failing_input": any(l.startswith("VIOLATION") and "no-failing-input-found" not in l for l in lines)}
finally:
    subprocess.run(["git", "-C", "/repo", "worktree", "remove", "--force", wt], capture_output=True)
    subprocess.run(["git", "-C", "/repo", "worktree", "prune"], capture_output=True)
rp = os.path.join(d, "result.json")
if os.path.exists(rp):          # keep the verdicts of other properties' checks from earlier runs
    try:
        old = json.load(open(rp))
        for k, v in old.get("checks", {}).items():
            res["checks"].setdefault(k, v)
    except Exception:
        pass
json.dump(res, open(rp, "w"), indent=1)
print(json.dumps(res, indent=1))
