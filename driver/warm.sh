#!/bin/sh
# warm the Go build cache for the packages the drivers compile (offline)
export GOPROXY=off GOSUMDB=off GOTOOLCHAIN=local
REPO=${VERIF_REPO:-/repo}
(cd "$REPO" && go build ./... >/dev/null 2>&1; go test -vet=off -count=1 -run '^$' ./pkg/... >/dev/null 2>&1)
(cd "$REPO/cmd/application" && go test -vet=off -count=1 -run '^$' ./... >/dev/null 2>&1)
exit 0
