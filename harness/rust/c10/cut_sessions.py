#!/usr/bin/env python3
"""Cut the detector's session rules out of <repo>/src/sessions.rs (brace matching, no Rust parser).

    cut_sessions.py <repo> <outdir>

writes <outdir>/cut.rs (the items below, verbatim, in source order) and <outdir>/sigtable.json
(the getter defaults and enum numbering read from <repo>/src/signalling.rs, which the std-only
stubs in harness.rs stand in for).  Exit code 2 and a message on stderr if an item is missing or
its braces do not balance: the caller reports the correspondence as broken.

The items are the *real* code; harness.rs supplies only what they need from other crates
(protobuf getters and Message::parse_from_bytes, the redis client, pnet's protocol constants, the debug!
macro, precise_time_ns).
"""
import json
import re
import sys

# (name, regex for the line that starts the item, kind)   kind: "brace" = up to the matching '}', "semi" = up to ';'
ITEMS = [
    ("S2NS",              r"^const S2NS\b", "semi"),
    ("TIMEOUT_PHANTOMS_NS", r"^const TIMEOUT_PHANTOMS_NS\b", "semi"),
    ("SessionTracker",    r"^pub struct SessionTracker\b", "brace"),
    ("Default_SessionTracker", r"^impl Default for SessionTracker\b", "brace"),
    ("SessionTracker_impl", r"^impl SessionTracker\b", "brace"),
    ("ingest_from_pubsub", r"^fn ingest_from_pubsub\b", "brace"),
    ("get_redis_conn",    r"^fn get_redis_conn\b", "brace"),
    ("SessionError",      r"^pub enum SessionError\b", "brace"),
    ("SessionResult",     r"^pub type SessionResult\b", "semi"),
    ("Display_SessionError", r"^impl fmt::Display for SessionError\b", "brace"),
    ("SessionDetails",    r"^pub struct SessionDetails\b", "brace"),
    ("Taggable_impl",     r"^impl Taggable for SessionDetails\b", "brace"),
    ("SessionDetails_impl", r"^impl SessionDetails\b", "brace"),
    ("From_S2D",          r"^impl From<&StationToDetector> for SessionResult\b", "brace"),
    ("Taggable_trait",    r"^pub trait Taggable\b", "brace"),
    ("pubsub_handle_s2d", r"^fn pubsub_handle_s2d\b", "brace"),
    ("pubsub_add_or_update_session", r"^fn pubsub_add_or_update_session\b", "brace"),
    ("pubsub_clear",      r"^fn pubsub_clear\b", "brace"),
]
# the crate's own unit tests of the handler (cargo cannot build the crate here): cut when present and run by
# `det --selftest`; the attribute lines (#[test]) are dropped
OPTIONAL_TESTS = [
    ("test_pubsub_ingest", r"^    fn test_pubsub_ingest\b"),
    ("test_pubsub_clear_message", r"^    fn test_pubsub_clear_message\b"),
    ("test_session_details_from", r"^    fn test_session_details_from\b"),
]


class CutError(Exception):
    pass


def scan_to_close(src, i, kind):
    """from position i, return the index just past the matching '}' of the first '{' (kind=brace) or past the first
    top-level ';' (kind=semi); skips string / char literals and comments."""
    depth = 0
    n = len(src)
    seen_open = False
    while i < n:
        c = src[i]
        two = src[i:i + 2]
        if two == "//":
            j = src.find("\n", i)
            i = n if j < 0 else j
            continue
        if two == "/*":
            lvl, i = 1, i + 2
            while i < n and lvl:
                if src[i:i + 2] == "/*":
                    lvl, i = lvl + 1, i + 2
                elif src[i:i + 2] == "*/":
                    lvl, i = lvl - 1, i + 2
                else:
                    i += 1
            continue
        if c == '"':
            i += 1
            while i < n and src[i] != '"':
                i += 2 if src[i] == "\\" else 1
            i += 1
            continue
        if c == "r" and re.match(r'r#*"', src[i:i + 8]):
            m = re.match(r'r(#*)"', src[i:])
            end = src.find('"' + m.group(1), i + len(m.group(0)))
            if end < 0:
                raise CutError("unterminated raw string")
            i = end + 1 + len(m.group(1))
            continue
        if c == "'":
            # char literal ('x', '\n', '\u{..}') or lifetime ('a)
            m = re.match(r"'(\\.[^']*|[^'\\])'", src[i:])
            if m:
                i += len(m.group(0))
                continue
            i += 1
            continue
        if c == "{":
            depth += 1
            seen_open = True
        elif c == "}":
            depth -= 1
            if depth < 0:
                raise CutError("unbalanced '}'")
            if depth == 0 and kind == "brace" and seen_open:
                return i + 1
        elif c == ";" and kind == "semi" and depth == 0:
            return i + 1
        i += 1
    raise CutError("end of file inside item")


def cut(src):
    # test module is not part of the cut
    lines = src.split("\n")
    offs = []
    o = 0
    for ln in lines:
        offs.append(o)
        o += len(ln) + 1
    out = []
    for name, rx, kind in ITEMS:
        hits = [k for k, ln in enumerate(lines) if re.match(rx, ln)]
        if len(hits) != 1:
            raise CutError("item %s: %d header lines match /%s/" % (name, len(hits), rx))
        k = hits[0]
        first = k
        while first > 0 and re.match(r"^\s*#\[", lines[first - 1]):   # attributes (derive ...)
            first -= 1
        end = scan_to_close(src, offs[k], kind)
        out.append((name, offs[first], end))
    out.sort(key=lambda t: t[1])
    for (n1, s1, e1), (n2, s2, e2) in zip(out, out[1:]):
        if e1 > s2:
            raise CutError("items %s and %s overlap" % (n1, n2))
    text = "".join("// ---- cut: %s (sessions.rs bytes %d..%d)\n%s\n\n" % (n, s, e, src[s:e]) for n, s, e in out)
    spans = {n: [s, e] for n, s, e in out}
    calls = []
    for name, rx in OPTIONAL_TESTS:
        hits = [k for k, ln in enumerate(lines) if re.match(rx, ln)]
        if len(hits) == 1:
            end = scan_to_close(src, offs[hits[0]], "brace")
            text += "// ---- cut (unit test): %s\n%s\n\n" % (name, src[offs[hits[0]]:end])
            spans[name] = [offs[hits[0]], end]
            calls.append(name)
    text += "fn run_selftests() -> usize {\n%s    %d\n}\n" % ("".join("    %s();\n" % c for c in calls), len(calls))
    return text, spans


def sigtable(sig):
    """getter defaults and enum numbering of the generated protobuf code"""
    t = {"getters": {}, "enums": {}}
    m = re.search(r"\nimpl StationToDetector \{\n(.*?)\n\}\n", sig, flags=re.S)
    if not m:
        raise CutError("impl StationToDetector not found in signalling.rs")
    body = m.group(1)
    for g in ("phantom_ip", "client_ip", "timeout_ns", "operation", "dst_port", "src_port", "proto"):
        mm = re.search(r"pub fn %s\(&self\) -> ([^{]+?) \{\n(.*?)\n    \}" % g, body, flags=re.S)
        if not mm:
            raise CutError("getter %s not found" % g)
        fn = " ".join(mm.group(2).split())
        d = None
        for rx in (r'None => (""|[\w:]+),', r"unwrap_or\((\w+)\)"):
            x = re.search(rx, fn)
            if x:
                d = x.group(1)
                break
        e = re.search(r"enum_value_or\(([\w:]+)\)", fn)
        t["getters"][g] = {"type": mm.group(1).strip(), "default": d, "unknown_enum": e.group(1) if e else None}
    for en in ("IPProto", "StationOperations"):
        mm = re.search(r"impl ::protobuf::Enum for %s \{.*?fn from_i32\(value: i32\).*?match value \{(.*?)\n        \}" % en, sig, flags=re.S)
        if not mm:
            raise CutError("enum %s not found" % en)
        vals = {}
        for v, nm in re.findall(r"(-?\d+) => ::std::option::Option::Some\(%s::(\w+)\)" % en, mm.group(1)):
            vals[nm] = int(v)
        t["enums"][en] = vals
    return t


def main():
    repo, outdir = sys.argv[1], sys.argv[2]
    try:
        src = open(repo + "/src/sessions.rs").read()
        text, spans = cut(src)
        tab = sigtable(open(repo + "/src/signalling.rs").read())
    except (CutError, OSError) as ex:
        sys.stderr.write("cut failed: %s\n" % ex)
        sys.exit(2)
    with open(outdir + "/cut.rs", "w") as f:
        f.write(text)
    tab["spans"] = spans
    with open(outdir + "/sigtable.json", "w") as f:
        json.dump(tab, f, indent=1)


if __name__ == "__main__":
    main()
