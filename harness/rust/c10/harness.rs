// C10 detector-side harness.  The detector's session rules are NOT re-implemented here: cut.rs
// (written by cut_sessions.py on every run) holds the real items of src/sessions.rs and is
// include!d below.  This file supplies std-only stand-ins for what those items import from other
// crates, and a main() that feeds them the fields of the messages the station published.
//
//   default mode   stdin : one message per line, 7 tab-separated fields  phantom client timeout op dst src proto
//                          "-" = field absent, strings as "x<hex of utf8>", numbers in decimal (enums by number)
//                  stdout: one JSON object per line (see main)
//   --history      stdin : timed scripts against one real SessionTracker (see run_history)
//   --pubsub       stdin : one script for the real ingest_from_pubsub loop over a scripted redis connection
//   --selftest     runs the crate's own unit tests of the handler that cut.rs contains
#![allow(non_upper_case_globals, non_snake_case, dead_code, unused_imports, unused_macros, unused_mut)]

use std::cell::{Cell, RefCell};
use std::collections::{HashMap, VecDeque};
use std::convert::From;
use std::fmt;
use std::io::{self, BufRead, Write};
use std::net::IpAddr;
use std::sync::{Arc, Mutex, RwLock};
use std::thread;
use std::time;

// ---------------------------------------------------------------- stand-ins
thread_local! { static LOG: RefCell<Vec<String>> = RefCell::new(Vec::new()); }
macro_rules! debug { ($($a:tt)*) => { LOG.with(|l| l.borrow_mut().push(format!($($a)*))) } }

// util::precise_time_ns: the detector's clock is an input of every scenario
pub const NOW: u128 = 1_000_000_000_000;
static CLOCK: Mutex<u128> = Mutex::new(NOW);
fn precise_time_ns() -> u128 { *CLOCK.lock().unwrap() }
fn set_clock(t: u128) { *CLOCK.lock().unwrap() = t; }

// pnet::packet::ip
#[derive(Clone, Copy, Debug, PartialEq, Eq, Hash)]
pub struct IpNextHeaderProtocol(pub u8);
pub mod IpNextHeaderProtocols {
    use super::IpNextHeaderProtocol;
    pub const Tcp: IpNextHeaderProtocol = IpNextHeaderProtocol(6);
    pub const Udp: IpNextHeaderProtocol = IpNextHeaderProtocol(17);
}

// signalling.rs (generated protobuf code): getters with their defaults; sigtable.json, read from the
// real signalling.rs on every run, is compared with these by the driver
#[derive(Clone, Copy, Debug, PartialEq, Eq)]
pub enum IPProto { Unk = 0, Tcp = 1, Udp = 2 }
#[derive(Clone, Copy, Debug, PartialEq, Eq)]
pub enum StationOperations { Unknown = 0, New = 1, Update = 2, Clear = 3 }

#[derive(Default, Clone, Debug)]
pub struct StationToDetector {
    phantom_ip: Option<String>,
    client_ip: Option<String>,
    timeout_ns: Option<u64>,
    operation: Option<i32>,
    dst_port: Option<u32>,
    src_port: Option<u32>,
    proto: Option<i32>,
}
impl StationToDetector {
    pub fn new() -> StationToDetector { Default::default() }
    pub fn phantom_ip(&self) -> &str { match self.phantom_ip.as_ref() { Some(v) => v, None => "" } }
    pub fn client_ip(&self) -> &str { match self.client_ip.as_ref() { Some(v) => v, None => "" } }
    pub fn timeout_ns(&self) -> u64 { self.timeout_ns.unwrap_or(0) }
    pub fn dst_port(&self) -> u32 { self.dst_port.unwrap_or(0) }
    pub fn src_port(&self) -> u32 { self.src_port.unwrap_or(0) }
    pub fn operation(&self) -> StationOperations {
        match self.operation {
            Some(1) => StationOperations::New,
            Some(2) => StationOperations::Update,
            Some(3) => StationOperations::Clear,
            _ => StationOperations::Unknown,
        }
    }
    pub fn proto(&self) -> IPProto {
        match self.proto {
            Some(1) => IPProto::Tcp,
            Some(2) => IPProto::Udp,
            _ => IPProto::Unk,
        }
    }
    pub fn set_client_ip(&mut self, v: String) { self.client_ip = Some(v); }
    pub fn set_phantom_ip(&mut self, v: String) { self.phantom_ip = Some(v); }
    pub fn set_timeout_ns(&mut self, v: u64) { self.timeout_ns = Some(v); }
    pub fn set_proto(&mut self, v: IPProto) { self.proto = Some(v as i32); }
    pub fn set_operation(&mut self, v: StationOperations) { self.operation = Some(v as i32); }
}

// protobuf::Message: the payloads of the scripted redis connection are the 7-field text lines
pub trait Message: Sized {
    fn parse_from_bytes(b: &[u8]) -> Result<Self, String>;
}
impl Message for StationToDetector {
    fn parse_from_bytes(b: &[u8]) -> Result<Self, String> {
        let line = String::from_utf8_lossy(b).into_owned();
        if line.starts_with('!') { return Err("scripted wire error".to_string()); }
        parse_fields(&line).ok_or_else(|| "bad field count".to_string())
    }
}

// the redis crate, as far as sessions.rs uses it: a connection whose pubsub yields a script
static SCRIPT: Mutex<VecDeque<String>> = Mutex::new(VecDeque::new());
static SUBSCRIBED: Mutex<Vec<String>> = Mutex::new(Vec::new());
static PUBSUB_MAP: Mutex<Option<Arc<RwLock<HashMap<String, u128>>>>> = Mutex::new(None);
pub mod redis {
    pub struct Client;
    pub struct Connection;
    pub struct PubSub;
    pub struct Msg(pub Option<Vec<u8>>);
    impl Client {
        pub fn open(_url: &str) -> Result<Client, String> { Ok(Client) }
        pub fn get_connection(&self) -> Result<Connection, String> { Ok(Connection) }
    }
    impl Connection {
        pub fn as_pubsub(&mut self) -> PubSub { PubSub }
    }
    impl PubSub {
        pub fn subscribe(&mut self, ch: &str) -> Result<(), String> {
            super::SUBSCRIBED.lock().unwrap().push(ch.to_string());
            Ok(())
        }
        // script lines:  T <ns> (advance the clock)  E (receive error)  Y (message without a readable payload)
        //                B (payload that does not decode)  M <7 fields> (a message)
        pub fn get_message(&mut self) -> Result<Msg, String> {
            loop {
                let next = super::SCRIPT.lock().unwrap().pop_front();
                match next {
                    None => super::finish_pubsub(),
                    Some(l) => {
                        let (k, rest) = (l.chars().next().unwrap_or(' '), if l.len() > 2 { l[2..].to_string() } else { String::new() });
                        match k {
                            'T' => super::set_clock(rest.trim().parse().unwrap()),
                            'E' => return Err("scripted receive error".to_string()),
                            'Y' => return Ok(Msg(None)),
                            'B' => return Ok(Msg(Some(b"!garbage".to_vec()))),
                            'M' => return Ok(Msg(Some(rest.into_bytes()))),
                            _ => {}
                        }
                    }
                }
            }
        }
    }
    impl Msg {
        pub fn get_payload(&self) -> Result<Vec<u8>, String> {
            match &self.0 { Some(v) => Ok(v.clone()), None => Err("scripted payload error".to_string()) }
        }
    }
}

// ---------------------------------------------------------------- the real code
include!("cut.rs");

// ---------------------------------------------------------------- driver
fn unhex(s: &str) -> String {
    let b: Vec<u8> = (0..s.len() / 2).map(|i| u8::from_str_radix(&s[2 * i..2 * i + 2], 16).unwrap()).collect();
    String::from_utf8_lossy(&b).into_owned()
}
fn hex(s: &str) -> String { s.bytes().map(|b| format!("{:02x}", b)).collect() }
fn opt_s(f: &str) -> Option<String> { if f == "-" { None } else { Some(unhex(&f[1..])) } }
fn opt_n<T: std::str::FromStr>(f: &str) -> Option<T> { if f == "-" { None } else { f.parse().ok() } }

fn parse_fields(line: &str) -> Option<StationToDetector> {
    let f: Vec<&str> = line.split('\t').collect();
    if f.len() != 7 { return None; }
    Some(StationToDetector {
        phantom_ip: opt_s(f[0]), client_ip: opt_s(f[1]), timeout_ns: opt_n(f[2]), operation: opt_n(f[3]),
        dst_port: opt_n(f[4]), src_port: opt_n(f[5]), proto: opt_n(f[6]),
    })
}

fn ipj(a: &IpAddr) -> String {
    match a {
        IpAddr::V4(x) => format!("[4,\"{}\"]", u32::from(*x)),
        IpAddr::V6(x) => format!("[6,\"{}\"]", u128::from(*x)),
    }
}
fn classj(s: &str) -> String {
    if s.is_empty() { return "[0,\"0\"]".to_string(); }
    match s.parse::<IpAddr>() { Ok(a) => ipj(&a), Err(_) => "[-1,\"0\"]".to_string() }
}
fn mapj(m: &Arc<RwLock<HashMap<String, u128>>>) -> String {
    let mm = m.read().unwrap();
    let mut v: Vec<(&String, &u128)> = mm.iter().collect();
    v.sort();
    let items: Vec<String> = v.iter().map(|(k, e)| format!("[\"{}\",\"{}\"]", hex(k), e)).collect();
    format!("[{}]", items.join(","))
}

const SENTINEL: &str = "~other-session";
// constant of the crate's test module, used by the unit tests cut.rs may contain
const S2NS_U64: u64 = 1000 * 1000 * 1000;

// One real SessionTracker driven by a timed script; one JSON line per command.
//   R            new tracker             T <ns>        set the clock
//   M <fields>   pubsub_handle_s2d       A <fields>    add_session (conversion first; no-op if it fails)
//   P <fields>   update_session on the flow the message describes      Q <fields>  is_tracked_session
//   S            drop_stale_sessions
// every answer carries the tag of the message's session (if it converts), an auxiliary number
// (dropped count / tracked) and the table after the command
fn run_history() {
    let stdin = io::stdin();
    let out = io::stdout();
    let mut out = out.lock();
    let mut st = SessionTracker::new();
    for line in stdin.lock().lines() {
        let line = line.unwrap();
        if line.is_empty() { continue; }
        let k = line.chars().next().unwrap();
        let rest = if line.len() > 2 { &line[2..] } else { "" };
        let mut aux: i64 = -1;
        let mut tag = String::new();
        let s2d = parse_fields(rest);
        let sd = match &s2d { Some(m) => SessionResult::from(m).ok(), None => None };
        if let Some(d) = &sd { tag = hex(&d.tag()); }
        match k {
            'R' => { st = SessionTracker::new(); set_clock(NOW); }
            'T' => set_clock(rest.trim().parse().unwrap()),
            'M' => if let Some(m) = &s2d { pubsub_handle_s2d(&st.tracked_sessions, m) },
            'A' => if let Some(d) = sd { st.add_session(d) },
            'P' => if let Some(d) = &sd { st.update_session(d) },
            'Q' => if let Some(d) = &sd { aux = st.is_tracked_session(d) as i64 },
            'S' => aux = st.drop_stale_sessions() as i64,
            _ => {}
        }
        writeln!(out, "{{\"tag\":\"{}\",\"aux\":{},\"len\":{},\"map\":{}}}", tag, aux, st.len(), mapj(&st.tracked_sessions)).unwrap();
    }
}

// the real ingest_from_pubsub never returns: the scripted connection ends the process when the script is exhausted
fn finish_pubsub() -> ! {
    let m = PUBSUB_MAP.lock().unwrap().clone().unwrap();
    let subs: Vec<String> = SUBSCRIBED.lock().unwrap().iter().map(|s| format!("\"{}\"", s)).collect();
    let logs: Vec<String> = LOG.with(|l| l.borrow().iter().map(|s| format!("\"{}\"", hex(s))).collect());
    let returned = LOOP_RETURNED.load(std::sync::atomic::Ordering::SeqCst);
    let left = SCRIPT.lock().unwrap().len();
    println!("{{\"subscribed\":[{}],\"map\":{},\"log\":[{}],\"returned\":{},\"unread\":{}}}", subs.join(","), mapj(&m), logs.join(","), returned, left);
    std::process::exit(0);
}
static LOOP_RETURNED: std::sync::atomic::AtomicBool = std::sync::atomic::AtomicBool::new(false);
fn run_pubsub() {
    let stdin = io::stdin();
    for line in stdin.lock().lines() {
        let line = line.unwrap();
        if !line.is_empty() { SCRIPT.lock().unwrap().push_back(line); }
    }
    let m: Arc<RwLock<HashMap<String, u128>>> = Arc::new(RwLock::new(HashMap::new()));
    *PUBSUB_MAP.lock().unwrap() = Some(Arc::clone(&m));
    ingest_from_pubsub(m);
    // the real loop never returns; a version that does has stopped listening with part of the script unread
    LOOP_RETURNED.store(true, std::sync::atomic::Ordering::SeqCst);
    finish_pubsub()
}

fn main() {
    if std::env::args().any(|a| a == "--selftest") {
        // the crate's own unit tests of the handler; an assertion failure aborts with a non-zero status
        let n = run_selftests();
        println!("selftests run: {}", n);
        return;
    }
    if std::env::args().any(|a| a == "--history") { return run_history(); }
    if std::env::args().any(|a| a == "--pubsub") { return run_pubsub(); }
    let stdin = io::stdin();
    let out = io::stdout();
    let mut out = out.lock();
    for line in stdin.lock().lines() {
        let line = line.unwrap();
        if line.is_empty() { continue; }
        let s2d = match parse_fields(&line) {
            Some(m) => m,
            None => { writeln!(out, "{{\"bad_line\":true}}").unwrap(); continue; }
        };
        // what the detector's address parser makes of the two texts
        let pc = classj(s2d.phantom_ip());
        let cc = classj(s2d.client_ip());
        // the conversion
        LOG.with(|l| l.borrow_mut().clear());
        let (conv, tag, tmo) = match SessionResult::from(&s2d) {
            Ok(sd) => {
                let p = if sd.proto == IpNextHeaderProtocols::Tcp { 1 } else if sd.proto == IpNextHeaderProtocols::Udp { 2 } else { 0 };
                (format!("{{\"ok\":true,\"client\":{},\"phantom\":{},\"dst\":{},\"src\":{},\"proto\":{},\"timeout\":\"{}\",\"tag\":\"{}\"}}",
                         ipj(&sd.client_ip), ipj(&sd.phantom_ip), sd.dst_port, sd.src_port, p, sd.timeout, hex(&sd.tag())),
                 Some(sd.tag()), sd.timeout)
            }
            Err(e) => (format!("{{\"ok\":false,\"err\":\"{:?}\",\"text\":\"{}\"}}", e, e), None, 0),
        };
        // the handler on three detector states: only an unrelated session; this session about to expire;
        // this session with a later expiry than the message asks for
        let mut finals = Vec::new();
        for st in 0..3 {
            let mut h: HashMap<String, u128> = HashMap::new();
            h.insert(SENTINEL.to_string(), 7);
            if let Some(t) = &tag {
                if st == 1 { h.insert(t.clone(), NOW + 1); }
                if st == 2 { h.insert(t.clone(), NOW + tmo + 5); }
            }
            let m = Arc::new(RwLock::new(h));
            LOG.with(|l| l.borrow_mut().clear());
            pubsub_handle_s2d(&m, &s2d);
            finals.push(mapj(&m));
        }
        let logs: Vec<String> = LOG.with(|l| l.borrow().iter().map(|s| format!("\"{}\"", hex(s))).collect());
        writeln!(out, "{{\"pclass\":{},\"cclass\":{},\"conv\":{},\"maps\":[{}],\"log\":[{}]}}",
                 pc, cc, conv, finals.join(","), logs.join(",")).unwrap();
    }
}
