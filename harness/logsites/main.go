// logsites — walks the station's logging call sites (C17) and classifies every argument.
//
//	go run /verif/harness/logsites <repo root> > sites.json
//
// Standard library only (go/ast, go/parser, go/token); no type checking: receivers are
// recognised by name, argument origins by a syntactic walk over the enclosing function.
// The output is consumed by driver/props/c17.py, which regenerates coq/C17/Sites.v from it.
package main

import (
	"bytes"
	"encoding/json"
	"fmt"
	"go/ast"
	"go/parser"
	"go/printer"
	"go/token"
	"os"
	"path/filepath"
	"regexp"
	"sort"
	"strings"
)

var files = []string{
	"cmd/application/conns.go",
	"cmd/application/main.go",
	"pkg/station/lib/proxies.go",
	"pkg/station/lib/registration.go",
	"pkg/station/lib/registration_ingest.go",
}

// method name -> level (the order is read from pkg/station/log/logger.go, see levelOrder)
var methodLevel = map[string]string{}

func init() {
	for _, l := range []string{"Trace", "Debug", "Warn", "Error", "Info"} {
		for _, sfx := range []string{"", "f", "ln"} {
			methodLevel[l+sfx] = l
		}
	}
	for _, l := range []string{"Print", "Fatal", "Panic"} {
		for _, sfx := range []string{"", "f", "ln"} {
			methodLevel[l+sfx] = "Print" // printed regardless of the level
		}
	}
}

type Arg struct {
	Class string `json:"class"` // Const Sanitised RawErr ClientAddr Placeholder Digest InternalErr
	Text  string `json:"text"`
	Why   string `json:"why"`
}
type Site struct {
	File   string `json:"file"`
	Line   int    `json:"line"`
	Func   string `json:"func"`
	Recv   string `json:"recv"`
	Method string `json:"method"`
	Level  string `json:"level"`
	Format string `json:"format"`
	Args   []Arg  `json:"args"`
}
type Out struct {
	Sites      []Site         `json:"sites"`
	LevelOrder map[string]int `json:"level_order"` // numeric value of each level constant
	Default    string         `json:"default_level"`
	Guards     map[string]string `json:"guards"` // `level <= X` guard of every Logger method
	Sanitiser  map[string][]string `json:"sanitiser"` // per file: the cases of generalizeErr in order, and its fallback
}

var fset = token.NewFileSet()

func src(n ast.Node) string {
	var b bytes.Buffer
	printer.Fprint(&b, fset, n)
	return b.String()
}

var addrExpr = regexp.MustCompile(`RemoteAddr\(\)|registrationAddr|GetRegistrationAddress\(\)|\bsourceAddr\b|\bclientAddr\b|\bremoteIP\b|\boriginalIPPort\b`)
var digestExpr = regexp.MustCompile(`IDString\(\)|\.String\(\)$|^statsStr$|^tunStatsStr$|^flowDescription$`)

// calls whose error result can carry the text of a network-stack error on the client connection
// (or an arbitrary error produced while handling it)
var netIO = map[string]bool{"Read": true, "Write": true, "Close": true, "SetDeadline": true, "SetReadDeadline": true,
	"SetWriteDeadline": true, "SetLinger": true, "Copy": true, "CopyBuffer": true, "Dial": true, "WrapConnection": true,
	"writePROXYHeader": true, "File": true, "CC": true, "ASN": true, "ReadFull": true}

// reviewed producers of address-free errors (registration parsing / configuration / key handling);
// an error from any other call is treated as raw
var internalErr = map[string]string{
	"ParseConfig": "configuration file errors", "ParseLevel": "log level name", "ParseBool": "environment flag text",
	"ParsePrivateKey": "key file errors", "ParseZMQPrivateKey": "key file errors", "New": "constructor errors (prefix file, selector, geoip paths)",
	"Default": "prefix file errors", "AddTransport": "transport table", "NewTransport": "dtls set-up", "NewZMQIngest": "zmq set-up",
	"NewPhantomIPSelector": "subnet file", "GetPhantomSubnetSelector": "subnet file", "parseRegMessage": "protobuf decoding / phantom selection (no registrant address in the error texts)",
	"ValidateRegistration": "fixed texts", "TrackRegIfNotExists": "fixed texts", "TrackRegistration": "fixed texts", "Marshal": "protobuf/json encoding",
	"Unmarshal": "protobuf decoding", "NewRegistrationC2SWrapper": "phantom selection / transport parameter errors (length only for a bad registration address)",
	"executeHTTPRequest": "peer station URL, not a client address", "ListenTCP": "station's own listen address", "registerForDetector": "redis errors",
	"NewRegistration": "phantom selection errors", "register": "tracking errors naming the registration id only",
	"AcceptTCP": "listener error: carries the station's own listen address", "getOriginalDst": "bare errno from getsockopt",
	"SetNonblock": "bare errno from fcntl", "UpdateFromConfig": "configuration", "FromString": "subnet text",
}

type fnCtx struct {
	body *ast.BlockStmt
	name string
	file string
}

// lastAssign finds the right-hand side most recently assigned to `name` before position `pos`
// inside the function (syntactic order).
func (f *fnCtx) lastAssign(name string, pos token.Pos) (rhs ast.Expr, at token.Pos, guarded string) {
	ast.Inspect(f.body, func(n ast.Node) bool {
		switch s := n.(type) {
		case *ast.AssignStmt:
			if s.Pos() >= pos {
				return true
			}
			for i, l := range s.Lhs {
				if id, ok := l.(*ast.Ident); ok && id.Name == name && s.Pos() > at {
					if len(s.Rhs) == len(s.Lhs) {
						rhs = s.Rhs[i]
					} else {
						rhs = s.Rhs[0]
					}
					at = s.Pos()
				}
			}
		case *ast.ValueSpec:
			if s.Pos() >= pos {
				return true
			}
			for i, id := range s.Names {
				if id.Name == name && len(s.Values) > 0 && s.Pos() > at {
					if len(s.Values) == len(s.Names) {
						rhs = s.Values[i]
					} else {
						rhs = s.Values[0]
					}
					at = s.Pos()
				}
			}
		}
		return true
	})
	return
}

// allAssigns returns every right-hand side assigned to name in the function with the condition of
// the innermost enclosing `if` whose THEN branch contains it ("" when unconditional or in an else).
func (f *fnCtx) allAssigns(name string) (out [][2]string) {
	var walk func(n ast.Node, cond string)
	walk = func(n ast.Node, cond string) {
		ast.Inspect(n, func(m ast.Node) bool {
			switch s := m.(type) {
			case *ast.IfStmt:
				if s.Init != nil {
					walk(s.Init, cond)
				}
				walk(s.Body, src(s.Cond))
				if s.Else != nil {
					walk(s.Else, "!("+src(s.Cond)+")")
				}
				return false
			case *ast.AssignStmt:
				for i, l := range s.Lhs {
					if id, ok := l.(*ast.Ident); ok && id.Name == name {
						r := s.Rhs[0]
						if len(s.Rhs) == len(s.Lhs) {
							r = s.Rhs[i]
						}
						out = append(out, [2]string{src(r), cond})
					}
				}
			}
			return true
		})
	}
	walk(f.body, "")
	return
}

func calleeName(e ast.Expr) string {
	c, ok := e.(*ast.CallExpr)
	if !ok {
		return ""
	}
	switch fn := c.Fun.(type) {
	case *ast.Ident:
		return fn.Name
	case *ast.SelectorExpr:
		return fn.Sel.Name
	}
	return ""
}

var errName = regexp.MustCompile(`^(err|er|ew|e|eg|errN|response|err2|errConnClose|serverErr)$`)

func (f *fnCtx) classify(e ast.Expr, pos token.Pos, depth int) Arg {
	t := src(e)
	a := Arg{Text: t}
	switch x := e.(type) {
	case *ast.BasicLit:
		a.Class, a.Why = "Const", "literal"
		return a
	case *ast.CallExpr:
		if calleeName(x) == "generalizeErr" {
			a.Class, a.Why = "Sanitised", "generalizeErr(...)"
			return a
		}
	case *ast.Ident:
		if x.Name == "originalSrc" || x.Name == "flowDescription" {
			// placeholder mechanism: every address-bearing assignment must sit under `if logClientIP`
			name := "originalSrc"
			ok, seen := true, false
			for _, as := range f.allAssigns(name) {
				if addrExpr.MatchString(as[0]) {
					seen = true
					if as[1] != "logClientIP" {
						ok = false
					}
				}
			}
			if x.Name == "flowDescription" {
				for _, as := range f.allAssigns("flowDescription") {
					if addrExpr.MatchString(as[0]) {
						ok = false
					}
				}
			}
			if ok && seen {
				a.Class, a.Why = "Placeholder", "client address only under `if logClientIP`, \"_\" otherwise"
			} else if ok {
				a.Class, a.Why = "Const", "no client address assigned"
			} else {
				a.Class, a.Why = "ClientAddr", "client address assigned outside the logClientIP guard"
			}
			return a
		}
		if depth < 4 {
			if rhs, _, _ := f.lastAssign(x.Name, pos); rhs != nil {
				if calleeName(rhs) == "generalizeErr" {
					a.Class, a.Why = "Sanitised", x.Name+" = "+src(rhs)
					return a
				}
				if errName.MatchString(x.Name) {
					cn := calleeName(rhs)
					switch {
					case netIO[cn]:
						a.Class, a.Why = "RawErr", x.Name+" comes from "+src(rhs)
					case internalErr[cn] != "":
						a.Class, a.Why = "InternalErr", x.Name+" comes from "+cn+": "+internalErr[cn]
					default:
						a.Class, a.Why = "RawErr", x.Name+" comes from an unreviewed producer: "+src(rhs)
					}
					return a
				}
				if addrExpr.MatchString(src(rhs)) {
					a.Class, a.Why = "ClientAddr", x.Name+" = "+src(rhs)
					return a
				}
				if digestExpr.MatchString(src(rhs)) || calleeName(rhs) == "Marshal" {
					a.Class, a.Why = "Digest", x.Name+" = "+src(rhs)
					return a
				}
			} else if errName.MatchString(x.Name) {
				a.Class, a.Why = "RawErr", "error value of unknown origin (parameter or range variable)"
				return a
			}
		}
	}
	switch {
	case addrExpr.MatchString(t):
		a.Class, a.Why = "ClientAddr", "expression names the client / registrant address"
	case digestExpr.MatchString(t):
		a.Class, a.Why = "Digest", "registration / tunnel digest"
	case errName.MatchString(t):
		a.Class, a.Why = "RawErr", "error value"
	default:
		a.Class, a.Why = "Const", "non-address value"
	}
	return a
}

func isLoggerRecv(e ast.Expr) bool {
	t := src(e)
	return t == "log" || t == "golog" || strings.HasSuffix(t, "ogger") || strings.HasSuffix(t, "Logger")
}

func walkFile(root, rel string, out *Out) error {
	path := filepath.Join(root, rel)
	f, err := parser.ParseFile(fset, path, nil, parser.ParseComments)
	if err != nil {
		return err
	}
	for _, d := range f.Decls {
		fd, ok := d.(*ast.FuncDecl)
		if !ok || fd.Body == nil {
			continue
		}
		ctx := &fnCtx{body: fd.Body, name: fd.Name.Name, file: rel}
		ast.Inspect(fd.Body, func(n ast.Node) bool {
			c, ok := n.(*ast.CallExpr)
			if !ok {
				return true
			}
			sel, ok := c.Fun.(*ast.SelectorExpr)
			if !ok {
				return true
			}
			// log.New(w, prefix, flags): the prefix is printed in front of every line of that logger
			if src(sel.X) == "log" && sel.Sel.Name == "New" && len(c.Args) == 3 {
				s := Site{File: rel, Line: fset.Position(c.Pos()).Line, Func: fd.Name.Name, Recv: "log", Method: "New(prefix)", Level: "Print"}
				ast.Inspect(c.Args[1], func(m ast.Node) bool {
					switch y := m.(type) {
					case *ast.Ident:
						s.Args = append(s.Args, ctx.classify(y, c.Pos(), 0))
					case *ast.BasicLit:
						return false
					}
					return true
				})
				out.Sites = append(out.Sites, s)
				return true
			}
			// logger.SetPrefix(fmt.Sprintf(...))
			lvl, ok := methodLevel[sel.Sel.Name]
			if sel.Sel.Name == "SetPrefix" && isLoggerRecv(sel.X) {
				lvl, ok = "Print", true
			}
			if !ok || !isLoggerRecv(sel.X) {
				return true
			}
			s := Site{File: rel, Line: fset.Position(c.Pos()).Line, Func: fd.Name.Name, Recv: src(sel.X), Method: sel.Sel.Name, Level: lvl}
			args := c.Args
			if len(args) == 1 {
				if inner, ok := args[0].(*ast.CallExpr); ok && calleeName(inner) == "Sprintf" {
					args = inner.Args
				}
			}
			for i, a := range args {
				if i == 0 {
					if bl, ok := a.(*ast.BasicLit); ok {
						s.Format = bl.Value
						continue
					}
				}
				s.Args = append(s.Args, ctx.classify(a, c.Pos(), 0))
			}
			out.Sites = append(out.Sites, s)
			return true
		})
		// composite literals that become log / statistics records
		ast.Inspect(fd.Body, func(n ast.Node) bool {
			cl, ok := n.(*ast.CompositeLit)
			if !ok {
				return true
			}
			tn := src(cl.Type)
			isStats := tn == "tunnelStats" || tn == "regExpireLogMsg" || (fd.Name.Name == "String" && strings.HasPrefix(tn, "struct"))
			if !isStats {
				return true
			}
			s := Site{File: rel, Line: fset.Position(cl.Pos()).Line, Func: fd.Name.Name, Recv: "record", Method: "literal:" + strings.SplitN(tn, "{", 2)[0], Level: "Print"}
			for _, el := range cl.Elts {
				if kv, ok := el.(*ast.KeyValueExpr); ok {
					a := ctx.classify(kv.Value, cl.Pos(), 0)
					a.Text = src(kv.Key) + ": " + a.Text
					if a.Class == "Digest" {
						a.Class = "Const"
					}
					s.Args = append(s.Args, a)
				}
			}
			out.Sites = append(out.Sites, s)
			return true
		})
		// the sanitiser's shape
		if fd.Name.Name == "generalizeErr" {
			var cases []string
			ast.Inspect(fd.Body, func(n ast.Node) bool {
				switch x := n.(type) {
				case *ast.CaseClause:
					var conds []string
					for _, e := range x.List {
						conds = append(conds, src(e))
					}
					ret := ""
					for _, st := range x.Body {
						if r, ok := st.(*ast.ReturnStmt); ok && len(r.Results) == 1 {
							ret = src(r.Results[0])
						}
					}
					if x.List == nil {
						conds = []string{"default"}
					}
					cases = append(cases, strings.Join(conds, " || ")+" => "+ret)
				}
				return true
			})
			last := fd.Body.List[len(fd.Body.List)-1]
			if r, ok := last.(*ast.ReturnStmt); ok && len(r.Results) == 1 {
				cases = append(cases, "fallback => "+src(r.Results[0]))
			}
			if out.Sanitiser == nil {
				out.Sanitiser = map[string][]string{}
			}
			out.Sanitiser[rel] = cases
		}
	}
	return nil
}

func levelOrder(root string, out *Out) error {
	path := filepath.Join(root, "pkg/station/log/logger.go")
	f, err := parser.ParseFile(fset, path, nil, 0)
	if err != nil {
		return err
	}
	out.LevelOrder = map[string]int{}
	out.Guards = map[string]string{}
	for _, d := range f.Decls {
		switch g := d.(type) {
		case *ast.GenDecl:
			if g.Tok == token.CONST {
				for i, sp := range g.Specs {
					vs := sp.(*ast.ValueSpec)
					for _, n := range vs.Names {
						if strings.HasSuffix(n.Name, "Level") {
							v := i // iota
							if len(vs.Values) == 1 {
								if u, ok := vs.Values[0].(*ast.UnaryExpr); ok && u.Op == token.SUB {
									v = -1
								}
							}
							out.LevelOrder[strings.TrimSuffix(n.Name, "Level")] = v
						}
					}
				}
			}
			if g.Tok == token.VAR {
				for _, sp := range g.Specs {
					vs := sp.(*ast.ValueSpec)
					if len(vs.Names) == 1 && vs.Names[0].Name == "level" && len(vs.Values) == 1 {
						out.Default = strings.TrimSuffix(src(vs.Values[0]), "Level")
					}
				}
			}
		case *ast.FuncDecl:
			if g.Recv == nil || g.Body == nil {
				continue
			}
			if _, ok := methodLevel[g.Name.Name]; !ok {
				continue
			}
			guard := "always"
			ast.Inspect(g.Body, func(n ast.Node) bool {
				if is, ok := n.(*ast.IfStmt); ok {
					guard = src(is.Cond)
					return false
				}
				return true
			})
			out.Guards[g.Name.Name] = guard
		}
	}
	return nil
}

func main() {
	if len(os.Args) < 2 {
		fmt.Fprintln(os.Stderr, "usage: logsites <repo root>")
		os.Exit(2)
	}
	root := os.Args[1]
	var out Out
	for _, rel := range files {
		if err := walkFile(root, rel, &out); err != nil {
			fmt.Fprintln(os.Stderr, "logsites:", err)
			os.Exit(1)
		}
	}
	if err := levelOrder(root, &out); err != nil {
		fmt.Fprintln(os.Stderr, "logsites:", err)
		os.Exit(1)
	}
	sort.SliceStable(out.Sites, func(i, j int) bool {
		if out.Sites[i].File != out.Sites[j].File {
			return out.Sites[i].File < out.Sites[j].File
		}
		return out.Sites[i].Line < out.Sites[j].Line
	})
	enc := json.NewEncoder(os.Stdout)
	enc.SetIndent("", " ")
	enc.Encode(out)
}
