// logsites — walks the station's logging call sites (C17) and classifies every argument.
//
//	go run /verif/harness/logsites/main.go <repo root> > sites.json
//
// Standard library only.  The walked set is computed, not listed: every package of the conjure
// module in the dependency closure of the station binary (cmd/application), i.e. everything whose
// log output the station process can emit, except the logger package itself.  Each package is
// type-checked with go/types against the compiler's export data (`go list -export -deps`, which
// works offline from the build cache), so that "is a logging call", "is an error", "is an
// address" are decided by types.  Where an argument's value comes from (generalizeErr, a network
// call, a reviewed producer) is still a syntactic walk over the enclosing function.
// If type checking is impossible the walker falls back to names and says so ("typed": false).
// The output is consumed by driver/props/c17.py, which regenerates coq/C17/Sites.v from it.
package main

import (
	"bufio"
	"bytes"
	"encoding/json"
	"fmt"
	"go/ast"
	"go/importer"
	"go/parser"
	"go/printer"
	"go/token"
	"go/types"
	"io"
	"os"
	"os/exec"
	"path/filepath"
	"regexp"
	"sort"
	"strings"
)

const module = "github.com/refraction-networking/conjure"
const logPkg = module + "/pkg/station/log"

var methodLevel = map[string]string{}

func init() {
	for _, l := range []string{"Trace", "Debug", "Warn", "Error", "Info"} {
		for _, sfx := range []string{"", "f", "ln"} {
			methodLevel[l+sfx] = l
		}
	}
	for _, l := range []string{"Print", "Fatal", "Panic"} {
		for _, sfx := range []string{"", "f", "ln"} {
			methodLevel[l+sfx] = "Print" // printed regardless of the level
		}
	}
}

type Arg struct {
	Class string `json:"class"` // Const Sanitised RawErr ClientAddr Placeholder Digest InternalErr
	Text  string `json:"text"`
	Type  string `json:"type,omitempty"`
	Why   string `json:"why"`
	// Producer: for an error argument, the kind of call whose result it is (decided by types where
	// possible): conn:<tcp|any>:<read|write|close|file|set|rawcontrol>, fileconn, syscall, accept,
	// dial-covert, connect-client, geoip, transport, proxy-header, reviewed, unknown.
	// For a Sanitised argument it is the producer of the error that was passed to generalizeErr.
	Producer string `json:"producer,omitempty"`
	ProdWhy  string `json:"producer_why,omitempty"`
}
type Site struct {
	File   string `json:"file"`
	Line   int    `json:"line"`
	Func   string `json:"func"`
	Recv   string `json:"recv"`
	Method string `json:"method"`
	Level  string `json:"level"`
	Format string `json:"format"`
	Args   []Arg  `json:"args"`
}
type Out struct {
	Typed      bool                `json:"typed"`
	TypeNote   string              `json:"type_note"`
	Packages   []string            `json:"packages"`
	Sites      []Site              `json:"sites"`
	LevelOrder map[string]int      `json:"level_order"`
	Default    string              `json:"default_level"`
	Guards     map[string]string   `json:"guards"`
	Sanitiser  map[string][]string `json:"sanitiser"`
	Gates      []Gate              `json:"gates"` // every place that decides whether a client address may be printed
}

// Gate: the expression that guards an address-printing site.  OK means it is the station's rule
// (cmd/application/main.go): strconv.ParseBool(os.Getenv("LOG_CLIENT_IP")) accepted as true, false on error.
type Gate struct {
	Where string `json:"where"`
	Expr  string `json:"expr"`
	OK    bool   `json:"ok"`
	Why   string `json:"why"`
}

var gates []Gate

var fset = token.NewFileSet()

func src(n ast.Node) string {
	var b bytes.Buffer
	printer.Fprint(&b, fset, n)
	return b.String()
}

// expressions that name the client's / registrant's address
var addrExpr = regexp.MustCompile(`RemoteAddr\(\)|registrationAddr|GetRegistrationAddress\(\)|\bsourceAddr\b|\bclientAddr\b|\bremoteIP\b|\boriginalIPPort\b|\bremoteAddr\b|SrcAddr[46]`)

// address-typed expressions that are NOT a client address: phantom, decoy, covert and the station's own addresses
var notClientAddr = regexp.MustCompile(`(?i)phantom|originalDst|darkDecoy|decoyAddress|\bln\.Addr\(\)|listenAddr|LocalAddr\(\)|\bladdr\b|covert|\.decoy\b|ipOverride|subnet|\bnet\.IPv4\(`)
var digestExpr = regexp.MustCompile(`IDString\(\)|^statsStr$|^tunStatsStr$`)

// calls whose error result can carry the text of a network-stack error on the client connection
// (or an arbitrary error produced while handling it)
var netIO = map[string]bool{"Read": true, "Write": true, "Close": true, "SetDeadline": true, "SetReadDeadline": true,
	"SetWriteDeadline": true, "SetLinger": true, "Copy": true, "CopyBuffer": true, "Dial": true, "WrapConnection": true,
	"writePROXYHeader": true, "File": true, "CC": true, "ASN": true, "ReadFull": true, "Connect": true, "Accept": true,
	"AcceptWithContext": true, "ClientWithContext": true, "Server": true, "Client": true}

// reviewed producers of address-free errors; an error from any other call is treated as raw
var internalErr = map[string]string{
	"ParseConfig": "configuration file errors", "ParseLevel": "log level name", "ParseBool": "environment flag text",
	"ParsePrivateKey": "key file errors", "ParseZMQPrivateKey": "key file errors", "New": "constructor errors (prefix file, selector, geoip paths)",
	"Default": "prefix file errors", "AddTransport": "transport table", "NewTransport": "dtls set-up", "NewZMQIngest": "zmq set-up",
	"NewPhantomIPSelector": "subnet file", "GetPhantomSubnetSelector": "subnet file", "parseRegMessage": "protobuf decoding / phantom selection (no registrant address in the error texts; GeoIP errors are generalized where they are wrapped)",
	"ValidateRegistration": "fixed texts", "TrackRegIfNotExists": "fixed texts", "TrackRegistration": "fixed texts", "Marshal": "protobuf/json encoding",
	"Unmarshal": "protobuf decoding", "NewRegistrationC2SWrapper": "phantom selection / transport parameter errors (length only for a bad registration address; GeoIP errors generalized)",
	"executeHTTPRequest": "peer station URL, not a client address", "ListenTCP": "station's own listen address", "registerForDetector": "redis errors",
	"NewRegistration": "phantom selection errors", "UpdateFromConfig": "configuration", "FromString": "subnet text",
	"register": "tracking errors naming the registration id only", "AcceptTCP": "listener error: carries the station's own listen address",
	
	"Publish": "redis client errors (redis server address)", "Ping": "redis client errors (redis server address)", "Result": "redis client errors",
	"NewSocket": "zmq set-up", "Connect_": "", "Bind": "zmq endpoint", "SetSubscribe": "zmq", "RecvBytes": "zmq receive", "SendBytes": "zmq send",
	"ServerAuthCurve": "zmq auth", "AuthStart": "zmq auth", "Open": "file path errors", "ReadFile": "file path errors", "ReadAll": "csv/file errors",
	"Remove": "file path errors", "Create": "file path errors", "Run": "external scanner command", "ParseDuration": "configuration text",
	"ListenAndServe": "pprof listen address",
}

type fnCtx struct {
	body  *ast.BlockStmt
	name  string
	info  *types.Info
	decls map[string]*ast.FuncDecl // functions of the same package (for the producer of a helper's error)
}

// ---------------------------------------------------------------- producers

var concreteNetConn = map[string]bool{"*net.TCPConn": true, "*net.UDPConn": true, "*net.IPConn": true, "*net.UnixConn": true,
	"net.TCPConn": true, "net.UDPConn": true}

func hasMethods(t types.Type, names ...string) bool {
	if t == nil {
		return false
	}
	ms := types.NewMethodSet(t)
	if _, isPtr := t.(*types.Pointer); !isPtr {
		if _, isIface := t.Underlying().(*types.Interface); !isIface {
			ms = types.NewMethodSet(types.NewPointer(t))
		}
	}
	for _, n := range names {
		found := false
		for i := 0; i < ms.Len(); i++ {
			if ms.At(i).Obj().Name() == n {
				found = true
				break
			}
		}
		if !found {
			return false
		}
	}
	return true
}

// connKind: "tcp" for package net's concrete connections, "any" for every other value with the
// net.Conn / net.PacketConn method set, "" otherwise
func connKind(t types.Type) string {
	if t == nil {
		return ""
	}
	if concreteNetConn[typeString(t)] {
		return "tcp"
	}
	if hasMethods(t, "RemoteAddr", "Read", "Write", "Close", "SetDeadline") || hasMethods(t, "ReadFrom", "WriteTo", "LocalAddr", "Close", "SetDeadline") {
		return "any"
	}
	return ""
}

var connMethodOp = map[string]string{"Read": "read", "ReadFrom": "read", "ReadFromUDP": "read", "ReadMsgUDP": "read", "Write": "write",
	"WriteTo": "write", "WriteToUDP": "write", "WriteMsgUDP": "write", "Close": "close", "CloseRead": "close", "CloseWrite": "close",
	"File": "file", "SyscallConn": "rawcontrol",
	"SetDeadline": "set", "SetReadDeadline": "set", "SetWriteDeadline": "set", "SetLinger": "set", "SetNoDelay": "set", "SetKeepAlive": "set",
	"SetKeepAlivePeriod": "set", "SetReadBuffer": "set", "SetWriteBuffer": "set", "SetKeepAliveConfig": "set"}

// mayEmbed: can an error of this producer kind carry the client address?  (mirrors addr_free_producer of the model,
// which is what decides)
func mayEmbed(p string) bool {
	switch p {
	case "conn:tcp:set", "conn:tcp:rawcontrol", "syscall", "accept", "dial-covert", "reviewed":
		return false
	}
	return true
}

// producerOfCall: the producer kind of the error result of a call expression
func (f *fnCtx) producerOfCall(rhs ast.Expr, depth int) (string, string) {
	c, ok := rhs.(*ast.CallExpr)
	if !ok {
		// a type assertion / conversion / plain value: not a call
		return "unknown", "not a call: " + src(rhs)
	}
	cn := calleeName(c)
	cp := f.calleePkg(c)
	if f.info != nil {
		if sel, ok := c.Fun.(*ast.SelectorExpr); ok {
			if s, ok := f.info.Selections[sel]; ok && s.Kind() == types.MethodVal {
				recv := s.Recv()
				if k := connKind(recv); k != "" {
					if op, ok := connMethodOp[cn]; ok {
						return "conn:" + k + ":" + op, cn + " on " + typeString(recv)
					}
				}
				if typeString(recv) == "syscall.RawConn" {
					return "conn:tcp:rawcontrol", cn + " on syscall.RawConn"
				}
				if hasMethods(recv, "Accept", "Addr", "Close") && strings.HasPrefix(cn, "Accept") {
					return "accept", cn + " on " + typeString(recv)
				}
			}
		}
		switch cp {
		case "syscall", "golang.org/x/sys/unix":
			return "syscall", cp + "." + cn
		case "io":
			k := ""
			for _, a := range c.Args {
				if tv, ok := f.info.Types[a]; ok {
					if ck := connKind(tv.Type); ck != "" && (k == "" || ck == "any") {
						k = ck
					}
				}
			}
			if k != "" {
				return "conn:" + k + ":read", "io." + cn + " over a connection"
			}
		case "net":
			switch {
			case cn == "FileConn" || cn == "FilePacketConn" || cn == "FileListener":
				return "fileconn", "net." + cn
			case strings.HasPrefix(cn, "Dial"):
				as := ""
				for _, a := range c.Args {
					as += src(a) + " "
				}
				if notClientAddr.MatchString(as) && !addrExpr.MatchString(as) {
					return "dial-covert", "net." + cn + "(" + strings.TrimSpace(as) + ")"
				}
				return "connect-client", "net." + cn + " to an address that is not known to be the covert's"
			case strings.HasPrefix(cn, "Listen"):
				return "reviewed", "net." + cn + ": the station's own listen address"
			}
		}
	}
	switch cn {
	case "CC", "ASN":
		return "geoip", cn
	case "WrapConnection":
		return "transport", cn
	case "Connect":
		if reviewedPkgs[cp] == "" {
			return "connect-client", cn
		}
	case "writePROXYHeader":
		return "proxy-header", cn
	}
	// a helper of the same package whose every error result comes from raw system calls
	if fd := f.decls[cn]; fd != nil && depth < 3 {
		if _, isSel := c.Fun.(*ast.SelectorExpr); !isSel {
			if k, why := f.producerOfFunc(fd, depth+1); k == "syscall" {
				return k, cn + ": " + why
			}
		}
	}
	if reviewedPkgs[cp] != "" {
		return "reviewed", cp + "." + cn + ": " + reviewedPkgs[cp]
	}
	if netIO[cn] {
		return "unknown", cn + " (network call on a value that is not a connection by type)"
	}
	if internalErr[cn] != "" {
		return "reviewed", cn + ": " + internalErr[cn]
	}
	return "unknown", "unreviewed producer " + src(c.Fun)
}

// producerOfFunc: "syscall" iff every error the function returns is the result of a raw system call
func (f *fnCtx) producerOfFunc(fd *ast.FuncDecl, depth int) (string, string) {
	g := &fnCtx{body: fd.Body, name: fd.Name.Name, info: f.info, decls: f.decls}
	kinds := map[string]bool{}
	n := 0
	ast.Inspect(fd.Body, func(m ast.Node) bool {
		if _, ok := m.(*ast.FuncLit); ok {
			return false
		}
		r, ok := m.(*ast.ReturnStmt)
		if !ok || len(r.Results) == 0 {
			return true
		}
		last := r.Results[len(r.Results)-1]
		if k, _ := g.kindOf(last); k != "error" {
			if id, ok := last.(*ast.Ident); !ok || id.Name != "nil" {
				kinds["unknown"] = true
			}
			return true
		}
		n++
		switch x := last.(type) {
		case *ast.Ident:
			k, _ := g.producerOfIdent(x.Name, r.Pos(), depth)
			kinds[k] = true
		case *ast.CallExpr:
			k, _ := g.producerOfCall(x, depth)
			kinds[k] = true
		default:
			kinds["unknown"] = true
		}
		return true
	})
	if n > 0 && len(kinds) == 1 && kinds["syscall"] {
		return "syscall", "every error it returns is the result of a raw system call"
	}
	return "unknown", ""
}

// producerOfIdent: follows the most recent assignment of an error variable (through generalizeErr)
func (f *fnCtx) producerOfIdent(name string, pos token.Pos, depth int) (string, string) {
	rhs, at := f.lastAssign(name, pos)
	if rhs == nil {
		return "unknown", name + ": error value of unknown origin (parameter, field or range variable)"
	}
	if calleeName(rhs) == "generalizeErr" && depth < 4 {
		c := rhs.(*ast.CallExpr)
		if len(c.Args) == 1 {
			return f.producerOfExpr(c.Args[0], at, depth+1)
		}
	}
	return f.producerOfCall(rhs, depth)
}

func (f *fnCtx) producerOfExpr(e ast.Expr, pos token.Pos, depth int) (string, string) {
	switch x := e.(type) {
	case *ast.Ident:
		return f.producerOfIdent(x.Name, pos, depth)
	case *ast.CallExpr:
		if calleeName(x) == "generalizeErr" && len(x.Args) == 1 {
			return f.producerOfExpr(x.Args[0], pos, depth+1)
		}
		return f.producerOfCall(x, depth)
	}
	return "unknown", "error-typed expression " + src(e)
}

func (f *fnCtx) lastAssign(name string, pos token.Pos) (rhs ast.Expr, at token.Pos) {
	ast.Inspect(f.body, func(n ast.Node) bool {
		switch s := n.(type) {
		case *ast.AssignStmt:
			if s.Pos() >= pos {
				return true
			}
			for i, l := range s.Lhs {
				if id, ok := l.(*ast.Ident); ok && id.Name == name && s.Pos() > at {
					if len(s.Rhs) == len(s.Lhs) {
						rhs = s.Rhs[i]
					} else {
						rhs = s.Rhs[0]
					}
					at = s.Pos()
				}
			}
		case *ast.ValueSpec:
			if s.Pos() >= pos {
				return true
			}
			for i, id := range s.Names {
				if id.Name == name && len(s.Values) > 0 && s.Pos() > at {
					if len(s.Values) == len(s.Names) {
						rhs = s.Values[i]
					} else {
						rhs = s.Values[0]
					}
					at = s.Pos()
				}
			}
		}
		return true
	})
	return
}

// allAssigns returns every right-hand side assigned to name in the function with the condition of
// the innermost enclosing `if` whose THEN branch contains it ("" when unconditional or in an else).
func (f *fnCtx) allAssigns(name string) (out [][2]string) {
	var walk func(n ast.Node, cond string)
	walk = func(n ast.Node, cond string) {
		ast.Inspect(n, func(m ast.Node) bool {
			switch s := m.(type) {
			case *ast.IfStmt:
				if s.Init != nil {
					walk(s.Init, cond)
				}
				walk(s.Body, src(s.Cond))
				if s.Else != nil {
					walk(s.Else, "!("+src(s.Cond)+")")
				}
				return false
			case *ast.AssignStmt:
				for i, l := range s.Lhs {
					if id, ok := l.(*ast.Ident); ok && id.Name == name {
						r := s.Rhs[0]
						if len(s.Rhs) == len(s.Lhs) {
							r = s.Rhs[i]
						}
						out = append(out, [2]string{src(r), cond})
					}
				}
			}
			return true
		})
	}
	walk(f.body, "")
	return
}

func calleeName(e ast.Expr) string {
	c, ok := e.(*ast.CallExpr)
	if !ok {
		return ""
	}
	switch fn := c.Fun.(type) {
	case *ast.Ident:
		return fn.Name
	case *ast.SelectorExpr:
		return fn.Sel.Name
	}
	return ""
}

var errName = regexp.MustCompile(`^(err|er|ew|e|eg|errN|response|err2|errConnClose|serverErr)$`)
var errorIface = types.Universe.Lookup("error").Type().Underlying().(*types.Interface)

func typeString(t types.Type) string {
	if t == nil {
		return ""
	}
	return types.TypeString(t, func(p *types.Package) string { return p.Name() })
}

// kindOf decides by type what sort of value an expression is: "error", "addr", "stringer", "string", "other", "" (untyped mode)
func (f *fnCtx) kindOf(e ast.Expr) (string, string) {
	if f.info == nil {
		return "", ""
	}
	tv, ok := f.info.Types[e]
	if !ok || tv.Type == nil {
		return "other", ""
	}
	if tv.Value != nil {
		return "const", typeString(tv.Type)
	}
	t := tv.Type
	ts := typeString(t)
	if types.Implements(t, errorIface) {
		return "error", ts
	}
	switch strings.TrimPrefix(ts, "*") {
	case "net.IP", "net.Addr", "net.TCPAddr", "net.UDPAddr", "net.IPAddr", "netip.Addr", "netip.AddrPort", "net.IPNet", "net.Conn", "net.TCPConn", "net.UDPConn":
		return "addr", ts
	}
	if b, ok := t.Underlying().(*types.Basic); ok && b.Kind() == types.String {
		return "string", ts
	}
	// a value with a String method prints through it
	if ms := types.NewMethodSet(t); ms.Lookup(nil, "String") != nil {
		return "stringer", ts
	}
	return "other", ts
}

// packages whose errors are about the station's own plumbing (message bus, redis, files,
// encodings), never about a client connection; decided by the callee's package, i.e. by types
var reviewedPkgs = map[string]string{
	"github.com/pebbe/zmq4": "zmq socket errors name the station's own message-bus endpoints",
	"github.com/go-redis/redis/v8": "redis client errors name the redis server", "github.com/go-redis/redis": "redis client errors name the redis server",
	"encoding/json": "encoding", "google.golang.org/protobuf/proto": "protobuf", "os": "file path errors", "strconv": "number/flag text",
	"github.com/BurntSushi/toml": "configuration file", "time": "duration text", "encoding/hex": "encoding", "encoding/csv": "csv",
}

// calleePkg returns the package path of the function or method a call expression invokes ("" if unknown)
func (f *fnCtx) calleePkg(e ast.Expr) string {
	c, ok := e.(*ast.CallExpr)
	if !ok || f.info == nil {
		return ""
	}
	var id *ast.Ident
	switch fn := c.Fun.(type) {
	case *ast.Ident:
		id = fn
	case *ast.SelectorExpr:
		id = fn.Sel
	}
	if id == nil {
		return ""
	}
	if fn, ok := f.info.Uses[id].(*types.Func); ok && fn.Pkg() != nil {
		return fn.Pkg().Path()
	}
	return ""
}

func (f *fnCtx) classifyErrOrigin(name string, pos token.Pos, a *Arg) bool {
	rhs, _ := f.lastAssign(name, pos)
	if rhs == nil {
		return false
	}
	cn := calleeName(rhs)
	cp := f.calleePkg(rhs)
	switch {
	case cn == "generalizeErr":
		a.Class, a.Why = "Sanitised", name+" = "+src(rhs)
	case reviewedPkgs[cp] != "":
		a.Class, a.Why = "InternalErr", name+" comes from "+cp+"."+cn+": "+reviewedPkgs[cp]
	case netIO[cn]:
		a.Class, a.Why = "RawErr", name+" comes from "+src(rhs)
	case internalErr[cn] != "":
		a.Class, a.Why = "InternalErr", name+" comes from "+cn+": "+internalErr[cn]
	default:
		a.Class, a.Why = "RawErr", name+" comes from an unreviewed producer: "+src(rhs)
	}
	return true
}

// how bad a class is when several values are combined into one text
var classRank = map[string]int{"Const": 0, "Digest": 1, "InternalErr": 2, "Sanitised": 3, "Placeholder": 4, "RawErr": 5, "ClientAddr": 6}

// placeholderFunc: functions of the walked packages that return the client address only under `if logClientIP`
var placeholderFuncs = map[string]bool{}

func (f *fnCtx) classify(e ast.Expr, pos token.Pos, depth int) Arg {
	a := f.classify0(e, pos, depth)
	switch a.Class {
	case "Sanitised":
		a.Producer, a.ProdWhy = f.producerOfExpr(e, pos, 0)
	case "RawErr", "InternalErr":
		a.Producer, a.ProdWhy = f.producerOfExpr(e, pos, 0)
		// one rule: a raw error argument is address-free iff its producer is
		if mayEmbed(a.Producer) {
			a.Class = "RawErr"
		} else {
			a.Class = "InternalErr"
		}
		a.Why += " [producer " + a.Producer + ": " + a.ProdWhy + "]"
	}
	return a
}

func (f *fnCtx) classify0(e ast.Expr, pos token.Pos, depth int) Arg {
	t := src(e)
	kind, ts := f.kindOf(e)
	a := Arg{Text: t, Type: ts}
	if kind == "const" {
		a.Class, a.Why = "Const", "constant"
		return a
	}
	if c, ok := e.(*ast.CallExpr); ok {
		if calleeName(c) == "generalizeErr" {
			a.Class, a.Why = "Sanitised", "generalizeErr(...)"
			return a
		}
		if addrFuncs[calleeName(c)] {
			a.Class, a.Why = "ClientAddr", calleeName(c)+" can return the client address on a path the station's LOG_CLIENT_IP rule does not guard"
			return a
		}
		if placeholderFuncs[calleeName(c)] {
			a.Class, a.Why = "Placeholder", calleeName(c)+" returns the address only under `if logClientIP`, \"_\" otherwise"
			return a
		}
	}
	if _, ok := e.(*ast.BasicLit); ok {
		a.Class, a.Why = "Const", "literal"
		return a
	}
	if p, ok := e.(*ast.ParenExpr); ok {
		return f.classify0(p.X, pos, depth)
	}
	// the text of an error is the error: X.Error()
	if c, ok := e.(*ast.CallExpr); ok && len(c.Args) == 0 {
		if sel, ok := c.Fun.(*ast.SelectorExpr); ok && sel.Sel.Name == "Error" {
			if k, _ := f.kindOf(sel.X); k == "error" || (k == "" && errName.MatchString(src(sel.X))) {
				in := f.classify(sel.X, pos, depth)
				in.Text, in.Why = t, "text of an error: "+in.Why
				return in
			}
		}
		// the name of a socket's duplicated file is "<net>:<local>-><remote>"
		if sel, ok := c.Fun.(*ast.SelectorExpr); ok && sel.Sel.Name == "Name" {
			if _, ts := f.kindOf(sel.X); ts == "*os.File" {
				if id, ok := sel.X.(*ast.Ident); ok {
					if rhs, _ := f.lastAssign(id.Name, pos); rhs != nil {
						if p, _ := f.producerOfCall(rhs, 0); strings.HasSuffix(p, ":file") {
							a.Class, a.Why = "ClientAddr", "name of the file duplicated from a connection: \"<net>:<local>-><remote>\""
							return a
						}
					}
				}
			}
		}
	}
	// formatted / concatenated text carries what its operands carry
	if c, ok := e.(*ast.CallExpr); ok && depth < 4 {
		cp, cn := f.calleePkg(c), calleeName(c)
		if (cp == "fmt" && (cn == "Sprintf" || cn == "Sprint" || cn == "Sprintln" || cn == "Errorf")) || (cp == "errors" && cn == "Join") ||
			(f.info == nil && (cn == "Sprintf" || cn == "Errorf")) {
			worst := Arg{Class: "Const", Text: t, Type: ts, Why: "formatted text of constants"}
			for _, x := range c.Args {
				in := f.classify(x, pos, depth+1)
				if classRank[in.Class] > classRank[worst.Class] {
					worst = in
					worst.Text, worst.Why = t, "formatted from "+in.Text+": "+in.Why
				}
			}
			return worst
		}
		if id, ok := c.Fun.(*ast.Ident); ok && id.Name == "recover" && len(c.Args) == 0 {
			a.Class, a.Why = "RawErr", "a recovered panic value (may be any error)"
			return a
		}
	}
	if b, ok := e.(*ast.BinaryExpr); ok && b.Op == token.ADD && depth < 4 {
		if k, _ := f.kindOf(e); k == "string" || k == "const" || k == "" {
			l, r := f.classify(b.X, pos, depth+1), f.classify(b.Y, pos, depth+1)
			if classRank[r.Class] > classRank[l.Class] {
				l = r
			}
			l.Text, l.Why = t, "concatenation: "+l.Why
			return l
		}
	}
	if x, ok := e.(*ast.Ident); ok {
		if x.Name == "originalSrc" || x.Name == "flowDescription" {
			ok2, seen := true, false
			for _, as := range f.allAssigns("originalSrc") {
				if addrExpr.MatchString(as[0]) {
					seen = true
					if as[1] != "logClientIP" {
						ok2 = false
					}
				}
			}
			if x.Name == "flowDescription" {
				for _, as := range f.allAssigns("flowDescription") {
					if addrExpr.MatchString(as[0]) {
						ok2 = false
					}
				}
			}
			switch {
			case ok2 && seen:
				a.Class, a.Why = "Placeholder", "client address only under `if logClientIP`, \"_\" otherwise"
			case ok2:
				a.Class, a.Why = "Const", "no client address assigned"
			default:
				a.Class, a.Why = "ClientAddr", "client address assigned outside the logClientIP guard"
			}
			return a
		}
	}
	isErr := kind == "error" || (kind == "" && errName.MatchString(t))
	if isErr {
		if x, ok := e.(*ast.Ident); ok {
			if f.classifyErrOrigin(x.Name, pos, &a) {
				return a
			}
			a.Class, a.Why = "RawErr", "error value of unknown origin (parameter, field or range variable)"
			return a
		}
		if c, ok := e.(*ast.CallExpr); ok {
			cn := calleeName(c)
			if internalErr[cn] != "" && !netIO[cn] {
				a.Class, a.Why = "InternalErr", "error from "+cn+": "+internalErr[cn]
				return a
			}
		}
		a.Class, a.Why = "RawErr", "error-typed expression"
		return a
	}
	if kind == "addr" {
		if notClientAddr.MatchString(t) && !addrExpr.MatchString(t) {
			a.Class, a.Why = "Const", "address-typed, but a phantom / decoy / covert / own address by name"
		} else {
			a.Class, a.Why = "ClientAddr", "address-typed value ("+ts+") that is not known to be a phantom / covert / own address"
		}
		return a
	}
	// strings and other values: where do they come from?
	if x, ok := e.(*ast.Ident); ok && depth < 4 {
		if rhs, _ := f.lastAssign(x.Name, pos); rhs != nil {
			rs := src(rhs)
			if addrExpr.MatchString(rs) {
				a.Class, a.Why = "ClientAddr", x.Name+" = "+rs
				return a
			}
			if rk, _ := f.kindOf(rhs); rk == "addr" && !notClientAddr.MatchString(rs) {
				a.Class, a.Why = "ClientAddr", x.Name+" = "+rs+" (address-typed)"
				return a
			}
			if digestExpr.MatchString(rs) || calleeName(rhs) == "Marshal" {
				a.Class, a.Why = "Digest", x.Name+" = "+rs
				return a
			}
		}
	}
	// x.String() on an address-typed receiver
	if c, ok := e.(*ast.CallExpr); ok {
		if sel, ok := c.Fun.(*ast.SelectorExpr); ok && sel.Sel.Name == "String" {
			if rk, rts := f.kindOf(sel.X); rk == "addr" && !(notClientAddr.MatchString(src(sel.X)) && !addrExpr.MatchString(src(sel.X))) {
				a.Class, a.Why = "ClientAddr", "String() of an address-typed value ("+rts+")"
				return a
			}
		}
	}
	switch {
	case addrExpr.MatchString(t):
		a.Class, a.Why = "ClientAddr", "expression names the client / registrant address"
	case digestExpr.MatchString(t) || kind == "stringer":
		a.Class, a.Why = "Digest", "registration id / value printed through its String method"
	default:
		a.Class, a.Why = "Const", "non-address value"
	}
	return a
}

// verbs returns the verb of each formatted operand of a Printf format string
func verbs(format string) []byte {
	var out []byte
	for i := 0; i < len(format); i++ {
		if format[i] != '%' {
			continue
		}
		i++
		for i < len(format) && strings.IndexByte("+-# 0123456789.*[]", format[i]) >= 0 {
			i++
		}
		if i < len(format) && format[i] != '%' {
			out = append(out, format[i])
		}
	}
	return out
}

// what kind of logging call is this?  returns (receiver text, method, level) or ok=false
func (f *fnCtx) logCall(c *ast.CallExpr) (recv, method, level string, ok bool) {
	sel, isSel := c.Fun.(*ast.SelectorExpr)
	if !isSel {
		return
	}
	name := sel.Sel.Name
	if f.info != nil {
		obj := f.info.Uses[sel.Sel]
		fn, isFn := obj.(*types.Func)
		if !isFn || fn.Pkg() == nil {
			return
		}
		pkg := fn.Pkg().Path()
		sig := fn.Type().(*types.Signature)
		switch {
		case pkg == logPkg || pkg == "log":
			if name == "New" && sig.Recv() == nil {
				return src(sel.X), "New(prefix)", "Print", true
			}
			if name == "SetPrefix" {
				return src(sel.X), name, "Print", true
			}
			if lv, isLog := methodLevel[name]; isLog {
				return src(sel.X), name, lv, true
			}
		case pkg == "fmt":
			switch name {
			case "Print", "Printf", "Println":
				return "fmt", name, "Print", true
			case "Fprint", "Fprintf", "Fprintln":
				if len(c.Args) > 0 && (src(c.Args[0]) == "os.Stdout" || src(c.Args[0]) == "os.Stderr") {
					return "fmt(" + src(c.Args[0]) + ")", name, "Print", true
				}
			}
		}
		return
	}
	// untyped fallback: by name
	t := src(sel.X)
	isLogger := t == "log" || t == "golog" || strings.HasSuffix(t, "ogger") || strings.HasSuffix(t, "Logger")
	if t == "log" && name == "New" && len(c.Args) == 3 {
		return t, "New(prefix)", "Print", true
	}
	if !isLogger {
		return
	}
	if name == "SetPrefix" {
		return t, name, "Print", true
	}
	if lv, isLog := methodLevel[name]; isLog {
		return t, name, lv, true
	}
	return
}

func walkFile(rel string, f *ast.File, info *types.Info, out *Out, decls map[string]*ast.FuncDecl) {
	for _, d := range f.Decls {
		fd, ok := d.(*ast.FuncDecl)
		if !ok || fd.Body == nil {
			continue
		}
		ctx := &fnCtx{body: fd.Body, name: fd.Name.Name, info: info, decls: decls}
		ast.Inspect(fd.Body, func(n ast.Node) bool {
			c, ok := n.(*ast.CallExpr)
			if !ok {
				return true
			}
			recv, method, lvl, isLog := ctx.logCall(c)
			if !isLog {
				return true
			}
			s := Site{File: rel, Line: fset.Position(c.Pos()).Line, Func: fd.Name.Name, Recv: recv, Method: method, Level: lvl}
			if method == "New(prefix)" {
				if len(c.Args) == 3 {
					ast.Inspect(c.Args[1], func(m ast.Node) bool {
						switch y := m.(type) {
						case *ast.Ident:
							if k, _ := ctx.kindOf(y); k != "const" || info == nil {
								if _, isPkg := info_uses_pkg(info, y); !isPkg {
									s.Args = append(s.Args, ctx.classify(y, c.Pos(), 0))
								}
							}
						case *ast.BasicLit:
							return false
						case *ast.SelectorExpr:
							// package-qualified constants (golog.Ldate) are not values of interest
							if id, ok := y.X.(*ast.Ident); ok {
								if _, isPkg := info_uses_pkg(info, id); isPkg {
									return false
								}
							}
						}
						return true
					})
				}
				out.Sites = append(out.Sites, s)
				return true
			}
			args := c.Args
			if strings.HasPrefix(method, "Fprint") {
				args = args[1:]
			}
			if len(args) == 1 {
				if inner, ok := args[0].(*ast.CallExpr); ok && calleeName(inner) == "Sprintf" {
					args = inner.Args
				}
			}
			var vb []byte
			isF := strings.HasSuffix(method, "f") || method == "SetPrefix"
			for i, a := range args {
				if i == 0 && isF {
					if bl, ok := a.(*ast.BasicLit); ok {
						s.Format = bl.Value
						vb = verbs(bl.Value)
						continue
					}
				}
				if i == 0 && !isF {
					if bl, ok := a.(*ast.BasicLit); ok {
						s.Format = bl.Value
						continue
					}
				}
				if i == 0 && s.Format == "" {
					// "message " + value: the leftmost literal names the site
					x := a
					for {
						b, ok := x.(*ast.BinaryExpr)
						if !ok {
							break
						}
						x = b.X
					}
					if bl, ok := x.(*ast.BasicLit); ok && bl.Kind == token.STRING && x != a {
						s.Format = bl.Value
					}
				}
				arg := ctx.classify(a, c.Pos(), 0)
				k := len(s.Args)
				if isF && s.Format != "" && k < len(vb) && vb[k] == 'T' {
					arg.Class, arg.Why = "Const", "%T prints the type only"
				}
				s.Args = append(s.Args, arg)
			}
			out.Sites = append(out.Sites, s)
			return true
		})
		// error texts that leave through something other than a logging call: X.Error() stored in a record field or
		// handed to a method (tunnel statistics: setConnErr, CovertDialErr); and panic(x), whose value the runtime prints
		var logRanges [][2]token.Pos
		ast.Inspect(fd.Body, func(n ast.Node) bool {
			if c, ok := n.(*ast.CallExpr); ok {
				if _, _, _, isLog := ctx.logCall(c); isLog {
					logRanges = append(logRanges, [2]token.Pos{c.Pos(), c.End()})
				}
			}
			return true
		})
		inLog := func(p token.Pos) bool {
			for _, r := range logRanges {
				if p >= r[0] && p < r[1] {
					return true
				}
			}
			return false
		}
		var stack []ast.Node
		ast.Inspect(fd.Body, func(n ast.Node) bool {
			if n == nil {
				stack = stack[:len(stack)-1]
				return true
			}
			stack = append(stack, n)
			c, ok := n.(*ast.CallExpr)
			if !ok {
				return true
			}
			if id, ok := c.Fun.(*ast.Ident); ok && id.Name == "panic" && len(c.Args) == 1 && !inLog(c.Pos()) {
				isBuiltin := info == nil
				if info != nil {
					_, isBuiltin = info.Uses[id].(*types.Builtin)
				}
				if isBuiltin {
					s := Site{File: rel, Line: fset.Position(c.Pos()).Line, Func: fd.Name.Name, Recv: "runtime", Method: "panic", Level: "Print", Format: "\"panic:\""}
					s.Args = append(s.Args, ctx.classify(c.Args[0], c.Pos(), 0))
					out.Sites = append(out.Sites, s)
				}
				return true
			}
			sel, ok := c.Fun.(*ast.SelectorExpr)
			if !ok || sel.Sel.Name != "Error" || len(c.Args) != 0 || inLog(c.Pos()) {
				return true
			}
			if k, _ := ctx.kindOf(sel.X); !(k == "error" || (k == "" && errName.MatchString(src(sel.X)))) {
				return true
			}
			// where does the text go?
			dest := "expression"
			for i := len(stack) - 2; i >= 0; i-- {
				switch p := stack[i].(type) {
				case *ast.CallExpr:
					dest = src(p.Fun) + "(...)"
				case *ast.AssignStmt:
					if len(p.Lhs) > 0 {
						dest = src(p.Lhs[0]) + " ="
					}
				case *ast.KeyValueExpr:
					dest = src(p.Key) + ":"
				case *ast.ReturnStmt:
					dest = "return"
				default:
					continue
				}
				break
			}
			if dest == "return" || strings.HasPrefix(dest, "errors.New") || strings.HasPrefix(dest, "strings.") {
				// flows on as a value of the caller; comparisons of texts print nothing
				return true
			}
			s := Site{File: rel, Line: fset.Position(c.Pos()).Line, Func: fd.Name.Name, Recv: "record", Method: "errtext", Level: "Print",
				Format: "\"" + strings.ReplaceAll(dest, "\"", "'") + "\""}
			a := ctx.classify(sel.X, c.Pos(), 0)
			a.Text = src(c)
			s.Args = append(s.Args, a)
			out.Sites = append(out.Sites, s)
			return true
		})
		// composite literals that become log / statistics records
		ast.Inspect(fd.Body, func(n ast.Node) bool {
			cl, ok := n.(*ast.CompositeLit)
			if !ok || cl.Type == nil {
				return true
			}
			tn := src(cl.Type)
			isStats := tn == "tunnelStats" || tn == "regExpireLogMsg" || (fd.Name.Name == "String" && strings.HasPrefix(tn, "struct"))
			if !isStats {
				return true
			}
			s := Site{File: rel, Line: fset.Position(cl.Pos()).Line, Func: fd.Name.Name, Recv: "record", Method: "literal:" + strings.SplitN(tn, "{", 2)[0], Level: "Print"}
			for _, el := range cl.Elts {
				if kv, ok := el.(*ast.KeyValueExpr); ok {
					a := ctx.classify(kv.Value, cl.Pos(), 0)
					a.Text = src(kv.Key) + ": " + a.Text
					if a.Class == "Digest" {
						a.Class = "Const"
					}
					s.Args = append(s.Args, a)
				}
			}
			out.Sites = append(out.Sites, s)
			return true
		})
		if fd.Name.Name == "generalizeErr" {
			var cases []string
			ast.Inspect(fd.Body, func(n ast.Node) bool {
				if x, ok := n.(*ast.CaseClause); ok {
					var conds []string
					for _, e := range x.List {
						conds = append(conds, src(e))
					}
					ret := ""
					for _, st := range x.Body {
						if r, ok := st.(*ast.ReturnStmt); ok && len(r.Results) == 1 {
							ret = src(r.Results[0])
						}
					}
					if x.List == nil {
						conds = []string{"default"}
					}
					cases = append(cases, strings.Join(conds, " || ")+" => "+ret)
				}
				return true
			})
			last := fd.Body.List[len(fd.Body.List)-1]
			if r, ok := last.(*ast.ReturnStmt); ok && len(r.Results) == 1 {
				cases = append(cases, "fallback => "+src(r.Results[0]))
			}
			if out.Sanitiser == nil {
				out.Sanitiser = map[string][]string{}
			}
			out.Sanitiser[rel] = cases
		}
	}
}

func info_uses_pkg(info *types.Info, id *ast.Ident) (*types.PkgName, bool) {
	if info == nil {
		return nil, false
	}
	p, ok := info.Uses[id].(*types.PkgName)
	return p, ok
}

var addrFuncs = map[string]bool{} // functions that can return the client address without the station's gate

const parseRule = `strconv.ParseBool(os.Getenv("LOG_CLIENT_IP"))`

// findPlaceholderFuncs: a function that returns the client address only in the THEN branch of
//   if X, err := strconv.ParseBool(os.Getenv("LOG_CLIENT_IP")); err == nil && X { ... }
// (the station's rule, fail-closed) and a literal otherwise.  A function that returns the address
// under any other condition — or unconditionally — is an address source.
func findPlaceholderFuncs(files []*ast.File) {
	for _, f := range files {
		for _, d := range f.Decls {
			fd, ok := d.(*ast.FuncDecl)
			if !ok || fd.Body == nil || fd.Type.Results == nil {
				continue
			}
			guarded, unguarded := 0, 0
			gexpr := ""
			var walk func(n ast.Node, okGate bool)
			walk = func(n ast.Node, okGate bool) {
				ast.Inspect(n, func(m ast.Node) bool {
					switch s := m.(type) {
					case *ast.IfStmt:
						good := false
						if as, ok := s.Init.(*ast.AssignStmt); ok && len(as.Lhs) == 2 && len(as.Rhs) == 1 && src(as.Rhs[0]) == parseRule {
							flag, errv := src(as.Lhs[0]), src(as.Lhs[1])
							c := strings.ReplaceAll(src(s.Cond), " ", "")
							if c == errv+"==nil&&"+flag || c == flag+"&&"+errv+"==nil" {
								good = true
							}
						}
						if s.Init != nil {
							gexpr = src(s.Init) + "; " + src(s.Cond)
						} else {
							gexpr = src(s.Cond)
						}
						walk(s.Body, good)
						if s.Else != nil {
							walk(s.Else, false)
						}
						return false
					case *ast.ReturnStmt:
						for _, r := range s.Results {
							if addrExpr.MatchString(src(r)) {
								if okGate {
									guarded++
								} else {
									unguarded++
								}
							}
						}
					}
					return true
				})
			}
			walk(fd.Body, false)
			// only string-returning helpers are of interest (getters of typed addresses are classified by type at the call site)
			isString := len(fd.Type.Results.List) == 1 && src(fd.Type.Results.List[0].Type) == "string"
			if !isString || guarded+unguarded == 0 || fd.Name.Name == "GetRegistrationAddress" {
				continue
			}
			if unguarded == 0 {
				placeholderFuncs[fd.Name.Name] = true
				gates = append(gates, Gate{Where: "func " + fd.Name.Name, Expr: gexpr, OK: true, Why: "the station's rule, fail-closed"})
			} else {
				addrFuncs[fd.Name.Name] = true
				gates = append(gates, Gate{Where: "func " + fd.Name.Name, Expr: gexpr, OK: false,
					Why: "returns the client address on a path that is not guarded by err == nil && " + parseRule})
			}
		}
	}
}

// mainGate checks how cmd/application sets its logClientIP variable
func mainGate(files []*ast.File) {
	for _, f := range files {
		if f.Name.Name != "main" {
			continue
		}
		ast.Inspect(f, func(n ast.Node) bool {
			blk, ok := n.(*ast.BlockStmt)
			if !ok {
				return true
			}
			for i, st := range blk.List {
				as, ok := st.(*ast.AssignStmt)
				if !ok || len(as.Lhs) != 2 || src(as.Lhs[0]) != "logClientIP" {
					continue
				}
				g := Gate{Where: "cmd/application: logClientIP", Expr: src(as)}
				if len(as.Rhs) == 1 && src(as.Rhs[0]) == parseRule && i+1 < len(blk.List) {
					if is, ok := blk.List[i+1].(*ast.IfStmt); ok && strings.ReplaceAll(src(is.Cond), " ", "") == src(as.Lhs[1])+"!=nil" &&
						strings.Contains(src(is.Body), "logClientIP = false") {
						g.OK, g.Why = true, "ParseBool, false on error"
					}
				}
				if !g.OK {
					g.Why = "the variable is not set by " + parseRule + " with false on error"
				}
				gates = append(gates, g)
			}
			return true
		})
	}
}

func goList(dir string, args ...string) ([]byte, error) {
	cmd := exec.Command("go", append([]string{"list"}, args...)...)
	cmd.Dir = dir
	env := []string{}
	for _, e := range os.Environ() {
		if !strings.HasPrefix(e, "GO111MODULE=") && !strings.HasPrefix(e, "GOFLAGS=") {
			env = append(env, e)
		}
	}
	cmd.Env = append(env, "GO111MODULE=on", "GOFLAGS=", "GOPROXY=off", "GOSUMDB=off", "GOTOOLCHAIN=local")
	var stderr bytes.Buffer
	cmd.Stderr = &stderr
	out, err := cmd.Output()
	if err != nil {
		return nil, fmt.Errorf("%v: %s", err, stderr.String())
	}
	return out, nil
}

type pkgInfo struct {
	path, dir string
	files     []string
}

func main() {
	if len(os.Args) < 2 {
		fmt.Fprintln(os.Stderr, "usage: logsites <repo root>")
		os.Exit(2)
	}
	root, _ := filepath.Abs(os.Args[1])
	appDir := filepath.Join(root, "cmd", "application")
	var out Out
	out.Typed = true

	// the walked set: conjure packages in the dependency closure of the station binary
	raw, err := goList(appDir, "-deps", "-f", "{{.ImportPath}}\t{{.Dir}}\t{{join .GoFiles \",\"}}\t{{join .CgoFiles \",\"}}", ".")
	var pkgs []pkgInfo
	if err != nil {
		out.Typed, out.TypeNote = false, "go list failed: "+err.Error()
		// fallback: the directories the property anchors
		for _, d := range []string{"cmd/application", "pkg/station/lib"} {
			m, _ := filepath.Glob(filepath.Join(root, d, "*.go"))
			p := pkgInfo{path: d, dir: filepath.Join(root, d)}
			for _, x := range m {
				if !strings.HasSuffix(x, "_test.go") {
					p.files = append(p.files, filepath.Base(x))
				}
			}
			pkgs = append(pkgs, p)
		}
	} else {
		sc := bufio.NewScanner(bytes.NewReader(raw))
		sc.Buffer(make([]byte, 1<<20), 1<<20)
		for sc.Scan() {
			f := strings.Split(sc.Text(), "\t")
			if len(f) < 3 {
				continue
			}
			isConj := strings.HasPrefix(f[0], module+"/") || f[1] == appDir
			if !isConj || f[0] == logPkg || strings.HasSuffix(f[0], "/proto") || strings.Contains(f[0], "/internal/verifhook") {
				continue
			}
			p := pkgInfo{path: f[0], dir: f[1], files: strings.Split(f[2], ",")}
			if len(f) > 3 && f[3] != "" {
				p.files = append(p.files, strings.Split(f[3], ",")...)
			}
			pkgs = append(pkgs, p)
		}
	}

	// export data of everything the walked packages import
	exp := map[string]string{}
	if out.Typed {
		for _, dir := range []string{appDir} {
			raw, err := goList(dir, "-export", "-deps", "-f", "{{.ImportPath}}\t{{.Export}}", ".")
			if err != nil {
				out.Typed, out.TypeNote = false, "go list -export failed: "+err.Error()
				break
			}
			sc := bufio.NewScanner(bytes.NewReader(raw))
			sc.Buffer(make([]byte, 1<<20), 1<<20)
			for sc.Scan() {
				f := strings.SplitN(sc.Text(), "\t", 2)
				if len(f) == 2 && f[1] != "" {
					exp[f[0]] = f[1]
				}
			}
		}
	}
	lookup := func(path string) (io.ReadCloser, error) {
		f, ok := exp[path]
		if !ok {
			return nil, fmt.Errorf("no export data for %s", path)
		}
		return os.Open(f)
	}

	type parsed struct {
		p     pkgInfo
		files []*ast.File
		rels  []string
	}
	var all []parsed
	var allFiles []*ast.File
	for _, p := range pkgs {
		pp := parsed{p: p}
		for _, fn := range p.files {
			if fn == "" {
				continue
			}
			path := filepath.Join(p.dir, fn)
			f, err := parser.ParseFile(fset, path, nil, parser.ParseComments)
			if err != nil {
				fmt.Fprintln(os.Stderr, "logsites:", err)
				os.Exit(1)
			}
			rel, _ := filepath.Rel(root, path)
			pp.files = append(pp.files, f)
			pp.rels = append(pp.rels, rel)
			allFiles = append(allFiles, f)
		}
		all = append(all, pp)
	}
	findPlaceholderFuncs(allFiles)
	mainGate(allFiles)
	for _, pp := range all {
		var info *types.Info
		if out.Typed {
			info = &types.Info{Types: map[ast.Expr]types.TypeAndValue{}, Uses: map[*ast.Ident]types.Object{},
				Defs: map[*ast.Ident]types.Object{}, Selections: map[*ast.SelectorExpr]*types.Selection{}}
			var terrs []string
			conf := types.Config{Importer: importer.ForCompiler(fset, "gc", lookup), FakeImportC: true,
				Error: func(err error) { terrs = append(terrs, err.Error()) }}
			conf.Check(pp.p.path, fset, pp.files, info)
			if len(terrs) > 0 {
				out.TypeNote += fmt.Sprintf("%s: %d type errors (first: %s); ", pp.p.path, len(terrs), terrs[0])
			}
		}
		rel, _ := filepath.Rel(root, pp.p.dir)
		out.Packages = append(out.Packages, rel)
		decls := map[string]*ast.FuncDecl{}
		for _, f := range pp.files {
			for _, d := range f.Decls {
				if fd, ok := d.(*ast.FuncDecl); ok && fd.Body != nil && fd.Recv == nil {
					decls[fd.Name.Name] = fd
				}
			}
		}
		for i, f := range pp.files {
			walkFile(pp.rels[i], f, info, &out, decls)
		}
	}
	if err := levelOrder(root, &out); err != nil {
		fmt.Fprintln(os.Stderr, "logsites:", err)
		os.Exit(1)
	}
	sort.SliceStable(out.Sites, func(i, j int) bool {
		if out.Sites[i].File != out.Sites[j].File {
			return out.Sites[i].File < out.Sites[j].File
		}
		return out.Sites[i].Line < out.Sites[j].Line
	})
	sort.Strings(out.Packages)
	out.Gates = gates
	enc := json.NewEncoder(os.Stdout)
	enc.SetIndent("", " ")
	enc.Encode(out)
}

func levelOrder(root string, out *Out) error {
	path := filepath.Join(root, "pkg/station/log/logger.go")
	f, err := parser.ParseFile(fset, path, nil, 0)
	if err != nil {
		return err
	}
	out.LevelOrder = map[string]int{}
	out.Guards = map[string]string{}
	for _, d := range f.Decls {
		switch g := d.(type) {
		case *ast.GenDecl:
			if g.Tok == token.CONST {
				for i, sp := range g.Specs {
					vs := sp.(*ast.ValueSpec)
					for _, n := range vs.Names {
						if strings.HasSuffix(n.Name, "Level") {
							v := i // iota
							if len(vs.Values) == 1 {
								if u, ok := vs.Values[0].(*ast.UnaryExpr); ok && u.Op == token.SUB {
									v = -1
								}
							}
							out.LevelOrder[strings.TrimSuffix(n.Name, "Level")] = v
						}
					}
				}
			}
			if g.Tok == token.VAR {
				for _, sp := range g.Specs {
					vs := sp.(*ast.ValueSpec)
					if len(vs.Names) == 1 && vs.Names[0].Name == "level" && len(vs.Values) == 1 {
						out.Default = strings.TrimSuffix(src(vs.Values[0]), "Level")
					}
				}
			}
		case *ast.FuncDecl:
			if g.Recv == nil || g.Body == nil {
				continue
			}
			if _, ok := methodLevel[g.Name.Name]; !ok {
				continue
			}
			guard := "always"
			ast.Inspect(g.Body, func(n ast.Node) bool {
				if is, ok := n.(*ast.IfStmt); ok {
					guard = src(is.Cond)
					return false
				}
				return true
			})
			out.Guards[g.Name.Name] = guard
		}
	}
	return nil
}
