//go:build !c10_noshim

package lib

// The one place where the C10 driver calls an unexported function with a fixed signature.  If a
// refactoring changes that signature the driver is rebuilt with the tag c10_noshim (shim_none_test.go)
// and the direct-call cases are skipped; everything else goes through exported or closure entry points.

import pb "github.com/refraction-networking/conjure/proto"

const c10HaveSend = true

func c10Send(reg *DecoyRegistration, dur uint64, op pb.StationOperations) {
	sendToDetector(reg, dur, op)
}
