package lib

// Correspondence driver for C10 (detector announcements).  It points the package's redis client
// at an in-process RESP stand-in, runs the real sendToDetector / Cleanup / ingest / shutdown code on
// the cases it is given and records what was published.  No assertions about conjure.

import (
	"bufio"
	"context"
	"encoding/hex"
	"encoding/json"
	"fmt"
	"io"
	"net"
	"os"
	"path/filepath"
	"strconv"
	"strings"
	"sync"
	"testing"
	"time"

	"google.golang.org/protobuf/proto"
	"google.golang.org/protobuf/types/known/anypb"

	"github.com/refraction-networking/conjure/pkg/core"
	"github.com/refraction-networking/conjure/pkg/transports/connecting/dtls"
	"github.com/refraction-networking/conjure/pkg/transports/wrapping/min"
	"github.com/refraction-networking/conjure/pkg/transports/wrapping/obfs4"
	"github.com/refraction-networking/conjure/pkg/transports/wrapping/prefix"
	pb "github.com/refraction-networking/conjure/proto"
)

// ---------------------------------------------------------------- RESP stand-in for the Redis server
type c10Pub struct {
	Channel string
	Payload []byte
}

type c10Redis struct {
	ln       net.Listener
	mu       sync.Mutex
	pubs     []c10Pub
	cmds     []string
	failMode string // "": accept; "err": answer PUBLISH with an error; "close": drop the connection on PUBLISH
	attempts int
	// fate of the next PUBLISH attempts, one entry per attempt (world lane): "before" = the connection is lost
	// before the command is processed, "after" = processed, connection lost before the reply, "refuse" = error reply
	script []string
	pings  int
}

func c10StartRedis() (*c10Redis, error) {
	ln, err := net.Listen("tcp", "127.0.0.1:0")
	if err != nil {
		return nil, err
	}
	s := &c10Redis{ln: ln}
	go func() {
		for {
			c, err := ln.Accept()
			if err != nil {
				return
			}
			go s.serve(c)
		}
	}()
	return s, nil
}

func c10ReadCmd(r *bufio.Reader) ([][]byte, error) {
	line, err := r.ReadString('\n')
	if err != nil {
		return nil, err
	}
	line = strings.TrimRight(line, "\r\n")
	if len(line) == 0 || line[0] != '*' {
		return nil, fmt.Errorf("inline command %q", line)
	}
	n, err := strconv.Atoi(line[1:])
	if err != nil {
		return nil, err
	}
	out := make([][]byte, 0, n)
	for i := 0; i < n; i++ {
		l, err := r.ReadString('\n')
		if err != nil {
			return nil, err
		}
		l = strings.TrimRight(l, "\r\n")
		if len(l) == 0 || l[0] != '$' {
			return nil, fmt.Errorf("expected bulk string, got %q", l)
		}
		sz, err := strconv.Atoi(l[1:])
		if err != nil {
			return nil, err
		}
		buf := make([]byte, sz+2)
		if _, err := io.ReadFull(r, buf); err != nil {
			return nil, err
		}
		out = append(out, buf[:sz])
	}
	return out, nil
}

func (s *c10Redis) serve(c net.Conn) {
	defer c.Close()
	r := bufio.NewReader(c)
	for {
		cmd, err := c10ReadCmd(r)
		if err != nil || len(cmd) == 0 {
			return
		}
		name := strings.ToUpper(string(cmd[0]))
		s.mu.Lock()
		s.cmds = append(s.cmds, name)
		s.mu.Unlock()
		switch name {
		case "PING":
			s.mu.Lock()
			s.pings++
			s.mu.Unlock()
			_, _ = c.Write([]byte("+PONG\r\n"))
		case "PUBLISH":
			if len(cmd) != 3 {
				_, _ = c.Write([]byte("-ERR wrong number of arguments\r\n"))
				continue
			}
			s.mu.Lock()
			mode := s.failMode
			s.attempts++
			if mode == "" && len(s.script) > 0 {
				mode = "script:" + s.script[0]
				s.script = s.script[1:]
			}
			if mode == "" || mode == "script:after" {
				s.pubs = append(s.pubs, c10Pub{Channel: string(cmd[1]), Payload: append([]byte{}, cmd[2]...)})
			}
			s.mu.Unlock()
			switch mode {
			case "err":
				_, _ = c.Write([]byte("-ERR scripted failure\r\n"))
			case "close", "script:before", "script:after":
				return
			case "script:refuse":
				_, _ = c.Write([]byte("-ERR scripted refusal\r\n"))
			default:
				_, _ = c.Write([]byte(":1\r\n"))
			}
		default:
			_, _ = c.Write([]byte("-ERR unknown command\r\n"))
		}
	}
}

func (s *c10Redis) take() []c10Pub {
	s.mu.Lock()
	defer s.mu.Unlock()
	p := s.pubs
	s.pubs = nil
	return p
}

// ---------------------------------------------------------------- case / result types
type c10Reg struct {
	Phantom *string `json:"phantom"` // hex, nil = nil net.IP
	Addr    *string `json:"addr"`
	Port    uint32  `json:"port"`
	Proto   int32   `json:"proto"`
}

type c10Case struct {
	Kind string `json:"kind"` // send | announce | clear | ingest | meta
	Reg  c10Reg `json:"reg"`
	Dur  string `json:"dur"`
	Op   int32  `json:"op"`
	Via  string `json:"via"` // clear: "fresh" | "used"; shutdown: "idle" | "busy"; pubfail: "err" | "close"

	// ingest
	En4       bool    `json:"en4"`
	En6       bool    `json:"en6"`
	Addr      *string `json:"addr"` // registration_address, nil = absent
	V4        *bool   `json:"v4"`
	V6        *bool   `json:"v6"`
	Transport int32   `json:"transport"`
	Gen       uint32  `json:"gen"`
	LibVer    uint32  `json:"libver"`
	Secret    string  `json:"secret"`
	RandPort  *bool   `json:"randport"` // transport params with randomize_dst_port, nil = no params
	HasRR     bool    `json:"has_rr"`
	Ov4       *uint32 `json:"ov4"`
	Ov6       *string `json:"ov6"`
	ODst      *uint32 `json:"odst"`
	Source    int32   `json:"source"`
	Subnets   string  `json:"subnets"` // TOML for PHANTOM_SUBNET_LOCATION

	// world
	Msgs []c10wMsg `json:"msgs"`
	Ops  []c10wOp  `json:"ops"`
}

type c10Msg struct {
	Channel string  `json:"channel"`
	Raw     string  `json:"raw"`
	Decoded bool    `json:"decoded"`
	Ph      *string `json:"ph"` // hex of the utf-8 text
	Cl      *string `json:"cl"`
	Tmo     *string `json:"tmo"`
	Op      *int32  `json:"op"`
	Dst     *uint32 `json:"dst"`
	Src     *uint32 `json:"src"`
	Proto   *int32  `json:"proto"`
	Unknown string  `json:"unknown"`
}

type c10RegOut struct {
	Phantom *string `json:"phantom"`
	Addr    *string `json:"addr"`
	Port    uint32  `json:"port"`
	Proto   int32   `json:"proto"`
}

type c10Res struct {
	Panic    string      `json:"panic"`
	Err      string      `json:"err"`
	Msgs     []c10Msg    `json:"msgs"`
	Regs     []c10RegOut `json:"regs"`
	Derived4 *c10RegOut  `json:"derived4"`
	Derived6 *c10RegOut  `json:"derived6"`
	Direct4  *c10RegOut  `json:"direct4"`
	Direct6  *c10RegOut  `json:"direct6"`
	Meta     interface{} `json:"meta"`
	PubFail  interface{} `json:"pubfail"`
	Info     interface{} `json:"info"`
	World    *c10wRes    `json:"world"`
}

func c10Hexp(b []byte) *string {
	if b == nil {
		return nil
	}
	s := hex.EncodeToString(b)
	return &s
}

func c10Unhexp(s *string) []byte {
	if s == nil {
		return nil
	}
	b, _ := hex.DecodeString(*s)
	if b == nil {
		b = []byte{}
	}
	return b
}

func c10Decode(p c10Pub) c10Msg {
	m := c10Msg{Channel: p.Channel, Raw: hex.EncodeToString(p.Payload)}
	d := &pb.StationToDetector{}
	if err := proto.Unmarshal(p.Payload, d); err != nil {
		return m
	}
	m.Decoded = true
	if d.PhantomIp != nil {
		m.Ph = c10Hexp([]byte(*d.PhantomIp))
	}
	if d.ClientIp != nil {
		m.Cl = c10Hexp([]byte(*d.ClientIp))
	}
	if d.TimeoutNs != nil {
		s := strconv.FormatUint(*d.TimeoutNs, 10)
		m.Tmo = &s
	}
	if d.Operation != nil {
		v := int32(*d.Operation)
		m.Op = &v
	}
	if d.DstPort != nil {
		v := *d.DstPort
		m.Dst = &v
	}
	if d.SrcPort != nil {
		v := *d.SrcPort
		m.Src = &v
	}
	if d.Proto != nil {
		v := int32(*d.Proto)
		m.Proto = &v
	}
	m.Unknown = hex.EncodeToString(d.ProtoReflect().GetUnknown())
	return m
}

func c10RegOf(r *DecoyRegistration) c10RegOut {
	var ph, ad []byte
	if r.PhantomIp != nil {
		ph = []byte(r.PhantomIp)
	}
	if r.registrationAddr != nil {
		ad = []byte(r.registrationAddr)
	}
	return c10RegOut{Phantom: c10Hexp(ph), Addr: c10Hexp(ad), Port: uint32(r.PhantomPort), Proto: int32(r.PhantomProto)}
}

var c10Transports = map[pb.TransportType]Transport{
	pb.TransportType_Min:    min.Transport{},
	pb.TransportType_Obfs4:  obfs4.Transport{},
	pb.TransportType_Prefix: prefix.DefaultSet(),
	pb.TransportType_DTLS:   &dtls.Transport{},
}

func c10Manager(t *testing.T, subnets string) *RegistrationManager {
	dir := t.TempDir()
	p := filepath.Join(dir, "phantom_subnets.toml")
	if err := os.WriteFile(p, []byte(subnets), 0o644); err != nil {
		t.Fatal(err)
	}
	os.Setenv("PHANTOM_SUBNET_LOCATION", p)
	rm := NewRegistrationManager(&RegConfig{})
	if rm == nil {
		return nil
	}
	rm.Logger.SetOutput(io.Discard)
	for k, v := range c10Transports {
		_ = rm.AddTransport(k, v)
	}
	return rm
}

func c10Params(tt pb.TransportType, rnd *bool) *anypb.Any {
	if rnd == nil {
		return nil
	}
	var m proto.Message
	switch tt {
	case pb.TransportType_DTLS:
		m = &pb.DTLSTransportParams{RandomizeDstPort: rnd}
	case pb.TransportType_Prefix:
		id := int32(0)
		m = &pb.PrefixTransportParams{PrefixId: &id, RandomizeDstPort: rnd}
	default:
		m = &pb.GenericTransportParams{RandomizeDstPort: rnd}
	}
	a, err := anypb.New(m)
	if err != nil {
		return nil
	}
	return a
}

var c10DefaultSubnets = `
[Networks]
    [Networks.1]
        Generation = 1
        [[Networks.1.WeightedSubnets]]
            Weight = 9
            Subnets = ["192.122.190.0/24", "2001:48a8:687f:1::/64"]
`

func c10Run(t *testing.T, srv *c10Redis, c c10Case) (res c10Res) {
	defer func() {
		if r := recover(); r != nil {
			res.Panic = fmt.Sprint(r)
		}
		for _, p := range srv.take() {
			res.Msgs = append(res.Msgs, c10Decode(p))
		}
	}()
	srv.take()
	switch c.Kind {
	case "send":
		reg := &DecoyRegistration{PhantomIp: net.IP(c10Unhexp(c.Reg.Phantom)), registrationAddr: net.IP(c10Unhexp(c.Reg.Addr)),
			PhantomPort: uint16(c.Reg.Port), PhantomProto: pb.IPProto(c.Reg.Proto)}
		dur, _ := strconv.ParseUint(c.Dur, 10, 64)
		if !c10HaveSend {
			res.Err = "skipped: sendToDetector shim not available"
			return
		}
		c10Send(reg, dur, pb.StationOperations(c.Op))
	case "announce":
		// the real register() / markActive() paths of a fresh registration table
		rm := c10Manager(t, c10DefaultSubnets)
		secret, _ := hex.DecodeString(c.Secret)
		src := pb.RegistrationSource_API
		reg := &DecoyRegistration{PhantomIp: net.IP(c10Unhexp(c.Reg.Phantom)), registrationAddr: net.IP(c10Unhexp(c.Reg.Addr)),
			PhantomPort: uint16(c.Reg.Port), PhantomProto: pb.IPProto(c.Reg.Proto),
			Keys: &core.ConjureSharedKeys{SharedSecret: secret}, Transport: pb.TransportType_Min, RegistrationSource: &src}
		rm.AddRegistration(reg)
		rm.MarkActive(reg)
	case "pubfail":
		// the Redis server refuses / drops the publication: what does the station make of the registration?
		rm := c10Manager(t, c10DefaultSubnets)
		secret, _ := hex.DecodeString(c.Secret)
		src := pb.RegistrationSource_API
		reg := &DecoyRegistration{PhantomIp: net.IP(c10Unhexp(c.Reg.Phantom)), registrationAddr: net.IP(c10Unhexp(c.Reg.Addr)),
			PhantomPort: uint16(c.Reg.Port), PhantomProto: pb.IPProto(c.Reg.Proto),
			Keys: &core.ConjureSharedKeys{SharedSecret: secret}, Transport: pb.TransportType_Min, RegistrationSource: &src}
		srv.mu.Lock()
		srv.failMode, srv.attempts = c.Via, 0
		srv.mu.Unlock()
		func() {
			defer func() {
				srv.mu.Lock()
				srv.failMode = ""
				srv.mu.Unlock()
			}()
			rm.AddRegistration(reg)
		}()
		srv.mu.Lock()
		att := srv.attempts
		srv.mu.Unlock()
		res.PubFail = map[string]interface{}{
			"valid":    reg.Valid,
			"visible":  len(rm.GetRegistrations(reg.PhantomIp)),
			"attempts": att,
		}
	case "clear":
		// always through the exported entry point main() uses: on a manager whose pipeline never ran
		// ("fresh"), or on one that has validated and used registrations ("used")
		rm := c10Manager(t, c10DefaultSubnets)
		if c.Via == "used" {
			secret, _ := hex.DecodeString(c.Secret)
			src := pb.RegistrationSource_API
			reg := &DecoyRegistration{PhantomIp: net.IP(c10Unhexp(c.Reg.Phantom)), registrationAddr: net.IP(c10Unhexp(c.Reg.Addr)),
				PhantomPort: uint16(c.Reg.Port), PhantomProto: pb.IPProto(c.Reg.Proto),
				Keys: &core.ConjureSharedKeys{SharedSecret: secret}, Transport: pb.TransportType_Min, RegistrationSource: &src}
			rm.AddRegistration(reg)
			rm.MarkActive(reg)
			srv.take()
		}
		rm.Cleanup()
	case "shutdown":
		// the station's shutdown sequence as cmd/application/main.go runs it: the ingest pipeline is
		// started with a context, a registration comes in and is announced, the context is cancelled,
		// main waits for the pipeline, and only then the deferred Cleanup() runs
		rm := c10Manager(t, c.Subnets)
		if rm == nil {
			res.Err = "no manager"
			return
		}
		rm.EnableIPv4, rm.EnableIPv6 = true, true
		rm.IngestWorkerCount = 30
		secret, _ := hex.DecodeString(c.Secret)
		tt := pb.TransportType_Min
		covert := "192.0.2.55:443"
		fl, tr := false, true
		c2s := &pb.ClientToStation{DecoyListGeneration: &c.Gen, CovertAddress: &covert, V4Support: &fl, V6Support: &tr,
			Transport: &tt, ClientLibVersion: &c.LibVer}
		source := pb.RegistrationSource_API
		raw, err := proto.Marshal(&pb.C2SWrapper{SharedSecret: secret, RegistrationPayload: c2s, RegistrationSource: &source,
			RegistrationAddress: c10Unhexp(c.Addr)})
		if err != nil {
			res.Err = "marshal: " + err.Error()
			return
		}
		ctx, cancel := context.WithCancel(context.Background())
		defer cancel()
		wg := new(sync.WaitGroup)
		regChan := make(chan interface{}, 10000)
		wg.Add(1)
		go rm.HandleRegUpdates(ctx, regChan, wg)
		// the distributor drops a message when no worker is free at that instant (by design); repeat the
		// registration until it has been announced (duplicates are not announced again)
		deadline := time.Now().Add(10 * time.Second)
		for i := 0; time.Now().Before(deadline); i++ {
			srv.mu.Lock()
			n := len(srv.pubs)
			srv.mu.Unlock()
			if n > 0 {
				break
			}
			if i%10 == 0 {
				regChan <- raw
			}
			time.Sleep(5 * time.Millisecond)
		}
		stopFeed := make(chan struct{})
		feedDone := make(chan struct{})
		go func() { // busy input: the same registration again and again, and undecodable messages
			defer close(feedDone)
			if c.Via != "busy" {
				return
			}
			for {
				select {
				case <-stopFeed:
					return
				default:
				}
				select {
				case regChan <- raw:
				case regChan <- []byte{0xff, 0x01}:
				default:
					time.Sleep(time.Millisecond)
				}
			}
		}()
		if c.Via == "busy" {
			time.Sleep(30 * time.Millisecond)
		}
		before := srv.take()
		for _, p := range before {
			res.Msgs = append(res.Msgs, c10Decode(p))
		}
		cancel()
		returned := make(chan struct{})
		go func() { wg.Wait(); close(returned) }()
		stopped := false
		select {
		case <-returned:
			stopped = true
		case <-time.After(15 * time.Second):
		}
		if stopped {
			rm.Cleanup() // main(): runs when main returns, i.e. after cancel() and wg.Wait()
		}
		close(stopFeed)
		<-feedDone
		res.Info = map[string]interface{}{"before": len(before), "pipeline_returned": stopped}
	case "ingest":
		rm := c10Manager(t, c.Subnets)
		if rm == nil {
			res.Err = "no manager"
			return
		}
		rm.EnableIPv4, rm.EnableIPv6 = c.En4, c.En6
		secret, _ := hex.DecodeString(c.Secret)
		tt := pb.TransportType(c.Transport)
		covert := "192.0.2.55:443"
		c2s := &pb.ClientToStation{
			DecoyListGeneration: &c.Gen, CovertAddress: &covert, V4Support: c.V4, V6Support: c.V6,
			Transport: &tt, ClientLibVersion: &c.LibVer, TransportParams: c10Params(tt, c.RandPort),
		}
		source := pb.RegistrationSource(c.Source)
		w := &pb.C2SWrapper{SharedSecret: secret, RegistrationPayload: c2s, RegistrationSource: &source}
		if c.Addr != nil {
			w.RegistrationAddress = c10Unhexp(c.Addr)
		}
		if c.HasRR {
			rr := &pb.RegistrationResponse{Ipv4Addr: c.Ov4, DstPort: c.ODst}
			if c.Ov6 != nil {
				rr.Ipv6Addr = c10Unhexp(c.Ov6)
			}
			w.RegistrationResponse = rr
		}
		// what selection and the port rule derive without the registrar's overrides
		if keys, err := core.GenSharedKeys(uint(c.LibVer), secret, tt); err == nil {
			for _, v6 := range []bool{false, true} {
				k := keys
				d, err := rm.NewRegistration(proto.Clone(c2s).(*pb.ClientToStation), &k, v6, &source)
				if err == nil && d != nil {
					o := c10RegOf(d)
					if v6 {
						res.Derived6 = &o
					} else {
						res.Derived4 = &o
					}
				}
			}
		}
		raw, err := proto.Marshal(w)
		if err != nil {
			res.Err = "marshal: " + err.Error()
			return
		}
		regs, err := rm.parseRegMessage(raw)
		if err != nil {
			res.Err = err.Error()
		}
		res.Regs = []c10RegOut{}
		for _, r := range regs {
			if r == nil {
				continue
			}
			res.Regs = append(res.Regs, c10RegOf(r))
		}
		// validate and use every registration, each in a fresh table (whether two registrations
		// that collide are announced twice is C09's question): New then Update per registration
		for _, r := range regs {
			if r == nil {
				continue
			}
			rm.registeredDecoys = NewRegisteredDecoys()
			for k, v := range c10Transports {
				_ = rm.AddTransport(k, v)
			}
			rm.AddRegistration(r)
			rm.MarkActive(r)
		}
		// the public constructor called directly for both families, on the zero-filled message as
		// its callers (parseRegMessage, util/station-debug) hand it over
		for _, v6 := range []bool{false, true} {
			w2 := proto.Clone(w).(*pb.C2SWrapper)
			if w2.GetRegistrationAddress() == nil {
				w2.RegistrationAddress = make([]byte, 16)
			}
			r, err := rm.NewRegistrationC2SWrapper(w2, v6)
			if err != nil || r == nil {
				continue
			}
			o := c10RegOf(r)
			if v6 {
				res.Direct6 = &o
			} else {
				res.Direct4 = &o
			}
			rm.registeredDecoys = NewRegisteredDecoys()
			for k, v := range c10Transports {
				_ = rm.AddTransport(k, v)
			}
			rm.AddRegistration(r)
			rm.MarkActive(r)
		}
	case "world":
		res.World, res.Err = c10World(t, srv, c)
	case "meta":
		rd := NewRegisteredDecoys()
		protos := map[string]int32{}
		for k, v := range c10Transports {
			protos[strconv.Itoa(int(k))] = int32(v.GetProto())
		}
		res.Meta = map[string]interface{}{
			"timeout_unused_ns": strconv.FormatInt(rd.timeoutUnused.Nanoseconds(), 10),
			"timeout_active_ns": strconv.FormatInt(rd.timeoutActive.Nanoseconds(), 10),
			"channel":           DETECTOR_REG_CHANNEL,
			"transport_protos":  protos,
			"ipproto":           pb.IPProto_value,
			"station_ops":       pb.StationOperations_value,
			"transport_types":   pb.TransportType_value,
			// the retry budget of the client the station's own constructor built (go-redis normalises -1 -> 0, 0 -> 3)
			"max_retries": getRedisClient().Options().MaxRetries,
		}
	}
	return
}

func TestVerifC10Detector(t *testing.T) {
	raw, err := os.ReadFile(os.Getenv("VERIF_CASES"))
	if err != nil {
		t.Skip("no cases")
	}
	var cases []c10Case
	if err := json.Unmarshal(raw, &cases); err != nil {
		t.Fatal(err)
	}
	srv, err := c10StartRedis()
	if err != nil {
		t.Fatal(err)
	}
	defer srv.ln.Close()
	// The client is the one the station's own constructor builds (getRedisClient -> initRedisClient: its
	// options, in particular the retry budget, are the code's).  The constructor dials a fixed address; the
	// connection pool reads Options().Addr on every dial, so new connections are sent to the stand-in.
	rc := getRedisClient()
	if rc == nil {
		t.Fatal("getRedisClient() returned nil")
	}
	rc.Options().Addr = srv.ln.Addr().String()
	for i := 0; i < 3; i++ {
		rc.Ping(context.Background())
	}
	srv.mu.Lock()
	redirected := srv.pings > 0
	srv.mu.Unlock()
	if !redirected {
		// something answers on the constructor's fixed address and the pool holds a connection to it
		t.Fatal("the station's redis client could not be pointed at the stand-in")
	}

	res := make([]c10Res, len(cases))
	for i, c := range cases {
		res[i] = c10Run(t, srv, c)
	}
	out, _ := json.Marshal(res)
	if err := os.WriteFile(os.Getenv("VERIF_OUT"), out, 0o644); err != nil {
		t.Fatal(err)
	}
}
