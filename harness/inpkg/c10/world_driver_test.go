package lib

// C10 world lane: one real RegistrationManager / RegisteredDecoys, the real ingest entry points
// (parseRegMessage + ingestRegistration, TrackRegistration, AddRegistration, MarkActive,
// RemoveOldRegistrations, Cleanup), the real publish path into the RESP stand-in, over scripted
// histories.  With the `faketime` tag the runtime's clock is moved by the script (exact ages);
// without it only untimed histories (duplicates, connection faults) are run.  The driver records
// what was published in every step and which registrations GetRegistrations returns; it contains
// no assertions about conjure.

import (
	"bytes"
	"context"
	"encoding/hex"
	"encoding/json"
	"fmt"
	"net"
	"os"
	"strconv"
	"testing"
	"time"

	"github.com/go-redis/redis/v8"
	"google.golang.org/protobuf/proto"

	"github.com/refraction-networking/conjure/pkg/station/log"
	pb "github.com/refraction-networking/conjure/proto"
)

type c10wMsg struct {
	Secret    string  `json:"secret"`
	Addr      *string `json:"addr"`
	V4        bool    `json:"v4"`
	V6        bool    `json:"v6"`
	Transport int32   `json:"transport"`
	Gen       uint32  `json:"gen"`
	LibVer    uint32  `json:"libver"`
}

type c10wOp struct {
	Op     string   `json:"op"` // recv | track | add | active | adv | sweep | cleanup | nop
	Msg    int      `json:"msg"`
	Fam    int      `json:"fam"`    // active: 4 | 6
	NS     string   `json:"ns"`     // adv: nanoseconds
	Faults []string `json:"faults"` // fate of the next PUBLISH attempts: before | after | refuse
}

type c10wKey struct {
	Msg    int        `json:"msg"`
	V6     bool       `json:"v6"`
	Served bool       `json:"served"`
	Reg    *c10RegOut `json:"reg"`
}

type c10wStep struct {
	Msgs []c10Msg  `json:"msgs"` // every copy the stand-in processed during the step, in order
	Seen int       `json:"seen"` // PUBLISH commands the stand-in received during the step
	Keys []c10wKey `json:"keys"`
	Err  string    `json:"err"`
}

type c10wRes struct {
	Steps []c10wStep `json:"steps"`
	Keys  []c10wKey  `json:"keys"` // the registrations the messages stand for (before any step)
	Fake  bool       `json:"fake"`
}

type c10wNeverLive struct{}

func (c10wNeverLive) PhantomIsLive(addr string, port uint16) (bool, error) { return false, nil }
func (c10wNeverLive) PrintAndReset(logger *log.Logger)                     {}
func (c10wNeverLive) PrintStats(logger *log.Logger)                        {}
func (c10wNeverLive) Reset()                                               {}

type c10wObj struct {
	msg int
	v6  bool
	reg *DecoyRegistration
}

func c10wRaw(m c10wMsg) ([]byte, []byte, error) {
	secret, _ := hex.DecodeString(m.Secret)
	tt := pb.TransportType(m.Transport)
	covert := "192.0.2.55:443"
	c2s := &pb.ClientToStation{DecoyListGeneration: &m.Gen, CovertAddress: &covert, V4Support: &m.V4, V6Support: &m.V6,
		Transport: &tt, ClientLibVersion: &m.LibVer}
	source := pb.RegistrationSource_API
	w := &pb.C2SWrapper{SharedSecret: secret, RegistrationPayload: c2s, RegistrationSource: &source}
	if m.Addr != nil {
		w.RegistrationAddress = c10Unhexp(m.Addr)
	}
	raw, err := proto.Marshal(w)
	return raw, secret, err
}

func c10World(t *testing.T, srv *c10Redis, c c10Case) (res *c10wRes, errs string) {
	res = &c10wRes{Fake: c10clockIsFake}
	rm := c10Manager(t, c.Subnets)
	if rm == nil {
		return res, "no manager"
	}
	rm.EnableIPv4, rm.EnableIPv6 = true, true
	rm.LivenessTester = c10wNeverLive{}
	raws := make([][]byte, len(c.Msgs))
	secrets := make([][]byte, len(c.Msgs))
	var objs []*c10wObj
	find := func(msg int, v6 bool) *c10wObj {
		for _, o := range objs {
			if o.msg == msg && o.v6 == v6 {
				return o
			}
		}
		return nil
	}
	remember := func(msg int, regs []*DecoyRegistration) {
		for _, r := range regs {
			if r == nil {
				continue
			}
			v6 := r.PhantomIp.To4() == nil
			if o := find(msg, v6); o != nil {
				o.reg = r
			} else {
				objs = append(objs, &c10wObj{msg: msg, v6: v6, reg: r})
			}
		}
	}
	for i, m := range c.Msgs {
		raw, secret, err := c10wRaw(m)
		if err != nil {
			return res, "marshal: " + err.Error()
		}
		raws[i], secrets[i] = raw, secret
		regs, err := rm.parseRegMessage(raw) // learn which registrations the message stands for; nothing is tracked
		if err != nil {
			return res, "parse: " + err.Error()
		}
		remember(i, regs)
	}
	observe := func() []c10wKey {
		out := make([]c10wKey, 0, len(objs))
		for _, o := range objs {
			served := false
			for _, r := range rm.GetRegistrations(o.reg.PhantomIp) {
				if bytes.Equal(r.SharedSecret(), secrets[o.msg]) && r.TransportType() == o.reg.Transport {
					served = true
				}
			}
			ro := c10RegOf(o.reg)
			out = append(out, c10wKey{Msg: o.msg, V6: o.v6, Served: served, Reg: &ro})
		}
		return out
	}
	res.Keys = observe()
	srv.take()
	for _, op := range c.Ops {
		st := c10wStep{}
		srv.mu.Lock()
		srv.script = append([]string{}, op.Faults...)
		srv.attempts = 0
		srv.mu.Unlock()
		func() {
			defer func() {
				if r := recover(); r != nil {
					st.Err = "panic: " + fmt.Sprint(r)
				}
			}()
			switch op.Op {
			case "recv", "track", "add":
				regs, err := rm.parseRegMessage(raws[op.Msg])
				if err != nil {
					st.Err = "parse: " + err.Error()
					return
				}
				remember(op.Msg, regs)
				for _, r := range regs {
					switch op.Op {
					case "recv":
						rm.ingestRegistration(r)
					case "track":
						if err := rm.TrackRegistration(r); err != nil {
							st.Err = "track: " + err.Error()
						}
					case "add":
						rm.AddRegistration(r)
					}
				}
			case "active":
				if o := find(op.Msg, op.Fam == 6); o != nil {
					rm.MarkActive(o.reg)
				}
			case "adv":
				ns, _ := strconv.ParseInt(op.NS, 10, 64)
				c10clockAdvance(ns)
			case "sweep":
				rm.RemoveOldRegistrations()
			case "cleanup":
				rm.Cleanup()
			}
		}()
		srv.mu.Lock()
		st.Seen = srv.attempts
		srv.script = nil
		srv.mu.Unlock()
		for _, p := range srv.take() {
			st.Msgs = append(st.Msgs, c10Decode(p))
		}
		st.Keys = observe()
		res.Steps = append(res.Steps, st)
	}
	return res, ""
}

// the timed histories: fake clock, in-memory connections (no socket, no retry sleeps: both would stall a
// process whose clock only moves when the script says so)
func TestVerifC10World(t *testing.T) {
	raw, err := os.ReadFile(os.Getenv("VERIF_CASES"))
	if err != nil {
		t.Skip("no cases")
	}
	if !c10clockIsFake {
		t.Fatal("faketime build tag is not in effect")
	}
	var cases []c10Case
	if err := json.Unmarshal(raw, &cases); err != nil {
		t.Fatal(err)
	}
	srv := &c10Redis{}
	once.Do(func() {})
	client = redis.NewClient(&redis.Options{
		Addr:       "c10-standin:0",
		MaxRetries: -1,
		PoolSize:   4,
		Dialer: func(ctx context.Context, network, addr string) (net.Conn, error) {
			a, b := net.Pipe()
			go srv.serve(b)
			return a, nil
		},
	})
	t0 := time.Now()
	c10clockAdvance(12345)
	if time.Since(t0) != 12345 {
		t.Fatal("the runtime clock does not follow the driver")
	}
	res := make([]c10Res, len(cases))
	for i, c := range cases {
		w, e := c10World(t, srv, c)
		res[i] = c10Res{World: w, Err: e}
	}
	out, _ := json.Marshal(res)
	if err := os.WriteFile(os.Getenv("VERIF_OUT"), out, 0o644); err != nil {
		t.Fatal(err)
	}
}
