//go:build faketime

package lib

// With the `faketime` build tag the Go runtime reads the time from the variable
// runtime.faketime instead of the OS clock; nothing moves it while the driver
// computes.  The driver advances it directly (no sleeping: a cgo binary such as
// this package's test - zmq - never lets the runtime's own sleeper advance it).
// Needs -ldflags=-checklinkname=0.  (Same technique as harness/inpkg/c08.)

import _ "unsafe"

//go:linkname c10runtimeFaketime runtime.faketime
var c10runtimeFaketime int64

const c10clockIsFake = true

func c10clockAdvance(ns int64) { c10runtimeFaketime += ns }
