//go:build !faketime

package lib

const c10clockIsFake = false

func c10clockAdvance(ns int64) { panic("fake clock not built in") }
