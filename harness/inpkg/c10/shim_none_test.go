//go:build c10_noshim

package lib

import pb "github.com/refraction-networking/conjure/proto"

const c10HaveSend = false

func c10Send(reg *DecoyRegistration, dur uint64, op pb.StationOperations) {}
