//go:build verif && linux

package main

// C17, real-socket lane.  Error values that reach log sites do not only come from the read / write /
// deadline / close calls of the classification loop and the relay: File() on the accepted socket,
// getsockopt(SO_ORIGINAL_DST), Accept itself ... all produce errors, and what package net's own
// methods return is an *net.OpError that prints both endpoints.  This lane provokes the REAL failure
// modes of those calls on REAL TCP connections with recognisable client addresses:
//
//   - the test binary re-executes itself as a CHILD process (own descriptor table: RLIMIT_NOFILE is
//     lowered there and the descriptors are used up without starving the check's own process);
//   - when the kernel allows it the child lives in a private network namespace: every IPv4 / IPv6
//     address is local there (AnyIP routes), connections to port 443 of any "phantom" address are
//     REDIRECTed to 41245 (what the station's iptables rules do in production), and the station's
//     REAL accept loop (acceptConnections -> handleNewConn -> getOriginalDst -> handleNewTCPConn ->
//     real min transport -> Proxy) runs on them;
//   - without a private namespace handleNewConn / handleNewTCPConn are called directly on accepted
//     loopback connections with 127.77.x.y client addresses.
//
// The child's standard output and standard error ARE the process's log writers; everything written
// there is captured.  No assertions about conjure: the driver records the captured text per case, the
// textual forms of the client address it searched for, and — where it can repeat the failing call
// itself — the error value the real call returned, decomposed into a shape.

import (
	"bytes"
	"context"
	"encoding/json"
	"errors"
	"fmt"
	"io"
	golog "log"
	"net"
	"os"
	"os/exec"
	"strconv"
	"strings"
	"syscall"
	"testing"
	"time"

	"github.com/refraction-networking/conjure/internal/conjurepath"
	"github.com/refraction-networking/conjure/pkg/core"
	cj "github.com/refraction-networking/conjure/pkg/station/lib"
	mintp "github.com/refraction-networking/conjure/pkg/transports/wrapping/min"
	pb "github.com/refraction-networking/conjure/proto"
)

type c17RealSpec struct {
	// direct: handleNewConn called on an accepted loopback connection
	// direct_tcp: handleNewTCPConn called on the real *net.TCPConn
	// accept: through the station's real accept loop (private namespace with REDIRECT only)
	Mode string `json:"mode"`
	// none | closed | emfile | tcp_closed | rst | fin | data_rst | junk_rst | relay_rst | relay_fin
	Fault string `json:"fault"`
}

type c17ChildOut struct {
	Mode    string   `json:"mode"` // netns-redirect | netns | plain
	Setup   []string `json:"setup"`
	Results []c17Res `json:"results"`
}

// ---------------------------------------------------------------- parent side

func c17RunReal(t *testing.T, cases []c17Case, res []c17Res) {
	var idx []int
	var sub []c17Case
	for i, c := range cases {
		if c.Scenario == "real" && c.Real != nil {
			idx = append(idx, i)
			sub = append(sub, c)
		}
	}
	if len(idx) == 0 {
		return
	}
	skipAll := func(why string) {
		for _, i := range idx {
			res[i] = c17Res{Skipped: why}
		}
	}
	dir := t.TempDir()
	cpath, opath, lpath := dir+"/cases.json", dir+"/out.json", dir+"/log.txt"
	raw, _ := json.Marshal(sub)
	if err := os.WriteFile(cpath, raw, 0o644); err != nil {
		skipAll("cannot write the child's cases: " + err.Error())
		return
	}
	var lastErr string
	for _, netns := range []string{"1", "0"} {
		if netns == "1" && os.Getenv("VERIF_C17_NO_NETNS") == "1" {
			continue
		}
		lf, err := os.Create(lpath)
		if err != nil {
			skipAll("cannot create the child's log file: " + err.Error())
			return
		}
		os.Remove(opath)
		cmd := exec.Command(os.Args[0], "-test.run=^TestVerifC17Child$", "-test.timeout=150s")
		cmd.Env = append(os.Environ(), "VERIF_C17_CHILD_CASES="+cpath, "VERIF_C17_CHILD_OUT="+opath, "VERIF_C17_CHILD_LOG="+lpath, "VERIF_C17_NETNS="+netns)
		cmd.Stdout, cmd.Stderr = lf, lf
		if netns == "1" {
			cmd.SysProcAttr = &syscall.SysProcAttr{Unshareflags: syscall.CLONE_NEWNET}
		}
		if err := cmd.Start(); err != nil {
			lf.Close()
			lastErr = "start (netns=" + netns + "): " + err.Error()
			continue
		}
		done := make(chan error, 1)
		go func() { done <- cmd.Wait() }()
		select {
		case <-done:
		case <-time.After(140 * time.Second):
			cmd.Process.Kill()
			<-done
			lastErr = "child timed out"
		}
		lf.Close()
		out, err := os.ReadFile(opath)
		var co c17ChildOut
		if err == nil && json.Unmarshal(out, &co) == nil && len(co.Results) == len(idx) {
			for k, i := range idx {
				r := co.Results[k]
				r.RealMode = co.Mode
				res[i] = r
			}
			if len(idx) > 0 {
				res[idx[0]].Setup = co.Setup
			}
			return
		}
		tail, _ := os.ReadFile(lpath)
		if len(tail) > 1500 {
			tail = tail[len(tail)-1500:]
		}
		lastErr = fmt.Sprintf("child (netns=%s) produced no results: %v / %s", netns, err, tail)
	}
	for _, i := range idx {
		res[i] = c17Res{Timeout: true, Out: "real-socket child: " + lastErr}
	}
}

// ---------------------------------------------------------------- child side

type c17PairT struct {
	s, c *net.TCPConn
	err  error
}

type c17Child struct {
	// connections made before the namespace's NAT rules exist: conntrack does not know them, so
	// getsockopt(SO_ORIGINAL_DST) fails on them as it does for a connection that was not redirected
	pre    map[int]*c17PairT
	mode   string
	setup  []string
	rm     *cj.RegistrationManager
	cm     *connManager
	logf   *os.File
	off    int64
	covert net.Listener
}

func (ch *c17Child) sh(args ...string) bool {
	out, err := exec.Command(args[0], args[1:]...).CombinedOutput()
	if err != nil {
		ch.setup = append(ch.setup, fmt.Sprintf("%s: %v %s", strings.Join(args, " "), err, strings.TrimSpace(string(out))))
		return false
	}
	return true
}

func (ch *c17Child) netSetup(cases []c17Case) {
	ch.mode = "plain"
	ch.pre = map[int]*c17PairT{}
	if os.Getenv("VERIF_C17_NETNS") != "1" {
		return
	}
	if !ch.sh("ip", "link", "set", "lo", "up") {
		return
	}
	ok := ch.sh("ip", "route", "add", "local", "0.0.0.0/0", "dev", "lo")
	ok6 := ch.sh("ip", "-6", "route", "add", "local", "::/0", "dev", "lo")
	os.WriteFile("/proc/sys/net/ipv4/ip_nonlocal_bind", []byte("1"), 0o644)
	os.WriteFile("/proc/sys/net/ipv6/ip_nonlocal_bind", []byte("1"), 0o644)
	if !ok {
		return
	}
	ch.mode = "netns"
	for k, c := range cases {
		if c.Real != nil && c.Real.Mode == "direct" && c.Real.Fault == "none" {
			p := &c17PairT{}
			p.s, p.c, p.err = c17Pair(net.ParseIP(c.Client))
			ch.pre[k] = p
		}
	}
	r4 := ch.sh("iptables", "-t", "nat", "-A", "OUTPUT", "-p", "tcp", "--dport", "443", "-j", "REDIRECT", "--to-ports", "41245")
	r6 := ok6 && ch.sh("ip6tables", "-t", "nat", "-A", "OUTPUT", "-p", "tcp", "--dport", "443", "-j", "REDIRECT", "--to-ports", "41245")
	if r4 {
		ch.mode = "netns-redirect"
		if !r6 {
			ch.mode = "netns-redirect4"
		}
	}
}

func (ch *c17Child) size() int64 {
	st, err := ch.logf.Stat()
	if err != nil {
		return ch.off
	}
	return st.Size()
}

func (ch *c17Child) peek() string {
	n := ch.size() - ch.off
	if n <= 0 {
		return ""
	}
	buf := make([]byte, n)
	ch.logf.ReadAt(buf, ch.off)
	return string(buf)
}

func (ch *c17Child) take() string {
	time.Sleep(5 * time.Millisecond)
	s := ch.peek()
	ch.off += int64(len(s))
	return s
}

func (ch *c17Child) waitFor(sub string, d time.Duration) bool {
	end := time.Now().Add(d)
	for time.Now().Before(end) {
		if strings.Contains(ch.peek(), sub) {
			return true
		}
		time.Sleep(5 * time.Millisecond)
	}
	return false
}

// c17ShapeOf decomposes a real error value into the shape language of the model
func c17ShapeOf(err error, client net.IP) *c17Err {
	if err == nil {
		return &c17Err{K: "nil"}
	}
	has := func(a net.Addr) bool { return a != nil && client != nil && strings.Contains(a.String(), client.String()) }
	switch e := err.(type) {
	case *net.OpError:
		return &c17Err{K: "op", Addr: has(e.Source) || has(e.Addr), I: c17ShapeOf(e.Err, client)}
	case *os.SyscallError:
		return &c17Err{K: "sys", I: c17ShapeOf(e.Err, client)}
	case syscall.Errno:
		return &c17Err{K: "leaf", V: fmt.Sprintf("errno:%d", int(e))}
	}
	switch err {
	case io.EOF:
		return &c17Err{K: "leaf", V: "eof"}
	case net.ErrClosed:
		return &c17Err{K: "leaf", V: "netclosed"}
	case os.ErrClosed:
		return &c17Err{K: "leaf", V: "osclosed"}
	case os.ErrDeadlineExceeded:
		return &c17Err{K: "leaf", V: "deadline"}
	case io.ErrShortWrite:
		return &c17Err{K: "leaf", V: "shortwrite"}
	}
	if u := errors.Unwrap(err); u != nil {
		own := strings.Replace(err.Error(), u.Error(), "", 1)
		return &c17Err{K: "wrap", Addr: client != nil && strings.Contains(own, client.String()), I: c17ShapeOf(u, client)}
	}
	if client != nil && strings.Contains(err.Error(), client.String()) {
		return &c17Err{K: "leaf", V: "textaddr"}
	}
	return &c17Err{K: "leaf", V: "text"}
}

// exhaust uses up the process's descriptors, leaving exactly `leave` free
func c17Exhaust(leave int) (release func()) {
	var keep []*os.File
	for {
		f, err := os.Open("/dev/null")
		if err != nil {
			break
		}
		keep = append(keep, f)
	}
	for i := 0; i < leave && len(keep) > 0; i++ {
		keep[len(keep)-1].Close()
		keep = keep[:len(keep)-1]
	}
	return func() {
		for _, f := range keep {
			f.Close()
		}
		keep = nil
	}
}

// a loopback pair: the accepted (station side) connection and the client side
func c17Pair(client net.IP) (*net.TCPConn, *net.TCPConn, error) {
	network, laddr := "tcp4", "127.0.0.1:0"
	if client.To4() == nil {
		network, laddr = "tcp6", "[::1]:0"
	}
	ln, err := net.Listen(network, laddr)
	if err != nil {
		return nil, nil, err
	}
	defer ln.Close()
	d := net.Dialer{LocalAddr: &net.TCPAddr{IP: client}, Timeout: 3 * time.Second}
	c, err := d.Dial(network, ln.Addr().String())
	if err != nil {
		return nil, nil, err
	}
	ln.(*net.TCPListener).SetDeadline(time.Now().Add(3 * time.Second))
	s, err := ln.Accept()
	if err != nil {
		c.Close()
		return nil, nil, err
	}
	return s.(*net.TCPConn), c.(*net.TCPConn), nil
}

// rawClient: a client socket created and bound BEFORE the descriptors are used up, connected after
type c17RawClient struct {
	fd int
	v6 bool
}

func c17RawSocket(client net.IP) (*c17RawClient, error) {
	if v4 := client.To4(); v4 != nil {
		fd, err := syscall.Socket(syscall.AF_INET, syscall.SOCK_STREAM|syscall.SOCK_CLOEXEC, 0)
		if err != nil {
			return nil, err
		}
		sa := &syscall.SockaddrInet4{}
		copy(sa.Addr[:], v4)
		if err := syscall.Bind(fd, sa); err != nil {
			syscall.Close(fd)
			return nil, err
		}
		return &c17RawClient{fd: fd}, nil
	}
	fd, err := syscall.Socket(syscall.AF_INET6, syscall.SOCK_STREAM|syscall.SOCK_CLOEXEC, 0)
	if err != nil {
		return nil, err
	}
	sa := &syscall.SockaddrInet6{}
	copy(sa.Addr[:], client.To16())
	if err := syscall.Bind(fd, sa); err != nil {
		syscall.Close(fd)
		return nil, err
	}
	return &c17RawClient{fd: fd, v6: true}, nil
}

func (rc *c17RawClient) connect(dst net.IP, port int) error {
	tv := syscall.Timeval{Sec: 2}
	syscall.SetsockoptTimeval(rc.fd, syscall.SOL_SOCKET, syscall.SO_RCVTIMEO, &tv)
	syscall.SetsockoptTimeval(rc.fd, syscall.SOL_SOCKET, syscall.SO_SNDTIMEO, &tv)
	if !rc.v6 {
		sa := &syscall.SockaddrInet4{Port: port}
		copy(sa.Addr[:], dst.To4())
		return syscall.Connect(rc.fd, sa)
	}
	sa := &syscall.SockaddrInet6{Port: port}
	copy(sa.Addr[:], dst.To16())
	return syscall.Connect(rc.fd, sa)
}

// waitClosed blocks until the station closed the connection (EOF / reset) or the socket's receive timeout
func (rc *c17RawClient) waitClosed() {
	buf := make([]byte, 256)
	for i := 0; i < 4; i++ {
		n, err := syscall.Read(rc.fd, buf)
		if n <= 0 || err != nil {
			return
		}
	}
}

func (ch *c17Child) dialPhantom(client, dst net.IP) (*net.TCPConn, error) {
	d := net.Dialer{LocalAddr: &net.TCPAddr{IP: client}, Timeout: 3 * time.Second}
	c, err := d.Dial("tcp", net.JoinHostPort(dst.String(), "443"))
	if err != nil {
		return nil, err
	}
	return c.(*net.TCPConn), nil
}

func c17Reset(c *net.TCPConn) {
	c.SetLinger(0)
	c.Close()
}

func (ch *c17Child) runCase(k int, c c17Case) (res c17Res) {
	ip := net.ParseIP(c.Client)
	v6 := ip.To4() == nil
	if ch.mode == "plain" {
		if v6 {
			res.Skipped = "plain mode has no distinctive IPv6 client address"
			return
		}
		ip = net.IPv4(127, 77, byte(100+(k/150)%150), byte(100+k%150))
	}
	if v6 && ch.mode == "netns-redirect4" && c.Real.Mode == "accept" {
		res.Skipped = "no IPv6 REDIRECT in this namespace"
		return
	}
	if c.Real.Mode == "accept" && !strings.HasPrefix(ch.mode, "netns-redirect") {
		res.Skipped = "the real accept loop needs a private network namespace with REDIRECT"
		return
	}
	res.Client = ip.String()
	res.Forms = c17Forms(ip)
	if c.LogEnv != nil && *c.LogEnv != "\x00unset" {
		os.Setenv("LOG_CLIENT_IP", *c.LogEnv)
	} else {
		os.Unsetenv("LOG_CLIENT_IP")
	}
	// what main() does with the variable at start-up (cmd/application/main.go)
	var perr error
	logClientIP, perr = strconv.ParseBool(os.Getenv("LOG_CLIENT_IP"))
	if perr != nil {
		logClientIP = false
	}
	defer func() {
		if r := recover(); r != nil {
			res.Panic = fmt.Sprint(r)
		}
		out := ch.take()
		for _, f := range res.Forms {
			if strings.Contains(out, f) {
				res.Leaks = append(res.Leaks, f)
			}
		}
		if len(out) > 24000 {
			// keep every line that contains a form of the address, plus head and tail
			var hit []string
			for _, l := range strings.Split(out, "\n") {
				for _, f := range res.Forms {
					if strings.Contains(l, f) {
						hit = append(hit, l)
						break
					}
				}
				if len(hit) > 20 {
					break
				}
			}
			res.Truncated = len(out)
			out = out[:12000] + "\n...[truncated]...\n" + strings.Join(hit, "\n") + "\n" + out[len(out)-6000:]
		}
		res.Out = out
	}()
	noReg := net.ParseIP("192.0.2.200")
	if v6 {
		noReg = net.ParseIP("2001:db8:ffff::c8")
	}
	switch c.Real.Mode {
	case "direct", "direct_tcp":
		var s, cl *net.TCPConn
		var err error
		if p := ch.pre[k]; p != nil {
			s, cl, err = p.s, p.c, p.err
		} else {
			s, cl, err = c17Pair(ip)
		}
		if err != nil {
			res.Skipped = "loopback pair: " + err.Error()
			return
		}
		defer cl.Close()
		defer s.Close()
		switch c.Real.Fault {
		case "none":
			// should the handler get as far as reading, it sees the end of the stream shortly after.  (Not closed
			// BEFORE the call: in the private namespace the FIN would make conntrack pick the connection up, and
			// SO_ORIGINAL_DST would then succeed.)
			go func() { time.Sleep(40 * time.Millisecond); cl.Close() }()
		case "closed", "tcp_closed":
			s.Close()
		case "emfile":
			release := c17Exhaust(0)
			defer release()
		}
		if c.Real.Mode == "direct" {
			// the value the real call returns in this state (repeating it does not change the state)
			f, err := s.File()
			if err == nil {
				f.Close()
			}
			res.Produced = c17ShapeOf(err, ip)
			res.ProducedText = fmt.Sprint(err)
			ch.cm.handleNewConn(ch.rm, s)
		} else {
			err := s.SetDeadline(time.Now().Add(time.Second))
			res.Produced = c17ShapeOf(err, ip)
			res.ProducedText = fmt.Sprint(err)
			ch.cm.handleNewTCPConn(ch.rm, s, noReg)
		}
	case "accept":
		switch c.Real.Fault {
		case "emfile":
			rc, err := c17RawSocket(ip)
			if err != nil {
				res.Skipped = "raw client socket: " + err.Error()
				return
			}
			defer syscall.Close(rc.fd)
			// the accept gets the last descriptor, the dup in File() does not.  (With a full table the
			// kernel answers accept4 on an EMPTY queue with EMFILE too, so the station's accept loop also
			// logs "failed to AcceptTCP" over and over until the handler has closed the connection.)
			release := c17Exhaust(1)
			err = rc.connect(noReg, 443)
			if err == nil {
				t0 := time.Now()
				rc.waitClosed()
				// a handler that got past File() would read for 5-10 s (this client sends nothing and stays open)
				if time.Since(t0) < time.Second {
					res.Echo = "closed-at-once"
				}
			}
			release()
			if err != nil {
				res.Skipped = "connect: " + err.Error()
			}
		case "none", "fin", "rst", "data_rst":
			cl, err := ch.dialPhantom(ip, noReg)
			if err != nil {
				res.Skipped = "dial: " + err.Error()
				return
			}
			if c.Real.Fault == "data_rst" {
				cl.Write([]byte("GET / HTTP/1.1\r\n\r\n"))
				time.Sleep(20 * time.Millisecond)
			}
			if c.Real.Fault == "rst" || c.Real.Fault == "data_rst" {
				time.Sleep(10 * time.Millisecond)
				c17Reset(cl)
				ch.waitFor("error occurred discarding data", 3*time.Second)
			} else {
				cl.CloseWrite()
				cl.SetReadDeadline(time.Now().Add(3 * time.Second))
				io.Copy(io.Discard, cl) // until the station closes
				cl.Close()
			}
		case "junk_rst", "relay_rst", "relay_fin":
			secret := append(bytes.Repeat([]byte{13}, 28), byte(k>>8), byte(k), 5, 6)
			w := c17Wrapper(ip, ch.covert.Addr().String(), secret)
			if v6 {
				no, yes := false, true
				w.RegistrationPayload.V4Support = &no
				w.RegistrationPayload.V6Support = &yes
			}
			reg, err := ch.rm.NewRegistrationC2SWrapper(w, v6)
			if err != nil {
				res.Skipped = "registration: " + err.Error()
				return
			}
			ch.rm.AddRegistration(reg)
			cl, err := ch.dialPhantom(ip, reg.PhantomIp)
			if err != nil {
				res.Skipped = "dial: " + err.Error()
				return
			}
			if c.Real.Fault == "junk_rst" {
				cl.Write(bytes.Repeat([]byte{0x5a}, 48)) // not a tag of any registration: every transport is ruled out
				time.Sleep(30 * time.Millisecond)
				c17Reset(cl)
				ch.waitFor("error occurred discarding data", 3*time.Second)
				return
			}
			tag := core.ConjureHMAC(reg.SharedSecret(), "MinTrasportHMACString")
			cl.Write(append(append([]byte{}, tag...), []byte("hello covert")...))
			buf := make([]byte, 64)
			cl.SetReadDeadline(time.Now().Add(3 * time.Second))
			n, _ := cl.Read(buf) // the covert echoes
			res.Echo = string(buf[:n])
			if c.Real.Fault == "relay_rst" {
				c17Reset(cl)
			} else {
				cl.Close()
			}
			ch.waitFor("proxy closed", 4*time.Second)
		}
	}
	return
}

func TestVerifC17Child(t *testing.T) {
	cpath := os.Getenv("VERIF_C17_CHILD_CASES")
	if cpath == "" {
		t.Skip("not a child")
	}
	raw, err := os.ReadFile(cpath)
	if err != nil {
		t.Fatal(err)
	}
	var cases []c17Case
	if err := json.Unmarshal(raw, &cases); err != nil {
		t.Fatal(err)
	}
	ch := &c17Child{}
	ch.logf, err = os.Open(os.Getenv("VERIF_C17_CHILD_LOG"))
	if err != nil {
		t.Fatal(err)
	}
	// a small descriptor table: using it up is quick, and it is this process's own
	var lim syscall.Rlimit
	if syscall.Getrlimit(syscall.RLIMIT_NOFILE, &lim) == nil {
		lim.Cur = 192
		syscall.Setrlimit(syscall.RLIMIT_NOFILE, &lim)
	}
	ch.netSetup(cases)
	golog.SetOutput(os.Stdout)

	// the station, as main() builds it
	os.Setenv("PHANTOM_SUBNET_LOCATION", conjurepath.Root+"/pkg/station/lib/test/phantom_subnets.toml")
	ch.cm = newConnManager(nil)
	ch.rm = cj.NewRegistrationManager(&cj.RegConfig{EnableIPv4: true, EnableIPv6: true, ConnectingStats: ch.cm})
	if ch.rm == nil {
		t.Fatal("NewRegistrationManager returned nil")
	}
	ch.rm.GeoIP = &c17Geo{ccErr: map[string]*c17Err{}, asErr: map[string]*c17Err{}, after: map[string]int{}}
	ch.rm.VerifC17NoDetector()
	sharedLogger = ch.rm.Logger
	if err := ch.rm.AddTransport(pb.TransportType_Min, mintp.Transport{}); err != nil {
		t.Fatal(err)
	}
	ch.covert, err = net.Listen("tcp", "127.0.0.1:0")
	if err != nil {
		t.Fatal(err)
	}
	go func() {
		for {
			c, err := ch.covert.Accept()
			if err != nil {
				return
			}
			go func(c net.Conn) {
				defer c.Close()
				c.SetDeadline(time.Now().Add(10 * time.Second))
				io.Copy(c, c)
			}(c)
		}
	}()
	if strings.HasPrefix(ch.mode, "netns-redirect") {
		go ch.cm.acceptConnections(context.Background(), ch.rm, sharedLogger)
		up := false
		for i := 0; i < 200 && !up; i++ {
			if c, err := net.DialTimeout("tcp", "127.0.0.1:41245", time.Second); err == nil {
				c.Close()
				up = true
			} else {
				time.Sleep(10 * time.Millisecond)
			}
		}
		if !up {
			ch.setup = append(ch.setup, "the accept loop did not come up on 41245")
			ch.mode = "netns"
		}
		time.Sleep(30 * time.Millisecond)
	}
	out := c17ChildOut{}
	setupOut := ch.take()
	for k, c := range cases {
		done := make(chan c17Res, 1)
		go func() { done <- ch.runCase(k, c) }()
		select {
		case r := <-done:
			out.Results = append(out.Results, r)
		case <-time.After(12 * time.Second):
			out.Results = append(out.Results, c17Res{Timeout: true, Out: ch.take()})
		}
	}
	// statistics modules of this process
	os.Unsetenv("LOG_CLIENT_IP")
	ch.cm.PrintAndReset(sharedLogger)
	cj.GetProxyStats().PrintAndReset(sharedLogger)
	cj.Stat().PrintStats(true)
	time.Sleep(20 * time.Millisecond)
	tail := ch.take()
	if len(tail) > 8000 {
		tail = tail[len(tail)-8000:]
	}
	if len(setupOut) > 4000 {
		setupOut = setupOut[:4000]
	}
	out.Mode, out.Setup = ch.mode, append(ch.setup, "setup-log: "+setupOut, "stats-log: "+tail)
	b, _ := json.Marshal(out)
	if err := os.WriteFile(os.Getenv("VERIF_C17_CHILD_OUT"), b, 0o644); err != nil {
		t.Fatal(err)
	}
}
