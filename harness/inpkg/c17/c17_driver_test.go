//go:build verif

package main

// Driver for C17 (client addresses never reach the logs unless enabled).  Injected with
// go test -overlay; nothing is written into /repo.  It contains no assertions about conjure: it
// drives the real handleNewTCPConn / Proxy / ingest step with connections that have distinctive
// client addresses, injects error values of every shape at every I/O call, captures everything
// the process writes to its log writers and reports the captured text.

import (
	"bytes"
	"context"
	"encoding/hex"
	"encoding/json"
	"errors"
	"fmt"
	"io"
	golog "log"
	"net"
	"os"
	"strconv"
	"strings"
	"sync"
	"syscall"
	"testing"
	"time"

	"github.com/refraction-networking/conjure/internal/conjurepath"
	"github.com/refraction-networking/conjure/pkg/core"
	"github.com/refraction-networking/conjure/pkg/core/interfaces"
	cj "github.com/refraction-networking/conjure/pkg/station/lib"
	"github.com/refraction-networking/conjure/pkg/station/log"
	"github.com/refraction-networking/conjure/pkg/transports"
	cdtls "github.com/refraction-networking/conjure/pkg/transports/connecting/dtls"
	pb "github.com/refraction-networking/conjure/proto"
	"google.golang.org/protobuf/proto"
	"google.golang.org/protobuf/types/known/anypb"
)

// ---------------------------------------------------------------- error shapes

type c17Err struct {
	K    string  `json:"k"`    // leaf | sys | op | wrap | nil
	V    string  `json:"v"`    // leaf: eof netclosed osclosed deadline shortwrite errno:<n> text textaddr
	Addr bool    `json:"addr"` // op / wrap: the text embeds the client address
	I    *c17Err `json:"i"`
}

func c17Build(e *c17Err, op string, client net.Addr) error {
	if e == nil || e.K == "nil" || e.K == "" {
		return nil
	}
	local := &net.TCPAddr{IP: net.IPv4(192, 0, 2, 77), Port: 443}
	switch e.K {
	case "leaf":
		switch {
		case e.V == "eof":
			return io.EOF
		case e.V == "netclosed":
			return net.ErrClosed
		case e.V == "osclosed":
			return os.ErrClosed
		case e.V == "deadline":
			return os.ErrDeadlineExceeded
		case e.V == "shortwrite":
			return io.ErrShortWrite
		case strings.HasPrefix(e.V, "errno:"):
			var n int
			fmt.Sscanf(e.V, "errno:%d", &n)
			return syscall.Errno(n)
		case e.V == "textaddr":
			return errors.New("verif failure while talking to " + client.String())
		default:
			return errors.New("verif opaque failure")
		}
	case "sys":
		return os.NewSyscallError(op, c17Build(e.I, op, client))
	case "op":
		o := &net.OpError{Op: op, Net: "tcp", Err: c17Build(e.I, op, client)}
		if e.Addr {
			o.Source, o.Addr = local, client
		}
		return o
	case "wrap":
		if e.Addr {
			return fmt.Errorf("verif wrapped [%s]: %w", client.String(), c17Build(e.I, op, client))
		}
		return fmt.Errorf("verif wrapped: %w", c17Build(e.I, op, client))
	}
	return errors.New("verif bad shape")
}

// ---------------------------------------------------------------- scripted client connection

type c17Addr struct{ s string }

func (a c17Addr) Network() string { return "tcp" }
func (a c17Addr) String() string  { return a.s }

type c17Conn struct {
	mu       sync.Mutex
	remote   net.Addr
	reads    [][]byte
	errAt    map[string]*c17Err // "read:2", "write:0", "setdeadline:1", "close:0"
	n        map[string]int
	closed   bool
	closedCh chan struct{}
	hold     bool // after the read script: block until closed instead of returning EOF
}

func (c *c17Conn) fault(op, goOp string) (error, bool) {
	k := fmt.Sprintf("%s:%d", op, c.n[op])
	c.n[op]++
	if e, ok := c.errAt[k]; ok {
		return c17Build(e, goOp, c.remote), true
	}
	return nil, false
}

func (c *c17Conn) Read(b []byte) (int, error) {
	c.mu.Lock()
	i := c.n["read"]
	err, hit := c.fault("read", "read")
	closed := c.closed
	c.mu.Unlock()
	if hit {
		return 0, err
	}
	if closed {
		return 0, &net.OpError{Op: "read", Net: "tcp", Source: &net.TCPAddr{IP: net.IPv4(192, 0, 2, 77), Port: 443}, Addr: c.remote, Err: net.ErrClosed}
	}
	if i < len(c.reads) {
		return copy(b, c.reads[i]), nil
	}
	if c.hold {
		select {
		case <-c.closedCh:
			return 0, &net.OpError{Op: "read", Net: "tcp", Addr: c.remote, Err: net.ErrClosed}
		case <-time.After(15 * time.Second):
		}
	}
	return 0, io.EOF
}

func (c *c17Conn) Write(b []byte) (int, error) {
	c.mu.Lock()
	defer c.mu.Unlock()
	if err, hit := c.fault("write", "write"); hit {
		return 0, err
	}
	return len(b), nil
}

func (c *c17Conn) SetDeadline(t time.Time) error {
	c.mu.Lock()
	defer c.mu.Unlock()
	err, _ := c.fault("setdeadline", "set")
	return err
}

func (c *c17Conn) Close() error {
	c.mu.Lock()
	defer c.mu.Unlock()
	err, _ := c.fault("close", "close")
	if !c.closed {
		c.closed = true
		close(c.closedCh)
	}
	return err
}
func (c *c17Conn) LocalAddr() net.Addr                { return &net.TCPAddr{IP: net.IPv4(192, 0, 2, 77), Port: 443} }
func (c *c17Conn) RemoteAddr() net.Addr               { return c.remote }
func (c *c17Conn) SetReadDeadline(t time.Time) error  { return nil }
func (c *c17Conn) SetWriteDeadline(t time.Time) error { return nil }

// ---------------------------------------------------------------- scripted GeoIP and transport

type c17Geo struct {
	mu    sync.Mutex
	ccErr map[string]*c17Err // keyed by ip.String()
	asErr map[string]*c17Err
	after map[string]int // lookups for this address that still succeed before the scripted error applies
}

func (g *c17Geo) due(ip net.IP) bool {
	if n := g.after[ip.String()]; n > 0 {
		g.after[ip.String()] = n - 1
		return false
	}
	return true
}

func (g *c17Geo) CC(ip net.IP) (string, error) {
	g.mu.Lock()
	defer g.mu.Unlock()
	if e, ok := g.ccErr[ip.String()]; ok && g.due(ip) {
		return "", c17Build(e, "lookup", c17Addr{ip.String()})
	}
	return "US", nil
}
func (g *c17Geo) ASN(ip net.IP) (uint, error) {
	g.mu.Lock()
	defer g.mu.Unlock()
	if e, ok := g.asErr[ip.String()]; ok && g.due(ip) {
		return 0, c17Build(e, "lookup", c17Addr{ip.String()})
	}
	return 64500, nil
}

type c17Plan struct {
	res []string // per WrapConnection call: again | not | err | found
	err *c17Err
	reg *cj.DecoyRegistration
}

type c17T struct {
	mu    sync.Mutex
	plans map[net.Conn]*c17Plan
}

func (*c17T) Name() string      { return "VerifTransport" }
func (*c17T) LogPrefix() string { return "VERIF" }
func (*c17T) GetIdentifier(d transports.Registration) string {
	return string(core.ConjureHMAC(d.SharedSecret(), "VerifC17"))
}
func (*c17T) GetProto() pb.IPProto { return pb.IPProto_Tcp }
func (*c17T) GetDstPort(libVersion uint, seed []byte, parameters any) (uint16, error) {
	return 443, nil
}
func (*c17T) ParseParams(libVersion uint, data *anypb.Any) (any, error) { return nil, nil }
func (*c17T) ParamStrings(p any) []string                               { return nil }
func (t *c17T) WrapConnection(data *bytes.Buffer, c net.Conn, phantom net.IP, rm transports.RegManager) (transports.Registration, net.Conn, error) {
	t.mu.Lock()
	p := t.plans[c]
	t.mu.Unlock()
	if p == nil || len(p.res) == 0 {
		return nil, nil, transports.ErrNotTransport
	}
	r := p.res[0]
	p.res = p.res[1:]
	switch r {
	case "again":
		return nil, nil, transports.ErrTryAgain
	case "not":
		return nil, nil, transports.ErrNotTransport
	case "err":
		return nil, nil, c17Build(p.err, "read", c.RemoteAddr())
	}
	return p.reg, c, nil
}

// scripted connecting transport (the station dials the client): registered under its own type
type c17CPlan struct {
	conn net.Conn
	err  *c17Err
	done chan struct{}
}
type c17CT struct {
	c17T
	mu    sync.Mutex
	plans map[string]*c17CPlan // keyed by the registration address
}

func (*c17CT) Name() string      { return "VerifConnecting" }
func (*c17CT) LogPrefix() string { return "VERIFC" }
func (*c17CT) GetProto() pb.IPProto { return pb.IPProto_Udp }
func (t *c17CT) Connect(ctx context.Context, reg transports.Registration) (net.Conn, error) {
	t.mu.Lock()
	p := t.plans[reg.GetRegistrationAddress()]
	t.mu.Unlock()
	if p == nil {
		return nil, errors.New("verif: no plan")
	}
	defer close(p.done)
	if p.err != nil {
		return nil, c17Build(p.err, "dial", &net.UDPAddr{IP: net.ParseIP(reg.GetRegistrationAddress()), Port: 4444})
	}
	return p.conn, nil
}

type c17DNAT struct{}

func (c17DNAT) AddEntry(clientAddr *net.IP, clientPort uint16, phantomIP *net.IP, phantomPort uint16) error {
	return nil
}

// ---------------------------------------------------------------- cases

type c17Case struct {
	Scenario string              `json:"scenario"` // noreg | notransport | readerr | wraperr | found | geo | ingest_blocklisted | ingest_geo
	Client   string              `json:"client"`   // textual client IP (unique per case)
	Port     int                 `json:"port"`
	AddrKind string              `json:"addr_kind"` // tcp | noport | hostport
	Reads    []string            `json:"reads"`
	ErrAt    map[string]*c17Err  `json:"err_at"`
	Geo      map[string]*c17Err  `json:"geo"`  // "cc" / "asn"
	Wrap     []string            `json:"wrap"` // plan for WrapConnection
	WrapErr  *c17Err             `json:"wrap_err"`
	Dial     string              `json:"dial"` // ok | fail
	ProxyHdr bool                `json:"proxy_hdr"`
	LogIP    bool                `json:"log_ip"`
	// LOG_CLIENT_IP value for this case ("\x00unset" = variable not set); when present it replaces log_ip
	LogEnv *string `json:"log_env"`
	CtMode   string              `json:"ct_mode"`   // ct scenario: relay | fail | geo
	GeoAfter int                 `json:"geo_after"` // GeoIP lookups that succeed before the scripted error
	Level    string              `json:"level"`
	Hold     bool                `json:"hold"`
	// real-socket lane (c17_real_driver_test.go): run in a child process on real TCP connections
	Real *c17RealSpec `json:"real"`
}

type c17Res struct {
	Out     string   `json:"out"`     // captured log text attributed to the case
	Forms   []string `json:"forms"`   // textual forms of the client address that were searched
	Leaks   []string `json:"leaks"`   // forms found in Out
	Panic   string   `json:"panic"`
	Timeout bool     `json:"timeout"`
	// real-socket lane
	Skipped      string   `json:"skipped,omitempty"`       // why the case could not be run in this environment
	Client       string   `json:"client,omitempty"`        // the client address actually used
	RealMode     string   `json:"real_mode,omitempty"`     // netns-redirect | netns | plain
	Produced     *c17Err  `json:"produced,omitempty"`      // the error value the real call returned, as a shape
	ProducedText string   `json:"produced_text,omitempty"` // ... and its text (driver's own call, never a log line)
	Truncated    int      `json:"truncated,omitempty"`
	Echo         string   `json:"echo,omitempty"`
	Setup        []string `json:"setup,omitempty"`
}

func c17Forms(ip net.IP) []string {
	var f []string
	add := func(s string) {
		for _, x := range f {
			if x == s {
				return
			}
		}
		f = append(f, s)
	}
	if v4 := ip.To4(); v4 != nil {
		add(v4.String())
		add(hex.EncodeToString(v4))
		add(strings.ToUpper(hex.EncodeToString(v4)))
		add(fmt.Sprintf("%02x%02x:%02x%02x", v4[0], v4[1], v4[2], v4[3]))
		add(fmt.Sprintf("%x:%x", uint16(v4[0])<<8|uint16(v4[1]), uint16(v4[2])<<8|uint16(v4[3])))
		add(fmt.Sprintf("%d", uint32(v4[0])<<24|uint32(v4[1])<<16|uint32(v4[2])<<8|uint32(v4[3])))
	} else {
		v6 := ip.To16()
		add(v6.String())
		add(strings.ToUpper(v6.String()))
		var groups, groups0 []string
		for i := 0; i < 16; i += 2 {
			groups = append(groups, fmt.Sprintf("%02x%02x", v6[i], v6[i+1]))
			groups0 = append(groups0, fmt.Sprintf("%x", uint16(v6[i])<<8|uint16(v6[i+1])))
		}
		add(strings.Join(groups, ":"))
		add(strings.ToUpper(strings.Join(groups, ":")))
		add(strings.Join(groups0, ":"))
		add(hex.EncodeToString(v6))
	}
	return f
}

type c17Env struct {
	ct     *c17CT
	dtlsOK bool
	rm    *cj.RegistrationManager
	cm    *connManager
	geo   *c17Geo
	tr    *c17T
	reg   *cj.DecoyRegistration
	regNo net.IP // a phantom without registrations
	ln    net.Listener
	f     *os.File
	off   int64
}

func c17Setup() (*c17Env, error) {
	os.Setenv("PHANTOM_SUBNET_LOCATION", conjurepath.Root+"/pkg/station/lib/test/phantom_subnets.toml")
	e := &c17Env{geo: &c17Geo{ccErr: map[string]*c17Err{}, asErr: map[string]*c17Err{}, after: map[string]int{}}, tr: &c17T{plans: map[net.Conn]*c17Plan{}},
		ct: &c17CT{plans: map[string]*c17CPlan{}}}
	e.cm = newConnManager(nil)
	e.rm = cj.NewRegistrationManager(&cj.RegConfig{EnableIPv4: true, EnableIPv6: true, ConnectingStats: e.cm})
	if e.rm == nil {
		return nil, errors.New("NewRegistrationManager returned nil")
	}
	e.rm.GeoIP = e.geo
	e.rm.VerifC17NoDetector()
	if err := e.rm.AddTransport(pb.TransportType_Min, e.tr); err != nil {
		return nil, err
	}
	if err := e.rm.AddTransport(pb.TransportType_Webrtc, e.ct); err != nil {
		return nil, err
	}
	// the real DTLS connecting transport with a stand-in for the tun-device DNAT
	nop := func(*net.IP) {}
	if dt, err := cdtls.NewTransport(nop, nop, nop, nop, func() (interfaces.DNAT, error) { return c17DNAT{}, nil }); err == nil {
		if e.rm.AddTransport(pb.TransportType_DTLS, dt) == nil {
			e.dtlsOK = true
		}
	}
	reg, err := c17NewReg(e.rm, net.IPv4(198, 51, 100, 1), "127.0.0.1:9", bytes.Repeat([]byte{7}, 32))
	if err != nil {
		return nil, err
	}
	e.rm.AddRegistration(reg)
	e.reg = reg
	e.regNo = net.ParseIP("192.0.2.200")
	ln, err := net.Listen("tcp", "127.0.0.1:0")
	if err != nil {
		return nil, err
	}
	e.ln = ln
	go func() {
		for {
			c, err := ln.Accept()
			if err != nil {
				return
			}
			go func(c net.Conn) {
				defer c.Close()
				c.SetDeadline(time.Now().Add(10 * time.Second))
				io.Copy(c, c) // echo until the relay closes
			}(c)
		}
	}()
	return e, nil
}

func c17Wrapper(client net.IP, covert string, secret []byte) *pb.C2SWrapper {
	tr := pb.TransportType_Min
	gen := uint32(1)
	v := uint32(1)
	yes := true
	src := pb.RegistrationSource_API
	c2s := &pb.ClientToStation{Transport: &tr, DecoyListGeneration: &gen, ClientLibVersion: &v, CovertAddress: &covert,
		V4Support: &yes, Flags: &pb.RegistrationFlags{}}
	addr := client.To4()
	if addr == nil {
		addr = client.To16()
	}
	return &pb.C2SWrapper{SharedSecret: secret, RegistrationPayload: c2s, RegistrationSource: &src, RegistrationAddress: addr}
}

func c17NewReg(rm *cj.RegistrationManager, client net.IP, covert string, secret []byte) (*cj.DecoyRegistration, error) {
	return rm.NewRegistrationC2SWrapper(c17Wrapper(client, covert, secret), false)
}

func c17RegMsg(client net.IP, covert string, secret []byte) ([]byte, error) {
	w := c17Wrapper(client, covert, secret)
	if client.To4() == nil {
		no, yes := false, true
		w.RegistrationPayload.V4Support = &no
		w.RegistrationPayload.V6Support = &yes
	}
	return proto.Marshal(w)
}

// c17ConnectingMsg: a registration for a connecting transport (the station dials the client)
func c17ConnectingMsg(client net.IP, port int, covert string, secret []byte, tt pb.TransportType) ([]byte, error) {
	w := c17Wrapper(client, covert, secret)
	yes := true
	no := false
	w.RegistrationPayload.Transport = &tt
	w.RegistrationPayload.Flags = &pb.RegistrationFlags{Prescanned: &yes}
	v := uint32(5)
	w.RegistrationPayload.ClientLibVersion = &v
	if client.To4() == nil {
		w.RegistrationPayload.V4Support = &no
		w.RegistrationPayload.V6Support = &yes
	}
	if tt == pb.TransportType_DTLS {
		p := uint32(port)
		a := &pb.Addr{IP: client.To16(), Port: &p}
		if v4 := client.To4(); v4 != nil {
			a.IP = v4
		}
		params := &pb.DTLSTransportParams{SrcAddr4: a, SrcAddr6: a}
		any, err := anypb.New(params)
		if err != nil {
			return nil, err
		}
		w.RegistrationPayload.TransportParams = any
	}
	return proto.Marshal(w)
}

func (e *c17Env) captured() string {
	time.Sleep(3 * time.Millisecond)
	st, err := e.f.Stat()
	if err != nil {
		return ""
	}
	n := st.Size() - e.off
	if n <= 0 {
		return ""
	}
	buf := make([]byte, n)
	e.f.ReadAt(buf, e.off)
	e.off = st.Size()
	return string(buf)
}

func (e *c17Env) runCase(c c17Case) (res c17Res) {
	ip := net.ParseIP(c.Client)
	res.Forms = c17Forms(ip)
	var remote net.Addr = &net.TCPAddr{IP: ip, Port: c.Port}
	switch c.AddrKind {
	case "noport":
		remote = c17Addr{ip.String()}
	case "hostport":
		remote = c17Addr{net.JoinHostPort(ip.String(), fmt.Sprint(c.Port))}
	}
	conn := &c17Conn{remote: remote, errAt: c.ErrAt, n: map[string]int{}, closedCh: make(chan struct{}), hold: c.Hold}
	for _, h := range c.Reads {
		d, _ := hex.DecodeString(h)
		conn.reads = append(conn.reads, d)
	}
	if c.LogEnv != nil {
		if *c.LogEnv == "\x00unset" {
			os.Unsetenv("LOG_CLIENT_IP")
		} else {
			os.Setenv("LOG_CLIENT_IP", *c.LogEnv)
		}
	} else if c.LogIP {
		os.Setenv("LOG_CLIENT_IP", "true")
	} else {
		os.Unsetenv("LOG_CLIENT_IP")
	}
	// what main() does with the variable at start-up (cmd/application/main.go)
	var perr error
	logClientIP, perr = strconv.ParseBool(os.Getenv("LOG_CLIENT_IP"))
	if perr != nil {
		logClientIP = false
	}
	if c.Level != "" {
		l, _ := log.ParseLevel(c.Level)
		log.SetLevel(l)
		if c.Scenario == "wraperr" {
			go func() { time.Sleep(25 * time.Millisecond); log.SetLevel(log.ErrorLevel) }()
		} else {
			defer log.SetLevel(log.ErrorLevel)
		}
	}
	e.geo.mu.Lock()
	if x, ok := c.Geo["cc"]; ok {
		e.geo.ccErr[ip.String()] = x
	}
	if x, ok := c.Geo["asn"]; ok {
		e.geo.asErr[ip.String()] = x
	}
	if c.GeoAfter > 0 {
		e.geo.after[ip.String()] = c.GeoAfter
	}
	e.geo.mu.Unlock()
	done := make(chan struct{})
	go func() {
		defer close(done)
		defer func() {
			if r := recover(); r != nil {
				res.Panic = fmt.Sprint(r)
			}
		}()
		switch c.Scenario {
		case "ingest_blocklisted", "ingest_geo":
			msg, err := c17RegMsg(ip, "not a covert address", append(bytes.Repeat([]byte{9}, 28), byte(c.Port>>8), byte(c.Port), 1, 2))
			if err != nil {
				res.Panic = "marshal: " + err.Error()
				return
			}
			e.rm.VerifC17IngestMsg(msg)
		case "ct", "dtls_real":
			secret := append(bytes.Repeat([]byte{11}, 28), byte(c.Port>>8), byte(c.Port), 3, 4)
			tt := pb.TransportType_Webrtc
			if c.Scenario == "dtls_real" {
				if !e.dtlsOK {
					res.Panic = "dtls transport unavailable"
					return
				}
				tt = pb.TransportType_DTLS
			}
			msg, err := c17ConnectingMsg(ip, c.Port, e.ln.Addr().String(), secret, tt)
			if err != nil {
				res.Panic = "marshal: " + err.Error()
				return
			}
			conn.remote = &net.UDPAddr{IP: ip, Port: c.Port}
			plan := &c17CPlan{conn: conn, done: make(chan struct{})}
			if c.CtMode == "fail" {
				plan.err = c.WrapErr
			}
			e.ct.mu.Lock()
			e.ct.plans[ip.String()] = plan
			e.ct.mu.Unlock()
			e.rm.VerifC17IngestMsg(msg)
			if c.Scenario == "dtls_real" {
				time.Sleep(6 * time.Second) // Connect gives up after its 5 s context
				return
			}
			// the connecting goroutine is detached: wait for Connect and, when relaying, for the relay to end
			select {
			case <-plan.done:
			case <-time.After(2 * time.Second):
			}
			if c.CtMode == "relay" {
				select {
				case <-conn.closedCh:
				case <-time.After(5 * time.Second):
				}
			}
			time.Sleep(20 * time.Millisecond)
		case "noreg":
			e.cm.handleNewTCPConn(e.rm, conn, e.regNo)
		default:
			reg := e.reg
			if c.Scenario == "found" {
				if c.Dial == "fail" {
					reg.Covert = "127.0.0.1:1"
				} else {
					reg.Covert = e.ln.Addr().String()
				}
				reg.Flags = &pb.RegistrationFlags{ProxyHeader: &c.ProxyHdr}
			}
			e.tr.mu.Lock()
			e.tr.plans[conn] = &c17Plan{res: append([]string{}, c.Wrap...), err: c.WrapErr, reg: reg}
			e.tr.mu.Unlock()
			e.cm.handleNewTCPConn(e.rm, conn, reg.PhantomIp)
			conn.Close() // what handleNewConn's deferred Close does
			e.tr.mu.Lock()
			delete(e.tr.plans, conn)
			e.tr.mu.Unlock()
		}
	}()
	select {
	case <-done:
	case <-time.After(20 * time.Second):
		res.Timeout = true
	}
	if c.Scenario != "wraperr" && c.Scenario != "dtls_real" {
		res.Out = e.captured()
	}
	for _, f := range res.Forms {
		if strings.Contains(res.Out, f) {
			res.Leaks = append(res.Leaks, f)
		}
	}
	return res
}

func TestVerifC17(t *testing.T) {
	raw, err := os.ReadFile(os.Getenv("VERIF_CASES"))
	if err != nil {
		t.Skip("no cases")
	}
	var cases []c17Case
	if err := json.Unmarshal(raw, &cases); err != nil {
		t.Fatal(err)
	}
	f, err := os.CreateTemp(t.TempDir(), "c17log")
	if err != nil {
		t.Fatal(err)
	}
	realStdout := os.Stdout
	os.Stdout = f // every log.New(os.Stdout, ...) from here on writes into the capture file
	golog.SetOutput(f)
	defer func() { os.Stdout = realStdout; golog.SetOutput(os.Stderr) }()
	env, err := c17Setup()
	if err != nil {
		os.Stdout = realStdout
		t.Fatal(err)
	}
	env.f = f
	setupOut := env.captured()
	res := make([]c17Res, len(cases)+1)
	// the transport-error path sleeps until the classification deadline (5-10 s): those cases run
	// in the background, started first (their logger takes the level that is set at that moment)
	var bg sync.WaitGroup
	for i, c := range cases {
		if (c.Scenario != "wraperr" && c.Scenario != "dtls_real") || c.Scenario == "real" {
			continue
		}
		bg.Add(1)
		go func(i int, c c17Case) {
			defer bg.Done()
			r := env.runCase(c)
			r.Out = ""
			res[i] = r
		}(i, c)
		time.Sleep(30 * time.Millisecond)
	}
	for i, c := range cases {
		if c.Scenario == "wraperr" || c.Scenario == "dtls_real" || c.Scenario == "real" {
			continue
		}
		res[i] = env.runCase(c)
	}
	c17RunReal(t, cases, res)
	bg.Wait()
	// statistics modules
	logger := log.New(f, "[STATS] ", golog.Ldate|golog.Lmicroseconds)
	env.cm.PrintAndReset(logger)
	cj.GetProxyStats().PrintAndReset(logger)
	env.rm.RemoveOldRegistrations()
	cj.Stat().PrintStats(true)
	time.Sleep(20 * time.Millisecond)
	res[len(cases)] = c17Res{Out: setupOut + "\n----stats----\n" + env.captured()}
	env.ln.Close()
	os.Stdout = realStdout
	out, _ := json.Marshal(res)
	if err := os.WriteFile(os.Getenv("VERIF_OUT"), out, 0o644); err != nil {
		t.Fatal(err)
	}
}
