//go:build verif

package lib

import (
	"context"
	"sync"
	"time"
)

// Export shim for the C17 handler driver (exists only in the go test -overlay; never in /repo).

// VerifC17NoDetector replaces the functions that publish New/Update messages to the detector,
// so the driver needs no Redis.
func (regManager *RegistrationManager) VerifC17NoDetector() {
	r := regManager.registeredDecoys
	r.m.Lock()
	defer r.m.Unlock()
	r.registerForDetector = func(*DecoyRegistration) {}
	r.updateInDetector = func(*DecoyRegistration) {}
}

// VerifC17Ingest runs the ingest worker's per-registration step.
func (regManager *RegistrationManager) VerifC17Ingest(reg *DecoyRegistration) {
	regManager.ingestRegistration(reg)
}

// VerifC17IngestMsg feeds one raw registration message to a real ingest worker
// (startIngestThread) and stops the worker again.
func (regManager *RegistrationManager) VerifC17IngestMsg(msg []byte) {
	ctx, cancel := context.WithCancel(context.Background())
	ch := make(chan interface{})
	wg := new(sync.WaitGroup)
	wg.Add(1)
	go regManager.startIngestThread(ctx, ch, wg)
	select {
	case ch <- msg:
	case <-time.After(5 * time.Second):
	}
	// the worker takes the next message only after it has finished this one
	select {
	case ch <- []byte{0xff}:
	case <-time.After(5 * time.Second):
	}
	cancel()
	wg.Wait()
}
