//go:build verif

package regprocessor

// Correspondence driver for C12 (what the registrar tells the client is what it tells the
// stations).  For every case it builds a RegProcessor literal with a recording zmqSender, a
// scripted ipSelector, a scripted+recording crypto/rand.Reader and a seeded math/rand, runs the
// real RegisterBidirectional / RegisterUnidirectional, decodes what was handed to the sender and
// feeds those bytes to the real station-side parseRegMessage / NewRegistrationC2SWrapper.
// It records observables (and the values of the external functions the Coq model takes as
// oracles); it contains no assertions about conjure.

import (
	"bytes"
	crand "crypto/rand"
	"crypto/ed25519"
	"encoding/hex"
	"encoding/json"
	"errors"
	"fmt"
	"io"
	mrand "math/rand"
	"net"
	"os"
	"path/filepath"
	"strconv"
	"strings"
	"time"

	"github.com/BurntSushi/toml"
	zmq "github.com/pebbe/zmq4"
	"github.com/refraction-networking/conjure/pkg/core"
	"github.com/refraction-networking/conjure/pkg/core/interfaces"
	"github.com/refraction-networking/conjure/pkg/metrics"
	"github.com/refraction-networking/conjure/pkg/phantoms"
	"github.com/refraction-networking/conjure/pkg/regserver/overrides"
	"github.com/refraction-networking/conjure/pkg/station/lib"
	stlog "github.com/refraction-networking/conjure/pkg/station/log"
	"github.com/refraction-networking/conjure/pkg/transports/wrapping/min"
	"github.com/refraction-networking/conjure/pkg/transports/wrapping/prefix"
	pb "github.com/refraction-networking/conjure/proto"
	log "github.com/sirupsen/logrus"
	"google.golang.org/protobuf/proto"
	"google.golang.org/protobuf/types/known/anypb"
)

type c12Subnet struct {
	CIDR      string  `json:"cidr"`
	Weight    float64 `json:"weight"`
	Port      uint32  `json:"port"`
	Transport string  `json:"transport"`
	PrefixID  int     `json:"prefix_id"`
}

type c12Cfg struct {
	Auth       bool        `json:"auth"`
	Overrides  string      `json:"overrides"` // none | rand | fixed:<id>
	Transports []int       `json:"transports"`
	Enforce    bool        `json:"enforce"`
	Subnets    []c12Subnet `json:"subnets"`
	Exclusions []string    `json:"exclusions"`
	PMin       float64     `json:"pmin"`
	PPrefix    float64     `json:"pprefix"`
	SendOK     bool        `json:"send_ok"`
	Toml       bool        `json:"toml"` // the configuration is written as registrar TOML and decoded by BurntSushi toml (cmd/registration-server's path)
}

type c12Params struct {
	Kind      string `json:"kind"` // none | generic | prefix | raw
	Randomize *bool  `json:"randomize"`
	PrefixID  *int32 `json:"prefix_id"`
	URL       string `json:"url"`
	Val       string `json:"val"`
}

type c12Resp struct {
	V4     *uint32    `json:"v4"`
	V6     *string    `json:"v6"`
	Port   *uint32    `json:"port"`
	Params *c12Params `json:"params"`
}

type c12Req struct {
	Secret     string     `json:"secret"`
	Payload    bool       `json:"payload"`
	V4         bool       `json:"v4"`
	V6         bool       `json:"v6"`
	Transport  int        `json:"transport"`
	Params     c12Params  `json:"params"`
	DisableOv  *bool      `json:"disable_ov"`
	LibVer     uint32     `json:"libver"`
	Gen        uint32     `json:"gen"`
	ForgedResp *c12Resp   `json:"forged_resp"`
	ForgedB    *string    `json:"forged_bytes"`
	ForgedSig  *string    `json:"forged_sig"`
	Source     *int32     `json:"source"`
	Addr       *string    `json:"addr"`
}

type c12Sel struct {
	V4    string `json:"v4"`
	Rand4 bool   `json:"rand4"`
	Err4  bool   `json:"err4"`
	V6    string `json:"v6"`
	Rand6 bool   `json:"rand6"`
	Err6  bool   `json:"err6"`
}

type c12Station struct {
	V4         bool  `json:"v4"`
	V6         bool  `json:"v6"`
	Transports []int `json:"transports"`
}

type c12Case struct {
	Kind       string     `json:"kind"` // bd | uni
	Cfg        c12Cfg     `json:"cfg"`
	Sel        c12Sel     `json:"sel"`
	Req        c12Req     `json:"req"`
	ClientAddr *string    `json:"client_addr"`
	Method     int32      `json:"method"`
	Seed       int64      `json:"seed"`
	Pre        string     `json:"pre"` // bytes served by crypto/rand.Reader before the pseudo-random stream
	Station    c12Station `json:"station"`
	SeqID      int        `json:"seq_id"`     // cases with the same non-zero id run one after the other on ONE processor, built once
	FE         string     `json:"fe"`         // "" (RegProcessor entry points) | api | dns
	ServerGen  *uint32    `json:"server_gen"` // generation of the front end's latest ClientConf (nil: none)
}

// ---- observations ----
type c12View struct {
	V4     *uint32 `json:"v4"`
	V6     *string `json:"v6"`
	Port   *uint32 `json:"port"`
	Params *string `json:"params"`
}

type c12Fwd struct {
	Secret     string   `json:"secret"`
	HasPayload bool     `json:"has_payload"`
	PayloadEq  bool     `json:"payload_eq"`
	Resp       *c12View `json:"resp"`
	Signed     *c12View `json:"signed"`
	HasBytes   bool     `json:"has_bytes"`
	HasSig     bool     `json:"has_sig"`
	SigOK      bool     `json:"sig_ok"`
	BytesOK    bool     `json:"bytes_ok"`
	Source     *int32   `json:"source"`
	Addr       *string  `json:"addr"`
	DecoyAddr  *string  `json:"decoy_addr"`
	Unknown    bool     `json:"unknown"`
}

type c12Reg struct {
	V6      bool    `json:"v6"`
	Phantom string  `json:"phantom"`
	Port    int     `json:"port"`
	Params  *string `json:"params"`
}

type c12St struct {
	Err  bool     `json:"err"`
	Msg  string   `json:"msg"`
	Regs []c12Reg `json:"regs"`
}

type c12Parse struct {
	OK     bool    `json:"ok"`
	Params *string `json:"params"`
}

type c12Oracles struct {
	ParseOK      bool      `json:"parse_ok"`
	DstPort      *int      `json:"dstport"`
	OvCalled     bool      `json:"ov_called"`
	OvErr        bool      `json:"ov_err"`
	OvParams     *string   `json:"ov_params"`
	Chunks       []string  `json:"chunks"`
	FNum         int64     `json:"f_num"` // mrand.Float64() = f_num / 2^53
	SubnetParams []*string `json:"subnet_params"`
	CumMin       []string  `json:"cum_min"`
	CumPrefix    []string  `json:"cum_prefix"`
	NMin         int       `json:"n_min"`
	NPrefix      int       `json:"n_prefix"`
	RMin         int       `json:"rmin"`    // gate threshold: override iff draw(0..9999) < rmin
	RPrefix      int       `json:"rprefix"`
	StParseReq   c12Parse  `json:"st_parse_req"`  // station ParseParams on the client's params
	StParseResp  c12Parse  `json:"st_parse_resp"` // ... on the forwarded response's params
	ReqParams    *string   `json:"req_params"`    // canonical form of the client's params as forwarded
	OrigParams   *string   `json:"orig_params"`   // ... as submitted
}

type c12Res struct {
	CtorErr  bool    `json:"ctor_err"`  // the real constructor rejected the configuration
	CfgDump0 string  `json:"cfg_dump0"` // ... right after construction (empty when the processor of the sequence is reused)
	CfgDump  string  `json:"cfg_dump"`  // the processor's override configuration after the call (its own state, read back)
	Status   int     `json:"status"`    // api: HTTP status
	BodyLen  int     `json:"body_len"`  // api: length of the request body
	CCGen    *uint32 `json:"cc_gen"`    // api: generation of the ClientConf attached to the response
	Outdated *bool   `json:"outdated"`  // dns: clientconf_outdated
	Success  *bool   `json:"success"`   // dns: success
	RespExtra bool   `json:"resp_extra"` // the response the client received has fields beyond addresses, port, params, ClientConf
	FwdGen   *uint32 `json:"fwd_gen"`   // decoy_list_generation of the forwarded payload
	Panic      string     `json:"panic"`
	Err        string     `json:"err"`
	Resp       *c12View   `json:"resp"`
	Sent       int        `json:"sent"`
	Fwd        *c12Fwd    `json:"fwd"`
	Station    *c12St     `json:"station"`
	StationOwn *c12St     `json:"station_own"`
	StationOwn2 *c12St    `json:"station_own2"`
	Or         c12Oracles `json:"or"`
}

// ---- helpers ----
func c12Canon(a *anypb.Any) *string {
	if a == nil {
		return nil
	}
	s := a.GetTypeUrl() + "|" + hex.EncodeToString(a.GetValue())
	return &s
}

func c12CanonMsg(m any) *string {
	pm, ok := m.(proto.Message)
	if !ok || m == nil {
		return nil
	}
	if pm == nil || !pm.ProtoReflect().IsValid() {
		return nil
	}
	a, err := anypb.New(pm)
	if err != nil {
		return nil
	}
	return c12Canon(a)
}

func c12MkParams(p *c12Params) *anypb.Any {
	if p == nil {
		return nil
	}
	switch p.Kind {
	case "generic":
		a, _ := anypb.New(&pb.GenericTransportParams{RandomizeDstPort: p.Randomize})
		return a
	case "prefix":
		a, _ := anypb.New(&pb.PrefixTransportParams{RandomizeDstPort: p.Randomize, PrefixId: p.PrefixID})
		return a
	case "raw":
		v, _ := hex.DecodeString(p.Val)
		return &anypb.Any{TypeUrl: p.URL, Value: v}
	}
	return nil
}

func c12MkResp(r *c12Resp) *pb.RegistrationResponse {
	if r == nil {
		return nil
	}
	out := &pb.RegistrationResponse{Ipv4Addr: r.V4, DstPort: r.Port, TransportParams: c12MkParams(r.Params)}
	if r.V6 != nil {
		out.Ipv6Addr, _ = hex.DecodeString(*r.V6)
		if out.Ipv6Addr == nil {
			out.Ipv6Addr = []byte{}
		}
	}
	return out
}

func c12ViewOf(r *pb.RegistrationResponse) *c12View {
	if r == nil {
		return nil
	}
	v := &c12View{V4: r.Ipv4Addr, Port: r.DstPort, Params: c12Canon(r.TransportParams)}
	if r.Ipv6Addr != nil {
		s := hex.EncodeToString(r.Ipv6Addr)
		v.V6 = &s
	}
	return v
}

func c12HexPtr(b []byte) *string {
	if b == nil {
		return nil
	}
	s := hex.EncodeToString(b)
	return &s
}

func c12Unhex(s *string) []byte {
	if s == nil {
		return nil
	}
	b, _ := hex.DecodeString(*s)
	if b == nil {
		b = []byte{}
	}
	return b
}

type c12Selector struct{ s c12Sel }

func (f c12Selector) Select(seed []byte, gen uint, libver uint, v6 bool) (*phantoms.PhantomIP, error) {
	if v6 {
		if f.s.Err6 {
			return nil, errors.New("verif: v6 selection error")
		}
		return phantoms.IP(net.ParseIP(f.s.V6), f.s.Rand6), nil
	}
	if f.s.Err4 {
		return nil, errors.New("verif: v4 selection error")
	}
	return phantoms.IP(net.ParseIP(f.s.V4), f.s.Rand4), nil
}

type c12Sender struct {
	ok   bool
	msgs [][]byte
}

func (s *c12Sender) SendBytes(b []byte, _ zmq.Flag) (int, error) {
	if !s.ok {
		return 0, errors.New("verif: send failed")
	}
	s.msgs = append(s.msgs, append([]byte(nil), b...))
	return len(b), nil
}
func (s *c12Sender) Close() error { return nil }

// scripted crypto/rand.Reader: first the bytes of `pre`, then a linear congruential stream;
// every Read is logged
type c12Reader struct {
	pre []byte
	x   uint32
	log [][]byte
}

func (r *c12Reader) Read(p []byte) (int, error) {
	for i := range p {
		if len(r.pre) > 0 {
			p[i] = r.pre[0]
			r.pre = r.pre[1:]
		} else {
			r.x = r.x*1103515245 + 12345
			p[i] = byte(r.x >> 16)
		}
	}
	r.log = append(r.log, append([]byte(nil), p...))
	return len(p), nil
}

type c12OvRec struct {
	inner  interfaces.RegOverride
	rd     *c12Reader
	called bool
	err    bool
	params *anypb.Any
	mark   int
}

func (o *c12OvRec) Override(reg *pb.C2SWrapper, r io.Reader) error {
	o.called = true
	err := o.inner.Override(reg, r)
	o.err = err != nil
	if tp := reg.GetRegistrationResponse().GetTransportParams(); tp != nil {
		o.params = proto.Clone(tp).(*anypb.Any)
	}
	o.mark = len(o.rd.log)
	return err
}

type c12FixedPrefix struct{ id int32 }

func (p c12FixedPrefix) Bytes() []byte          { return []byte("verif") }
func (p c12FixedPrefix) ID() prefix.PrefixID    { return prefix.PrefixID(p.id) }
func (p c12FixedPrefix) DstPort([]byte) uint16  { return 1024 }
func (p c12FixedPrefix) FlushPolicy() int32     { return prefix.NoAddedFlush }

var (
	c12Pub      ed25519.PublicKey
	c12Priv     ed25519.PrivateKey
	c12Stations = map[string]*lib.RegistrationManager{}
	c12Metrics  *metrics.Metrics
)

func c12Transport(i int) lib.Transport {
	switch pb.TransportType(i) {
	case pb.TransportType_Min:
		return min.Transport{}
	case pb.TransportType_Prefix:
		return prefix.DefaultSet()
	}
	return nil
}

var (
	c12SeqProc   *RegProcessor
	c12SeqID     int
	c12FreshDump string
)

// the override configuration held by the processor, read back from its state
func c12DumpCfg(p *RegProcessor) string {
	var sb strings.Builder
	one := func(tag string, l []Subnet, cum []float64) {
		for i, s := range l {
			cidr := "<nil>"
			if s.CIDR.IPNet != nil {
				// the NETWORK held (mask applied): how the address part is stored is not what the property talks about
				cidr = (&net.IPNet{IP: s.CIDR.IPNet.IP.Mask(s.CIDR.IPNet.Mask), Mask: s.CIDR.IPNet.Mask}).String()
			}
			fmt.Fprintf(&sb, "%s %s w=%v port=%d prefix=%d", tag, cidr, s.Weight, s.Port, s.PrefixId)
			if i < len(cum) {
				fmt.Fprintf(&sb, " cum=%v", cum[i])
			}
			sb.WriteString("; ")
		}
	}
	one("min", p.minOverrideSubnets, p.minOverrideSubnetsCumulativeWeights)
	one("prefix", p.prefixOverrideSubnets, p.prefixOverrideSubnetsCumulativeWeights)
	one("excl", p.exclusionsFromOverride, nil)
	fmt.Fprintf(&sb, "enforce=%v pmin=%v pprefix=%v", p.enforceSubnetOverrides, p.prcntMinRegsToOverride, p.prcntPrefixRegsToOverride)
	return sb.String()
}

// the registrar's configuration file: the override fields of cmd/registration-server's `config` struct (same toml
// tags, same element type), decoded by the same library call
type c12TomlConf struct {
	EnforceSubnetOverrides    bool     `toml:"enforce_subnet_overrides"`
	PrcntMinRegsToOverride    float64  `toml:"prcnt_min_regs_to_override"`
	PrcntPrefixRegsToOverride float64  `toml:"prcnt_prefix_regs_to_override"`
	OverrideSubnets           []Subnet `toml:"override_subnet"`
	ExclusionsFromOverride    []Subnet `toml:"excluded_subnet_from_overrides"`
}

func c12TomlFloat(f float64) string {
	t := strconv.FormatFloat(f, 'f', -1, 64)
	if !strings.Contains(t, ".") {
		t += ".0"
	}
	return t
}

// c12TomlText writes the case's configuration the way an operator writes the registrar's config file (CIDRs as given)
func c12TomlText(cfg c12Cfg) string {
	var sb strings.Builder
	fmt.Fprintf(&sb, "enforce_subnet_overrides = %v\nprcnt_min_regs_to_override = %s\nprcnt_prefix_regs_to_override = %s\n",
		cfg.Enforce, c12TomlFloat(cfg.PMin), c12TomlFloat(cfg.PPrefix))
	for _, s := range cfg.Subnets {
		fmt.Fprintf(&sb, "\n[[override_subnet]]\ncidr = %q\nweight = %s\nport = %d\ntransport = %q\nprefix_id = %d\n",
			s.CIDR, c12TomlFloat(s.Weight), s.Port, s.Transport, s.PrefixID)
	}
	for _, e := range cfg.Exclusions {
		fmt.Fprintf(&sb, "\n[[excluded_subnet_from_overrides]]\ncidr = %q\n", e)
	}
	return sb.String()
}

func c12Processor(c c12Case, rd *c12Reader) (*RegProcessor, *c12Sender, *c12OvRec) {
	snd := &c12Sender{ok: c.Cfg.SendOK}
	var subs, excl []Subnet
	enforce, pmin, pprefix := c.Cfg.Enforce, c.Cfg.PMin, c.Cfg.PPrefix
	if c.Cfg.Toml {
		var conf c12TomlConf
		if _, err := toml.Decode(c12TomlText(c.Cfg), &conf); err != nil {
			return nil, snd, nil
		}
		subs, excl = conf.OverrideSubnets, conf.ExclusionsFromOverride
		enforce, pmin, pprefix = conf.EnforceSubnetOverrides, conf.PrcntMinRegsToOverride, conf.PrcntPrefixRegsToOverride
	}
	for _, s := range c.Cfg.Subnets {
		if c.Cfg.Toml {
			break
		}
		var n Ipnet
		if n.UnmarshalText([]byte(s.CIDR)) != nil {
			continue
		}
		subs = append(subs, Subnet{CIDR: n, Weight: s.Weight, Port: s.Port, Transport: s.Transport, PrefixId: prefix.PrefixID(s.PrefixID)})
	}
	for _, e := range c.Cfg.Exclusions {
		if c.Cfg.Toml {
			break
		}
		var n Ipnet
		if n.UnmarshalText([]byte(e)) != nil {
			continue
		}
		excl = append(excl, Subnet{CIDR: n})
	}
	// The processor is built by the real constructor (socket bound to an ephemeral loopback port), so the
	// wiring of override subnets, weights, exclusions and percentages is the code's own; afterwards the
	// socket is replaced by the recording sender, the selector by the scripted one, and the
	// authentication fields / override set / transports are set as the case asks (the authenticated
	// constructor differs only in those and in starting the process-wide zmq auth handler).
	var p *RegProcessor
	c12FreshDump = ""
	if c.SeqID != 0 && c12SeqProc != nil && c12SeqID == c.SeqID {
		p = c12SeqProc // the processor of this sequence: configuration as the constructor (and earlier requests) left it
	} else {
		var err error
		p, err = NewRegProcessorNoAuth("127.0.0.1", 0, c12Metrics, enforce, subs, excl, pmin, pprefix)
		if err != nil || p == nil {
			return nil, snd, nil
		}
		p.sock.Close()
		c12FreshDump = c12DumpCfg(p)
		c12SeqProc, c12SeqID = nil, 0
		if c.SeqID != 0 {
			c12SeqProc, c12SeqID = p, c.SeqID
		}
	}
	p.sock = snd
	p.regOverrides = nil
	p.ipSelector = c12Selector{c.Sel}
	p.authenticated = c.Cfg.Auth
	if c.Cfg.Auth {
		p.privkey = c12Priv
	}
	var rec *c12OvRec
	switch {
	case c.Cfg.Overrides == "rand":
		rec = &c12OvRec{inner: overrides.NewRandPrefixOverride(), rd: rd}
	case strings.HasPrefix(c.Cfg.Overrides, "fixed:"):
		var id int32
		fmt.Sscanf(c.Cfg.Overrides, "fixed:%d", &id)
		rec = &c12OvRec{inner: overrides.NewFixedPrefixOverride(c12FixedPrefix{id}), rd: rd}
	}
	if rec != nil {
		p.regOverrides = interfaces.Overrides([]interfaces.RegOverride{rec})
	}
	for _, t := range c.Cfg.Transports {
		if tr := c12Transport(t); tr != nil {
			_ = p.AddTransport(pb.TransportType(t), tr)
		}
	}
	return p, snd, rec
}

func c12Wrapper(c c12Case) *pb.C2SWrapper {
	r := c.Req
	secret, _ := hex.DecodeString(r.Secret)
	w := &pb.C2SWrapper{SharedSecret: secret}
	if r.Payload {
		tt := pb.TransportType(r.Transport)
		covert := "192.0.2.77:443"
		w.RegistrationPayload = &pb.ClientToStation{
			Transport:                 &tt,
			DecoyListGeneration:       proto.Uint32(r.Gen),
			CovertAddress:             &covert,
			V4Support:                 proto.Bool(r.V4),
			V6Support:                 proto.Bool(r.V6),
			ClientLibVersion:          proto.Uint32(r.LibVer),
			TransportParams:           c12MkParams(&r.Params),
			DisableRegistrarOverrides: r.DisableOv,
			Flags:                     &pb.RegistrationFlags{ProxyHeader: proto.Bool(true)},
		}
	}
	w.RegistrationResponse = c12MkResp(r.ForgedResp)
	w.RegRespBytes = c12Unhex(r.ForgedB)
	w.RegRespSignature = c12Unhex(r.ForgedSig)
	if r.Source != nil {
		s := pb.RegistrationSource(*r.Source)
		w.RegistrationSource = &s
	}
	w.RegistrationAddress = c12Unhex(r.Addr)
	return w
}

func c12StationFor(s c12Station, dir string) *lib.RegistrationManager {
	key := fmt.Sprintf("%v", s)
	if rm, ok := c12Stations[key]; ok {
		return rm
	}
	rm := lib.NewRegistrationManager(&lib.RegConfig{EnableIPv4: s.V4, EnableIPv6: s.V6})
	if rm == nil {
		return nil
	}
	rm.Logger = stlog.New(io.Discard, "", 0)
	for _, t := range s.Transports {
		if tr := c12Transport(t); tr != nil {
			_ = rm.AddTransport(pb.TransportType(t), tr)
		}
	}
	c12Stations[key] = rm
	return rm
}

func c12RunStation(rm *lib.RegistrationManager, msg []byte) (st *c12St) {
	st = &c12St{}
	defer func() {
		if r := recover(); r != nil {
			st.Err = true
			st.Regs = []c12Reg{{Phantom: "panic: " + fmt.Sprint(r)}}
		}
	}()
	regs, err := rm.VerifParseRegMessage(msg)
	if err != nil {
		st.Err = true
		st.Msg = err.Error()
		return
	}
	for _, r := range regs {
		ip := r.PhantomIp
		isV6 := ip.To4() == nil
		if !isV6 {
			ip = ip.To4()
		}
		st.Regs = append(st.Regs, c12Reg{V6: isV6, Phantom: hex.EncodeToString(ip), Port: int(r.PhantomPort), Params: c12CanonMsg(r.TransportParams())})
	}
	return
}

func c12ParseWith(tr lib.Transport, libver uint, a *anypb.Any) (out c12Parse) {
	defer func() {
		if r := recover(); r != nil {
			out = c12Parse{}
		}
	}()
	if tr == nil {
		return
	}
	var cp *anypb.Any
	if a != nil {
		cp = proto.Clone(a).(*anypb.Any)
	}
	m, err := tr.ParseParams(libver, cp)
	if err != nil {
		return
	}
	return c12Parse{OK: true, Params: c12CanonMsg(m)}
}

// VerifFEResult is what a front end (API / DNS handler) gave back to the client.
type VerifFEResult struct {
	Resp     *pb.RegistrationResponse
	Status   int
	BodyLen  int
	Outdated *bool
	Success  *bool
}

// VerifFrontEnd runs one request through a front end sitting on top of the processor.
type VerifFrontEnd func(p *RegProcessor, bidirectional bool, serverGen *uint32, w *pb.C2SWrapper, clientAddr []byte) VerifFEResult

func c12One(c c12Case, dir string, fe VerifFrontEnd) (res c12Res) {
	rd := &c12Reader{x: uint32(c.Seed)*2654435761 + 1}
	rd.pre, _ = hex.DecodeString(c.Pre)
	p, snd, rec := c12Processor(c, rd)
	if p == nil {
		res.CtorErr = true
		return
	}
	res.CfgDump0 = c12FreshDump
	w := c12Wrapper(c)
	orig := proto.Clone(w).(*pb.C2SWrapper)
	var clientAddr []byte
	if c.ClientAddr != nil {
		clientAddr = c12Unhex(c.ClientAddr)
	}

	// oracles that do not depend on the run
	res.Or.OrigParams = c12Canon(orig.GetRegistrationPayload().GetTransportParams())
	res.Or.NMin, res.Or.NPrefix = len(p.minOverrideSubnets), len(p.prefixOverrideSubnets)
	for _, x := range p.minOverrideSubnetsCumulativeWeights {
		res.Or.CumMin = append(res.Or.CumMin, fmt.Sprint(x))
	}
	for _, x := range p.prefixOverrideSubnetsCumulativeWeights {
		res.Or.CumPrefix = append(res.Or.CumPrefix, fmt.Sprint(x))
	}
	res.Or.RMin, res.Or.RPrefix = int(p.prcntMinRegsToOverride*10+0.5), int(p.prcntPrefixRegsToOverride*10+0.5)
	f := mrand.New(mrand.NewSource(c.Seed)).Float64()
	res.Or.FNum = int64(f * (1 << 53))
	if c.Req.Payload {
		if tr, ok := p.transports[pb.TransportType(c.Req.Transport)]; ok {
			func() {
				defer func() { _ = recover() }()
				var cp *anypb.Any
				if a := c12MkParams(&c.Req.Params); a != nil {
					cp = a
				}
				params, err := tr.ParseParams(uint(c.Req.LibVer), cp)
				if err != nil {
					return
				}
				res.Or.ParseOK = true
				keys, err := core.GenSharedKeys(uint(c.Req.LibVer), orig.GetSharedSecret(), pb.TransportType(c.Req.Transport))
				if err != nil {
					return
				}
				port, err := tr.GetDstPort(uint(c.Req.LibVer), keys.ConjureSeed, params)
				if err == nil {
					pp := int(port)
					res.Or.DstPort = &pp
				}
			}()
		}
	}

	// the run itself, with the scripted randomness installed
	oldReader := crand.Reader
	crand.Reader = rd
	mrand.Seed(c.Seed)
	var resp *pb.RegistrationResponse
	var err error
	func() {
		defer func() {
			if r := recover(); r != nil {
				res.Panic = fmt.Sprint(r)
			}
		}()
		if c.Kind == "st" {
			// station only: the wrapper of the case is what reaches the station
			if b, e := proto.Marshal(w); e == nil {
				snd.msgs = append(snd.msgs, b)
			}
		} else if fe != nil {
			r := fe(p, c.Kind == "bd", c.ServerGen, w, clientAddr)
			resp, res.Status, res.BodyLen, res.Outdated, res.Success = r.Resp, r.Status, r.BodyLen, r.Outdated, r.Success
			if resp != nil {
				if resp.ClientConf != nil {
					g := resp.ClientConf.GetGeneration()
					res.CCGen = &g
				}
				rest := proto.Clone(resp).(*pb.RegistrationResponse)
				rest.Ipv4Addr, rest.Ipv6Addr, rest.DstPort, rest.TransportParams, rest.ClientConf = nil, nil, nil, nil, nil
				res.RespExtra = proto.Size(rest) > 0
			}
		} else if c.Kind == "uni" {
			err = p.RegisterUnidirectional(w, pb.RegistrationSource(c.Method), clientAddr)
		} else {
			resp, err = p.RegisterBidirectional(w, pb.RegistrationSource(c.Method), clientAddr)
		}
	}()
	crand.Reader = oldReader
	res.CfgDump = c12DumpCfg(p)

	switch {
	case err == nil:
	case errors.Is(err, ErrNoC2SBody):
		res.Err = "noc2s"
	case errors.Is(err, ErrRegProcessFailed):
		res.Err = "procfailed"
	case errors.Is(err, ErrSharedSecret):
		res.Err = "secret"
	default:
		res.Err = "other"
	}
	if fe != nil {
		res.Resp = c12ViewOf(resp)
	} else if err == nil && c.Kind == "bd" {
		res.Resp = c12ViewOf(resp)
		if resp == nil {
			res.Err = "nilresp"
		}
	}
	if rec != nil {
		res.Or.OvCalled, res.Or.OvErr, res.Or.OvParams = rec.called, rec.err, c12Canon(rec.params)
	}
	mark := 0
	if rec != nil && rec.called {
		mark = rec.mark
	}
	res.Or.Chunks = []string{}
	for _, ch := range rd.log[mark:] {
		res.Or.Chunks = append(res.Or.Chunks, hex.EncodeToString(ch))
	}
	for _, s := range p.prefixOverrideSubnets {
		scratch := &pb.RegistrationResponse{}
		var sp *string
		if s.PrefixId != prefix.Rand && overridePrefix(scratch, s.PrefixId, s.Port) == nil {
			sp = c12Canon(scratch.TransportParams)
		}
		res.Or.SubnetParams = append(res.Or.SubnetParams, sp)
	}

	res.Sent = len(snd.msgs)
	if len(snd.msgs) == 0 {
		return
	}
	msg := snd.msgs[0]
	fw := &pb.C2SWrapper{}
	if proto.Unmarshal(msg, fw) != nil {
		res.Fwd = &c12Fwd{Unknown: true}
		return
	}
	fo := &c12Fwd{
		Secret:     hex.EncodeToString(fw.GetSharedSecret()),
		HasPayload: fw.RegistrationPayload != nil,
		Resp:       c12ViewOf(fw.RegistrationResponse),
		HasBytes:   fw.RegRespBytes != nil,
		HasSig:     fw.RegRespSignature != nil,
		Addr:       c12HexPtr(fw.RegistrationAddress),
		DecoyAddr:  c12HexPtr(fw.DecoyAddress),
		Unknown:    len(fw.ProtoReflect().GetUnknown()) > 0,
	}
	if fw.RegistrationSource != nil {
		s := int32(*fw.RegistrationSource)
		fo.Source = &s
	}
	if fw.RegistrationPayload != nil && fw.RegistrationPayload.DecoyListGeneration != nil {
		g := fw.RegistrationPayload.GetDecoyListGeneration()
		res.FwdGen = &g
	}
	if fw.RegistrationPayload != nil && orig.RegistrationPayload != nil {
		// the payload is forwarded as the client sent it, except that the registrar's parser may
		// normalise the TypeUrl of the transport parameters
		a := proto.Clone(fw.RegistrationPayload).(*pb.ClientToStation)
		b := proto.Clone(orig.RegistrationPayload).(*pb.ClientToStation)
		res.Or.ReqParams = c12Canon(a.TransportParams)
		a.TransportParams, b.TransportParams = nil, nil
		a.DecoyListGeneration, b.DecoyListGeneration = nil, nil // reported separately (fwd_gen): the API front end may replace it
		fo.PayloadEq = proto.Equal(a, b)
	}
	if fw.RegRespBytes != nil {
		sr := &pb.RegistrationResponse{}
		if proto.Unmarshal(fw.RegRespBytes, sr) == nil {
			fo.Signed = c12ViewOf(sr)
			fo.BytesOK = proto.Equal(sr, fw.RegistrationResponse)
		}
		fo.SigOK = ed25519.Verify(c12Pub, fw.RegRespBytes, fw.RegRespSignature)
	}
	res.Fwd = fo

	// the station ingests exactly those bytes
	os.Setenv("PHANTOM_SUBNET_LOCATION", filepath.Join(dir, "station_subnets.toml"))
	rm := c12StationFor(c.Station, dir)
	if rm == nil {
		return
	}
	res.Station = c12RunStation(rm, msg)
	own := proto.Clone(fw).(*pb.C2SWrapper)
	own.RegistrationResponse, own.RegRespBytes, own.RegRespSignature = nil, nil, nil
	if ob, e := proto.Marshal(own); e == nil {
		res.StationOwn = c12RunStation(rm, ob)
	}
	// ... and with the response reduced to its transport parameters
	if tp := fw.GetRegistrationResponse().GetTransportParams(); tp != nil {
		own2 := proto.Clone(own).(*pb.C2SWrapper)
		own2.RegistrationResponse = &pb.RegistrationResponse{TransportParams: proto.Clone(tp).(*anypb.Any)}
		if ob, e := proto.Marshal(own2); e == nil {
			res.StationOwn2 = c12RunStation(rm, ob)
		}
	} else {
		res.StationOwn2 = res.StationOwn
	}
	if fw.RegistrationPayload != nil {
		tt := int(fw.RegistrationPayload.GetTransport())
		var str lib.Transport
		for _, t := range c.Station.Transports {
			if t == tt {
				str = c12Transport(t)
			}
		}
		lv := uint(fw.RegistrationPayload.GetClientLibVersion())
		res.Or.StParseReq = c12ParseWith(str, lv, fw.RegistrationPayload.TransportParams)
		res.Or.StParseResp = c12ParseWith(str, lv, fw.GetRegistrationResponse().GetTransportParams())
	}
	return
}

// VerifC12Main reads VERIF_CASES, runs every case (through the given front end, or the processor's
// own entry points when fe is nil) and writes VERIF_OUT.
func VerifC12Main(fe VerifFrontEnd) error {
	raw, err := os.ReadFile(os.Getenv("VERIF_CASES"))
	if err != nil {
		return nil
	}
	var cases []c12Case
	if err := json.Unmarshal(raw, &cases); err != nil {
		return err
	}
	dir, err := os.MkdirTemp("", "verifc12")
	if err != nil {
		return err
	}
	defer os.RemoveAll(dir)
	var sb strings.Builder
	sb.WriteString("[Networks]\n")
	for g := 0; g < 16; g++ {
		fmt.Fprintf(&sb, "  [Networks.%d]\n    Generation = %d\n    [[Networks.%d.WeightedSubnets]]\n      Weight = 1\n      RandomizeDstPort = %v\n      Subnets = [\"10.77.0.0/16\", \"fd77::/32\"]\n", g, g, g, g%2 == 0)
	}
	if err := os.WriteFile(filepath.Join(dir, "station_subnets.toml"), []byte(sb.String()), 0o644); err != nil {
		return err
	}
	old := os.Getenv("PHANTOM_SUBNET_LOCATION")
	defer os.Setenv("PHANTOM_SUBNET_LOCATION", old)
	os.Setenv("PHANTOM_SUBNET_LOCATION", filepath.Join(dir, "station_subnets.toml"))
	lg := log.New()
	lg.SetOutput(io.Discard)
	c12Metrics = metrics.NewMetrics(log.NewEntry(lg), time.Hour)
	c12Pub, c12Priv, _ = ed25519.GenerateKey(bytes.NewReader(bytes.Repeat([]byte{7}, 64)))
	res := make([]c12Res, len(cases))
	for i, c := range cases {
		res[i] = c12One(c, dir, fe)
	}
	out, err := json.Marshal(res)
	if err != nil {
		return err
	}
	return os.WriteFile(os.Getenv("VERIF_OUT"), out, 0o644)
}
