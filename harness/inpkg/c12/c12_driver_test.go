package regprocessor

import "testing"

// C12 correspondence driver, RegProcessor entry points (the logic is in the overlay file c12_core.go).
func TestVerifC12(t *testing.T) {
	if err := VerifC12Main(nil); err != nil {
		t.Fatal(err)
	}
}
