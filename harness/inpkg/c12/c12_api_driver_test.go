package apiregserver

// C12 correspondence driver for the API front end: the real register / registerBidirectional
// handlers on top of a real RegProcessor (built by pkg/regserver/regprocessor's overlay shim).
// Records what the client receives; no assertions about conjure.

import (
	"bytes"
	"io"
	"net"
	"net/http/httptest"
	"strconv"
	"testing"
	"time"

	"github.com/refraction-networking/conjure/pkg/metrics"
	"github.com/refraction-networking/conjure/pkg/regserver/regprocessor"
	pb "github.com/refraction-networking/conjure/proto"
	log "github.com/sirupsen/logrus"
	"google.golang.org/protobuf/proto"
)

func TestVerifC12API(t *testing.T) {
	lg := log.New()
	lg.SetOutput(io.Discard)
	m := metrics.NewMetrics(log.NewEntry(lg), time.Hour)
	fe := func(p *regprocessor.RegProcessor, bd bool, serverGen *uint32, w *pb.C2SWrapper, clientAddr []byte) (out regprocessor.VerifFEResult) {
		s := &APIRegServer{processor: p, logger: lg, metrics: m}
		if serverGen != nil {
			s.latestClientConf = &pb.ClientConf{Generation: proto.Uint32(*serverGen)}
		}
		body, _ := proto.Marshal(w)
		out.BodyLen = len(body)
		path := "/register"
		if bd {
			path = "/register-bidirectional"
		}
		req := httptest.NewRequest("POST", path, bytes.NewReader(body))
		req.RemoteAddr = ""
		if len(clientAddr) == 4 || len(clientAddr) == 16 {
			req.RemoteAddr = net.JoinHostPort(net.IP(clientAddr).String(), strconv.Itoa(40000))
		}
		rec := httptest.NewRecorder()
		if bd {
			s.registerBidirectional(rec, req)
		} else {
			s.register(rec, req)
		}
		out.Status = rec.Code
		if bd && rec.Code == 200 {
			r := &pb.RegistrationResponse{}
			if proto.Unmarshal(rec.Body.Bytes(), r) == nil {
				out.Resp = r
			}
		}
		return
	}
	if err := regprocessor.VerifC12Main(fe); err != nil {
		t.Fatal(err)
	}
}
