//go:build verif

package lib

// Export shim for the C12 correspondence driver (exists only in the go test overlay).

// VerifParseRegMessage runs the station's ingest parser on the bytes a registrar published.
func (rm *RegistrationManager) VerifParseRegMessage(msg []byte) ([]*DecoyRegistration, error) {
	return rm.parseRegMessage(msg)
}
