package dnsregserver

// C12 correspondence driver for the DNS front end: the real processRequest on top of a real
// RegProcessor.  Records what the client receives; no assertions about conjure.

import (
	"io"
	"testing"
	"time"

	"github.com/refraction-networking/conjure/pkg/metrics"
	"github.com/refraction-networking/conjure/pkg/regserver/regprocessor"
	pb "github.com/refraction-networking/conjure/proto"
	log "github.com/sirupsen/logrus"
	"google.golang.org/protobuf/proto"
)

func TestVerifC12DNS(t *testing.T) {
	lg := log.New()
	lg.SetOutput(io.Discard)
	m := metrics.NewMetrics(log.NewEntry(lg), time.Hour)
	fe := func(p *regprocessor.RegProcessor, bd bool, serverGen *uint32, w *pb.C2SWrapper, clientAddr []byte) (out regprocessor.VerifFEResult) {
		s := &DNSRegServer{processor: p, logger: lg, metrics: m}
		if serverGen != nil {
			s.latestCCGen = *serverGen
		}
		body, _ := proto.Marshal(w)
		out.BodyLen = len(body)
		respBytes, err := s.processRequest(body)
		if err != nil {
			out.Status = 1
			return
		}
		d := &pb.DnsResponse{}
		if proto.Unmarshal(respBytes, d) != nil {
			out.Status = 2
			return
		}
		out.Success, out.Outdated, out.Resp = d.Success, d.ClientconfOutdated, d.BidirectionalResponse
		return
	}
	if err := regprocessor.VerifC12Main(fe); err != nil {
		t.Fatal(err)
	}
}
