package assets

// Correspondence driver for C20 (atomic replacement of the stored ClientConf).
// TestVerifC20 (parent) runs scripted child processes (this same test binary,
// TestVerifC20Child) under strace / rlimits / private mounts / SIGKILL and
// records what happened.  It contains no assertions about conjure: it only
// records observables (results, in-memory configuration, directory listings,
// raw strace lines).

import (
	"bufio"
	"bytes"
	"crypto/sha256"
	"encoding/hex"
	"encoding/json"
	"errors"
	"fmt"
	"io"
	mrand "math/rand"
	"os"
	"os/exec"
	"os/signal"
	"path/filepath"
	"runtime"
	"sort"
	"strings"
	"sync"
	"syscall"
	"testing"
	"time"
	"unsafe"

	slog "github.com/refraction-networking/conjure/pkg/station/log"
	pb "github.com/refraction-networking/conjure/proto"
	"google.golang.org/protobuf/proto"
)

const c20HexLimit = 8192

// ---------------------------------------------------------------- configurations
type c20Cfg struct {
	Gen     uint32 `json:"gen"`
	NDecoys int    `json:"ndecoys"`
	Seed    int64  `json:"seed"`
	KeyLen  int    `json:"keylen"`
	Bad     bool   `json:"bad"`   // DnsRegConf without its required fields: proto.Marshal fails
	Empty   bool   `json:"empty"` // &pb.ClientConf{}
	// the public key is KeyGenN bytes of the linear congruential generator that Common/Base.v (lcg_bytes)
	// and driver/lib.py mirror: a multi-megabyte configuration the Coq model can rebuild from (seed, n)
	KeyGenSeed uint64 `json:"keygen_seed,omitempty"`
	KeyGenN    int    `json:"keygen_n,omitempty"`
}

func c20Lcg(seed uint64, n int) []byte {
	out := make([]byte, n)
	x := seed
	for i := range out {
		x = (x*1103515245 + 12345) % 2147483648
		out[i] = byte((x / 65536) % 256)
	}
	return out
}

// where the generated key sits inside the marshalled configuration
type c20Parts struct {
	Head string `json:"head"`
	Tail string `json:"tail"`
	Seed uint64 `json:"seed"`
	N    int    `json:"n"`
}

func c20PartsOf(s c20Cfg) *c20Parts {
	if s.KeyGenN == 0 {
		return nil
	}
	b, err := proto.Marshal(c20Build(s))
	key := c20Lcg(s.KeyGenSeed, s.KeyGenN)
	i := bytes.Index(b, key)
	if err != nil || i < 0 {
		return nil
	}
	return &c20Parts{Head: hex.EncodeToString(b[:i]), Tail: hex.EncodeToString(b[i+len(key):]), Seed: s.KeyGenSeed, N: s.KeyGenN}
}

func c20Build(s c20Cfg) *pb.ClientConf {
	if s.Empty {
		return &pb.ClientConf{}
	}
	x := uint64(s.Seed)*6364136223846793005 + 1442695040888963407
	next := func() uint64 {
		x = x*6364136223846793005 + 1442695040888963407
		return x >> 16
	}
	decoys := make([]*pb.TLSDecoySpec, s.NDecoys)
	for i := range decoys {
		h := fmt.Sprintf("h%d-%x.example.com", i, next()&0xffffff)
		ip := uint32(next())
		decoys[i] = &pb.TLSDecoySpec{Hostname: &h, Ipv4Addr: &ip}
	}
	key := make([]byte, s.KeyLen)
	for i := range key {
		key[i] = byte(next())
	}
	if s.KeyGenN > 0 {
		key = c20Lcg(s.KeyGenSeed, s.KeyGenN)
	}
	kt := pb.KeyType_AES_GCM_128
	gen := s.Gen
	c := &pb.ClientConf{
		DecoyList:     &pb.DecoyList{TlsDecoys: decoys},
		Generation:    &gen,
		DefaultPubkey: &pb.PubKey{Key: key, Type: &kt},
	}
	if s.Bad {
		c.DnsRegConf = &pb.DnsRegConf{}
	}
	return c
}

type c20Dig struct {
	Len  int      `json:"len"`
	Sha  string   `json:"sha"`
	Hex  string   `json:"hex,omitempty"`
	Has  bool     `json:"has"`            // false: absent / not marshallable
	Samp [][2]int `json:"samp,omitempty"` // large contents: (gap, byte) samples, gap = bytes skipped since the previous sample
}

func c20Digest(b []byte, has bool) c20Dig {
	if !has {
		return c20Dig{}
	}
	h := sha256.Sum256(b)
	d := c20Dig{Len: len(b), Sha: hex.EncodeToString(h[:8]), Has: true}
	if len(b) <= c20HexLimit {
		d.Hex = hex.EncodeToString(b)
	} else {
		x := uint64(len(b))*2654435761 + 12345
		pos := 0
		for {
			x = x*6364136223846793005 + 1442695040888963407
			gap := int((x >> 33) % 1500)
			if pos+gap >= len(b) {
				break
			}
			d.Samp = append(d.Samp, [2]int{gap, int(b[pos+gap])})
			pos += gap + 1
		}
		// the last byte, when the gap allows
		if rest := len(b) - pos - 1; rest >= 0 && rest < 4000 {
			d.Samp = append(d.Samp, [2]int{rest, int(b[len(b)-1])})
		}
	}
	return d
}

func c20MarshalDig(c *pb.ClientConf) c20Dig {
	b, err := proto.Marshal(c)
	return c20Digest(b, err == nil)
}

func c20ErrClass(err error) string {
	if err == nil {
		return "ok"
	}
	for _, e := range []struct {
		n string
		e syscall.Errno
	}{{"EACCES", syscall.EACCES}, {"ENOENT", syscall.ENOENT}, {"ENOSPC", syscall.ENOSPC}, {"EFBIG", syscall.EFBIG},
		{"EROFS", syscall.EROFS}, {"EIO", syscall.EIO}, {"EXDEV", syscall.EXDEV}, {"EPERM", syscall.EPERM},
		{"ENOTDIR", syscall.ENOTDIR}, {"EDQUOT", syscall.EDQUOT}, {"EISDIR", syscall.EISDIR}, {"EBADF", syscall.EBADF}} {
		if errors.Is(err, e.e) {
			return e.n
		}
	}
	if errors.Is(err, io.ErrShortWrite) {
		return "shortwrite"
	}
	if strings.Contains(err.Error(), "required") {
		return "marshal"
	}
	return "other:" + err.Error()
}

// ---------------------------------------------------------------- child
type c20Op struct {
	Op       string   `json:"op"`
	Dir      string   `json:"dir,omitempty"`
	Cfg      *c20Cfg  `json:"cfg,omitempty"`
	Gen      uint32   `json:"gen,omitempty"`
	N        int      `json:"n,omitempty"`
	Seed     int64    `json:"seed,omitempty"`
	K        int64    `json:"k,omitempty"`
	Uid      int      `json:"uid,omitempty"`
	Size     string   `json:"size,omitempty"`
	Variants []c20Cfg `json:"variants,omitempty"`
	Gen0     uint32   `json:"gen0,omitempty"`
	Count    int      `json:"count,omitempty"`
	Data     string   `json:"data,omitempty"`
	Name     string   `json:"name,omitempty"`
}

type c20Res struct {
	I    int      `json:"i"`
	Op   string   `json:"op"`
	Err  string   `json:"err"`
	Want *c20Dig  `json:"want,omitempty"` // marshalled configuration the call tries to put in place
	Mem  *c20Dig  `json:"mem,omitempty"`  // marshalled in-memory configuration after the call
	Ls   []c20Ent `json:"ls,omitempty"`
	Dir  string   `json:"dir,omitempty"`
	Note string   `json:"note,omitempty"`
	Parts *c20Parts `json:"parts,omitempty"`
}

type c20Ent struct {
	Name string `json:"name"`
	Dig  c20Dig `json:"dig"`
}

var c20Quiet bool
var c20Held [][]byte

// in quiet mode nothing is written before the script ends, so that the first write(2) of the
// process is the store's own (strace can then kill the process exactly there)
func c20Emit(v interface{}) {
	b, _ := json.Marshal(v)
	ln := append(append([]byte("\nC20R "), b...), '\n')
	if c20Quiet {
		c20Held = append(c20Held, ln)
		return
	}
	os.Stdout.Write(ln)
}

func c20List(dir string) ([]c20Ent, error) {
	ents, err := os.ReadDir(dir)
	if err != nil {
		return nil, err
	}
	out := []c20Ent{}
	for _, e := range ents {
		b, err := os.ReadFile(filepath.Join(dir, e.Name()))
		if err != nil {
			out = append(out, c20Ent{Name: e.Name()})
			continue
		}
		out = append(out, c20Ent{Name: e.Name(), Dig: c20Digest(b, true)})
	}
	sort.Slice(out, func(i, j int) bool { return out[i].Name < out[j].Name })
	return out, nil
}

func c20MemDig() *c20Dig {
	if assetsInstance == nil {
		return nil
	}
	d := c20MarshalDig(assetsInstance.config)
	return &d
}

func TestVerifC20Child(t *testing.T) {
	specPath := os.Getenv("VERIF_C20_CHILD")
	if specPath == "" {
		t.Skip("not a child")
	}
	raw, err := os.ReadFile(specPath)
	if err != nil {
		t.Fatal(err)
	}
	var script []c20Op
	if err := json.Unmarshal(raw, &script); err != nil {
		t.Fatal(err)
	}
	// a write beyond RLIMIT_FSIZE raises SIGXFSZ; keep the process alive so that the store sees EFBIG
	signal.Ignore(syscall.SIGXFSZ)
	if os.Getenv("VERIF_C20_QUIET") == "1" {
		c20Quiet = true
		slog.SetOutput(io.Discard)
		defer func() {
			for _, ln := range c20Held {
				os.Stdout.Write(ln)
			}
		}()
	}
	mark := func(i int, what string) { _, _ = os.Stat(fmt.Sprintf("/c20-marker/%d/%s", i, what)) }
	for i, op := range script {
		r := c20Res{I: i, Op: op.Op}
		var err error
		store := func(want c20Dig, f func() error) {
			r.Want = &want
			mark(i, "begin")
			err = f()
			mark(i, "end")
			r.Mem = c20MemDig()
		}
		switch op.Op {
		case "setdir":
			mark(i, "begin")
			_, err = AssetsSetDir(op.Dir)
			mark(i, "end")
			r.Mem = c20MemDig()
			r.Dir = assetsInstance.path
		case "setconf":
			c := c20Build(*op.Cfg)
			store(c20MarshalDig(c), func() error { return Assets().SetClientConf(c) })
		case "setgen":
			sh := proto.Clone(assetsInstance.config).(*pb.ClientConf)
			g := op.Gen
			sh.Generation = &g
			store(c20MarshalDig(sh), func() error { return Assets().SetGeneration(op.Gen) })
		case "setdecoys":
			c := c20Build(c20Cfg{NDecoys: op.N, Seed: op.Seed})
			sh := proto.Clone(assetsInstance.config).(*pb.ClientConf)
			if sh.DecoyList == nil {
				sh.DecoyList = &pb.DecoyList{}
			}
			sh.DecoyList.TlsDecoys = c.DecoyList.TlsDecoys
			store(c20MarshalDig(sh), func() error { return Assets().SetDecoys(c.DecoyList.TlsDecoys) })
		case "setpubkey":
			c := c20Build(c20Cfg{KeyLen: op.N, Seed: op.Seed})
			sh := proto.Clone(assetsInstance.config).(*pb.ClientConf)
			sh.DefaultPubkey = c.DefaultPubkey
			store(c20MarshalDig(sh), func() error { return Assets().SetPubkey(c.DefaultPubkey) })
		case "setsubnets":
			w := uint32(op.N)
			sn := &pb.PhantomSubnetsList{WeightedSubnets: []*pb.PhantomSubnets{{Weight: &w, Subnets: []string{"192.0.2.0/24", "2001:db8::/32"}}}}
			sh := proto.Clone(assetsInstance.config).(*pb.ClientConf)
			sh.PhantomSubnetsList = sn
			store(c20MarshalDig(sh), func() error { return Assets().SetPhantomSubnets(sn) })
		case "digest":
			d := c20MarshalDig(c20Build(*op.Cfg))
			r.Want = &d
			r.Parts = c20PartsOf(*op.Cfg)
		case "rmdir":
			err = os.RemoveAll(op.Dir)
		case "mkdir":
			err = os.MkdirAll(op.Dir, 0o755)
		case "chmod":
			err = os.Chmod(op.Dir, os.FileMode(op.K))
		case "writefile":
			b, _ := hex.DecodeString(op.Data)
			err = os.WriteFile(filepath.Join(op.Dir, op.Name), b, 0o644)
		case "seteuid":
			err = syscall.Seteuid(op.Uid)
		case "rlimit":
			lim := syscall.Rlimit{Cur: uint64(op.K), Max: ^uint64(0)}
			if op.K < 0 {
				lim.Cur = ^uint64(0)
			}
			err = syscall.Setrlimit(syscall.RLIMIT_FSIZE, &lim)
		case "arm_close":
			// strace injects an error into every close(2) of a thread from its 400th on: stay on this
			// thread and burn close(-1) calls until the injection has begun
			runtime.LockOSThread()
			err = fmt.Errorf("close injection never began")
			for n := 0; n < 2000; n++ {
				if e := syscall.Close(-1); e == syscall.EIO {
					err = nil
					break
				}
			}
		case "arm_open":
			// strace delays the return of every openat(2) of a thread from its 300th on: stay on this
			// thread and burn failing opens until one of them is slow
			runtime.LockOSThread()
			err = fmt.Errorf("open delay never began")
			for n := 0; n < 2000; n++ {
				t0 := time.Now()
				_, _ = syscall.Open("/c20-nonexistent", syscall.O_RDONLY, 0)
				if time.Since(t0) > 120*time.Millisecond {
					err = nil
					break
				}
			}
		case "xfsz_default":
			// restore the kernel's default action for SIGXFSZ (terminate): a write beyond RLIMIT_FSIZE then
			// kills the process inside the store's write loop, after exactly the permitted bytes have landed
			type ksigaction struct {
				handler, flags, restorer uintptr
				mask                     uint64
			}
			act := ksigaction{}
			_, _, e := syscall.RawSyscall6(syscall.SYS_RT_SIGACTION, uintptr(syscall.SIGXFSZ), uintptr(unsafe.Pointer(&act)), 0, 8, 0, 0)
			if e != 0 {
				err = e
			}
		case "mount_tmpfs":
			err = syscall.Mount("tmpfs", op.Dir, "tmpfs", 0, "size="+op.Size)
		case "remount_ro":
			err = syscall.Mount("", op.Dir, "", syscall.MS_REMOUNT|syscall.MS_RDONLY, "")
		case "fill":
			// consume free space of the file system holding Dir, leaving about K bytes
			err = c20Fill(op.Dir, op.K)
		case "ls":
			// the observer reads with full privileges, whatever the store ran as
			eu := syscall.Geteuid()
			if eu != 0 {
				_ = syscall.Seteuid(0)
			}
			r.Ls, err = c20List(op.Dir)
			if eu != 0 {
				_ = syscall.Seteuid(eu)
			}
			r.Dir = op.Dir
		case "loop":
			c20Loop(op)
		default:
			err = fmt.Errorf("unknown op %q", op.Op)
		}
		r.Err = c20ErrClass(err)
		c20Emit(r)
	}
}

func c20Fill(dir string, leave int64) error {
	f, err := os.Create(filepath.Join(dir, "filler"))
	if err != nil {
		return err
	}
	defer f.Close()
	buf := make([]byte, 4096)
	for {
		if _, err := f.Write(buf); err != nil {
			break
		}
	}
	st, err := f.Stat()
	if err != nil {
		return err
	}
	sz := st.Size() - leave
	if sz < 0 {
		sz = 0
	}
	return f.Truncate(sz)
}

// store i (i = 1, 2, ...) puts variant ((i-1)/2)%nv with generation gen0+i in place: odd i through
// SetClientConf (whole configuration), even i through SetGeneration (in-place edit of the same one);
// every completed store is reported
func c20LoopIdx(i, nv int) int { return ((i - 1) / 2) % nv }

func c20Loop(op c20Op) {
	vs := make([]*pb.ClientConf, len(op.Variants))
	for i, s := range op.Variants {
		vs[i] = c20Build(s)
	}
	os.Stdout.Write([]byte("\nC20K ready\n"))
	for i := 1; op.Count == 0 || i <= op.Count; i++ {
		g := op.Gen0 + uint32(i)
		var err error
		if i%2 == 1 {
			c := vs[c20LoopIdx(i, len(vs))]
			gg := g
			c.Generation = &gg
			err = Assets().SetClientConf(c)
		} else {
			err = Assets().SetGeneration(g)
		}
		os.Stdout.Write([]byte(fmt.Sprintf("\nC20K %d %s\n", i, c20ErrClass(err))))
	}
}

// ---------------------------------------------------------------- parent
type c20Intervene struct {
	WaitTmpSize int64  `json:"wait_tmp_size"` // wait until a temporary of this size exists in Dir (-1: any temporary)
	Action      string `json:"action"`        // rmdir | rmdir_mkdir
	Dir         string `json:"dir"`
	DelayMs     int    `json:"delay_ms"` // wait this long after the temporary appeared
}

type c20Kill struct {
	Trials   int      `json:"trials"`
	Variants []c20Cfg `json:"variants"`
	MaxMs    float64  `json:"max_ms"`
	Writers  int      `json:"writers"` // 2: two processes store into the same directory concurrently
	Count    int      `json:"count"`   // two writers: every 4th trial lets both run this many stores to the end instead of killing them
}

type c20Kill2Trial struct {
	Last      [2]int   `json:"last"`   // last store each writer reported
	Errs      [2]int   `json:"errs"`   // stores that returned an error
	ErrCls    []string `json:"errcls"` // their classes
	Killed    bool     `json:"killed"`
	File      c20Dig   `json:"file"`
	ParseOK   bool     `json:"parse_ok"`
	Match     string   `json:"match"`  // writer0 | writer1 | prev | absent | none
	MatchI    int      `json:"match_i"`
	Temps     []c20Ent `json:"temps"`
	TempOK    []bool   `json:"temp_ok"` // each leftover temporary is a prefix of a configuration one of the writers was storing
	DelayMs   float64  `json:"delay_ms"`
	GenInFile int64    `json:"gen_in_file"`
}

type c20Case struct {
	Name      string        `json:"name"`
	Script    []c20Op       `json:"script"`
	NDirs     int           `json:"ndirs"`
	Strace    bool          `json:"strace"`
	Inject    []string      `json:"inject,omitempty"`
	Unshare   bool          `json:"unshare"`
	Intervene *c20Intervene `json:"intervene,omitempty"`
	Kill      *c20Kill      `json:"kill,omitempty"`
	Seed      int64         `json:"seed"`
	Pre       []c20Op       `json:"pre,omitempty"` // run first, in a child of its own, without strace
	Quiet     bool          `json:"quiet"`
	Needs     []string      `json:"needs,omitempty"` // privileges without which the case cannot run: strace | mount | root
}

type c20KillTrial struct {
	LastDone   int      `json:"last_done"`
	DelayMs    float64  `json:"delay_ms"`
	File       c20Dig   `json:"file"`
	Match      string   `json:"match"` // prev | new | none | absent
	MatchGen   int      `json:"match_gen"`
	Prev       c20Dig   `json:"prev"`
	New        c20Dig   `json:"new"`
	ParseOK    bool     `json:"parse_ok"`
	Temps      []c20Ent `json:"temps"`
	TempPrefix []bool   `json:"temp_prefix"` // each leftover temporary is a prefix of the configuration being stored
	ReloadGen  int64    `json:"reload_gen"`  // generation the real loader (AssetsSetDir in a fresh child) reads afterwards; -1 = load error
	ReloadErr  string   `json:"reload_err"`
	Errs       int      `json:"errs"` // stores that returned an error during the loop
}

type c20Out struct {
	Name    string         `json:"name"`
	Dirs    []string       `json:"dirs"`
	Res     []c20Res       `json:"res"`
	Trace   []string       `json:"trace"`
	Exit    string         `json:"exit"`
	Stderr  string         `json:"stderr"`
	Kills   []c20KillTrial `json:"kills,omitempty"`
	Kills2  []c20Kill2Trial `json:"kills2,omitempty"`
	Interv  string         `json:"interv,omitempty"`
	PreRes  []c20Res       `json:"pre_res,omitempty"`
	Skipped string         `json:"skipped,omitempty"` // the privilege whose absence made the harness skip this case
	Straced bool           `json:"straced"`
	Caps    c20Caps        `json:"caps"`
	PostLs  [][]c20Ent     `json:"post_ls"` // listing of every directory by the parent after the child ended
	Elapsed float64        `json:"elapsed"`
}

// what the environment lets the harness do; VERIF_C20_NOPRIV=1 (or a list "strace,mount,root")
// pretends the privileges are missing
type c20Caps struct {
	Strace bool `json:"strace"` // ptrace: strace can run a child
	Mount  bool `json:"mount"`  // CAP_SYS_ADMIN: private mount namespace with a tmpfs
	Root   bool `json:"root"`   // effective uid 0: the store can be run as an unprivileged uid
}

var c20caps c20Caps

func c20Probe() c20Caps {
	c := c20Caps{}
	c.Root = os.Geteuid() == 0
	if err := exec.Command("strace", "-f", "-o", "/dev/null", "-e", "trace=none", "/bin/true").Run(); err == nil {
		c.Strace = true
	}
	cmd := exec.Command("/bin/sh", "-c", "d=$(mktemp -d) && mount -t tmpfs -o size=64k tmpfs $d")
	cmd.SysProcAttr = &syscall.SysProcAttr{Unshareflags: syscall.CLONE_NEWNS}
	if err := cmd.Run(); err == nil {
		c.Mount = true
	}
	np := os.Getenv("VERIF_C20_NOPRIV")
	if np == "1" || strings.Contains(np, "strace") {
		c.Strace = false
	}
	if np == "1" || strings.Contains(np, "mount") {
		c.Mount = false
	}
	if np == "1" || strings.Contains(np, "root") {
		c.Root = false
	}
	return c
}

func c20Subst(s string, dirs []string) string {
	for i, d := range dirs {
		s = strings.ReplaceAll(s, fmt.Sprintf("$D%d", i), d)
	}
	return s
}

func c20ParseRes(out []byte) []c20Res {
	var res []c20Res
	for _, ln := range bytes.Split(out, []byte("\n")) {
		if bytes.HasPrefix(ln, []byte("C20R ")) {
			var r c20Res
			if json.Unmarshal(ln[5:], &r) == nil {
				res = append(res, r)
			}
		}
	}
	return res
}

func c20ChildCmd(specPath string, c *c20Case, tracePath string) *exec.Cmd {
	args := []string{os.Args[0], "-test.run=^TestVerifC20Child$", "-test.count=1", "-test.timeout=120s"}
	var cmd *exec.Cmd
	if c.Strace {
		sa := []string{"-f", "-y", "-s", "0", "-o", tracePath, "-e",
			"trace=%file,write,pwrite64,writev,pwritev,pwritev2,close,ftruncate,fsync,fdatasync,fallocate,sendfile,copy_file_range"}
		for _, in := range c.Inject {
			sa = append(sa, "-e", "inject="+in)
		}
		cmd = exec.Command("strace", append(sa, args...)...)
	} else {
		cmd = exec.Command(args[0], args[1:]...)
	}
	cmd.Env = append(os.Environ(), "VERIF_C20_CHILD="+specPath)
	if c.Quiet {
		cmd.Env = append(cmd.Env, "VERIF_C20_QUIET=1")
	}
	if c.Unshare {
		cmd.SysProcAttr = &syscall.SysProcAttr{Unshareflags: syscall.CLONE_NEWNS}
	}
	return cmd
}

func c20RunCase(t *testing.T, c *c20Case, base string) c20Out {
	t0 := time.Now()
	out := c20Out{Name: c.Name, Caps: c20caps}
	for _, n := range c.Needs {
		if (n == "strace" && !c20caps.Strace) || (n == "mount" && !c20caps.Mount) || (n == "root" && !c20caps.Root) {
			out.Skipped = n
			out.Exit = "skipped"
			return out
		}
	}
	if c.Strace && !c20caps.Strace {
		cc := *c
		cc.Strace = false // the store still runs; only the system-call trace is not observed
		c = &cc
	}
	out.Straced = c.Strace
	for i := 0; i < c.NDirs; i++ {
		d := filepath.Join(base, fmt.Sprintf("d%d", i))
		_ = os.MkdirAll(d, 0o755)
		out.Dirs = append(out.Dirs, d)
	}
	if c.Kill != nil && c.Kill.Writers == 2 {
		c20RunKill2(c, &out, base)
		out.Elapsed = time.Since(t0).Seconds()
		return out
	}
	if c.Kill != nil {
		c20RunKill(c, &out, base)
		out.Elapsed = time.Since(t0).Seconds()
		return out
	}
	specPath := filepath.Join(base, "spec.json")
	if len(c.Pre) > 0 {
		pre := make([]c20Op, len(c.Pre))
		for i, op := range c.Pre {
			op.Dir = c20Subst(op.Dir, out.Dirs)
			pre[i] = op
		}
		pb_, _ := json.Marshal(pre)
		_ = os.WriteFile(specPath, pb_, 0o644)
		ob, _ := c20ChildCmd(specPath, &c20Case{}, "").Output()
		out.PreRes = c20ParseRes(ob)
	}
	script := make([]c20Op, len(c.Script))
	for i, op := range c.Script {
		op.Dir = c20Subst(op.Dir, out.Dirs)
		script[i] = op
	}
	sb, _ := json.Marshal(script)
	_ = os.WriteFile(specPath, sb, 0o644)
	tracePath := filepath.Join(base, "trace.txt")
	cmd := c20ChildCmd(specPath, c, tracePath)
	var so, se bytes.Buffer
	cmd.Stdout, cmd.Stderr = &so, &se
	if err := cmd.Start(); err != nil {
		out.Exit = "start: " + err.Error()
		return out
	}
	done := make(chan struct{})
	if c.Intervene != nil {
		iv := *c.Intervene
		iv.Dir = c20Subst(iv.Dir, out.Dirs)
		go func() {
			deadline := time.Now().Add(20 * time.Second)
			for time.Now().Before(deadline) {
				select {
				case <-done:
					out.Interv = "child finished first"
					return
				default:
				}
				ents, _ := os.ReadDir(iv.Dir)
				for _, e := range ents {
					if e.Name() != "ClientConf" {
						fi, err := e.Info()
						if err == nil && (iv.WaitTmpSize < 0 || fi.Size() == iv.WaitTmpSize) {
							// the child's rename is delayed by strace: let write and close finish first
							time.Sleep(time.Duration(iv.DelayMs) * time.Millisecond)
							_ = os.RemoveAll(iv.Dir)
							if iv.Action == "rmdir_mkdir" {
								_ = os.MkdirAll(iv.Dir, 0o755)
							}
							out.Interv = "done"
							return
						}
					}
				}
				time.Sleep(200 * time.Microsecond)
			}
			out.Interv = "timeout"
		}()
	}
	werr := make(chan error, 1)
	go func() { werr <- cmd.Wait() }()
	select {
	case err := <-werr:
		if err != nil {
			out.Exit = err.Error()
		} else {
			out.Exit = "ok"
		}
	case <-time.After(150 * time.Second):
		_ = cmd.Process.Kill()
		out.Exit = "timeout"
	}
	close(done)
	time.Sleep(2 * time.Millisecond)
	out.Res = c20ParseRes(so.Bytes())
	if len(se.String()) > 0 {
		s := se.String()
		if len(s) > 600 {
			s = s[len(s)-600:]
		}
		out.Stderr = s
	}
	if c.Strace {
		if f, err := os.Open(tracePath); err == nil {
			sc := bufio.NewScanner(f)
			sc.Buffer(make([]byte, 1<<20), 1<<24)
			for sc.Scan() {
				ln := sc.Text()
				keep := strings.Contains(ln, "/c20-marker/") || strings.Contains(ln, "resumed>") || strings.Contains(ln, "unfinished")
				if !keep {
					for _, d := range out.Dirs {
						if strings.Contains(ln, d) {
							keep = true
							break
						}
					}
				}
				if keep {
					out.Trace = append(out.Trace, ln)
				}
			}
			f.Close()
		}
	}
	for _, d := range out.Dirs {
		l, _ := c20List(d)
		out.PostLs = append(out.PostLs, l)
	}
	out.Elapsed = time.Since(t0).Seconds()
	return out
}

// kill test: a child stores variants in a loop and is SIGKILLed at a random instant
func c20RunKill(c *c20Case, out *c20Out, base string) {
	dir := out.Dirs[0]
	rng := mrand.New(mrand.NewSource(c.Seed))
	vs := make([]*pb.ClientConf, len(c.Kill.Variants))
	for i, s := range c.Kill.Variants {
		vs[i] = c20Build(s)
	}
	cand := func(gen0 uint32, i int) []byte {
		if i <= 0 {
			return nil
		}
		v := vs[c20LoopIdx(i, len(vs))]
		g := gen0 + uint32(i)
		v.Generation = &g
		b, _ := proto.Marshal(v)
		return b
	}
	var prevFile []byte // what the file held when the trial's child started
	prevHas := false
	for trial := 0; trial < c.Kill.Trials; trial++ {
		gen0 := uint32(1000000 * (trial + 1))
		script := []c20Op{{Op: "setdir", Dir: dir}, {Op: "loop", Variants: c.Kill.Variants, Gen0: gen0}}
		specPath := filepath.Join(base, "spec.json")
		sb, _ := json.Marshal(script)
		_ = os.WriteFile(specPath, sb, 0o644)
		cmd := c20ChildCmd(specPath, &c20Case{}, "")
		pr, pw, _ := os.Pipe()
		cmd.Stdout = pw
		var se bytes.Buffer
		cmd.Stderr = &se
		if err := cmd.Start(); err != nil {
			out.Exit = "start: " + err.Error()
			return
		}
		pw.Close()
		var mu sync.Mutex
		last, errs := 0, 0
		var reload c20Res
		haveReload := false
		ready := make(chan struct{})
		fin := make(chan struct{})
		go func() {
			sc := bufio.NewScanner(pr)
			sc.Buffer(make([]byte, 1<<20), 1<<26)
			for sc.Scan() {
				ln := sc.Text()
				if strings.HasPrefix(ln, "C20K ready") {
					close(ready)
				} else if strings.HasPrefix(ln, "C20K ") {
					var i int
					var cls string
					fmt.Sscanf(ln[5:], "%d %s", &i, &cls)
					mu.Lock()
					last = i
					if cls != "ok" {
						errs++
					}
					mu.Unlock()
				} else if strings.HasPrefix(ln, "C20R ") {
					var r c20Res
					if json.Unmarshal([]byte(ln[5:]), &r) == nil && r.Op == "setdir" {
						mu.Lock()
						reload, haveReload = r, true
						mu.Unlock()
					}
				}
			}
			close(fin)
		}()
		select {
		case <-ready:
		case <-time.After(60 * time.Second):
		}
		delay := rng.Float64() * c.Kill.MaxMs
		time.Sleep(time.Duration(delay * float64(time.Millisecond)))
		_ = cmd.Process.Signal(syscall.SIGKILL)
		_ = cmd.Wait()
		<-fin
		pr.Close()
		mu.Lock()
		j := last
		kt := c20KillTrial{LastDone: j, DelayMs: delay, Errs: errs, ReloadGen: -2}
		mu.Unlock()
		// what the real loader of THIS child saw at start-up describes the previous trial's outcome
		if haveReload && trial > 0 && len(out.Kills) > 0 {
			pk := &out.Kills[len(out.Kills)-1]
			pk.ReloadErr = reload.Err
			pk.ReloadGen = -1
			if reload.Err == "ok" && reload.Mem != nil && reload.Mem.Has {
				// the in-memory configuration after loading must be the file's content
				if reload.Mem.Sha == pk.File.Sha && reload.Mem.Len == pk.File.Len {
					pk.ReloadGen = int64(pk.MatchGen)
				} else {
					pk.ReloadGen = -3
				}
			}
		}
		file, err := os.ReadFile(filepath.Join(dir, "ClientConf"))
		kt.File = c20Digest(file, err == nil)
		var prev []byte
		prevH := false
		if j >= 1 {
			prev, prevH = cand(gen0, j), true
		} else {
			prev, prevH = prevFile, prevHas
		}
		nw := cand(gen0, j+1)
		kt.Prev = c20Digest(prev, prevH)
		kt.New = c20Digest(nw, true)
		switch {
		case err != nil && !prevH:
			kt.Match = "prev"
		case err != nil:
			kt.Match = "absent"
		case prevH && bytes.Equal(file, prev):
			kt.Match, kt.MatchGen = "prev", int(gen0)+j
		case bytes.Equal(file, nw):
			kt.Match, kt.MatchGen = "new", int(gen0)+j+1
		default:
			kt.Match = "none"
		}
		if err == nil {
			pc := &pb.ClientConf{}
			kt.ParseOK = proto.Unmarshal(file, pc) == nil
		}
		ents, _ := c20List(dir)
		for _, e := range ents {
			if e.Name == "ClientConf" {
				continue
			}
			kt.Temps = append(kt.Temps, e)
			b, _ := os.ReadFile(filepath.Join(dir, e.Name))
			// the process was killed inside store j+1 (or j+2 if the report of j+1 was lost)
			kt.TempPrefix = append(kt.TempPrefix, bytes.HasPrefix(nw, b) || bytes.HasPrefix(cand(gen0, j+2), b))
			_ = os.Remove(filepath.Join(dir, e.Name))
		}
		prevFile, prevHas = file, err == nil
		out.Kills = append(out.Kills, kt)
	}
	// final reload by a fresh child
	script := []c20Op{{Op: "setdir", Dir: dir}}
	specPath := filepath.Join(base, "spec.json")
	sb, _ := json.Marshal(script)
	_ = os.WriteFile(specPath, sb, 0o644)
	cmd := c20ChildCmd(specPath, &c20Case{}, "")
	ob, _ := cmd.Output()
	rs := c20ParseRes(ob)
	if len(rs) == 1 && len(out.Kills) > 0 {
		pk := &out.Kills[len(out.Kills)-1]
		pk.ReloadErr = rs[0].Err
		pk.ReloadGen = -1
		if rs[0].Err == "ok" && rs[0].Mem != nil && rs[0].Mem.Sha == pk.File.Sha && rs[0].Mem.Len == pk.File.Len {
			pk.ReloadGen = int64(pk.MatchGen)
		}
	}
	out.Exit = "ok"
}

// two writers: two children store concurrently into one directory (distinct generations tell their
// configurations apart) and are SIGKILLed at random instants, or run a fixed number of stores to the end
func c20RunKill2(c *c20Case, out *c20Out, base string) {
	dir := out.Dirs[0]
	rng := mrand.New(mrand.NewSource(c.Seed))
	vs := make([]*pb.ClientConf, len(c.Kill.Variants))
	for i, s := range c.Kill.Variants {
		vs[i] = c20Build(s)
	}
	cand := func(gen0 uint32, i int) []byte {
		if i <= 0 {
			return nil
		}
		v := vs[c20LoopIdx(i, len(vs))]
		g := gen0 + uint32(i)
		v.Generation = &g
		b, _ := proto.Marshal(v)
		return b
	}
	var prevFile []byte
	prevHas := false
	for trial := 0; trial < c.Kill.Trials; trial++ {
		toEnd := c.Kill.Count > 0 && trial%4 == 3
		kt := c20Kill2Trial{Killed: !toEnd}
		var gen0 [2]uint32
		var cmds [2]*exec.Cmd
		var fins [2]chan struct{}
		var readys [2]chan struct{}
		var mu sync.Mutex
		for w := 0; w < 2; w++ {
			gen0[w] = uint32(1000000*(trial+1) + 400000*w)
			op := c20Op{Op: "loop", Variants: c.Kill.Variants, Gen0: gen0[w]}
			if toEnd {
				op.Count = c.Kill.Count
			}
			script := []c20Op{{Op: "setdir", Dir: dir}, op}
			specPath := filepath.Join(base, fmt.Sprintf("spec%d.json", w))
			sb, _ := json.Marshal(script)
			_ = os.WriteFile(specPath, sb, 0o644)
			cmd := c20ChildCmd(specPath, &c20Case{}, "")
			pr, pw, _ := os.Pipe()
			cmd.Stdout = pw
			if err := cmd.Start(); err != nil {
				out.Exit = "start: " + err.Error()
				return
			}
			pw.Close()
			cmds[w] = cmd
			fins[w] = make(chan struct{})
			readys[w] = make(chan struct{})
			go func(w int, pr *os.File) {
				sc := bufio.NewScanner(pr)
				sc.Buffer(make([]byte, 1<<20), 1<<26)
				for sc.Scan() {
					ln := sc.Text()
					if strings.HasPrefix(ln, "C20K ready") {
						close(readys[w])
					} else if strings.HasPrefix(ln, "C20K ") {
						var i int
						var cls string
						fmt.Sscanf(ln[5:], "%d %s", &i, &cls)
						mu.Lock()
						kt.Last[w] = i
						if cls != "ok" {
							kt.Errs[w]++
							if len(kt.ErrCls) < 6 {
								kt.ErrCls = append(kt.ErrCls, cls)
							}
						}
						mu.Unlock()
					}
				}
				pr.Close()
				close(fins[w])
			}(w, pr)
		}
		for w := 0; w < 2; w++ {
			select {
			case <-readys[w]:
			case <-time.After(60 * time.Second):
			}
		}
		if toEnd {
			for w := 0; w < 2; w++ {
				_ = cmds[w].Wait()
				<-fins[w]
			}
		} else {
			kt.DelayMs = rng.Float64() * c.Kill.MaxMs
			time.Sleep(time.Duration(kt.DelayMs * float64(time.Millisecond)))
			first := rng.Intn(2)
			_ = cmds[first].Process.Signal(syscall.SIGKILL)
			time.Sleep(time.Duration(rng.Float64() * 2 * float64(time.Millisecond)))
			_ = cmds[1-first].Process.Signal(syscall.SIGKILL)
			for w := 0; w < 2; w++ {
				_ = cmds[w].Wait()
				<-fins[w]
			}
		}
		file, err := os.ReadFile(filepath.Join(dir, "ClientConf"))
		kt.File = c20Digest(file, err == nil)
		kt.GenInFile = -1
		switch {
		case err != nil && !prevHas:
			kt.Match = "prev"
		case err != nil:
			kt.Match = "absent"
		default:
			kt.Match = "none"
			pc := &pb.ClientConf{}
			kt.ParseOK = proto.Unmarshal(file, pc) == nil
			if prevHas && bytes.Equal(file, prevFile) {
				kt.Match = "prev"
			} else if kt.ParseOK {
				g := pc.GetGeneration()
				kt.GenInFile = int64(g)
				for w := 0; w < 2; w++ {
					i := int(g) - int(gen0[w])
					// a store that completed may not have been reported yet: up to last+1 (+2: a store begun after an unreported one)
					if i >= 1 && i <= kt.Last[w]+2 && bytes.Equal(file, cand(gen0[w], i)) {
						kt.Match, kt.MatchI = fmt.Sprintf("writer%d", w), i
					}
				}
			}
		}
		ents, _ := c20List(dir)
		for _, e := range ents {
			if e.Name == "ClientConf" {
				continue
			}
			kt.Temps = append(kt.Temps, e)
			b, _ := os.ReadFile(filepath.Join(dir, e.Name))
			ok := false
			for w := 0; w < 2; w++ {
				for di := 1; di <= 2; di++ {
					if bytes.HasPrefix(cand(gen0[w], kt.Last[w]+di), b) {
						ok = true
					}
				}
			}
			kt.TempOK = append(kt.TempOK, ok)
			_ = os.Remove(filepath.Join(dir, e.Name))
		}
		prevFile, prevHas = file, err == nil
		out.Kills2 = append(out.Kills2, kt)
	}
	out.Exit = "ok"
}

func TestVerifC20(t *testing.T) {
	raw, err := os.ReadFile(os.Getenv("VERIF_CASES"))
	if err != nil {
		t.Skip("no cases")
	}
	var cases []c20Case
	if err := json.Unmarshal(raw, &cases); err != nil {
		t.Fatal(err)
	}
	outs := make([]c20Out, len(cases))
	c20caps = c20Probe()
	root := t.TempDir()
	_ = os.Chmod(root, 0o755)
	_ = os.Chmod(filepath.Dir(root), 0o755)
	sem := make(chan struct{}, 6)
	var wg sync.WaitGroup
	for i := range cases {
		wg.Add(1)
		go func(i int) {
			defer wg.Done()
			sem <- struct{}{}
			defer func() { <-sem }()
			base := filepath.Join(root, fmt.Sprintf("c%d", i))
			_ = os.MkdirAll(base, 0o755)
			outs[i] = c20RunCase(t, &cases[i], base)
		}(i)
	}
	wg.Wait()
	b, _ := json.Marshal(outs)
	if err := os.WriteFile(os.Getenv("VERIF_OUT"), b, 0o644); err != nil {
		t.Fatal(err)
	}
}
