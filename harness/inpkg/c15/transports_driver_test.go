package transports

// Correspondence driver for C15 (tag obfuscators, URL-less Any unpacking).
// Reads cases, records what the implementation does; no assertions about conjure.

import (
	"crypto/rand"
	"encoding/hex"
	"encoding/json"
	"fmt"
	"os"
	"runtime"
	"sync"
	"testing"

	pb "github.com/refraction-networking/conjure/proto"
	"golang.org/x/crypto/curve25519"
	"google.golang.org/protobuf/proto"
	"google.golang.org/protobuf/types/known/anypb"
)

type vcase struct {
	Op      string `json:"op"`
	Variant string `json:"variant"`
	Data    string `json:"data"`
	PubLen  int    `json:"publen"`
	// anypb
	Kind    string `json:"kind"`    // message type packed: generic | prefix | dtls | c2s
	DstKind string `json:"dstkind"` // message type unpacked into
	URL     string `json:"url"`     // keep | empty | tapdance | other
	Fields  []int  `json:"fields"`
	NilSrc  bool   `json:"nilsrc"`
	// protobuf codec
	Pb  *vpb   `json:"pb"`
	Unk string `json:"unk"` // raw unknown fields to attach before marshalling
	// batch mode: the whole list goes through the encoder first and every result is kept by the caller
	Items  []vcase `json:"items"`
	Conc   int     `json:"conc"`   // > 1: that many concurrent callers (item i belongs to caller i mod conc)
	Procs  int     `json:"procs"`  // GOMAXPROCS while the concurrent callers run (0 = unchanged)
	Keys   string  `json:"keys"`   // obf: "one" station key pair for the batch | "each" item its own
	Shared bool    `json:"shared"` // the caller reuses ONE input buffer for every call (sequential only)
	// stream / damage
	Key string `json:"key"`
	IV  string `json:"iv"`
	Pos int    `json:"pos"` // damage: index of the bit to flip in the encoding
}

// typed view of the transport-parameter messages; nil pointers = field absent
type vaddr struct {
	IP   *string `json:"ip"`
	Port *uint32 `json:"port"`
	Unk  string  `json:"unk"`
}
type vpb struct {
	Rand      *bool   `json:"rand"`
	ID        *int32  `json:"id"`
	Prefix    *string `json:"prefix"`
	Flush     *int32  `json:"flush"`
	Src4      *vaddr  `json:"src4"`
	Src6      *vaddr  `json:"src6"`
	Unordered *bool   `json:"unordered"`
	URL       string  `json:"url"`
	Value     string  `json:"value"`
	Unk       string  `json:"unk"`
}
type vres struct {
	Ok     bool   `json:"ok"`
	Out    string `json:"out"`
	Ok1b   bool   `json:"ok1b"`
	Out1b  string `json:"out1b"`
	Ok2    bool   `json:"ok2"`
	Out2   string `json:"out2"`
	Err    string `json:"err"`
	Err2   string `json:"err2"`
	Fields []int  `json:"fields"`
	URL    string `json:"url"`
	Panic  string `json:"panic"`
	Pb     *vpb   `json:"pb"`
	// batch mode
	Items     []vres `json:"items,omitempty"`
	Snap      string `json:"snap"`      // the encoding as it was right after its own call (the driver's copy)
	DecStable bool   `json:"decstable"` // the decoded value still looks as it did right after its own decode call
	Alias     bool   `json:"alias"`     // informational: the decoded value changed when the decoder's input was overwritten afterwards
}

func unhexp(s *string) []byte {
	if s == nil {
		return nil
	}
	b, _ := hex.DecodeString(*s)
	if b == nil {
		b = []byte{}
	}
	return b
}
func hexp(b []byte) *string {
	if b == nil {
		return nil
	}
	s := hex.EncodeToString(b)
	return &s
}
func toAddr(a *vaddr) *pb.Addr {
	if a == nil {
		return nil
	}
	m := &pb.Addr{IP: unhexp(a.IP), Port: a.Port}
	u, _ := hex.DecodeString(a.Unk)
	m.ProtoReflect().SetUnknown(u)
	return m
}
func fromAddr(m *pb.Addr) *vaddr {
	if m == nil {
		return nil
	}
	return &vaddr{IP: hexp(m.IP), Port: m.Port, Unk: hex.EncodeToString(m.ProtoReflect().GetUnknown())}
}
func pbNew(kind string) proto.Message {
	switch kind {
	case "generic":
		return &pb.GenericTransportParams{}
	case "prefix":
		return &pb.PrefixTransportParams{}
	case "dtls":
		return &pb.DTLSTransportParams{}
	case "any":
		return &anypb.Any{}
	}
	return nil
}
func pbBuild(kind string, v *vpb) proto.Message {
	var m proto.Message
	switch kind {
	case "generic":
		m = &pb.GenericTransportParams{RandomizeDstPort: v.Rand}
	case "prefix":
		m = &pb.PrefixTransportParams{PrefixId: v.ID, Prefix: unhexp(v.Prefix), CustomFlushPolicy: v.Flush, RandomizeDstPort: v.Rand}
	case "dtls":
		m = &pb.DTLSTransportParams{SrcAddr4: toAddr(v.Src4), SrcAddr6: toAddr(v.Src6), RandomizeDstPort: v.Rand, Unordered: v.Unordered}
	case "any":
		u, _ := hex.DecodeString(v.URL)
		val, _ := hex.DecodeString(v.Value)
		m = &anypb.Any{TypeUrl: string(u), Value: val}
	}
	u, _ := hex.DecodeString(v.Unk)
	m.ProtoReflect().SetUnknown(u)
	return m
}
func pbView(m proto.Message) *vpb {
	v := &vpb{Unk: hex.EncodeToString(m.ProtoReflect().GetUnknown())}
	switch x := m.(type) {
	case *pb.GenericTransportParams:
		v.Rand = x.RandomizeDstPort
	case *pb.PrefixTransportParams:
		v.ID, v.Prefix, v.Flush, v.Rand = x.PrefixId, hexp(x.Prefix), x.CustomFlushPolicy, x.RandomizeDstPort
	case *pb.DTLSTransportParams:
		v.Src4, v.Src6, v.Rand, v.Unordered = fromAddr(x.SrcAddr4), fromAddr(x.SrcAddr6), x.RandomizeDstPort, x.Unordered
	case *anypb.Any:
		v.URL, v.Value = hex.EncodeToString([]byte(x.TypeUrl)), hex.EncodeToString(x.Value)
	}
	return v
}

func obfuscator(v string) Obfuscator {
	switch v {
	case "xor":
		return XORObfuscator{}
	case "nil":
		return NilObfuscator{}
	case "ctr":
		return CTRObfuscator{}
	case "gcm":
		return GCMObfuscator{}
	}
	return nil
}

func freshKeyPair() ([32]byte, []byte) {
	var priv [32]byte
	if _, err := rand.Read(priv[:]); err != nil {
		panic(err)
	}
	pub, err := curve25519.X25519(priv[:], curve25519.Basepoint)
	if err != nil {
		panic(err)
	}
	return priv, pub
}

func errStr(err error) string {
	if err == nil {
		return ""
	}
	return err.Error()
}

// ---- anypb ----
func mkMsg(kind string, f []int) proto.Message {
	at := func(i int) int {
		if i < len(f) {
			return f[i]
		}
		return -1
	}
	switch kind {
	case "generic":
		m := &pb.GenericTransportParams{}
		if at(0) >= 0 {
			m.RandomizeDstPort = proto.Bool(at(0) == 1)
		}
		return m
	case "prefix":
		m := &pb.PrefixTransportParams{}
		if at(0) >= 0 {
			m.RandomizeDstPort = proto.Bool(at(0) == 1)
		}
		if at(1) >= 0 {
			m.PrefixId = proto.Int32(int32(at(1)) - 3)
		}
		if at(2) >= 0 {
			m.CustomFlushPolicy = proto.Int32(int32(at(2)))
		}
		return m
	case "dtls":
		m := &pb.DTLSTransportParams{}
		if at(0) >= 0 {
			m.RandomizeDstPort = proto.Bool(at(0) == 1)
		}
		if at(1) >= 0 {
			m.Unordered = proto.Bool(at(1) == 1)
		}
		return m
	case "c2s":
		m := &pb.ClientToStation{}
		if at(0) >= 0 {
			m.DecoyListGeneration = proto.Uint32(uint32(at(0)))
		}
		if at(1) >= 0 {
			m.Padding = make([]byte, at(1))
		}
		return m
	}
	return nil
}

func fieldsOf(m proto.Message) []int {
	b2i := func(p *bool) int {
		if p == nil {
			return -1
		}
		if *p {
			return 1
		}
		return 0
	}
	switch v := m.(type) {
	case *pb.GenericTransportParams:
		return []int{b2i(v.RandomizeDstPort)}
	case *pb.PrefixTransportParams:
		out := []int{b2i(v.RandomizeDstPort), -1, -1}
		if v.PrefixId != nil {
			out[1] = int(*v.PrefixId) + 3
		}
		if v.CustomFlushPolicy != nil {
			out[2] = int(*v.CustomFlushPolicy)
		}
		return out
	case *pb.DTLSTransportParams:
		return []int{b2i(v.RandomizeDstPort), b2i(v.Unordered)}
	case *pb.ClientToStation:
		out := []int{-1, -1}
		if v.DecoyListGeneration != nil {
			out[0] = int(*v.DecoyListGeneration)
		}
		if v.Padding != nil {
			out[1] = len(v.Padding)
		}
		return out
	}
	return nil
}


// ---- batch mode ----
// k calls of one encoder whose results are ALL kept by the caller (not copied: the point is to observe what the
// caller holds), then k calls of the decoder on what is held, all decoded values kept as well, and only then is
// anything looked at.  The driver records; the oracle is in c15.py.

func runCalls(n, conc, procs int, call func(i int)) {
	if conc <= 1 {
		for i := 0; i < n; i++ {
			call(i)
		}
		return
	}
	if procs > 0 {
		prev := runtime.GOMAXPROCS(procs)
		defer runtime.GOMAXPROCS(prev)
	}
	var wg sync.WaitGroup
	for w := 0; w < conc; w++ {
		wg.Add(1)
		go func(w int) {
			defer wg.Done()
			for i := w; i < n; i += conc {
				call(i)
				runtime.Gosched()
			}
		}(w)
	}
	wg.Wait()
}

func guard(r *vres, f func()) {
	defer func() {
		if p := recover(); p != nil {
			r.Panic = fmt.Sprint(p)
		}
	}()
	f()
}

// enc(i) -> the bytes the caller holds; dec(i, held) -> a value the caller holds; view(i, value, r) writes the
// value's projection into r.  afterEnc runs when the last encoder call has returned.
func runBatch(c vcase, afterEnc func(), enc func(i int) ([]byte, error), dec func(i int, b []byte) (interface{}, error),
	view func(i int, v interface{}, r *vres)) []vres {
	n := len(c.Items)
	res := make([]vres, n)
	held := make([][]byte, n)
	snaps := make([][]byte, n)
	runCalls(n, c.Conc, c.Procs, func(i int) {
		guard(&res[i], func() {
			out, err := enc(i)
			held[i] = out
			res[i].Ok, res[i].Err = err == nil, errStr(err)
			snaps[i] = append([]byte(nil), out...)
		})
	})
	afterEnc()
	for i := range res { // what the caller holds after the LAST call
		res[i].Snap = hex.EncodeToString(snaps[i])
		res[i].Out = hex.EncodeToString(held[i])
	}
	vals := make([]interface{}, n)
	decSnap := make([]string, n)
	project := func(i int) string {
		var tmp vres
		guard(&tmp, func() { view(i, vals[i], &tmp) })
		b, _ := json.Marshal(tmp)
		return string(b)
	}
	for i := range res {
		if !res[i].Ok || res[i].Panic != "" {
			continue
		}
		guard(&res[i], func() {
			v, err := dec(i, held[i])
			vals[i] = v
			res[i].Ok2, res[i].Err2 = err == nil, errStr(err)
		})
		if res[i].Ok2 {
			decSnap[i] = project(i)
		}
	}
	for i := range res {
		if res[i].Ok2 {
			guard(&res[i], func() { view(i, vals[i], &res[i]) })
			res[i].DecStable = project(i) == decSnap[i]
		}
	}
	// informational: does the decoded value share storage with the decoder's input?
	for i := range res {
		if res[i].Ok2 {
			for j := range held[i] {
				held[i][j] ^= 0x5a
			}
			res[i].Alias = project(i) != decSnap[i]
		}
	}
	return res
}

// the inputs of a batch and the buffer each call is given: its own, or (shared) ONE buffer the caller reuses
func batchInputs(c vcase) (data [][]byte, input func(i int) []byte, afterEnc func()) {
	n := len(c.Items)
	data = make([][]byte, n)
	maxLen := 0
	for i, it := range c.Items {
		data[i], _ = hex.DecodeString(it.Data)
		if data[i] == nil {
			data[i] = []byte{}
		}
		if len(data[i]) > maxLen {
			maxLen = len(data[i])
		}
	}
	shared := make([]byte, maxLen)
	input = func(i int) []byte {
		if !c.Shared || c.Conc > 1 {
			return data[i]
		}
		in := shared[:len(data[i])]
		copy(in, data[i])
		return in
	}
	afterEnc = func() { // the caller goes on using its input buffer
		for j := range shared {
			shared[j] = 0xa5
		}
	}
	return
}

func bytesView(i int, v interface{}, r *vres) {
	b, _ := v.([]byte)
	r.Out2 = hex.EncodeToString(b)
}

func batch(c vcase, r *vres) {
	n := len(c.Items)
	if n == 0 {
		return
	}
	_, input, afterEnc := batchInputs(c)
	switch c.Items[0].Op {
	case "obf":
		o := obfuscator(c.Variant)
		privs := make([][32]byte, n)
		pubs := make([][]byte, n)
		for i, it := range c.Items {
			if i == 0 || c.Keys == "each" {
				privs[i], pubs[i] = freshKeyPair()
			} else {
				privs[i], pubs[i] = privs[0], pubs[0]
			}
			if it.PubLen != 32 {
				pubs[i] = make([]byte, it.PubLen)
			}
		}
		r.Items = runBatch(c, afterEnc,
			func(i int) ([]byte, error) { return o.Obfuscate(input(i), pubs[i]) },
			func(i int, b []byte) (interface{}, error) { return o.TryReveal(b, privs[i]) },
			bytesView)
	case "pb_rt":
		r.Items = runBatch(c, afterEnc,
			func(i int) ([]byte, error) { return proto.Marshal(pbBuild(c.Items[i].Kind, c.Items[i].Pb)) },
			func(i int, b []byte) (interface{}, error) {
				m := pbNew(c.Items[i].Kind)
				return m, proto.Unmarshal(b, m)
			},
			func(i int, v interface{}, r *vres) { r.Pb = pbView(v.(proto.Message)) })
	case "anypb":
		type unpacked struct {
			src *anypb.Any
			dst proto.Message
		}
		r.Items = runBatch(c, afterEnc,
			func(i int) ([]byte, error) {
				it := c.Items[i]
				a, err := anypb.New(mkMsg(it.Kind, it.Fields))
				if err != nil {
					return nil, err
				}
				switch it.URL {
				case "empty":
					a.TypeUrl = ""
				case "tapdance":
					a.TypeUrl = "type.googleapis.com/tapdance." + a.TypeUrl[len("type.googleapis.com/proto."):]
				case "other":
					a.TypeUrl = "type.googleapis.com/proto.NoSuchMessage"
				}
				return proto.Marshal(a)
			},
			func(i int, b []byte) (interface{}, error) {
				src := &anypb.Any{}
				if err := proto.Unmarshal(b, src); err != nil {
					return nil, fmt.Errorf("unmarshal: %v", err)
				}
				dst := mkMsg(c.Items[i].DstKind, nil)
				return unpacked{src, dst}, UnmarshalAnypbTo(src, dst)
			},
			func(i int, v interface{}, r *vres) {
				u := v.(unpacked)
				r.Fields, r.URL = fieldsOf(u.dst), u.src.TypeUrl
			})
	}
	r.Ok = true
}

func runCase(c vcase) (r vres) {
	defer func() {
		if p := recover(); p != nil {
			r.Panic = fmt.Sprint(p)
		}
	}()
	d, _ := hex.DecodeString(c.Data)
	switch c.Op {
	case "batch":
		batch(c, &r)
	case "stream": // the AES helpers of obfuscate.go on a message and on as many zeros (= the keystream)
		key, _ := hex.DecodeString(c.Key)
		iv, _ := hex.DecodeString(c.IV)
		zeros := make([]byte, len(d))
		o1, err := aesCTR(d, key, iv)
		r.Ok, r.Err = err == nil, errStr(err)
		r.Out = hex.EncodeToString(o1)
		k1, _ := aesCTR(zeros, key, iv)
		r.Out1b = hex.EncodeToString(k1)
		o2, err2 := aesGcmEncrypt(d, key, iv[:12])
		r.Ok2, r.Err2 = err2 == nil, errStr(err2)
		r.Out2 = hex.EncodeToString(o2)
		k2, _ := aesGcmEncrypt(zeros, key, iv[:12])
		r.Snap = hex.EncodeToString(k2)
	case "damage": // obfuscate, flip one bit of the encoding, reveal
		o := obfuscator(c.Variant)
		priv, pub := freshKeyPair()
		c1, err := o.Obfuscate(d, pub)
		r.Ok, r.Err = err == nil, errStr(err)
		r.Out = hex.EncodeToString(c1)
		if err != nil || len(c1) == 0 {
			return
		}
		bit := c.Pos % (8 * len(c1))
		if bit < 0 {
			bit += 8 * len(c1)
		}
		c2 := append([]byte(nil), c1...)
		c2[bit/8] ^= 1 << uint(bit%8)
		r.Out1b = hex.EncodeToString(c2)
		t, err2 := o.TryReveal(c2, priv)
		r.Ok2, r.Err2 = err2 == nil, errStr(err2)
		r.Out2 = hex.EncodeToString(t)
	case "obf": // two encodings of the same tag under a fresh key pair; reveal the first
		o := obfuscator(c.Variant)
		priv, pub := freshKeyPair()
		if c.PubLen != 32 {
			pub = make([]byte, c.PubLen)
		}
		c1, err := o.Obfuscate(d, pub)
		r.Ok, r.Err = err == nil, errStr(err)
		r.Out = hex.EncodeToString(c1)
		c2, err := o.Obfuscate(d, pub)
		r.Ok1b = err == nil
		r.Out1b = hex.EncodeToString(c2)
		if r.Ok {
			t, err2 := o.TryReveal(c1, priv)
			r.Ok2, r.Err2 = err2 == nil, errStr(err2)
			r.Out2 = hex.EncodeToString(t)
		}
	case "reveal": // decoder on arbitrary bytes
		o := obfuscator(c.Variant)
		priv, _ := freshKeyPair()
		t, err := o.TryReveal(d, priv)
		r.Ok, r.Err = err == nil, errStr(err)
		r.Out = hex.EncodeToString(t)
	case "pb_rt": // proto.Marshal of a typed message, then proto.Unmarshal of the bytes
		w, err := proto.Marshal(pbBuild(c.Kind, c.Pb))
		r.Ok, r.Err = err == nil, errStr(err)
		if err != nil {
			return
		}
		r.Out = hex.EncodeToString(w)
		m := pbNew(c.Kind)
		err2 := proto.Unmarshal(w, m)
		r.Ok2, r.Err2 = err2 == nil, errStr(err2)
		if err2 == nil {
			r.Pb = pbView(m)
		}
	case "pb_dec": // proto.Unmarshal of arbitrary bytes into a message type
		m := pbNew(c.Kind)
		err := proto.Unmarshal(d, m)
		r.Ok, r.Err = err == nil, errStr(err)
		if err == nil {
			r.Pb = pbView(m)
		}
	case "anypb_bytes": // what the station does with the Any bytes of a registration: Unmarshal, then UnmarshalAnypbTo
		src := &anypb.Any{}
		if err := proto.Unmarshal(d, src); err != nil {
			r.Err = err.Error()
			return
		}
		r.Ok = true
		dst := pbNew(c.DstKind)
		err := UnmarshalAnypbTo(src, dst)
		r.Ok2, r.Err2 = err == nil, errStr(err)
		if err == nil {
			r.Pb = pbView(dst)
		}
	case "anypb": // pack without / with the type URL, unpack with UnmarshalAnypbTo
		var src *anypb.Any
		if !c.NilSrc {
			a, err := anypb.New(mkMsg(c.Kind, c.Fields))
			if err != nil {
				r.Err = "pack: " + err.Error()
				return
			}
			switch c.URL {
			case "empty":
				a.TypeUrl = ""
			case "tapdance":
				a.TypeUrl = "type.googleapis.com/tapdance." + a.TypeUrl[len("type.googleapis.com/proto."):]
			case "other":
				a.TypeUrl = "type.googleapis.com/proto.NoSuchMessage"
			}
			// through the wire, as in a registration
			w, err := proto.Marshal(a)
			if err != nil {
				r.Err = "marshal: " + err.Error()
				return
			}
			r.Out = hex.EncodeToString(w)
			src = &anypb.Any{}
			if err := proto.Unmarshal(w, src); err != nil {
				r.Err = "unmarshal: " + err.Error()
				return
			}
		}
		r.Ok = true
		dst := mkMsg(c.DstKind, nil)
		err := UnmarshalAnypbTo(src, dst)
		r.Ok2, r.Err2 = err == nil, errStr(err)
		if err == nil {
			r.Fields = fieldsOf(dst)
			if src != nil {
				r.URL = src.TypeUrl
			}
		}
	}
	return
}

func TestVerifC15Transports(t *testing.T) {
	raw, err := os.ReadFile(os.Getenv("VERIF_CASES"))
	if err != nil {
		t.Skip("no cases")
	}
	var cases []vcase
	if err := json.Unmarshal(raw, &cases); err != nil {
		t.Fatal(err)
	}
	res := make([]vres, len(cases))
	for i, c := range cases {
		res[i] = runCase(c)
	}
	out, _ := json.Marshal(res)
	if err := os.WriteFile(os.Getenv("VERIF_OUT"), out, 0o644); err != nil {
		t.Fatal(err)
	}
}
