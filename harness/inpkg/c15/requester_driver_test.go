package requester

// Correspondence driver for C15 (requester side: chunks, base32 coding, send).
// Reads cases, records what the implementation does; no assertions about conjure.

import (
	"bytes"
	"encoding/hex"
	"encoding/json"
	"fmt"
	"net"
	"os"
	"testing"
	"time"

	"github.com/refraction-networking/conjure/pkg/registrars/dns-registrar/dns"
)

type vcase struct {
	Op     string   `json:"op"`
	Data   string   `json:"data"`
	N      int      `json:"n"`
	Domain []string `json:"domain"`
}
type vres struct {
	Ok     bool     `json:"ok"`
	Out    string   `json:"out"`
	Ok2    bool     `json:"ok2"`
	Out2   string   `json:"out2"`
	Err    string   `json:"err"`
	Chunks []string `json:"chunks"`
	Panic  string   `json:"panic"`
}

// captureConn records what send writes to the transport.
type captureConn struct{ wrote [][]byte }

func (c *captureConn) Read(b []byte) (int, error) { select {} }
func (c *captureConn) Write(b []byte) (int, error) {
	c.wrote = append(c.wrote, append([]byte{}, b...))
	return len(b), nil
}
func (c *captureConn) Close() error                       { return nil }
func (c *captureConn) LocalAddr() net.Addr                { return nil }
func (c *captureConn) RemoteAddr() net.Addr               { return nil }
func (c *captureConn) SetDeadline(t time.Time) error      { return nil }
func (c *captureConn) SetReadDeadline(t time.Time) error  { return nil }
func (c *captureConn) SetWriteDeadline(t time.Time) error { return nil }

func runCase(c vcase) (r vres) {
	defer func() {
		if p := recover(); p != nil {
			r.Panic = fmt.Sprint(p)
		}
	}()
	d, _ := hex.DecodeString(c.Data)
	switch c.Op {
	case "chunks":
		r.Ok = true
		r.Chunks = []string{}
		for _, ch := range chunks(d, c.N) {
			r.Chunks = append(r.Chunks, hex.EncodeToString(ch))
		}
	case "b32": // the coding used by send and its inverse as used by the responder
		enc := make([]byte, base32Encoding.EncodedLen(len(d)))
		base32Encoding.Encode(enc, d)
		enc = bytes.ToLower(enc)
		r.Ok = true
		r.Out = hex.EncodeToString(enc)
		up := bytes.ToUpper(enc)
		dec := make([]byte, base32Encoding.DecodedLen(len(up)))
		n, err := base32Encoding.Decode(dec, up)
		r.Ok2 = err == nil
		r.Out2 = hex.EncodeToString(dec[:n])
	case "send": // the real send() on a capturing transport
		var dom dns.Name
		for _, l := range c.Domain {
			b, _ := hex.DecodeString(l)
			dom = append(dom, b)
		}
		pc := &DNSPacketConn{domain: dom}
		cc := &captureConn{}
		err := pc.send(cc, d)
		r.Ok = err == nil
		if err != nil {
			r.Err = err.Error()
		}
		if len(cc.wrote) == 1 {
			r.Out = hex.EncodeToString(cc.wrote[0])
		} else if err == nil {
			r.Err = fmt.Sprintf("wrote %d datagrams", len(cc.wrote))
		}
	}
	return
}

func TestVerifC15Requester(t *testing.T) {
	raw, err := os.ReadFile(os.Getenv("VERIF_CASES"))
	if err != nil {
		t.Skip("no cases")
	}
	var cases []vcase
	if err := json.Unmarshal(raw, &cases); err != nil {
		t.Fatal(err)
	}
	res := make([]vres, len(cases))
	for i, c := range cases {
		res[i] = runCase(c)
	}
	out, _ := json.Marshal(res)
	if err := os.WriteFile(os.Getenv("VERIF_OUT"), out, 0o644); err != nil {
		t.Fatal(err)
	}
}
