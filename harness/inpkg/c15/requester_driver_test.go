package requester

// Correspondence driver for C15 (requester side: chunks, base32 coding, send).
// Reads cases, records what the implementation does; no assertions about conjure.

import (
	"bytes"
	"encoding/hex"
	"encoding/json"
	"fmt"
	"net"
	"io"
	"os"
	"runtime"
	"sync"
	"testing"
	"time"

	"github.com/refraction-networking/conjure/pkg/registrars/dns-registrar/dns"
	"github.com/refraction-networking/conjure/pkg/registrars/dns-registrar/queuepacketconn"
)

type vcase struct {
	Op     string   `json:"op"`
	Data   string   `json:"data"`
	N      int      `json:"n"`
	Domain []string `json:"domain"`
	Msgs   []string `json:"msgs"`
	// batch mode: the whole list goes through the encoder first and every result is kept by the caller
	Items  []vcase `json:"items"`
	Conc   int     `json:"conc"`   // > 1: that many concurrent callers (item i belongs to caller i mod conc)
	Procs  int     `json:"procs"`  // GOMAXPROCS while the concurrent callers run (0 = unchanged)
	Shared bool    `json:"shared"` // the caller reuses ONE input buffer for every call (sequential only)
}
type vres struct {
	Ok     bool     `json:"ok"`
	Out    string   `json:"out"`
	Ok2    bool     `json:"ok2"`
	Out2   string   `json:"out2"`
	Err    string   `json:"err"`
	Chunks []string `json:"chunks"`
	Panic  string   `json:"panic"`
	Msgs   []string `json:"msgs"`
	Clean  bool     `json:"clean"` // recvLoop returned nil
	// batch mode
	Err2      string   `json:"err2"`
	Labels    []string `json:"labels"`
	Items     []vres   `json:"items,omitempty"`
	Snap      string   `json:"snap"`      // the encoding as it was right after its own call (the driver's copy)
	DecStable bool     `json:"decstable"` // the decoded value still looks as it did right after its own decode call
	Alias     bool     `json:"alias"`     // informational: the decoded value changed when the decoder's input was overwritten afterwards
}

func errStr(err error) string {
	if err == nil {
		return ""
	}
	return err.Error()
}

// recording reader: the stream that crossed the connection
type recReader struct {
	net.Conn
	mu  sync.Mutex
	got []byte
}

func (c *recReader) Read(b []byte) (int, error) {
	n, err := c.Conn.Read(b)
	c.mu.Lock()
	c.got = append(c.got, b[:n]...)
	c.mu.Unlock()
	return n, err
}

func newDoT() *TLSPacketConn {
	return &TLSPacketConn{QueuePacketConn: queuepacketconn.NewQueuePacketConn(queuepacketconn.DummyAddr{}, 0)}
}

// drain reads the messages recvLoop queued: n of them if n >= 0, otherwise until nothing arrives for 1.5 s
// (they are queued before recvLoop returns; the wait only covers scheduling delays under load)
func drain(c *TLSPacketConn, n int) []string {
	out := []string{}
	for n < 0 || len(out) < n {
		type pkt struct{ b []byte }
		ch := make(chan pkt, 1)
		go func() {
			buf := make([]byte, 70000)
			k, _, err := c.ReadFrom(buf)
			if err == nil {
				ch <- pkt{buf[:k]}
			}
		}()
		wait := 1500 * time.Millisecond
		if n >= 0 {
			wait = 20 * time.Second
		}
		select {
		case p := <-ch:
			out = append(out, hex.EncodeToString(p.b))
		case <-time.After(wait):
			return out
		}
	}
	return out
}

func dotRoundTrip(c vcase, r *vres) {
	a, b := net.Pipe()
	sender, recvr := newDoT(), newDoT()
	rec := &recReader{Conn: b}
	recvDone := make(chan error, 1)
	go func() { recvDone <- recvr.recvLoop(rec) }()
	sendPanic := make(chan string, 1)
	go func() {
		defer func() {
			if p := recover(); p != nil {
				sendPanic <- fmt.Sprint(p)
			}
		}()
		_ = sender.sendLoop(a)
	}()
	expect := 0
	oversize := false
	for _, m := range c.Msgs {
		d, _ := hex.DecodeString(m)
		if len(d) > 65535 {
			oversize = true
		}
		if !oversize {
			expect++
		}
		_, _ = sender.WriteTo(d, queuepacketconn.DummyAddr{})
	}
	r.Msgs = drain(recvr, expect)
	if oversize {
		select {
		case p := <-sendPanic:
			r.Panic = p
		case <-time.After(20 * time.Second):
		}
	}
	a.Close()
	select {
	case err := <-recvDone:
		r.Clean = err == nil
		if err != nil {
			r.Err = err.Error()
		}
	case <-time.After(20 * time.Second):
		r.Err = "recvLoop did not return"
	}
	rec.mu.Lock()
	r.Out = hex.EncodeToString(rec.got)
	rec.mu.Unlock()
	r.Ok = true
}

func dotRecv(c vcase, r *vres) {
	d, _ := hex.DecodeString(c.Data)
	a, b := net.Pipe()
	recvr := newDoT()
	recvDone := make(chan error, 1)
	go func() { recvDone <- recvr.recvLoop(b) }()
	go func() {
		_, _ = a.Write(d)
		a.Close()
	}()
	select {
	case err := <-recvDone:
		r.Clean = err == nil
		if err != nil {
			r.Err = err.Error()
			if err == io.ErrUnexpectedEOF {
				r.Err = "unexpected EOF"
			}
		}
	case <-time.After(20 * time.Second):
		r.Err = "recvLoop did not return"
	}
	r.Msgs = drain(recvr, -1)
	r.Ok = true
}

// captureConn records what send writes to the transport.
type captureConn struct{ wrote [][]byte }

func (c *captureConn) Read(b []byte) (int, error) { select {} }
func (c *captureConn) Write(b []byte) (int, error) {
	c.wrote = append(c.wrote, append([]byte{}, b...))
	return len(b), nil
}
func (c *captureConn) Close() error                       { return nil }
func (c *captureConn) LocalAddr() net.Addr                { return nil }
func (c *captureConn) RemoteAddr() net.Addr               { return nil }
func (c *captureConn) SetDeadline(t time.Time) error      { return nil }
func (c *captureConn) SetReadDeadline(t time.Time) error  { return nil }
func (c *captureConn) SetWriteDeadline(t time.Time) error { return nil }


// ---- batch mode ----
// k calls of one encoder whose results are ALL kept by the caller (not copied: the point is to observe what the
// caller holds), then k calls of the decoder on what is held, all decoded values kept as well, and only then is
// anything looked at.  The driver records; the oracle is in c15.py.

func runCalls(n, conc, procs int, call func(i int)) {
	if conc <= 1 {
		for i := 0; i < n; i++ {
			call(i)
		}
		return
	}
	if procs > 0 {
		prev := runtime.GOMAXPROCS(procs)
		defer runtime.GOMAXPROCS(prev)
	}
	var wg sync.WaitGroup
	for w := 0; w < conc; w++ {
		wg.Add(1)
		go func(w int) {
			defer wg.Done()
			for i := w; i < n; i += conc {
				call(i)
				runtime.Gosched()
			}
		}(w)
	}
	wg.Wait()
}

func guard(r *vres, f func()) {
	defer func() {
		if p := recover(); p != nil {
			r.Panic = fmt.Sprint(p)
		}
	}()
	f()
}

// enc(i) -> the bytes the caller holds; dec(i, held) -> a value the caller holds; view(i, value, r) writes the
// value's projection into r.  afterEnc runs when the last encoder call has returned.
func runBatch(c vcase, afterEnc func(), enc func(i int) ([]byte, error), dec func(i int, b []byte) (interface{}, error),
	view func(i int, v interface{}, r *vres)) []vres {
	n := len(c.Items)
	res := make([]vres, n)
	held := make([][]byte, n)
	snaps := make([][]byte, n)
	runCalls(n, c.Conc, c.Procs, func(i int) {
		guard(&res[i], func() {
			out, err := enc(i)
			held[i] = out
			res[i].Ok, res[i].Err = err == nil, errStr(err)
			snaps[i] = append([]byte(nil), out...)
		})
	})
	afterEnc()
	for i := range res { // what the caller holds after the LAST call
		res[i].Snap = hex.EncodeToString(snaps[i])
		res[i].Out = hex.EncodeToString(held[i])
	}
	vals := make([]interface{}, n)
	decSnap := make([]string, n)
	project := func(i int) string {
		var tmp vres
		guard(&tmp, func() { view(i, vals[i], &tmp) })
		b, _ := json.Marshal(tmp)
		return string(b)
	}
	for i := range res {
		if !res[i].Ok || res[i].Panic != "" {
			continue
		}
		guard(&res[i], func() {
			v, err := dec(i, held[i])
			vals[i] = v
			res[i].Ok2, res[i].Err2 = err == nil, errStr(err)
		})
		if res[i].Ok2 {
			decSnap[i] = project(i)
		}
	}
	for i := range res {
		if res[i].Ok2 {
			guard(&res[i], func() { view(i, vals[i], &res[i]) })
			res[i].DecStable = project(i) == decSnap[i]
		}
	}
	// informational: does the decoded value share storage with the decoder's input?
	for i := range res {
		if res[i].Ok2 {
			for j := range held[i] {
				held[i][j] ^= 0x5a
			}
			res[i].Alias = project(i) != decSnap[i]
		}
	}
	return res
}

// the inputs of a batch and the buffer each call is given: its own, or (shared) ONE buffer the caller reuses
func batchInputs(c vcase) (data [][]byte, input func(i int) []byte, afterEnc func()) {
	n := len(c.Items)
	data = make([][]byte, n)
	maxLen := 0
	for i, it := range c.Items {
		data[i], _ = hex.DecodeString(it.Data)
		if data[i] == nil {
			data[i] = []byte{}
		}
		if len(data[i]) > maxLen {
			maxLen = len(data[i])
		}
	}
	shared := make([]byte, maxLen)
	input = func(i int) []byte {
		if !c.Shared || c.Conc > 1 {
			return data[i]
		}
		in := shared[:len(data[i])]
		copy(in, data[i])
		return in
	}
	afterEnc = func() { // the caller goes on using its input buffer
		for j := range shared {
			shared[j] = 0xa5
		}
	}
	return
}

func bytesView(i int, v interface{}, r *vres) {
	b, _ := v.([]byte)
	r.Out2 = hex.EncodeToString(b)
}

// notifyConn is the transport of a DNSPacketConn under test: what is written is recorded (copied, as a socket
// would), what is read comes from a script handed out back to back, after which Read blocks until Close.
type notifyConn struct {
	mu      sync.Mutex
	wrote   [][]byte
	wroteCh chan struct{}
	script  [][]byte
	drained chan struct{} // closed when Read is called with the script exhausted
	dOnce   sync.Once
	closed  chan struct{}
	cOnce   sync.Once
}

func newNotifyConn(script [][]byte) *notifyConn {
	return &notifyConn{wroteCh: make(chan struct{}, 1024), script: script, drained: make(chan struct{}), closed: make(chan struct{})}
}
func (c *notifyConn) Read(b []byte) (int, error) {
	c.mu.Lock()
	if len(c.script) > 0 {
		d := c.script[0]
		c.script = c.script[1:]
		c.mu.Unlock()
		return copy(b, d), nil
	}
	c.mu.Unlock()
	c.dOnce.Do(func() { close(c.drained) })
	<-c.closed
	return 0, io.EOF
}
func (c *notifyConn) Write(b []byte) (int, error) {
	c.mu.Lock()
	c.wrote = append(c.wrote, append([]byte{}, b...))
	c.mu.Unlock()
	c.wroteCh <- struct{}{}
	return len(b), nil
}
func (c *notifyConn) Close() error                       { c.cOnce.Do(func() { close(c.closed) }); return nil }
func (c *notifyConn) LocalAddr() net.Addr                { return queuepacketconn.DummyAddr{} }
func (c *notifyConn) RemoteAddr() net.Addr               { return queuepacketconn.DummyAddr{} }
func (c *notifyConn) SetDeadline(t time.Time) error      { return nil }
func (c *notifyConn) SetReadDeadline(t time.Time) error  { return nil }
func (c *notifyConn) SetWriteDeadline(t time.Time) error { return nil }

func domainOf(l []string) dns.Name {
	var dom dns.Name
	for _, s := range l {
		b, _ := hex.DecodeString(s)
		dom = append(dom, b)
	}
	return dom
}

func batch(c vcase, r *vres) {
	n := len(c.Items)
	if n == 0 {
		return
	}
	_, input, afterEnc := batchInputs(c)
	switch c.Items[0].Op {
	case "send": // the real path WriteTo -> queue -> sendLoop -> send on ONE DNSPacketConn; the caller may reuse its buffer
		cc := newNotifyConn(nil)
		pc := NewDNSPacketConn(cc, queuepacketconn.DummyAddr{}, domainOf(c.Domain))
		r.Items = make([]vres, n)
		accepted := 0
		for i := 0; i < n; i++ {
			_, err := pc.WriteTo(input(i), queuepacketconn.DummyAddr{})
			r.Items[i].Ok, r.Items[i].Err = err == nil, errStr(err)
			if err == nil {
				accepted++
			}
		}
		afterEnc()
		deadline := time.After(20 * time.Second)
	wait:
		for got := 0; got < accepted; got++ {
			select {
			case <-cc.wroteCh:
			case <-deadline:
				break wait
			}
		}
		cc.mu.Lock()
		k := 0
		for i := range r.Items {
			if r.Items[i].Ok && k < len(cc.wrote) {
				r.Items[i].Out = hex.EncodeToString(cc.wrote[k])
				k++
			}
		}
		if len(cc.wrote) != accepted {
			r.Err = fmt.Sprintf("%d packets accepted, %d datagrams written", accepted, len(cc.wrote))
		}
		cc.mu.Unlock()
		cc.Close()
		pc.Close()
	}
	r.Ok = true
}

// rburst: k responses reach DNSPacketConn.recvLoop back to back; the payloads are read from the queue afterwards
func rburst(c vcase, r *vres) {
	dom := domainOf(c.Domain)
	var script [][]byte
	for i, it := range c.Items {
		p, _ := hex.DecodeString(it.Data)
		name := append(dns.Name{[]byte(fmt.Sprintf("q%d", i))}, dom...)
		m := &dns.Message{ID: uint16(i + 1), Flags: 0x8400,
			Question: []dns.Question{{Name: name, Type: dns.RRTypeTXT, Class: dns.ClassIN}},
			Answer:   []dns.RR{{Name: name, Type: dns.RRTypeTXT, Class: dns.ClassIN, TTL: 60, Data: dns.EncodeRDataTXT(p)}}}
		w, err := m.WireFormat()
		if err != nil {
			r.Err = "build: " + err.Error()
			return
		}
		script = append(script, w)
	}
	cc := newNotifyConn(script)
	pc := NewDNSPacketConn(cc, queuepacketconn.DummyAddr{}, dom)
	defer pc.Close()
	defer cc.Close()
	select {
	case <-cc.drained: // recvLoop has handled every datagram and asked for the next one
	case <-time.After(20 * time.Second):
		r.Err = "recvLoop did not read the script"
		return
	}
	r.Msgs = []string{}
	for range c.Items {
		type pkt struct{ b []byte }
		ch := make(chan pkt, 1)
		go func() {
			buf := make([]byte, 4096)
			k, _, err := pc.ReadFrom(buf)
			if err == nil {
				ch <- pkt{buf[:k]}
			}
		}()
		select {
		case p := <-ch:
			r.Msgs = append(r.Msgs, hex.EncodeToString(p.b))
		case <-time.After(2 * time.Second):
			r.Ok = true
			return
		}
	}
	r.Ok = true
}

func runCase(c vcase) (r vres) {
	defer func() {
		if p := recover(); p != nil {
			r.Panic = fmt.Sprint(p)
		}
	}()
	d, _ := hex.DecodeString(c.Data)
	switch c.Op {
	case "batch":
		batch(c, &r)
	case "rburst":
		rburst(c, &r)
	case "chunks":
		r.Ok = true
		r.Chunks = []string{}
		for _, ch := range chunks(d, c.N) {
			r.Chunks = append(r.Chunks, hex.EncodeToString(ch))
		}
	case "b32": // the coding used by send and its inverse as used by the responder
		enc := make([]byte, base32Encoding.EncodedLen(len(d)))
		base32Encoding.Encode(enc, d)
		enc = bytes.ToLower(enc)
		r.Ok = true
		r.Out = hex.EncodeToString(enc)
		up := bytes.ToUpper(enc)
		dec := make([]byte, base32Encoding.DecodedLen(len(up)))
		n, err := base32Encoding.Decode(dec, up)
		r.Ok2 = err == nil
		r.Out2 = hex.EncodeToString(dec[:n])
	case "dot_rt": // TLSPacketConn.sendLoop -> net.Pipe -> TLSPacketConn.recvLoop
		dotRoundTrip(c, &r)
	case "dot_recv": // recvLoop on an arbitrary finite stream
		dotRecv(c, &r)
	case "send": // the real send() on a capturing transport
		var dom dns.Name
		for _, l := range c.Domain {
			b, _ := hex.DecodeString(l)
			dom = append(dom, b)
		}
		pc := &DNSPacketConn{domain: dom}
		cc := &captureConn{}
		err := pc.send(cc, d)
		r.Ok = err == nil
		if err != nil {
			r.Err = err.Error()
		}
		if len(cc.wrote) == 1 {
			r.Out = hex.EncodeToString(cc.wrote[0])
		} else if err == nil {
			r.Err = fmt.Sprintf("wrote %d datagrams", len(cc.wrote))
		}
	}
	return
}

func TestVerifC15Requester(t *testing.T) {
	raw, err := os.ReadFile(os.Getenv("VERIF_CASES"))
	if err != nil {
		t.Skip("no cases")
	}
	var cases []vcase
	if err := json.Unmarshal(raw, &cases); err != nil {
		t.Fatal(err)
	}
	res := make([]vres, len(cases))
	var wg sync.WaitGroup
	for i, c := range cases {
		if c.Op != "dot_rt" && c.Op != "dot_recv" {
			res[i] = runCase(c)
			continue
		}
		wg.Add(1)
		go func(i int, c vcase) {
			defer wg.Done()
			res[i] = runCase(c)
		}(i, c)
	}
	wg.Wait()
	out, _ := json.Marshal(res)
	if err := os.WriteFile(os.Getenv("VERIF_OUT"), out, 0o644); err != nil {
		t.Fatal(err)
	}
}
