package requester

// Correspondence driver for C15 (requester side: chunks, base32 coding, send).
// Reads cases, records what the implementation does; no assertions about conjure.

import (
	"bytes"
	"encoding/hex"
	"encoding/json"
	"fmt"
	"net"
	"io"
	"os"
	"sync"
	"testing"
	"time"

	"github.com/refraction-networking/conjure/pkg/registrars/dns-registrar/dns"
	"github.com/refraction-networking/conjure/pkg/registrars/dns-registrar/queuepacketconn"
)

type vcase struct {
	Op     string   `json:"op"`
	Data   string   `json:"data"`
	N      int      `json:"n"`
	Domain []string `json:"domain"`
	Msgs   []string `json:"msgs"`
}
type vres struct {
	Ok     bool     `json:"ok"`
	Out    string   `json:"out"`
	Ok2    bool     `json:"ok2"`
	Out2   string   `json:"out2"`
	Err    string   `json:"err"`
	Chunks []string `json:"chunks"`
	Panic  string   `json:"panic"`
	Msgs   []string `json:"msgs"`
	Clean  bool     `json:"clean"` // recvLoop returned nil
}

// recording reader: the stream that crossed the connection
type recReader struct {
	net.Conn
	mu  sync.Mutex
	got []byte
}

func (c *recReader) Read(b []byte) (int, error) {
	n, err := c.Conn.Read(b)
	c.mu.Lock()
	c.got = append(c.got, b[:n]...)
	c.mu.Unlock()
	return n, err
}

func newDoT() *TLSPacketConn {
	return &TLSPacketConn{QueuePacketConn: queuepacketconn.NewQueuePacketConn(queuepacketconn.DummyAddr{}, 0)}
}

// drain reads the messages recvLoop queued: n of them if n >= 0, otherwise until nothing arrives for 1.5 s
// (they are queued before recvLoop returns; the wait only covers scheduling delays under load)
func drain(c *TLSPacketConn, n int) []string {
	out := []string{}
	for n < 0 || len(out) < n {
		type pkt struct{ b []byte }
		ch := make(chan pkt, 1)
		go func() {
			buf := make([]byte, 70000)
			k, _, err := c.ReadFrom(buf)
			if err == nil {
				ch <- pkt{buf[:k]}
			}
		}()
		wait := 1500 * time.Millisecond
		if n >= 0 {
			wait = 20 * time.Second
		}
		select {
		case p := <-ch:
			out = append(out, hex.EncodeToString(p.b))
		case <-time.After(wait):
			return out
		}
	}
	return out
}

func dotRoundTrip(c vcase, r *vres) {
	a, b := net.Pipe()
	sender, recvr := newDoT(), newDoT()
	rec := &recReader{Conn: b}
	recvDone := make(chan error, 1)
	go func() { recvDone <- recvr.recvLoop(rec) }()
	sendPanic := make(chan string, 1)
	go func() {
		defer func() {
			if p := recover(); p != nil {
				sendPanic <- fmt.Sprint(p)
			}
		}()
		_ = sender.sendLoop(a)
	}()
	expect := 0
	oversize := false
	for _, m := range c.Msgs {
		d, _ := hex.DecodeString(m)
		if len(d) > 65535 {
			oversize = true
		}
		if !oversize {
			expect++
		}
		_, _ = sender.WriteTo(d, queuepacketconn.DummyAddr{})
	}
	r.Msgs = drain(recvr, expect)
	if oversize {
		select {
		case p := <-sendPanic:
			r.Panic = p
		case <-time.After(20 * time.Second):
		}
	}
	a.Close()
	select {
	case err := <-recvDone:
		r.Clean = err == nil
		if err != nil {
			r.Err = err.Error()
		}
	case <-time.After(20 * time.Second):
		r.Err = "recvLoop did not return"
	}
	rec.mu.Lock()
	r.Out = hex.EncodeToString(rec.got)
	rec.mu.Unlock()
	r.Ok = true
}

func dotRecv(c vcase, r *vres) {
	d, _ := hex.DecodeString(c.Data)
	a, b := net.Pipe()
	recvr := newDoT()
	recvDone := make(chan error, 1)
	go func() { recvDone <- recvr.recvLoop(b) }()
	go func() {
		_, _ = a.Write(d)
		a.Close()
	}()
	select {
	case err := <-recvDone:
		r.Clean = err == nil
		if err != nil {
			r.Err = err.Error()
			if err == io.ErrUnexpectedEOF {
				r.Err = "unexpected EOF"
			}
		}
	case <-time.After(20 * time.Second):
		r.Err = "recvLoop did not return"
	}
	r.Msgs = drain(recvr, -1)
	r.Ok = true
}

// captureConn records what send writes to the transport.
type captureConn struct{ wrote [][]byte }

func (c *captureConn) Read(b []byte) (int, error) { select {} }
func (c *captureConn) Write(b []byte) (int, error) {
	c.wrote = append(c.wrote, append([]byte{}, b...))
	return len(b), nil
}
func (c *captureConn) Close() error                       { return nil }
func (c *captureConn) LocalAddr() net.Addr                { return nil }
func (c *captureConn) RemoteAddr() net.Addr               { return nil }
func (c *captureConn) SetDeadline(t time.Time) error      { return nil }
func (c *captureConn) SetReadDeadline(t time.Time) error  { return nil }
func (c *captureConn) SetWriteDeadline(t time.Time) error { return nil }

func runCase(c vcase) (r vres) {
	defer func() {
		if p := recover(); p != nil {
			r.Panic = fmt.Sprint(p)
		}
	}()
	d, _ := hex.DecodeString(c.Data)
	switch c.Op {
	case "chunks":
		r.Ok = true
		r.Chunks = []string{}
		for _, ch := range chunks(d, c.N) {
			r.Chunks = append(r.Chunks, hex.EncodeToString(ch))
		}
	case "b32": // the coding used by send and its inverse as used by the responder
		enc := make([]byte, base32Encoding.EncodedLen(len(d)))
		base32Encoding.Encode(enc, d)
		enc = bytes.ToLower(enc)
		r.Ok = true
		r.Out = hex.EncodeToString(enc)
		up := bytes.ToUpper(enc)
		dec := make([]byte, base32Encoding.DecodedLen(len(up)))
		n, err := base32Encoding.Decode(dec, up)
		r.Ok2 = err == nil
		r.Out2 = hex.EncodeToString(dec[:n])
	case "dot_rt": // TLSPacketConn.sendLoop -> net.Pipe -> TLSPacketConn.recvLoop
		dotRoundTrip(c, &r)
	case "dot_recv": // recvLoop on an arbitrary finite stream
		dotRecv(c, &r)
	case "send": // the real send() on a capturing transport
		var dom dns.Name
		for _, l := range c.Domain {
			b, _ := hex.DecodeString(l)
			dom = append(dom, b)
		}
		pc := &DNSPacketConn{domain: dom}
		cc := &captureConn{}
		err := pc.send(cc, d)
		r.Ok = err == nil
		if err != nil {
			r.Err = err.Error()
		}
		if len(cc.wrote) == 1 {
			r.Out = hex.EncodeToString(cc.wrote[0])
		} else if err == nil {
			r.Err = fmt.Sprintf("wrote %d datagrams", len(cc.wrote))
		}
	}
	return
}

func TestVerifC15Requester(t *testing.T) {
	raw, err := os.ReadFile(os.Getenv("VERIF_CASES"))
	if err != nil {
		t.Skip("no cases")
	}
	var cases []vcase
	if err := json.Unmarshal(raw, &cases); err != nil {
		t.Fatal(err)
	}
	res := make([]vres, len(cases))
	var wg sync.WaitGroup
	for i, c := range cases {
		if c.Op != "dot_rt" && c.Op != "dot_recv" {
			res[i] = runCase(c)
			continue
		}
		wg.Add(1)
		go func(i int, c vcase) {
			defer wg.Done()
			res[i] = runCase(c)
		}(i, c)
	}
	wg.Wait()
	out, _ := json.Marshal(res)
	if err := os.WriteFile(os.Getenv("VERIF_OUT"), out, 0o644); err != nil {
		t.Fatal(err)
	}
}
