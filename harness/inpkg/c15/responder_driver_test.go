package responder

// Correspondence driver for C15 (responder side: query name -> payload; the
// loopback exchange).  Reads cases, records what the implementation does; no
// assertions about conjure.

import (
	"context"
	"encoding/hex"
	"encoding/json"
	"fmt"
	"io"
	mrand "math/rand"
	"net"
	"os"
	"runtime"
	"strings"
	"sync"
	"testing"
	"time"

	"github.com/flynn/noise"
	"github.com/refraction-networking/conjure/pkg/registrars/dns-registrar/dns"
	"github.com/refraction-networking/conjure/pkg/registrars/dns-registrar/encryption"
	"github.com/refraction-networking/conjure/pkg/registrars/dns-registrar/requester"
)

type vcase struct {
	Op     string   `json:"op"`
	Data   string   `json:"data"`
	Domain []string `json:"domain"`
	Resp   string   `json:"resp"`
	// burst lane
	K      int   `json:"k"`      // queries delivered back to back per round
	Procs  int   `json:"procs"`  // GOMAXPROCS during the rounds
	Rounds int   `json:"rounds"` // number of rounds
	Seed   int64 `json:"seed"`
	Keep   int   `json:"keep"` // rounds whose datagrams are reported in full
	// exchange_seq: the requests one Requester makes, one after the other, of one Responder
	Items []vcase `json:"items"`
}

// ---- burst lane: k requesters whose queries reach the responder back to back ----

type vclient struct {
	Payload string `json:"payload"`
	QID     int    `json:"qid"`   // DNS ID of this client's query
	NResp   int    `json:"nresp"` // datagrams the responder addressed to this client
	RID     int    `json:"rid"`   // DNS ID of the (first) datagram it was sent
	Ok      bool   `json:"ok"`
	Out     string `json:"out"`
	Err     string `json:"err"`
	Timeout bool   `json:"timeout"`
	QWire   string `json:"qwire,omitempty"`
	RWire   string `json:"rwire,omitempty"`
}
type vround struct {
	Clients []vclient `json:"clients"`
	Seen    []string  `json:"seen"` // payloads the callback was given, in call order
	Err     string    `json:"err"`
}

type burstAddr string

func (a burstAddr) Network() string { return "burst" }
func (a burstAddr) String() string  { return string(a) }

type burstDatagram struct {
	p    []byte
	addr net.Addr
}

// scriptedConn hands out the queued datagrams one after the other without blocking, then blocks until Close.
type scriptedConn struct {
	mu     sync.Mutex
	in     []burstDatagram
	out    chan burstDatagram
	closed chan struct{}
	once   sync.Once
}

func (c *scriptedConn) ReadFrom(p []byte) (int, net.Addr, error) {
	c.mu.Lock()
	if len(c.in) > 0 {
		d := c.in[0]
		c.in = c.in[1:]
		c.mu.Unlock()
		return copy(p, d.p), d.addr, nil
	}
	c.mu.Unlock()
	<-c.closed
	return 0, nil, io.EOF
}
func (c *scriptedConn) WriteTo(p []byte, addr net.Addr) (int, error) {
	select {
	case c.out <- burstDatagram{append([]byte(nil), p...), addr}:
	case <-c.closed:
	}
	return len(p), nil
}
func (c *scriptedConn) Close() error                       { c.once.Do(func() { close(c.closed) }); return nil }
func (c *scriptedConn) LocalAddr() net.Addr                { return burstAddr("responder") }
func (c *scriptedConn) SetDeadline(t time.Time) error      { return nil }
func (c *scriptedConn) SetReadDeadline(t time.Time) error  { return nil }
func (c *scriptedConn) SetWriteDeadline(t time.Time) error { return nil }

// clientConn is the requester's "UDP socket": what it writes is collected, what it reads is injected.
type clientConn struct {
	sent   chan []byte
	in     chan []byte
	closed chan struct{}
	once   sync.Once
	remote net.Addr
}

func (c *clientConn) Write(b []byte) (int, error) {
	select {
	case c.sent <- append([]byte(nil), b...):
	case <-c.closed:
	}
	return len(b), nil
}
func (c *clientConn) Read(b []byte) (int, error) {
	select {
	case p := <-c.in:
		return copy(b, p), nil
	case <-c.closed:
		return 0, io.EOF
	}
}
func (c *clientConn) Close() error                       { c.once.Do(func() { close(c.closed) }); return nil }
func (c *clientConn) LocalAddr() net.Addr                { return burstAddr("client") }
func (c *clientConn) RemoteAddr() net.Addr               { return c.remote }
func (c *clientConn) SetDeadline(t time.Time) error      { return nil }
func (c *clientConn) SetReadDeadline(t time.Time) error  { return nil }
func (c *clientConn) SetWriteDeadline(t time.Time) error { return nil }

func burstAnswer(p []byte) []byte {
	out := []byte("ans:")
	for i := len(p) - 1; i >= 0; i-- {
		out = append(out, p[i])
	}
	return out
}

const burstTarget = "127.0.0.1:5353"

func burstRound(rng *mrand.Rand, k int, keepWire bool, dom dns.Name, domain string, priv []byte) (rd vround) {
	pub := encryption.PubkeyFromPrivkey(priv)
	remote, _ := net.ResolveUDPAddr("udp", burstTarget)
	type result struct {
		b   []byte
		err error
	}
	conns := make([]*clientConn, k)
	reqs := make([]*requester.Requester, k)
	done := make([]chan result, k)
	rd.Clients = make([]vclient, k)
	for i := 0; i < k; i++ {
		payload := make([]byte, rng.Intn(91))
		rng.Read(payload)
		rd.Clients[i].Payload = hex.EncodeToString(payload)
		cc := &clientConn{sent: make(chan []byte, 4), in: make(chan []byte, 8), closed: make(chan struct{}), remote: remote}
		conns[i] = cc
		rq, err := requester.NewRequester(&requester.Config{
			TransportMethod: requester.UDP, Target: burstTarget, BaseDomain: domain, Pubkey: pub,
			DialTransport: func(ctx context.Context, network, addr string) (net.Conn, error) { return cc, nil },
		})
		if err != nil {
			rd.Err = "requester: " + err.Error()
			return
		}
		reqs[i] = rq
		done[i] = make(chan result, 1)
		go func(i int, payload []byte) {
			b, err := rq.RequestAndRecv(payload)
			done[i] <- result{b, err}
		}(i, payload)
	}
	defer func() {
		for i := range conns {
			conns[i].Close()
			_ = reqs[i].Close()
		}
	}()
	// 1. every requester has encoded and "sent" its query
	queries := make([][]byte, k)
	for i := 0; i < k; i++ {
		select {
		case q := <-conns[i].sent:
			queries[i] = q
			if len(q) >= 2 {
				rd.Clients[i].QID = int(q[0])<<8 | int(q[1])
			}
			if keepWire {
				rd.Clients[i].QWire = hex.EncodeToString(q)
			}
		case <-time.After(20 * time.Second):
			rd.Err = fmt.Sprintf("client %d never sent its query", i)
			return
		}
	}
	// 2. the k datagrams reach the responder back to back
	sc := &scriptedConn{out: make(chan burstDatagram, 4*k), closed: make(chan struct{})}
	for i := 0; i < k; i++ {
		sc.in = append(sc.in, burstDatagram{queries[i], burstAddr(fmt.Sprintf("client-%d", i))})
	}
	noiseConfig := encryption.NewConfig()
	noiseConfig.Initiator = false
	noiseConfig.StaticKeypair = noise.DHKey{Private: priv, Public: pub}
	rs := &Responder{privkey: priv, domain: dom, transport: sc, noiseConfig: noiseConfig, maxUDPPayload: 1280 - 40 - 8}
	var mu sync.Mutex
	go func() {
		_ = rs.RecvAndRespond(func(p []byte) ([]byte, error) {
			mu.Lock()
			rd.Seen = append(rd.Seen, hex.EncodeToString(p))
			mu.Unlock()
			return burstAnswer(p), nil
		})
	}()
	defer sc.Close()
	// 3. route what the responder writes to the addressed client
	got := 0
	deadline := time.After(20 * time.Second)
collect:
	for got < k {
		select {
		case d := <-sc.out:
			got++
			var idx int
			if _, err := fmt.Sscanf(d.addr.String(), "client-%d", &idx); err != nil || idx < 0 || idx >= k {
				continue
			}
			cl := &rd.Clients[idx]
			cl.NResp++
			if cl.NResp == 1 {
				if len(d.p) >= 2 {
					cl.RID = int(d.p[0])<<8 | int(d.p[1])
				}
				if keepWire {
					cl.RWire = hex.EncodeToString(d.p)
				}
			}
			conns[idx].in <- d.p
		case <-deadline:
			break collect
		}
	}
	// a little time for a surplus datagram, only looked for when something is already off
	// 4. every requester returns
	for i := 0; i < k; i++ {
		wait := 20 * time.Second
		if rd.Clients[i].NResp == 0 {
			wait = 300 * time.Millisecond // nothing was addressed to it: RequestAndRecv blocks by design
		}
		select {
		case res := <-done[i]:
			rd.Clients[i].Ok = res.err == nil
			rd.Clients[i].Out = hex.EncodeToString(res.b)
			if res.err != nil {
				rd.Clients[i].Err = res.err.Error()
			}
		case <-time.After(wait):
			rd.Clients[i].Timeout = true
		}
	}
	mu.Lock()
	rd.Seen = append([]string{}, rd.Seen...)
	mu.Unlock()
	return
}

func burst(c vcase, r *vres) {
	prev := runtime.GOMAXPROCS(c.Procs)
	defer runtime.GOMAXPROCS(prev)
	rng := mrand.New(mrand.NewSource(c.Seed))
	dom := domainOf(c.Domain)
	var labels []string
	for _, l := range dom {
		labels = append(labels, string(l))
	}
	priv, err := encryption.GeneratePrivkey()
	if err != nil {
		r.Err = "keygen: " + err.Error()
		return
	}
	silent := 0
	for i := 0; i < c.Rounds; i++ {
		rd := burstRound(rng, c.K, i < c.Keep, dom, strings.Join(labels, "."), priv)
		r.Rounds = append(r.Rounds, rd)
		// a round in which some client was sent nothing costs its full waiting time: one of them is enough to report
		for _, cl := range rd.Clients {
			if cl.NResp == 0 {
				silent++
				break
			}
		}
		if silent >= 1 {
			break
		}
	}
	r.Ok = true
}
// recConn records the datagrams that cross the requester's UDP socket.
type recConn struct {
	net.Conn
	mu    sync.Mutex
	sent  [][]byte
	recvd [][]byte
}

func (c *recConn) Write(b []byte) (int, error) {
	c.mu.Lock()
	c.sent = append(c.sent, append([]byte{}, b...))
	c.mu.Unlock()
	return c.Conn.Write(b)
}
func (c *recConn) Read(b []byte) (int, error) {
	n, err := c.Conn.Read(b)
	if err == nil {
		c.mu.Lock()
		c.recvd = append(c.recvd, append([]byte{}, b[:n]...))
		c.mu.Unlock()
	}
	return n, err
}

type vres struct {
	Timeout bool   `json:"timeout"`
	Seen    bool   `json:"seen"`     // the responder's callback ran
	SeenPay string `json:"seenpay"`  // what it was given
	QWire   string `json:"qwire"`    // the query datagram
	RWire   string `json:"rwire"`    // the response datagram
	Rounds  []vround `json:"rounds,omitempty"`
	NSent   int    `json:"nsent"`
	NRecvd  int    `json:"nrecvd"`
	Ok      bool   `json:"ok"`      // the query parsed
	HasResp bool   `json:"hasresp"` // responseFor returned a message
	Flags   int    `json:"flags"`
	HasPay  bool   `json:"haspay"` // responseFor returned a payload
	Out     string `json:"out"`
	Ok2     bool   `json:"ok2"`
	Out2    string `json:"out2"`
	Err     string `json:"err"`
	Panic   string `json:"panic"`
	Items   []vres `json:"items,omitempty"`
	Ran     bool   `json:"ran"`
}

func domainOf(l []string) dns.Name {
	var dom dns.Name
	for _, s := range l {
		b, _ := hex.DecodeString(s)
		dom = append(dom, b)
	}
	return dom
}

func runCase(c vcase) (r vres) {
	defer func() {
		if p := recover(); p != nil {
			r.Panic = fmt.Sprint(p)
		}
	}()
	d, _ := hex.DecodeString(c.Data)
	switch c.Op {
	case "query": // wire query -> responseFor -> payload
		q, err := dns.MessageFromWireFormat(d)
		r.Ok = err == nil
		if err != nil {
			r.Err = err.Error()
			return
		}
		rs := &Responder{domain: domainOf(c.Domain), maxUDPPayload: 1280 - 40 - 8}
		resp, payload := rs.responseFor(&q, rs.domain)
		r.HasResp = resp != nil
		if resp != nil {
			r.Flags = int(resp.Flags)
		}
		r.HasPay = payload != nil
		r.Out = hex.EncodeToString(payload)
	case "exchange": // real requester <-> real responder over loopback UDP
		exchange(c, &r)
	case "burst": // k real requesters whose queries reach one real responder back to back
		burst(c, &r)
	case "exchange_seq": // one real requester, one real responder, k request/response exchanges in a row over loopback UDP
		exchangeSeq(c, &r)
	}
	return
}

func exchange(c vcase, r *vres) {
	payload, _ := hex.DecodeString(c.Data)
	answer, _ := hex.DecodeString(c.Resp)
	var labels []string
	for _, l := range domainOf(c.Domain) {
		labels = append(labels, string(l))
	}
	domain := strings.Join(labels, ".")
	priv, err := encryption.GeneratePrivkey()
	if err != nil {
		r.Err = "keygen: " + err.Error()
		return
	}
	rs, err := NewDnsResponder(domain, "127.0.0.1:0", priv)
	if err != nil {
		r.Err = "responder: " + err.Error()
		return
	}
	defer rs.Close()
	var mu sync.Mutex
	go func() {
		_ = rs.RecvAndRespond(func(p []byte) ([]byte, error) {
			mu.Lock()
			r.Seen = true
			r.SeenPay = hex.EncodeToString(p)
			mu.Unlock()
			return answer, nil
		})
	}()
	var rc *recConn
	cfg := &requester.Config{
		TransportMethod: requester.UDP,
		Target:          rs.transport.LocalAddr().String(),
		BaseDomain:      domain,
		Pubkey:          encryption.PubkeyFromPrivkey(priv),
		DialTransport: func(ctx context.Context, network, addr string) (net.Conn, error) {
			conn, err := (&net.Dialer{}).DialContext(ctx, network, addr)
			if err != nil {
				return nil, err
			}
			rc = &recConn{Conn: conn}
			return rc, nil
		},
	}
	rq, err := requester.NewRequester(cfg)
	if err != nil {
		r.Err = "requester: " + err.Error()
		return
	}
	type result struct {
		b   []byte
		err error
	}
	done := make(chan result, 1)
	go func() {
		b, err := rq.RequestAndRecv(payload)
		done <- result{b, err}
	}()
	select {
	case res := <-done:
		r.Ok2 = res.err == nil
		r.Out2 = hex.EncodeToString(res.b)
		if res.err != nil {
			r.Err = res.err.Error()
		}
	case <-time.After(20 * time.Second): // only a genuinely blocked call gets here; generous because checks run under load
		r.Timeout = true
	}
	mu.Lock()
	defer mu.Unlock()
	if rc != nil {
		rc.mu.Lock()
		r.NSent, r.NRecvd = len(rc.sent), len(rc.recvd)
		if len(rc.sent) > 0 {
			r.QWire = hex.EncodeToString(rc.sent[0])
		}
		if len(rc.recvd) > 0 {
			r.RWire = hex.EncodeToString(rc.recvd[0])
		}
		rc.mu.Unlock()
		_ = rq.Close()
	}
}


func exchangeSeq(c vcase, r *vres) {
	var labels []string
	for _, l := range domainOf(c.Domain) {
		labels = append(labels, string(l))
	}
	domain := strings.Join(labels, ".")
	priv, err := encryption.GeneratePrivkey()
	if err != nil {
		r.Err = "keygen: " + err.Error()
		return
	}
	rs, err := NewDnsResponder(domain, "127.0.0.1:0", priv)
	if err != nil {
		r.Err = "responder: " + err.Error()
		return
	}
	defer rs.Close()
	answers := map[string][]byte{}
	for _, it := range c.Items {
		a, _ := hex.DecodeString(it.Resp)
		answers[it.Data] = a
	}
	var mu sync.Mutex
	var seen []string
	go func() {
		_ = rs.RecvAndRespond(func(p []byte) ([]byte, error) {
			k := hex.EncodeToString(p)
			mu.Lock()
			seen = append(seen, k)
			mu.Unlock()
			return answers[k], nil
		})
	}()
	var rc *recConn
	rq, err := requester.NewRequester(&requester.Config{
		TransportMethod: requester.UDP,
		Target:          rs.transport.LocalAddr().String(),
		BaseDomain:      domain,
		Pubkey:          encryption.PubkeyFromPrivkey(priv),
		DialTransport: func(ctx context.Context, network, addr string) (net.Conn, error) {
			conn, err := (&net.Dialer{}).DialContext(ctx, network, addr)
			if err != nil {
				return nil, err
			}
			rc = &recConn{Conn: conn}
			return rc, nil
		},
	})
	if err != nil {
		r.Err = "requester: " + err.Error()
		return
	}
	counts := func() (int, int, int) {
		mu.Lock()
		ns := len(seen)
		mu.Unlock()
		if rc == nil {
			return 0, 0, ns
		}
		rc.mu.Lock()
		defer rc.mu.Unlock()
		return len(rc.sent), len(rc.recvd), ns
	}
	r.Items = make([]vres, len(c.Items))
	type result struct {
		b   []byte
		err error
	}
	for i, it := range c.Items {
		payload, _ := hex.DecodeString(it.Data)
		it0 := &r.Items[i]
		it0.Ran = true
		s0, v0, n0 := counts()
		done := make(chan result, 1)
		go func() {
			b, err := rq.RequestAndRecv(payload)
			done <- result{b, err}
		}()
		select {
		case res := <-done:
			it0.Ok2 = res.err == nil
			it0.Out2 = hex.EncodeToString(res.b)
			if res.err != nil {
				it0.Err = res.err.Error()
			}
		case <-time.After(20 * time.Second):
			it0.Timeout = true
		}
		s1, v1, n1 := counts()
		it0.NSent, it0.NRecvd = s1-s0, v1-v0
		if rc != nil {
			rc.mu.Lock()
			if s1 > s0 {
				it0.QWire = hex.EncodeToString(rc.sent[s0])
			}
			if v1 > v0 {
				it0.RWire = hex.EncodeToString(rc.recvd[v0])
			}
			rc.mu.Unlock()
		}
		mu.Lock()
		if n1 > n0 {
			it0.Seen, it0.SeenPay = true, seen[n0]
		}
		mu.Unlock()
		if it0.Timeout {
			break // the blocked call still owns the transport: the sequence ends here
		}
	}
	if rc != nil {
		_ = rq.Close()
	}
	r.Ok = true
}

func TestVerifC15Responder(t *testing.T) {
	raw, err := os.ReadFile(os.Getenv("VERIF_CASES"))
	if err != nil {
		t.Skip("no cases")
	}
	var cases []vcase
	if err := json.Unmarshal(raw, &cases); err != nil {
		t.Fatal(err)
	}
	res := make([]vres, len(cases))
	var wg sync.WaitGroup
	sem := make(chan struct{}, 16)
	for i, c := range cases {
		if c.Op == "burst" {
			continue
		}
		if c.Op != "exchange" && c.Op != "exchange_seq" {
			res[i] = runCase(c)
			continue
		}
		wg.Add(1)
		sem <- struct{}{}
		go func(i int, c vcase) {
			defer wg.Done()
			res[i] = runCase(c)
			<-sem
		}(i, c)
	}
	wg.Wait()
	for i, c := range cases { // the burst lane changes GOMAXPROCS: on its own, after everything else
		if c.Op == "burst" {
			res[i] = runCase(c)
		}
	}
	out, _ := json.Marshal(res)
	if err := os.WriteFile(os.Getenv("VERIF_OUT"), out, 0o644); err != nil {
		t.Fatal(err)
	}
}
