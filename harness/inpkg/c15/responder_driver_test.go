package responder

// Correspondence driver for C15 (responder side: query name -> payload; the
// loopback exchange).  Reads cases, records what the implementation does; no
// assertions about conjure.

import (
	"context"
	"encoding/hex"
	"encoding/json"
	"fmt"
	"net"
	"os"
	"strings"
	"sync"
	"testing"
	"time"

	"github.com/refraction-networking/conjure/pkg/registrars/dns-registrar/dns"
	"github.com/refraction-networking/conjure/pkg/registrars/dns-registrar/encryption"
	"github.com/refraction-networking/conjure/pkg/registrars/dns-registrar/requester"
)

type vcase struct {
	Op     string   `json:"op"`
	Data   string   `json:"data"`
	Domain []string `json:"domain"`
	Resp   string   `json:"resp"`
}
// recConn records the datagrams that cross the requester's UDP socket.
type recConn struct {
	net.Conn
	mu    sync.Mutex
	sent  [][]byte
	recvd [][]byte
}

func (c *recConn) Write(b []byte) (int, error) {
	c.mu.Lock()
	c.sent = append(c.sent, append([]byte{}, b...))
	c.mu.Unlock()
	return c.Conn.Write(b)
}
func (c *recConn) Read(b []byte) (int, error) {
	n, err := c.Conn.Read(b)
	if err == nil {
		c.mu.Lock()
		c.recvd = append(c.recvd, append([]byte{}, b[:n]...))
		c.mu.Unlock()
	}
	return n, err
}

type vres struct {
	Timeout bool   `json:"timeout"`
	Seen    bool   `json:"seen"`     // the responder's callback ran
	SeenPay string `json:"seenpay"`  // what it was given
	QWire   string `json:"qwire"`    // the query datagram
	RWire   string `json:"rwire"`    // the response datagram
	NSent   int    `json:"nsent"`
	NRecvd  int    `json:"nrecvd"`
	Ok      bool   `json:"ok"`      // the query parsed
	HasResp bool   `json:"hasresp"` // responseFor returned a message
	Flags   int    `json:"flags"`
	HasPay  bool   `json:"haspay"` // responseFor returned a payload
	Out     string `json:"out"`
	Ok2     bool   `json:"ok2"`
	Out2    string `json:"out2"`
	Err     string `json:"err"`
	Panic   string `json:"panic"`
}

func domainOf(l []string) dns.Name {
	var dom dns.Name
	for _, s := range l {
		b, _ := hex.DecodeString(s)
		dom = append(dom, b)
	}
	return dom
}

func runCase(c vcase) (r vres) {
	defer func() {
		if p := recover(); p != nil {
			r.Panic = fmt.Sprint(p)
		}
	}()
	d, _ := hex.DecodeString(c.Data)
	switch c.Op {
	case "query": // wire query -> responseFor -> payload
		q, err := dns.MessageFromWireFormat(d)
		r.Ok = err == nil
		if err != nil {
			r.Err = err.Error()
			return
		}
		rs := &Responder{domain: domainOf(c.Domain), maxUDPPayload: 1280 - 40 - 8}
		resp, payload := rs.responseFor(&q, rs.domain)
		r.HasResp = resp != nil
		if resp != nil {
			r.Flags = int(resp.Flags)
		}
		r.HasPay = payload != nil
		r.Out = hex.EncodeToString(payload)
	case "exchange": // real requester <-> real responder over loopback UDP
		exchange(c, &r)
	}
	return
}

func exchange(c vcase, r *vres) {
	payload, _ := hex.DecodeString(c.Data)
	answer, _ := hex.DecodeString(c.Resp)
	var labels []string
	for _, l := range domainOf(c.Domain) {
		labels = append(labels, string(l))
	}
	domain := strings.Join(labels, ".")
	priv, err := encryption.GeneratePrivkey()
	if err != nil {
		r.Err = "keygen: " + err.Error()
		return
	}
	rs, err := NewDnsResponder(domain, "127.0.0.1:0", priv)
	if err != nil {
		r.Err = "responder: " + err.Error()
		return
	}
	defer rs.Close()
	var mu sync.Mutex
	go func() {
		_ = rs.RecvAndRespond(func(p []byte) ([]byte, error) {
			mu.Lock()
			r.Seen = true
			r.SeenPay = hex.EncodeToString(p)
			mu.Unlock()
			return answer, nil
		})
	}()
	var rc *recConn
	cfg := &requester.Config{
		TransportMethod: requester.UDP,
		Target:          rs.transport.LocalAddr().String(),
		BaseDomain:      domain,
		Pubkey:          encryption.PubkeyFromPrivkey(priv),
		DialTransport: func(ctx context.Context, network, addr string) (net.Conn, error) {
			conn, err := (&net.Dialer{}).DialContext(ctx, network, addr)
			if err != nil {
				return nil, err
			}
			rc = &recConn{Conn: conn}
			return rc, nil
		},
	}
	rq, err := requester.NewRequester(cfg)
	if err != nil {
		r.Err = "requester: " + err.Error()
		return
	}
	type result struct {
		b   []byte
		err error
	}
	done := make(chan result, 1)
	go func() {
		b, err := rq.RequestAndRecv(payload)
		done <- result{b, err}
	}()
	select {
	case res := <-done:
		r.Ok2 = res.err == nil
		r.Out2 = hex.EncodeToString(res.b)
		if res.err != nil {
			r.Err = res.err.Error()
		}
	case <-time.After(20 * time.Second): // only a genuinely blocked call gets here; generous because checks run under load
		r.Timeout = true
	}
	mu.Lock()
	defer mu.Unlock()
	if rc != nil {
		rc.mu.Lock()
		r.NSent, r.NRecvd = len(rc.sent), len(rc.recvd)
		if len(rc.sent) > 0 {
			r.QWire = hex.EncodeToString(rc.sent[0])
		}
		if len(rc.recvd) > 0 {
			r.RWire = hex.EncodeToString(rc.recvd[0])
		}
		rc.mu.Unlock()
		_ = rq.Close()
	}
}

func TestVerifC15Responder(t *testing.T) {
	raw, err := os.ReadFile(os.Getenv("VERIF_CASES"))
	if err != nil {
		t.Skip("no cases")
	}
	var cases []vcase
	if err := json.Unmarshal(raw, &cases); err != nil {
		t.Fatal(err)
	}
	res := make([]vres, len(cases))
	var wg sync.WaitGroup
	sem := make(chan struct{}, 16)
	for i, c := range cases {
		if c.Op != "exchange" {
			res[i] = runCase(c)
			continue
		}
		wg.Add(1)
		sem <- struct{}{}
		go func(i int, c vcase) {
			defer wg.Done()
			res[i] = runCase(c)
			<-sem
		}(i, c)
	}
	wg.Wait()
	out, _ := json.Marshal(res)
	if err := os.WriteFile(os.Getenv("VERIF_OUT"), out, 0o644); err != nil {
		t.Fatal(err)
	}
}
