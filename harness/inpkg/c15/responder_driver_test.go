package responder

// Correspondence driver for C15 (responder side: query name -> payload; the
// loopback exchange).  Reads cases, records what the implementation does; no
// assertions about conjure.

import (
	"encoding/hex"
	"encoding/json"
	"fmt"
	"os"
	"testing"

	"github.com/refraction-networking/conjure/pkg/registrars/dns-registrar/dns"
)

type vcase struct {
	Op     string   `json:"op"`
	Data   string   `json:"data"`
	Domain []string `json:"domain"`
	Resp   string   `json:"resp"`
}
type vres struct {
	Ok      bool   `json:"ok"`      // the query parsed
	HasResp bool   `json:"hasresp"` // responseFor returned a message
	Flags   int    `json:"flags"`
	HasPay  bool   `json:"haspay"` // responseFor returned a payload
	Out     string `json:"out"`
	Ok2     bool   `json:"ok2"`
	Out2    string `json:"out2"`
	Err     string `json:"err"`
	Panic   string `json:"panic"`
}

func domainOf(l []string) dns.Name {
	var dom dns.Name
	for _, s := range l {
		b, _ := hex.DecodeString(s)
		dom = append(dom, b)
	}
	return dom
}

func runCase(c vcase) (r vres) {
	defer func() {
		if p := recover(); p != nil {
			r.Panic = fmt.Sprint(p)
		}
	}()
	d, _ := hex.DecodeString(c.Data)
	switch c.Op {
	case "query": // wire query -> responseFor -> payload
		q, err := dns.MessageFromWireFormat(d)
		r.Ok = err == nil
		if err != nil {
			r.Err = err.Error()
			return
		}
		rs := &Responder{domain: domainOf(c.Domain), maxUDPPayload: 1280 - 40 - 8}
		resp, payload := rs.responseFor(&q, rs.domain)
		r.HasResp = resp != nil
		if resp != nil {
			r.Flags = int(resp.Flags)
		}
		r.HasPay = payload != nil
		r.Out = hex.EncodeToString(payload)
	}
	return
}

func TestVerifC15Responder(t *testing.T) {
	raw, err := os.ReadFile(os.Getenv("VERIF_CASES"))
	if err != nil {
		t.Skip("no cases")
	}
	var cases []vcase
	if err := json.Unmarshal(raw, &cases); err != nil {
		t.Fatal(err)
	}
	res := make([]vres, len(cases))
	for i, c := range cases {
		res[i] = runCase(c)
	}
	out, _ := json.Marshal(res)
	if err := os.WriteFile(os.Getenv("VERIF_OUT"), out, 0o644); err != nil {
		t.Fatal(err)
	}
}
