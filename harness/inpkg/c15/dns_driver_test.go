package dns

// Correspondence driver for C15 (TXT RDATA, names, DNS messages).  Reads cases,
// records what the implementation does; contains no assertions about conjure.

import (
	"bytes"
	"encoding/hex"
	"encoding/json"
	"errors"
	"fmt"
	"io"
	"os"
	"testing"
)

type vq struct {
	Name  []string `json:"name"`
	Type  uint16   `json:"type"`
	Class uint16   `json:"class"`
}
type vrr struct {
	Name  []string `json:"name"`
	Type  uint16   `json:"type"`
	Class uint16   `json:"class"`
	TTL   uint32   `json:"ttl"`
	Data  string   `json:"data"`
	// DataGen > 0: Data is produced by the shared LCG (seed DataSeed, DataGen bytes)
	DataSeed uint32 `json:"dseed"`
	DataGen  int    `json:"dgen"`
}
type vmsg struct {
	ID    uint16 `json:"id"`
	Flags uint16 `json:"flags"`
	Q     []vq   `json:"q"`
	An    []vrr  `json:"an"`
	Ns    []vrr  `json:"ns"`
	Ar    []vrr  `json:"ar"`
}

type vcase struct {
	Op     string   `json:"op"`
	Data   string   `json:"data"`
	Labels []string `json:"labels"`
	Suffix []string `json:"suffix"`
	Pos    int      `json:"pos"`
	Msg    *vmsg    `json:"msg"`
}
type vres struct {
	Ok     bool     `json:"ok"`
	Out    string   `json:"out"`
	Ok2    bool     `json:"ok2"`
	Out2   string   `json:"out2"`
	Err    string   `json:"err"`
	Err2   string   `json:"err2"`
	Labels []string `json:"labels"`
	Pos    int      `json:"pos"`
	Msg    *vmsg    `json:"msg"`
	Panic  string   `json:"panic"`
}

func errClass(err error) string {
	switch {
	case err == nil:
		return ""
	case errors.Is(err, ErrZeroLengthLabel):
		return "zero"
	case errors.Is(err, ErrLabelTooLong):
		return "labellong"
	case errors.Is(err, ErrNameTooLong):
		return "namelong"
	case errors.Is(err, ErrReservedLabelType):
		return "reserved"
	case errors.Is(err, ErrTooManyPointers):
		return "ptrs"
	case errors.Is(err, ErrTrailingBytes):
		return "trailing"
	case errors.Is(err, ErrIntegerOverflow):
		return "overflow"
	case errors.Is(err, io.EOF), errors.Is(err, io.ErrUnexpectedEOF):
		return "eof"
	}
	return "other:" + err.Error()
}

func unhexAll(l []string) [][]byte {
	out := make([][]byte, len(l))
	for i, s := range l {
		out[i], _ = hex.DecodeString(s)
	}
	return out
}
func hexAll(n Name) []string {
	out := make([]string, len(n))
	for i, l := range n {
		out[i] = hex.EncodeToString(l)
	}
	return out
}

func lcg(seed uint32, n int) []byte {
	x := uint64(seed)
	out := make([]byte, n)
	for i := range out {
		x = (x*1103515245 + 12345) % 2147483648
		out[i] = byte((x / 65536) % 256)
	}
	return out
}

func toRRs(l []vrr) []RR {
	var out []RR
	for _, r := range l {
		var d []byte
		if r.DataGen > 0 {
			d = lcg(r.DataSeed, r.DataGen)
		} else {
			d, _ = hex.DecodeString(r.Data)
		}
		out = append(out, RR{Name: Name(unhexAll(r.Name)), Type: r.Type, Class: r.Class, TTL: r.TTL, Data: d})
	}
	return out
}
func fromRRs(l []RR) []vrr {
	out := []vrr{}
	for _, r := range l {
		out = append(out, vrr{Name: hexAll(r.Name), Type: r.Type, Class: r.Class, TTL: r.TTL, Data: hex.EncodeToString(r.Data)})
	}
	return out
}
func toMsg(m *vmsg) *Message {
	out := &Message{ID: m.ID, Flags: m.Flags}
	for _, q := range m.Q {
		out.Question = append(out.Question, Question{Name: Name(unhexAll(q.Name)), Type: q.Type, Class: q.Class})
	}
	out.Answer, out.Authority, out.Additional = toRRs(m.An), toRRs(m.Ns), toRRs(m.Ar)
	return out
}
func fromMsg(m *Message) *vmsg {
	out := &vmsg{ID: m.ID, Flags: m.Flags, Q: []vq{}}
	for _, q := range m.Question {
		out.Q = append(out.Q, vq{Name: hexAll(q.Name), Type: q.Type, Class: q.Class})
	}
	out.An, out.Ns, out.Ar = fromRRs(m.Answer), fromRRs(m.Authority), fromRRs(m.Additional)
	return out
}

func runCase(c vcase) (r vres) {
	defer func() {
		if p := recover(); p != nil {
			r.Panic = fmt.Sprint(p)
		}
	}()
	d, _ := hex.DecodeString(c.Data)
	switch c.Op {
	case "rt_txt":
		e := EncodeRDataTXT(d)
		r.Ok = true
		r.Out = hex.EncodeToString(e)
		p, err2 := DecodeRDataTXT(e)
		r.Ok2 = err2 == nil
		r.Out2 = hex.EncodeToString(p)
	case "dec_txt":
		p, err := DecodeRDataTXT(d)
		r.Ok = err == nil
		r.Out = hex.EncodeToString(p)
	case "name_rt": // NewName; fresh builder WriteName; readName
		n, err := NewName(unhexAll(c.Labels))
		r.Ok, r.Err = err == nil, errClass(err)
		if err != nil {
			return
		}
		b := newMessageBuilder()
		if err := b.WriteName(n); err != nil {
			r.Err = "write:" + err.Error()
			return
		}
		r.Out = hex.EncodeToString(b.Bytes())
		rd := bytes.NewReader(b.Bytes())
		n2, err2 := readName(rd)
		r.Ok2, r.Err2 = err2 == nil, errClass(err2)
		if err2 == nil {
			r.Labels = hexAll(n2)
			p, _ := rd.Seek(0, io.SeekCurrent)
			r.Pos = int(p)
		}
	case "read_name": // readName at an offset of arbitrary bytes
		rd := bytes.NewReader(d)
		_, _ = rd.Seek(int64(c.Pos), io.SeekStart)
		n, err := readName(rd)
		r.Ok, r.Err = err == nil, errClass(err)
		if err == nil {
			r.Labels = hexAll(n)
			p, _ := rd.Seek(0, io.SeekCurrent)
			r.Pos = int(p)
		}
	case "name_string":
		r.Ok = true
		r.Out = hex.EncodeToString([]byte(Name(unhexAll(c.Labels)).String()))
	case "trim":
		pre, ok := Name(unhexAll(c.Labels)).TrimSuffix(Name(unhexAll(c.Suffix)))
		r.Ok = ok
		r.Labels = hexAll(pre)
	case "msg_rt": // WireFormat, then MessageFromWireFormat of the result
		m := toMsg(c.Msg)
		e, err := m.WireFormat()
		r.Ok, r.Err = err == nil, errClass(err)
		if err != nil {
			return
		}
		r.Out = hex.EncodeToString(e)
		m2, err2 := MessageFromWireFormat(e)
		r.Ok2, r.Err2 = err2 == nil, errClass(err2)
		if err2 == nil {
			r.Msg = fromMsg(&m2)
		}
	case "msg_dec":
		m, err := MessageFromWireFormat(d)
		r.Ok, r.Err = err == nil, errClass(err)
		if err == nil {
			r.Msg = fromMsg(&m)
		}
	}
	return
}

func TestVerifC15Dns(t *testing.T) {
	raw, err := os.ReadFile(os.Getenv("VERIF_CASES"))
	if err != nil {
		t.Skip("no cases")
	}
	var cases []vcase
	if err := json.Unmarshal(raw, &cases); err != nil {
		t.Fatal(err)
	}
	res := make([]vres, len(cases))
	for i, c := range cases {
		res[i] = runCase(c)
	}
	out, _ := json.Marshal(res)
	if err := os.WriteFile(os.Getenv("VERIF_OUT"), out, 0o644); err != nil {
		t.Fatal(err)
	}
}
