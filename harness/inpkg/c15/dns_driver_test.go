package dns

// Correspondence driver for C15 (TXT RDATA, names, DNS messages).  Reads cases,
// records what the implementation does; contains no assertions about conjure.

import (
	"bytes"
	"encoding/hex"
	"encoding/json"
	"errors"
	"fmt"
	"io"
	"os"
	"runtime"
	"sync"
	"testing"
)

type vq struct {
	Name  []string `json:"name"`
	Type  uint16   `json:"type"`
	Class uint16   `json:"class"`
}
type vrr struct {
	Name  []string `json:"name"`
	Type  uint16   `json:"type"`
	Class uint16   `json:"class"`
	TTL   uint32   `json:"ttl"`
	Data  string   `json:"data"`
	// DataGen > 0: Data is produced by the shared LCG (seed DataSeed, DataGen bytes)
	DataSeed uint32 `json:"dseed"`
	DataGen  int    `json:"dgen"`
}
type vmsg struct {
	ID    uint16 `json:"id"`
	Flags uint16 `json:"flags"`
	Q     []vq   `json:"q"`
	An    []vrr  `json:"an"`
	Ns    []vrr  `json:"ns"`
	Ar    []vrr  `json:"ar"`
}

type vcase struct {
	Op     string   `json:"op"`
	Data   string   `json:"data"`
	Labels []string `json:"labels"`
	Suffix []string `json:"suffix"`
	Pos    int      `json:"pos"`
	Msg    *vmsg    `json:"msg"`
	// batch mode: the whole list goes through the encoder first and every result is kept by the caller
	Items  []vcase `json:"items"`
	Conc   int     `json:"conc"`   // > 1: that many concurrent callers (item i belongs to caller i mod conc)
	Procs  int     `json:"procs"`  // GOMAXPROCS while the concurrent callers run (0 = unchanged)
	Shared bool    `json:"shared"` // the caller reuses ONE input buffer for every call (sequential only)
}
type vres struct {
	Ok     bool     `json:"ok"`
	Out    string   `json:"out"`
	Ok2    bool     `json:"ok2"`
	Out2   string   `json:"out2"`
	Err    string   `json:"err"`
	Err2   string   `json:"err2"`
	Labels []string `json:"labels"`
	Pos    int      `json:"pos"`
	Msg    *vmsg    `json:"msg"`
	Panic  string   `json:"panic"`
	// batch mode
	Items     []vres `json:"items,omitempty"`
	Snap      string `json:"snap"`      // the encoding as it was right after its own call (the driver's copy)
	DecStable bool   `json:"decstable"` // the decoded value still looks as it did right after its own decode call
	Alias     bool   `json:"alias"`     // informational: the decoded value changed when the decoder's input was overwritten afterwards
}

func errClass(err error) string {
	switch {
	case err == nil:
		return ""
	case errors.Is(err, ErrZeroLengthLabel):
		return "zero"
	case errors.Is(err, ErrLabelTooLong):
		return "labellong"
	case errors.Is(err, ErrNameTooLong):
		return "namelong"
	case errors.Is(err, ErrReservedLabelType):
		return "reserved"
	case errors.Is(err, ErrTooManyPointers):
		return "ptrs"
	case errors.Is(err, ErrTrailingBytes):
		return "trailing"
	case errors.Is(err, ErrIntegerOverflow):
		return "overflow"
	case errors.Is(err, io.EOF), errors.Is(err, io.ErrUnexpectedEOF):
		return "eof"
	}
	return "other:" + err.Error()
}

func unhexAll(l []string) [][]byte {
	out := make([][]byte, len(l))
	for i, s := range l {
		out[i], _ = hex.DecodeString(s)
	}
	return out
}
func hexAll(n Name) []string {
	out := make([]string, len(n))
	for i, l := range n {
		out[i] = hex.EncodeToString(l)
	}
	return out
}

func lcg(seed uint32, n int) []byte {
	x := uint64(seed)
	out := make([]byte, n)
	for i := range out {
		x = (x*1103515245 + 12345) % 2147483648
		out[i] = byte((x / 65536) % 256)
	}
	return out
}

func toRRs(l []vrr) []RR {
	var out []RR
	for _, r := range l {
		var d []byte
		if r.DataGen > 0 {
			d = lcg(r.DataSeed, r.DataGen)
		} else {
			d, _ = hex.DecodeString(r.Data)
		}
		out = append(out, RR{Name: Name(unhexAll(r.Name)), Type: r.Type, Class: r.Class, TTL: r.TTL, Data: d})
	}
	return out
}
func fromRRs(l []RR) []vrr {
	out := []vrr{}
	for _, r := range l {
		out = append(out, vrr{Name: hexAll(r.Name), Type: r.Type, Class: r.Class, TTL: r.TTL, Data: hex.EncodeToString(r.Data)})
	}
	return out
}
func toMsg(m *vmsg) *Message {
	out := &Message{ID: m.ID, Flags: m.Flags}
	for _, q := range m.Q {
		out.Question = append(out.Question, Question{Name: Name(unhexAll(q.Name)), Type: q.Type, Class: q.Class})
	}
	out.Answer, out.Authority, out.Additional = toRRs(m.An), toRRs(m.Ns), toRRs(m.Ar)
	return out
}
func fromMsg(m *Message) *vmsg {
	out := &vmsg{ID: m.ID, Flags: m.Flags, Q: []vq{}}
	for _, q := range m.Question {
		out.Q = append(out.Q, vq{Name: hexAll(q.Name), Type: q.Type, Class: q.Class})
	}
	out.An, out.Ns, out.Ar = fromRRs(m.Answer), fromRRs(m.Authority), fromRRs(m.Additional)
	return out
}


// ---- batch mode ----
// k calls of one encoder whose results are ALL kept by the caller (not copied: the point is to observe what the
// caller holds), then k calls of the decoder on what is held, all decoded values kept as well, and only then is
// anything looked at.  The driver records; the oracle is in c15.py.

func runCalls(n, conc, procs int, call func(i int)) {
	if conc <= 1 {
		for i := 0; i < n; i++ {
			call(i)
		}
		return
	}
	if procs > 0 {
		prev := runtime.GOMAXPROCS(procs)
		defer runtime.GOMAXPROCS(prev)
	}
	var wg sync.WaitGroup
	for w := 0; w < conc; w++ {
		wg.Add(1)
		go func(w int) {
			defer wg.Done()
			for i := w; i < n; i += conc {
				call(i)
				runtime.Gosched()
			}
		}(w)
	}
	wg.Wait()
}

func guard(r *vres, f func()) {
	defer func() {
		if p := recover(); p != nil {
			r.Panic = fmt.Sprint(p)
		}
	}()
	f()
}

// enc(i) -> the bytes the caller holds; dec(i, held) -> a value the caller holds; view(i, value, r) writes the
// value's projection into r.  afterEnc runs when the last encoder call has returned.
func runBatch(c vcase, afterEnc func(), enc func(i int) ([]byte, error), dec func(i int, b []byte) (interface{}, error),
	view func(i int, v interface{}, r *vres)) []vres {
	n := len(c.Items)
	res := make([]vres, n)
	held := make([][]byte, n)
	snaps := make([][]byte, n)
	runCalls(n, c.Conc, c.Procs, func(i int) {
		guard(&res[i], func() {
			out, err := enc(i)
			held[i] = out
			res[i].Ok, res[i].Err = err == nil, errClass(err)
			snaps[i] = append([]byte(nil), out...)
		})
	})
	afterEnc()
	for i := range res { // what the caller holds after the LAST call
		res[i].Snap = hex.EncodeToString(snaps[i])
		res[i].Out = hex.EncodeToString(held[i])
	}
	vals := make([]interface{}, n)
	decSnap := make([]string, n)
	project := func(i int) string {
		var tmp vres
		guard(&tmp, func() { view(i, vals[i], &tmp) })
		b, _ := json.Marshal(tmp)
		return string(b)
	}
	for i := range res {
		if !res[i].Ok || res[i].Panic != "" {
			continue
		}
		guard(&res[i], func() {
			v, err := dec(i, held[i])
			vals[i] = v
			res[i].Ok2, res[i].Err2 = err == nil, errClass(err)
		})
		if res[i].Ok2 {
			decSnap[i] = project(i)
		}
	}
	for i := range res {
		if res[i].Ok2 {
			guard(&res[i], func() { view(i, vals[i], &res[i]) })
			res[i].DecStable = project(i) == decSnap[i]
		}
	}
	// informational: does the decoded value share storage with the decoder's input?
	for i := range res {
		if res[i].Ok2 {
			for j := range held[i] {
				held[i][j] ^= 0x5a
			}
			res[i].Alias = project(i) != decSnap[i]
		}
	}
	return res
}

// the inputs of a batch and the buffer each call is given: its own, or (shared) ONE buffer the caller reuses
func batchInputs(c vcase) (data [][]byte, input func(i int) []byte, afterEnc func()) {
	n := len(c.Items)
	data = make([][]byte, n)
	maxLen := 0
	for i, it := range c.Items {
		data[i], _ = hex.DecodeString(it.Data)
		if data[i] == nil {
			data[i] = []byte{}
		}
		if len(data[i]) > maxLen {
			maxLen = len(data[i])
		}
	}
	shared := make([]byte, maxLen)
	input = func(i int) []byte {
		if !c.Shared || c.Conc > 1 {
			return data[i]
		}
		in := shared[:len(data[i])]
		copy(in, data[i])
		return in
	}
	afterEnc = func() { // the caller goes on using its input buffer
		for j := range shared {
			shared[j] = 0xa5
		}
	}
	return
}

func bytesView(i int, v interface{}, r *vres) {
	b, _ := v.([]byte)
	r.Out2 = hex.EncodeToString(b)
}

type readBack struct {
	n   Name
	pos int
}

func batch(c vcase, r *vres) {
	if len(c.Items) == 0 {
		return
	}
	_, input, afterEnc := batchInputs(c)
	switch c.Items[0].Op {
	case "rt_txt":
		r.Items = runBatch(c, afterEnc,
			func(i int) ([]byte, error) { return EncodeRDataTXT(input(i)), nil },
			func(i int, b []byte) (interface{}, error) { return DecodeRDataTXT(b) }, bytesView)
	case "dec_txt": // decoder alone: every decoded value is kept until all inputs are decoded
		r.Items = runBatch(c, afterEnc,
			func(i int) ([]byte, error) { return input(i), nil },
			func(i int, b []byte) (interface{}, error) { return DecodeRDataTXT(b) }, bytesView)
	case "name_rt": // NewName; a fresh builder per name; readName on what the builder returned
		r.Items = runBatch(c, afterEnc,
			func(i int) ([]byte, error) {
				n, err := NewName(unhexAll(c.Items[i].Labels))
				if err != nil {
					return nil, err
				}
				b := newMessageBuilder()
				if err := b.WriteName(n); err != nil {
					return nil, err
				}
				return b.Bytes(), nil
			},
			func(i int, b []byte) (interface{}, error) {
				rd := bytes.NewReader(b)
				n, err := readName(rd)
				p, _ := rd.Seek(0, io.SeekCurrent)
				return readBack{n, int(p)}, err
			},
			func(i int, v interface{}, r *vres) {
				rb := v.(readBack)
				r.Labels, r.Pos = hexAll(rb.n), rb.pos
			})
	case "msg_rt":
		r.Items = runBatch(c, afterEnc,
			func(i int) ([]byte, error) { return toMsg(c.Items[i].Msg).WireFormat() },
			func(i int, b []byte) (interface{}, error) {
				m, err := MessageFromWireFormat(b)
				return &m, err
			},
			func(i int, v interface{}, r *vres) { r.Msg = fromMsg(v.(*Message)) })
	case "msg_dec":
		r.Items = runBatch(c, afterEnc,
			func(i int) ([]byte, error) { return input(i), nil },
			func(i int, b []byte) (interface{}, error) {
				m, err := MessageFromWireFormat(b)
				return &m, err
			},
			func(i int, v interface{}, r *vres) { r.Msg = fromMsg(v.(*Message)) })
	}
	r.Ok = true
}

func runCase(c vcase) (r vres) {
	defer func() {
		if p := recover(); p != nil {
			r.Panic = fmt.Sprint(p)
		}
	}()
	d, _ := hex.DecodeString(c.Data)
	switch c.Op {
	case "batch":
		batch(c, &r)
	case "rt_txt":
		e := EncodeRDataTXT(d)
		r.Ok = true
		r.Out = hex.EncodeToString(e)
		p, err2 := DecodeRDataTXT(e)
		r.Ok2 = err2 == nil
		r.Out2 = hex.EncodeToString(p)
	case "dec_txt":
		p, err := DecodeRDataTXT(d)
		r.Ok = err == nil
		r.Out = hex.EncodeToString(p)
	case "name_rt": // NewName; fresh builder WriteName; readName
		n, err := NewName(unhexAll(c.Labels))
		r.Ok, r.Err = err == nil, errClass(err)
		if err != nil {
			return
		}
		b := newMessageBuilder()
		if err := b.WriteName(n); err != nil {
			r.Err = "write:" + err.Error()
			return
		}
		r.Out = hex.EncodeToString(b.Bytes())
		rd := bytes.NewReader(b.Bytes())
		n2, err2 := readName(rd)
		r.Ok2, r.Err2 = err2 == nil, errClass(err2)
		if err2 == nil {
			r.Labels = hexAll(n2)
			p, _ := rd.Seek(0, io.SeekCurrent)
			r.Pos = int(p)
		}
	case "read_name": // readName at an offset of arbitrary bytes
		rd := bytes.NewReader(d)
		_, _ = rd.Seek(int64(c.Pos), io.SeekStart)
		n, err := readName(rd)
		r.Ok, r.Err = err == nil, errClass(err)
		if err == nil {
			r.Labels = hexAll(n)
			p, _ := rd.Seek(0, io.SeekCurrent)
			r.Pos = int(p)
		}
	case "name_string":
		r.Ok = true
		r.Out = hex.EncodeToString([]byte(Name(unhexAll(c.Labels)).String()))
	case "trim":
		pre, ok := Name(unhexAll(c.Labels)).TrimSuffix(Name(unhexAll(c.Suffix)))
		r.Ok = ok
		r.Labels = hexAll(pre)
	case "msg_rt": // WireFormat, then MessageFromWireFormat of the result
		m := toMsg(c.Msg)
		e, err := m.WireFormat()
		r.Ok, r.Err = err == nil, errClass(err)
		if err != nil {
			return
		}
		r.Out = hex.EncodeToString(e)
		m2, err2 := MessageFromWireFormat(e)
		r.Ok2, r.Err2 = err2 == nil, errClass(err2)
		if err2 == nil {
			r.Msg = fromMsg(&m2)
		}
	case "msg_dec":
		m, err := MessageFromWireFormat(d)
		r.Ok, r.Err = err == nil, errClass(err)
		if err == nil {
			r.Msg = fromMsg(&m)
		}
	}
	return
}

func TestVerifC15Dns(t *testing.T) {
	raw, err := os.ReadFile(os.Getenv("VERIF_CASES"))
	if err != nil {
		t.Skip("no cases")
	}
	var cases []vcase
	if err := json.Unmarshal(raw, &cases); err != nil {
		t.Fatal(err)
	}
	res := make([]vres, len(cases))
	for i, c := range cases {
		res[i] = runCase(c)
	}
	out, _ := json.Marshal(res)
	if err := os.WriteFile(os.Getenv("VERIF_OUT"), out, 0o644); err != nil {
		t.Fatal(err)
	}
}
