package msgformat

// Correspondence driver for C15 (length framing). Reads cases, records what the
// implementation does; contains no assertions about conjure.

import (
	"encoding/hex"
	"encoding/json"
	"fmt"
	"os"
	"runtime"
	"sync"
	"testing"
)

type vcase struct {
	Op   string `json:"op"`
	Data string `json:"data"`
	// batch mode: the whole list goes through the encoder first and every result is kept by the caller
	Items  []vcase `json:"items"`
	Conc   int     `json:"conc"`   // > 1: that many concurrent callers (item i belongs to caller i mod conc)
	Procs  int     `json:"procs"`  // GOMAXPROCS while the concurrent callers run (0 = unchanged)
	Shared bool    `json:"shared"` // the caller reuses ONE input buffer for every call (sequential only)
}
type vres struct {
	Ok   bool   `json:"ok"`
	Out  string `json:"out"`
	Ok2  bool   `json:"ok2"`
	Out2 string `json:"out2"`
	Err  string `json:"err"`
	Err2 string `json:"err2"`
	// batch mode
	Items     []vres `json:"items,omitempty"`
	Panic     string `json:"panic"`
	Snap      string `json:"snap"`      // the encoding as it was right after its own call (the driver's copy)
	DecStable bool   `json:"decstable"` // the decoded value still looks as it did right after its own decode call
	Alias     bool   `json:"alias"`     // informational: the decoded value changed when the decoder's input was overwritten afterwards
}

func errStr(err error) string {
	if err == nil {
		return ""
	}
	return err.Error()
}

// ---- batch mode ----
// k calls of one encoder whose results are ALL kept by the caller (not copied: the point is to observe what the
// caller holds), then k calls of the decoder on what is held, all decoded values kept as well, and only then is
// anything looked at.  The driver records; the oracle is in c15.py.

func runCalls(n, conc, procs int, call func(i int)) {
	if conc <= 1 {
		for i := 0; i < n; i++ {
			call(i)
		}
		return
	}
	if procs > 0 {
		prev := runtime.GOMAXPROCS(procs)
		defer runtime.GOMAXPROCS(prev)
	}
	var wg sync.WaitGroup
	for w := 0; w < conc; w++ {
		wg.Add(1)
		go func(w int) {
			defer wg.Done()
			for i := w; i < n; i += conc {
				call(i)
				runtime.Gosched()
			}
		}(w)
	}
	wg.Wait()
}

func guard(r *vres, f func()) {
	defer func() {
		if p := recover(); p != nil {
			r.Panic = fmt.Sprint(p)
		}
	}()
	f()
}

// enc(i) -> the bytes the caller holds; dec(i, held) -> a value the caller holds; view(i, value, r) writes the
// value's projection into r.  afterEnc runs when the last encoder call has returned.
func runBatch(c vcase, afterEnc func(), enc func(i int) ([]byte, error), dec func(i int, b []byte) (interface{}, error),
	view func(i int, v interface{}, r *vres)) []vres {
	n := len(c.Items)
	res := make([]vres, n)
	held := make([][]byte, n)
	snaps := make([][]byte, n)
	runCalls(n, c.Conc, c.Procs, func(i int) {
		guard(&res[i], func() {
			out, err := enc(i)
			held[i] = out
			res[i].Ok, res[i].Err = err == nil, errStr(err)
			snaps[i] = append([]byte(nil), out...)
		})
	})
	afterEnc()
	for i := range res { // what the caller holds after the LAST call
		res[i].Snap = hex.EncodeToString(snaps[i])
		res[i].Out = hex.EncodeToString(held[i])
	}
	vals := make([]interface{}, n)
	decSnap := make([]string, n)
	project := func(i int) string {
		var tmp vres
		guard(&tmp, func() { view(i, vals[i], &tmp) })
		b, _ := json.Marshal(tmp)
		return string(b)
	}
	for i := range res {
		if !res[i].Ok || res[i].Panic != "" {
			continue
		}
		guard(&res[i], func() {
			v, err := dec(i, held[i])
			vals[i] = v
			res[i].Ok2, res[i].Err2 = err == nil, errStr(err)
		})
		if res[i].Ok2 {
			decSnap[i] = project(i)
		}
	}
	for i := range res {
		if res[i].Ok2 {
			guard(&res[i], func() { view(i, vals[i], &res[i]) })
			res[i].DecStable = project(i) == decSnap[i]
		}
	}
	// informational: does the decoded value share storage with the decoder's input?
	for i := range res {
		if res[i].Ok2 {
			for j := range held[i] {
				held[i][j] ^= 0x5a
			}
			res[i].Alias = project(i) != decSnap[i]
		}
	}
	return res
}

// the inputs of a batch and the buffer each call is given: its own, or (shared) ONE buffer the caller reuses
func batchInputs(c vcase) (data [][]byte, input func(i int) []byte, afterEnc func()) {
	n := len(c.Items)
	data = make([][]byte, n)
	maxLen := 0
	for i, it := range c.Items {
		data[i], _ = hex.DecodeString(it.Data)
		if data[i] == nil {
			data[i] = []byte{}
		}
		if len(data[i]) > maxLen {
			maxLen = len(data[i])
		}
	}
	shared := make([]byte, maxLen)
	input = func(i int) []byte {
		if !c.Shared || c.Conc > 1 {
			return data[i]
		}
		in := shared[:len(data[i])]
		copy(in, data[i])
		return in
	}
	afterEnc = func() { // the caller goes on using its input buffer
		for j := range shared {
			shared[j] = 0xa5
		}
	}
	return
}

func bytesView(i int, v interface{}, r *vres) {
	b, _ := v.([]byte)
	r.Out2 = hex.EncodeToString(b)
}

func batch(c vcase, r *vres) {
	if len(c.Items) == 0 {
		return
	}
	_, input, afterEnc := batchInputs(c)
	switch c.Items[0].Op {
	case "rt_req":
		r.Items = runBatch(c, afterEnc,
			func(i int) ([]byte, error) { return AddRequestFormat(input(i)) },
			func(i int, b []byte) (interface{}, error) { return RemoveRequestFormat(b) }, bytesView)
	case "rt_resp":
		r.Items = runBatch(c, afterEnc,
			func(i int) ([]byte, error) { return AddResponseFormat(input(i)) },
			func(i int, b []byte) (interface{}, error) { return RemoveResponseFormat(b) }, bytesView)
	}
	r.Ok = true
}

func TestVerifC15Msgformat(t *testing.T) {
	raw, err := os.ReadFile(os.Getenv("VERIF_CASES"))
	if err != nil {
		t.Skip("no cases")
	}
	var cases []vcase
	if err := json.Unmarshal(raw, &cases); err != nil {
		t.Fatal(err)
	}
	res := make([]vres, len(cases))
	for i, c := range cases {
		d, _ := hex.DecodeString(c.Data)
		var r vres
		switch c.Op {
		case "batch":
			batch(c, &r)
		case "rt_req": // encode, then decode the encoding
			e, err := AddRequestFormat(d)
			r.Ok = err == nil
			if err == nil {
				r.Out = hex.EncodeToString(e)
				p, err2 := RemoveRequestFormat(e)
				r.Ok2 = err2 == nil
				r.Out2 = hex.EncodeToString(p)
			}
		case "rt_resp":
			e, err := AddResponseFormat(d)
			r.Ok = err == nil
			if err == nil {
				r.Out = hex.EncodeToString(e)
				p, err2 := RemoveResponseFormat(e)
				r.Ok2 = err2 == nil
				r.Out2 = hex.EncodeToString(p)
			}
		case "rem_req":
			p, err := RemoveRequestFormat(d)
			r.Ok = err == nil
			r.Out = hex.EncodeToString(p)
		case "rem_resp":
			p, err := RemoveResponseFormat(d)
			r.Ok = err == nil
			r.Out = hex.EncodeToString(p)
		}
		res[i] = r
	}
	out, _ := json.Marshal(res)
	if err := os.WriteFile(os.Getenv("VERIF_OUT"), out, 0o644); err != nil {
		t.Fatal(err)
	}
}
