package msgformat

// Correspondence driver for C15 (length framing). Reads cases, records what the
// implementation does; contains no assertions about conjure.

import (
	"encoding/hex"
	"encoding/json"
	"os"
	"testing"
)

type vcase struct {
	Op   string `json:"op"`
	Data string `json:"data"`
}
type vres struct {
	Ok   bool   `json:"ok"`
	Out  string `json:"out"`
	Ok2  bool   `json:"ok2"`
	Out2 string `json:"out2"`
}

func TestVerifC15Msgformat(t *testing.T) {
	raw, err := os.ReadFile(os.Getenv("VERIF_CASES"))
	if err != nil {
		t.Skip("no cases")
	}
	var cases []vcase
	if err := json.Unmarshal(raw, &cases); err != nil {
		t.Fatal(err)
	}
	res := make([]vres, len(cases))
	for i, c := range cases {
		d, _ := hex.DecodeString(c.Data)
		var r vres
		switch c.Op {
		case "rt_req": // encode, then decode the encoding
			e, err := AddRequestFormat(d)
			r.Ok = err == nil
			if err == nil {
				r.Out = hex.EncodeToString(e)
				p, err2 := RemoveRequestFormat(e)
				r.Ok2 = err2 == nil
				r.Out2 = hex.EncodeToString(p)
			}
		case "rt_resp":
			e, err := AddResponseFormat(d)
			r.Ok = err == nil
			if err == nil {
				r.Out = hex.EncodeToString(e)
				p, err2 := RemoveResponseFormat(e)
				r.Ok2 = err2 == nil
				r.Out2 = hex.EncodeToString(p)
			}
		case "rem_req":
			p, err := RemoveRequestFormat(d)
			r.Ok = err == nil
			r.Out = hex.EncodeToString(p)
		case "rem_resp":
			p, err := RemoveResponseFormat(d)
			r.Ok = err == nil
			r.Out = hex.EncodeToString(p)
		}
		res[i] = r
	}
	out, _ := json.Marshal(res)
	if err := os.WriteFile(os.Getenv("VERIF_OUT"), out, 0o644); err != nil {
		t.Fatal(err)
	}
}
