//go:build verif

package lib

// C11 driver, statistics epoch, FORCED interleavings.  It is compiled together with a scratch copy of
// registration_stats.go in which the lock types are the instrumented ones of zz_verif_sync.go (overlay, see
// driver/props/c11.py).  Threads are real goroutines running the real worker body (parseRegMessage +
// ingestRegistration) and the real housekeeping (RegistrationManager.Reset / PrintAndReset); a cooperative
// scheduler lets exactly one of them run at a time and parks each one in front of every lock acquisition it makes
// while holding no instrumented lock.  One schedule step = one lock-protected region of the real code (plus the
// lock-free code behind it).  Records observations only: outcome (ok / panic / hang / leak), the number of
// regions every thread had, and the per-key counters that are left.

import (
	"fmt"
	"io"
	golog "log"
	"math/rand"
	"os"
	"runtime"
	"runtime/debug"
	"strconv"
	"strings"
	"sync"
	"testing"
	"time"

	"github.com/refraction-networking/conjure/pkg/transports/wrapping/prefix"
	pb "github.com/refraction-networking/conjure/proto"
)

type ssThread struct {
	Kind string   `json:"kind"` // ingest | reset | printreset
	Msgs []string `json:"msgs"` // ingest: hex C2SWrapper messages, handled one after the other (the worker loop)
	N    int      `json:"n"`    // reset / printreset: rounds
}

type ssCase struct {
	Threads []ssThread `json:"threads"`
	Scheds  [][]int    `json:"scheds"`   // explicit schedules: thread index per step
	Expand  bool       `json:"expand"`   // enumerate schedules from the region counts measured on the running code
	MaxAll  int        `json:"max_all"`  // all interleavings if there are at most this many
	NRandom int        `json:"n_random"` // random interleavings otherwise
	Seed    int64      `json:"seed"`
}

type ssRun struct {
	Sched    []int      `json:"sched"`
	Out      string     `json:"out"` // ok | panic | hang | leak
	Detail   string     `json:"detail"`
	Thread   int        `json:"thread"`
	Step     int        `json:"step"`
	Sections []int      `json:"sections"`
	Counts   [][3]int64 `json:"counts"` // per thread (ingest: keys of its last message): generation / transport / libver counter, -1 absent
	Trace    string     `json:"trace"`
}

type ssObs struct {
	Alone []int         `json:"alone"` // regions of every thread when it runs alone on a fresh manager
	Keys  [][][3]uint32 `json:"keys"`  // per thread, per message: generation, transport, library version as the code parsed them
	Runs  []ssRun       `json:"runs"`
}

type ssTh struct {
	id       int
	grant    chan struct{}
	ev       chan int // 1: in front of a lock, 2: finished
	depth    int
	sections int
	out      string
	detail   string
	done     bool
}

type ssSched struct {
	mu     sync.RWMutex
	byGoid map[uint64]*ssTh
	names  map[interface{}]int
	trace  []string
}

func ssGoid() uint64 {
	var b [64]byte
	n := runtime.Stack(b[:], false)
	f := strings.Fields(string(b[:n]))
	if len(f) < 2 {
		return 0
	}
	id, _ := strconv.ParseUint(f[1], 10, 64)
	return id
}

func (s *ssSched) hook(ev byte, m interface{}, write bool) {
	s.mu.RLock()
	th := s.byGoid[ssGoid()]
	s.mu.RUnlock()
	if th == nil {
		return
	}
	switch ev {
	case 'A':
		if th.depth == 0 {
			th.sections++
			s.mu.Lock()
			id, ok := s.names[m]
			if !ok {
				id = len(s.names)
				s.names[m] = id
			}
			mode := "R"
			if write {
				mode = "W"
			}
			s.trace = append(s.trace, fmt.Sprintf("t%d:%s(m%d)", th.id, mode, id))
			s.mu.Unlock()
			th.ev <- 1
			<-th.grant
		}
	case 'a':
		th.depth++
	case 'r':
		th.depth--
	}
}

func ssManager(t *testing.T, pfx *prefix.Transport) *RegistrationManager {
	rm := NewRegistrationManager(&RegConfig{EnableIPv4: true, EnableIPv6: true})
	if rm == nil {
		t.Fatal("no registration manager")
	}
	rm.Logger.SetOutput(io.Discard)
	rm.GeoIP = &verifGeo{}
	rm.LivenessTester = &verifLive{}
	for _, id := range []int32{1, 2, 4} {
		if err := rm.AddTransport(pb.TransportType(id), stTransport(id, pfx)); err != nil {
			t.Fatal(err)
		}
	}
	rm.registeredDecoys.registerForDetector = func(d *DecoyRegistration) {}
	rm.registeredDecoys.updateInDetector = func(d *DecoyRegistration) {}
	return rm
}

// ssExec runs the threads of c under one schedule on a fresh manager.
func ssExec(t *testing.T, pfx *prefix.Transport, c ssCase, sched []int, keys *[][][3]uint32) ssRun {
	rm := ssManager(t, pfx)
	s := &ssSched{byGoid: map[uint64]*ssTh{}, names: map[interface{}]int{}}
	run := ssRun{Sched: sched, Out: "ok", Thread: -1, Step: -1}
	ths := make([]*ssTh, len(c.Threads))
	var lastKeys = make([][3]uint32, len(c.Threads))
	var hasKeys = make([]bool, len(c.Threads))
	if keys != nil {
		*keys = make([][][3]uint32, len(c.Threads))
	}
	verifSyncHook = s.hook
	defer func() { verifSyncHook = nil }()
	for i, tc := range c.Threads {
		th := &ssTh{id: i, grant: make(chan struct{}), ev: make(chan int, 1)}
		ths[i] = th
		var op func()
		switch tc.Kind {
		case "ingest":
			var msgs [][]byte
			for _, h := range tc.Msgs {
				msgs = append(msgs, vUnhex(h))
			}
			i := i
			op = func() {
				for _, msg := range msgs {
					regs, err := rm.parseRegMessage(msg)
					if err != nil {
						continue
					}
					for _, r := range regs {
						if r != nil {
							k := [3]uint32{r.DecoyListVersion, uint32(r.Transport), r.clientLibVer}
							lastKeys[i], hasKeys[i] = k, true
							if keys != nil {
								(*keys)[i] = append((*keys)[i], k)
							}
							rm.ingestRegistration(r)
						}
					}
				}
			}
		case "reset":
			n := tc.N
			op = func() {
				for k := 0; k < n; k++ {
					rm.Reset()
				}
			}
		case "printreset":
			n := tc.N
			op = func() {
				for k := 0; k < n; k++ {
					rm.PrintAndReset(rm.Logger)
				}
			}
		default:
			t.Fatalf("unknown thread kind %q", tc.Kind)
		}
		ready := make(chan struct{})
		go func() {
			s.mu.Lock()
			s.byGoid[ssGoid()] = th
			s.mu.Unlock()
			close(ready)
			<-th.grant
			defer func() {
				if r := recover(); r != nil {
					th.out = "panic"
					keep := []string{}
					for _, l := range strings.Split(string(debug.Stack()), "\n") {
						if x := strings.Index(l, "conjure/pkg/station/lib."); x >= 0 && !strings.Contains(l, "ssExec") && strings.Contains(l, "(") && !strings.HasPrefix(l, "\t") {
							keep = append(keep, l[x+len("conjure/pkg/station/lib."):strings.LastIndex(l, "(")])
						}
					}
					if len(keep) > 4 {
						keep = keep[:4]
					}
					th.detail = fmt.Sprint(r) + " <- " + strings.Join(keep, " <- ")
				}
				th.ev <- 2
			}()
			op()
		}()
		<-ready
	}
	pos := -1
	step := func(i int) bool {
		if i < 0 || i >= len(ths) || ths[i].done {
			return true
		}
		th := ths[i]
		th.grant <- struct{}{}
		select {
		case e := <-th.ev:
			if e == 2 {
				th.done = true
				if th.out == "panic" {
					run.Out, run.Detail, run.Thread, run.Step = "panic", th.detail, i, pos
					return false
				}
			}
		case <-time.After(5 * time.Second):
			run.Out, run.Detail, run.Thread, run.Step = "hang", "the thread did not reach its next lock or its end within 5 s", i, pos
			return false
		}
		return true
	}
	good := true
	for i := range ths { // up to the first lock of every thread
		if good = step(i); !good {
			break
		}
	}
	if good {
		for k, i := range sched {
			pos = k
			if good = step(i); !good {
				break
			}
		}
	}
	if good {
	drain:
		for i := range ths {
			for !ths[i].done {
				pos++
				if good = step(i); !good {
					break drain
				}
			}
		}
	}
	verifSyncHook = nil
	if good {
		for i, th := range ths {
			if th.depth != 0 {
				run.Out, run.Thread = "leak", i
				run.Detail = fmt.Sprintf("the thread returned holding %d statistics lock(s)", th.depth)
			}
		}
	}
	for _, th := range ths {
		run.Sections = append(run.Sections, th.sections)
	}
	s.mu.Lock()
	run.Trace = strings.Join(s.trace, " ")
	s.mu.Unlock()
	if run.Out == "ok" {
		for i := range ths {
			cnt := [3]int64{-1, -1, -1}
			if hasKeys[i] {
				k := lastKeys[i]
				if g := rm.generations[k[0]]; g != nil {
					cnt[0] = g.newRegistrations
				}
				if g := rm.ttStats[pb.TransportType(k[1])]; g != nil {
					cnt[1] = g.newRegistrations
				}
				if g := rm.lvStats[k[2]]; g != nil {
					cnt[2] = g.newRegistrations
				}
			}
			run.Counts = append(run.Counts, cnt)
		}
	}
	if good {
		// the next epoch must be able to start: a lock left behind would stop the statistics goroutine and then every worker
		fin := make(chan struct{})
		go func() { rm.Reset(); close(fin) }()
		select {
		case <-fin:
		case <-time.After(3 * time.Second):
			if run.Out == "ok" {
				run.Out, run.Detail = "hang", "Reset() does not return after every thread has returned: a statistics lock is still held"
			}
		}
	}
	return run
}

func ssInterleavings(n []int, limit int) [][]int {
	var out [][]int
	left := append([]int(nil), n...)
	total := 0
	for _, x := range n {
		total += x
	}
	cur := make([]int, 0, total)
	var rec func() bool
	rec = func() bool {
		if len(cur) == total {
			out = append(out, append([]int(nil), cur...))
			return len(out) <= limit
		}
		for i := range left {
			if left[i] > 0 {
				left[i]--
				cur = append(cur, i)
				ok := rec()
				cur = cur[:len(cur)-1]
				left[i]++
				if !ok {
					return false
				}
			}
		}
		return true
	}
	if !rec() {
		return nil
	}
	return out
}

func TestVerifC11StatsSched(t *testing.T) {
	var cases []ssCase
	if !vReadCases(t, &cases) {
		return
	}
	golog.SetOutput(io.Discard)
	os.Setenv("PHANTOM_SUBNET_LOCATION", "./test/phantom_subnets.toml")
	pfx, err := prefix.Default([][32]byte{{1, 2, 3}})
	if err != nil {
		t.Fatal(err)
	}
	res := make([]ssObs, len(cases))
	for ci, c := range cases {
		var o ssObs
		// every thread alone: how many lock-protected regions does it have, which keys does it count under
		o.Keys = make([][][3]uint32, len(c.Threads))
		for i := range c.Threads {
			solo := ssCase{Threads: []ssThread{c.Threads[i]}}
			var keys [][][3]uint32
			r := ssExec(t, pfx, solo, nil, &keys)
			n := 0
			if len(r.Sections) == 1 {
				n = r.Sections[0]
			}
			o.Alone = append(o.Alone, n)
			if len(keys) == 1 {
				o.Keys[i] = keys[0]
			}
			if r.Out != "ok" {
				r.Sched = []int{}
				r.Thread = i
				r.Detail = "alone: " + r.Detail
				o.Runs = append(o.Runs, r)
			}
		}
		scheds := append([][]int(nil), c.Scheds...)
		if c.Expand {
			all := ssInterleavings(o.Alone, c.MaxAll)
			if all != nil {
				scheds = append(scheds, all...)
			} else {
				// one thread runs to its end while another one waits in front of its k-th lock, for every k
				for v := range c.Threads {
					for j := range c.Threads {
						if j == v {
							continue
						}
						for k := 0; k <= o.Alone[v]+3; k++ {
							var sc []int
							for x := 0; x < k; x++ {
								sc = append(sc, v)
							}
							for x := 0; x < o.Alone[j]+3; x++ {
								sc = append(sc, j)
							}
							scheds = append(scheds, sc)
						}
					}
				}
				rng := rand.New(rand.NewSource(c.Seed))
				for x := 0; x < c.NRandom; x++ {
					var sc []int
					for i, n := range o.Alone {
						for k := 0; k < n+2; k++ {
							sc = append(sc, i)
						}
					}
					rng.Shuffle(len(sc), func(a, b int) { sc[a], sc[b] = sc[b], sc[a] })
					scheds = append(scheds, sc)
				}
			}
		}
		bad := 0
		for _, r := range o.Runs {
			if r.Out != "ok" {
				bad++
			}
		}
		for _, sc := range scheds {
			if sc == nil {
				sc = []int{}
			}
			if bad >= 3 { // three failing schedules name the defect; a hang costs seconds per step
				break
			}
			r := ssExec(t, pfx, c, sc, nil)
			if r.Out != "ok" {
				bad++
			}
			o.Runs = append(o.Runs, r)
		}
		res[ci] = o
	}
	vWriteOut(t, res)
}
