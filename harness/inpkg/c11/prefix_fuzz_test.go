//go:build verif

package prefix

// C11 fuzz target for the first-flight classification of min and prefix: arbitrary bytes with a valid
// obfuscated tag spliced in at a fuzzed position, against a registration of a fuzzed kind.

import (
	"bytes"
	"net"
	"testing"
	"time"

	"github.com/refraction-networking/conjure/pkg/transports"
	mintr "github.com/refraction-networking/conjure/pkg/transports/wrapping/min"
	"golang.org/x/crypto/curve25519"
)

var fuzzRegKinds = []pfReg{
	{IsPrefix: true, PKind: "pref", PID: 0}, {IsPrefix: true, PKind: "pref", PID: 1}, {IsPrefix: true, PKind: "pref", PID: 9},
	{IsPrefix: true, PKind: "pref_nil"}, {IsPrefix: true, PKind: "nil"}, {IsPrefix: true, PKind: "gen"}, {IsPrefix: false, PKind: "nil"},
}

func FuzzVerifC11Flight(f *testing.F) {
	for _, s := range vFuzzSeeds() {
		f.Add(s, uint16(len(s)), uint8(0), false)
		f.Add(s, uint16(0xffff), uint8(0), true)
	}
	var priv [32]byte
	for i := range priv {
		priv[i] = byte(i*7 + 3)
	}
	pub, err := curve25519.X25519(priv[:], curve25519.Basepoint)
	if err != nil {
		f.Fatal(err)
	}
	tr, err := Default([][32]byte{priv})
	if err != nil {
		f.Fatal(err)
	}
	phantom := net.ParseIP("192.122.190.1")
	f.Fuzz(func(t *testing.T, raw []byte, tagpos uint16, regkind uint8, usemin bool) {
		if len(raw) > 2000 {
			return
		}
		reg := &vReg{r: fuzzRegKinds[int(regkind)%len(fuzzRegKinds)], id: bytes.Repeat([]byte{0xA0}, 32)}
		mgr := &vRegMgr{m: map[string]transports.Registration{string(reg.id): reg}}
		data := append([]byte(nil), raw...)
		if int(tagpos) <= len(raw) {
			var tag []byte
			if usemin {
				tag = reg.id
			} else {
				tag, err = tr.TagObfuscator.Obfuscate(reg.id, pub)
				if err != nil {
					return
				}
			}
			data = append(append(append([]byte(nil), raw[:tagpos]...), tag...), raw[tagpos:]...)
		}
		n := len(data)
		buf := bytes.NewBuffer(data[:n:n])
		out, detail := vGuard(5*time.Second, func() {
			if usemin {
				_, _, _ = mintr.Transport{}.WrapConnection(buf, nil, phantom, mgr)
			} else {
				_, _, _ = tr.WrapConnection(buf, nil, phantom, mgr)
			}
		})
		if out != "ret" {
			vFuzzCrash("WrapConnection", out, detail, vmap{"raw": vHexS(raw), "tagpos": tagpos, "regkind": int(regkind) % len(fuzzRegKinds), "usemin": usemin})
		}
	})
}
