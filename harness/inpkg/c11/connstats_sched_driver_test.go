//go:build verif

package main

// C11 driver, connection statistics epoch, FORCED interleavings (the station application, cmd/application).
// Every phantom connection -- externally supplied first-flight bytes -- moves through the accounting methods of
// connStats (per-ASN counters created on first use), while the verbose statistics ticker prints and swaps the
// per-ASN maps (PrintAndReset / Reset).  This driver is compiled with a scratch copy of conns.go whose lock types
// are the instrumented ones (overlay); csOps / csOpsTp (generated from the method declarations of the checkout by
// driver/props/c11.py) list the accounting methods.  Threads are goroutines parked in front of every lock they
// take; one schedule step = one lock-protected region.  Observations only.

import (
	"fmt"
	"io"
	"runtime"
	"runtime/debug"
	"sort"
	"strconv"
	"strings"
	"sync"
	"testing"
	"time"

	"github.com/refraction-networking/conjure/pkg/station/log"
)

type ccRun struct {
	Op       string `json:"op"`
	House    string `json:"house"` // reset | printreset
	V4       bool   `json:"v4"`
	Sched    []int  `json:"sched"`
	Out      string `json:"out"` // ok | panic | hang | leak
	Detail   string `json:"detail"`
	Sections []int  `json:"sections"`
}

type ccObs struct {
	Ops  []string `json:"ops"`
	Runs []ccRun  `json:"runs"`
}

type ccTh struct {
	id       int
	grant    chan struct{}
	ev       chan int
	depth    int
	sections int
	out      string
	detail   string
	done     bool
}

type ccSched struct {
	mu     sync.RWMutex
	byGoid map[uint64]*ccTh
}

func ccGoid() uint64 {
	var b [64]byte
	n := runtime.Stack(b[:], false)
	f := strings.Fields(string(b[:n]))
	if len(f) < 2 {
		return 0
	}
	id, _ := strconv.ParseUint(f[1], 10, 64)
	return id
}

func (s *ccSched) hook(ev byte, m interface{}, write bool) {
	s.mu.RLock()
	th := s.byGoid[ccGoid()]
	s.mu.RUnlock()
	if th == nil {
		return
	}
	switch ev {
	case 'A':
		if th.depth == 0 {
			th.sections++
			th.ev <- 1
			<-th.grant
		}
	case 'a':
		th.depth++
	case 'r':
		th.depth--
	}
}

// ccExec: the threads under one schedule (thread index per step), then every thread to its end, in order
func ccExec(ops []func(), sched []int) (out, detail string, sections []int) {
	s := &ccSched{byGoid: map[uint64]*ccTh{}}
	verifSyncHook = s.hook
	defer func() { verifSyncHook = nil }()
	ths := make([]*ccTh, len(ops))
	for i, op := range ops {
		th := &ccTh{id: i, grant: make(chan struct{}), ev: make(chan int, 1)}
		ths[i] = th
		ready := make(chan struct{})
		op := op
		go func() {
			s.mu.Lock()
			s.byGoid[ccGoid()] = th
			s.mu.Unlock()
			close(ready)
			<-th.grant
			defer func() {
				if r := recover(); r != nil {
					th.out = "panic"
					keep := []string{}
					for _, l := range strings.Split(string(debug.Stack()), "\n") {
						if x := strings.Index(l, "main."); x == 0 && !strings.Contains(l, "ccExec") && strings.Contains(l, "(") {
							keep = append(keep, l[len("main."):strings.LastIndex(l, "(")])
						}
					}
					if len(keep) > 3 {
						keep = keep[:3]
					}
					th.detail = fmt.Sprint(r) + " <- " + strings.Join(keep, " <- ")
				}
				th.ev <- 2
			}()
			op()
		}()
		<-ready
	}
	out = "ok"
	step := func(i int) bool {
		if i < 0 || i >= len(ths) || ths[i].done {
			return true
		}
		th := ths[i]
		th.grant <- struct{}{}
		select {
		case e := <-th.ev:
			if e == 2 {
				th.done = true
				if th.out == "panic" {
					out, detail = "panic", th.detail
					return false
				}
			}
		case <-time.After(5 * time.Second):
			out, detail = "hang", fmt.Sprintf("thread %d did not reach its next lock or its end within 5 s", i)
			return false
		}
		return true
	}
	good := true
	for i := range ths {
		if good = step(i); !good {
			break
		}
	}
	for _, i := range sched {
		if !good {
			break
		}
		good = step(i)
	}
	for i := range ths {
		for good && !ths[i].done {
			good = step(i)
		}
	}
	verifSyncHook = nil
	for i, th := range ths {
		sections = append(sections, th.sections)
		if good && th.depth != 0 {
			out, detail = "leak", fmt.Sprintf("thread %d returned holding %d lock(s)", i, th.depth)
		}
	}
	return
}

func TestVerifC11ConnStatsSched(t *testing.T) {
	var cases []struct {
		ASN uint   `json:"asn"`
		CC  string `json:"cc"`
	}
	if !vReadCases(t, &cases) {
		return
	}
	quiet := log.New(io.Discard, "", 0)
	var names []string
	for n := range csOps {
		names = append(names, n)
	}
	for n := range csOpsTp {
		names = append(names, n)
	}
	sort.Strings(names)
	res := make([]ccObs, len(cases))
	for ci, c := range cases {
		o := ccObs{Ops: names}
		bad := 0
		for _, name := range names {
			badOp := 0
			for _, v4 := range []bool{true, false} {
				if _, tp := csOpsTp[name]; tp && !v4 {
					continue
				}
				for _, house := range []string{"reset", "printreset"} {
					mk := func() (*connStats, []func()) {
						cs := newConnManager(nil).connStats
						acct := func() {
							if f, ok := csOps[name]; ok {
								f(cs, c.ASN, c.CC, v4)
							} else {
								csOpsTp[name](cs, c.ASN, c.CC, "dtls")
							}
						}
						hk := func() {
							if house == "reset" {
								cs.Reset()
							} else {
								cs.PrintAndReset(quiet)
							}
						}
						// a connection was accounted before (its ASN entry exists), then: accounting || epoch change || accounting again
						return cs, []func(){func() { acct(); acct() }, hk}
					}
					// regions of the accounting thread when it runs alone
					_, ops := mk()
					_, _, alone := ccExec(ops[:1], nil)
					n := 2
					if len(alone) == 1 {
						n = alone[0]
					}
					// the epoch change in front of the k-th lock of the accounting thread, for every k (and one and two steps of it at a time)
					var scheds [][]int
					for k := 0; k <= n+1; k++ {
						for _, hsteps := range []int{1, 4} {
							var sc []int
							for x := 0; x < k; x++ {
								sc = append(sc, 0)
							}
							for x := 0; x < hsteps; x++ {
								sc = append(sc, 1)
							}
							scheds = append(scheds, sc)
						}
					}
					for _, sc := range scheds {
						if bad >= 12 || badOp >= 3 { // a handful of failing schedules name the defect; a hang costs seconds per step
							break
						}
						cs, ops := mk()
						r := ccRun{Op: name, House: house, V4: v4, Sched: sc}
						r.Out, r.Detail, r.Sections = ccExec(ops, sc)
						if r.Out == "ok" {
							fin := make(chan struct{})
							go func() { cs.Reset(); close(fin) }()
							select {
							case <-fin:
							case <-time.After(3 * time.Second):
								r.Out, r.Detail = "hang", "Reset() does not return after every thread has returned: the statistics lock is still held"
							}
						}
						if r.Out != "ok" {
							bad++
							badOp++
						}
						o.Runs = append(o.Runs, r)
					}
				}
			}
		}
		res[ci] = o
	}
	vWriteOut(t, res)
}
