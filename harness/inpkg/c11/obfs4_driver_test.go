//go:build verif

package obfs4

// C11 driver for obfs4.WrapConnection (up to the hand-off to the obfs4 library)
// and findMarkMac.  Buffers have capacity == length.  Observations only.

import (
	"bytes"
	"errors"
	"io"
	"net"
	"testing"
	"time"

	"github.com/refraction-networking/conjure/pkg/transports"
	pb "github.com/refraction-networking/conjure/proto"
)

type obCase struct {
	Op string `json:"op"` // wrap | markmac
	// wrap
	Len  int      `json:"len"`
	Regs []string `json:"regs"` // ok | nil | badkeys
	// markmac
	MarkLen  int  `json:"marklen"`
	BufLen   int  `json:"buflen"`
	StartPos int  `json:"startpos"`
	MaxPos   int  `json:"maxpos"`
	FromTail bool `json:"fromtail"`
	MarkAt   int  `json:"markat"` // -1: the mark does not occur in the buffer
}

type obObs struct {
	Out    string `json:"out"`
	Detail string `json:"detail"`
	ECode  int    `json:"ecode"`
	Err    string `json:"err"`
	Pos    int    `json:"pos"`
}

type oReg struct {
	keys interface{}
	seed byte
}

func (v *oReg) SharedSecret() []byte                 { return []byte{v.seed} }
func (v *oReg) GetRegistrationAddress() string       { return "192.0.2.7" }
func (v *oReg) GetDstPort() uint16                   { return 443 }
func (v *oReg) PhantomIP() *net.IP                   { ip := net.ParseIP("192.122.190.1"); return &ip }
func (v *oReg) TransportType() pb.TransportType      { return pb.TransportType_Obfs4 }
func (v *oReg) TransportParams() any                 { return nil }
func (v *oReg) SetTransportKeys(k interface{}) error { v.keys = k; return nil }
func (v *oReg) TransportKeys() interface{}           { return v.keys }
func (v *oReg) TransportReader() io.Reader           { return bytes.NewReader(bytes.Repeat([]byte{v.seed}, 128)) }

type oRegMgr struct{ m map[string]transports.Registration }

func (m *oRegMgr) GetRegistrations(net.IP) map[string]transports.Registration { return m.m }

func TestVerifC11Obfs4(t *testing.T) {
	var cases []obCase
	if !vReadCases(t, &cases) {
		return
	}
	phantom := net.ParseIP("192.122.190.1")
	res := make([]obObs, len(cases))
	for i, c := range cases {
		var o obObs
		switch c.Op {
		case "wrap":
			mgr := &oRegMgr{m: map[string]transports.Registration{}}
			for k, kind := range c.Regs {
				key := string(bytes.Repeat([]byte{byte(0x30 + k)}, 52)) // 52-byte identifiers are taken for obfs4 registrations
				switch kind {
				case "ok":
					mgr.m[key] = &oReg{seed: byte(k + 1)}
				case "badkeys":
					mgr.m[key] = &oReg{seed: byte(k + 1), keys: "not obfs4 keys"}
				case "nil":
					mgr.m[key] = nil
				}
			}
			data := make([]byte, c.Len)
			for j := range data {
				data[j] = byte(j*31 + 7)
			}
			buf := bytes.NewBuffer(data[:c.Len:c.Len])
			var werr error
			o.Out, o.Detail = vGuard(10*time.Second, func() { _, _, werr = Transport{}.WrapConnection(buf, nil, phantom, mgr) })
			switch {
			case werr == nil:
			case errors.Is(werr, transports.ErrTryAgain):
				o.ECode = 20
			case errors.Is(werr, transports.ErrNotTransport):
				o.ECode = 21
			default:
				o.ECode = 24
			}
			if werr != nil {
				o.Err = werr.Error()
			}
		case "markmac":
			mark := make([]byte, c.MarkLen)
			for j := range mark {
				mark[j] = byte(j + 1)
			}
			buf := make([]byte, c.BufLen)
			if c.MarkAt >= 0 && c.MarkAt+len(mark) <= len(buf) {
				copy(buf[c.MarkAt:], mark)
			}
			buf = buf[:c.BufLen:c.BufLen]
			o.Out, o.Detail = vGuard(10*time.Second, func() { o.Pos = findMarkMac(mark, buf, c.StartPos, c.MaxPos, c.FromTail) })
		}
		res[i] = o
	}
	vWriteOut(t, res)
}
