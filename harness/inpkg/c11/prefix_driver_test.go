//go:build verif

package prefix

// C11 driver for the first-flight classification of the min and prefix
// transports (WrapConnection / tryFindReg / getReg).  The buffer handed to the
// code has capacity == length, so a slice beyond the received bytes panics
// instead of silently reading spare capacity.  Observations only.

import (
	"bytes"
	"errors"
	"io"
	"net"
	"sort"
	"testing"
	"time"

	"github.com/refraction-networking/conjure/pkg/transports"
	mintr "github.com/refraction-networking/conjure/pkg/transports/wrapping/min"
	pb "github.com/refraction-networking/conjure/proto"
	"golang.org/x/crypto/curve25519"
)

type pfReg struct {
	IsPrefix bool   `json:"is_prefix"` // TransportType() == Prefix (else Min)
	PKind    string `json:"pkind"`     // nil | pref | pref_nil | gen
	PID      int32  `json:"pid"`
}

type pfCase struct {
	ID   int32   `json:"id"`
	Op   string  `json:"op"` // dump | prefix | min | tryfromid | newfile
	Pre  string  `json:"pre"`
	Tag  int     `json:"tag"` // index of the registration whose (obfuscated) identifier is inserted after Pre; -1 none
	Post string  `json:"post"`
	Regs []pfReg `json:"regs"`
}

type pfEntry struct {
	ID     int32  `json:"id"`
	Static string `json:"static"`
	Offset int    `json:"offset"`
	MinLen int    `json:"minlen"`
	MaxLen int    `json:"maxlen"`
	Port   uint16 `json:"port"`
}

type pfObs struct {
	NilPrefix bool `json:"nil_prefix"` // tryfromid: (nil, nil) came back
	Table  []pfEntry `json:"table"`
	Data   string    `json:"data"`
	Out    string    `json:"out"`
	Detail string    `json:"detail"`
	ECode  int       `json:"ecode"`
	Err    string    `json:"err"`
	Used   int       `json:"used"`
	Found  [][2]int  `json:"found"` // (offset, registration index) pairs: what getReg finds at each prefix offset
}

type vReg struct {
	r   pfReg
	id  []byte
	idx int
}

func (v *vReg) SharedSecret() []byte           { return v.id }
func (v *vReg) GetRegistrationAddress() string { return "192.0.2.7" }
func (v *vReg) GetDstPort() uint16             { return 443 }
func (v *vReg) PhantomIP() *net.IP             { ip := net.ParseIP("192.122.190.1"); return &ip }
func (v *vReg) TransportType() pb.TransportType {
	if v.r.IsPrefix {
		return pb.TransportType_Prefix
	}
	return pb.TransportType_Min
}
func (v *vReg) TransportParams() any {
	switch v.r.PKind {
	case "pref":
		id := v.r.PID
		return &pb.PrefixTransportParams{PrefixId: &id}
	case "pref_nil":
		return (*pb.PrefixTransportParams)(nil)
	case "gen":
		return &pb.GenericTransportParams{}
	}
	return nil
}
func (v *vReg) SetTransportKeys(interface{}) error { return nil }
func (v *vReg) TransportKeys() interface{}         { return nil }
func (v *vReg) TransportReader() io.Reader         { return bytes.NewReader(nil) }

type vRegMgr struct{ m map[string]transports.Registration }

func (m *vRegMgr) GetRegistrations(net.IP) map[string]transports.Registration { return m.m }

func pfErrCode(err error) int {
	switch {
	case err == nil:
		return 0
	case errors.Is(err, transports.ErrTryAgain):
		return 20
	case errors.Is(err, transports.ErrNotTransport):
		return 21
	case errors.Is(err, ErrIncorrectPrefix):
		return 22
	case errors.Is(err, ErrIncorrectTransport):
		return 23
	}
	return 24
}

func TestVerifC11Prefix(t *testing.T) {
	var cases []pfCase
	if !vReadCases(t, &cases) {
		return
	}
	var priv [32]byte
	for i := range priv {
		priv[i] = byte(i*7 + 3)
	}
	pub, err := curve25519.X25519(priv[:], curve25519.Basepoint)
	if err != nil {
		t.Fatal(err)
	}
	tr, err := Default([][32]byte{priv})
	if err != nil {
		t.Fatal(err)
	}
	var table []pfEntry
	for id, p := range tr.SupportedPrefixes {
		table = append(table, pfEntry{int32(id), vHexS(p.StaticMatch), p.Offset, p.MinLen, p.MaxLen, p.DefaultDstPort})
	}
	sort.Slice(table, func(i, j int) bool { return table[i].ID < table[j].ID })
	phantom := net.ParseIP("192.122.190.1")
	res := make([]pfObs, len(cases))
	for i, c := range cases {
		var o pfObs
		if c.Op == "dump" {
			o.Table = table
			res[i] = o
			continue
		}
		if c.Op == "tryfromid" {
			// what overridePrefix does with the result
			o.Out, o.Detail = vGuard(10*time.Second, func() {
				p, err := TryFromID(PrefixID(c.ID))
				if err != nil {
					o.ECode, o.Err = 1, err.Error()
					return
				}
				o.NilPrefix = p == nil
				_ = p.FlushPolicy()
				_ = p.ID()
				_ = p.Bytes()
			})
			res[i] = o
			continue
		}
		if c.Op == "newfile" {
			// a station configured with a prefix file path
			o.Out, o.Detail = vGuard(10*time.Second, func() {
				t2, err := Default([][32]byte{priv}, "/nonexistent/prefixes.conf")
				if err != nil {
					o.ECode, o.Err = 1, err.Error()
					return
				}
				o.Used = len(t2.SupportedPrefixes)
			})
			res[i] = o
			continue
		}
		mgr := &vRegMgr{m: map[string]transports.Registration{}}
		var regs []*vReg
		for k, r := range c.Regs {
			id := bytes.Repeat([]byte{byte(0xA0 + k)}, 32)
			v := &vReg{r: r, id: id, idx: k}
			regs = append(regs, v)
			mgr.m[string(id)] = v
		}
		data := vUnhex(c.Pre)
		if c.Tag >= 0 && c.Tag < len(regs) {
			if c.Op == "min" {
				data = append(data, regs[c.Tag].id...)
			} else {
				tag, err := tr.TagObfuscator.Obfuscate(regs[c.Tag].id, pub)
				if err != nil {
					t.Fatal(err)
				}
				data = append(data, tag...)
			}
		}
		data = append(data, vUnhex(c.Post)...)
		o.Data = vHexS(data)
		// what getReg finds at each prefix offset (crypto + map: the model's oracle)
		for _, e := range table {
			if e.Offset >= 0 && e.Offset+64 <= len(data) {
				if r, err := tr.getReg(data[e.Offset:e.Offset+64], mgr, phantom); err == nil {
					o.Found = append(o.Found, [2]int{e.Offset, r.(*vReg).idx})
				}
			}
		}
		if c.Op == "min" {
			o.Found = nil
			if len(data) >= 32 {
				if r, ok := mgr.m[string(data[:32])]; ok {
					o.Found = append(o.Found, [2]int{0, r.(*vReg).idx})
				}
			}
		}
		n := len(data)
		buf := bytes.NewBuffer(append([]byte(nil), data...)[:n:n])
		var werr error
		o.Out, o.Detail = vGuard(10*time.Second, func() {
			if c.Op == "min" {
				_, _, werr = mintr.Transport{}.WrapConnection(buf, nil, phantom, mgr)
			} else {
				_, _, werr = tr.WrapConnection(buf, nil, phantom, mgr)
			}
		})
		o.ECode = pfErrCode(werr)
		if werr != nil {
			o.Err = werr.Error()
		}
		o.Used = n - buf.Len()
		res[i] = o
	}
	vWriteOut(t, res)
}
