//go:build verif

package lib

// C11 driver for the station's ZMQ ingest (parseRegMessage, NewRegistrationC2SWrapper)
// and for the transports' ParseParams / GetDstPort.  Records observations only.

import (
	"bytes"
	"errors"
	"net/http"
	"net/http/httptest"
	"sync"
	"sync/atomic"
	"fmt"
	"io"
	golog "log"
	"net"
	"os"
	"strings"
	"testing"
	"time"

	"github.com/refraction-networking/conjure/pkg/core"
	cjlog "github.com/refraction-networking/conjure/pkg/station/log"
	"github.com/refraction-networking/conjure/pkg/phantoms"
	"github.com/refraction-networking/conjure/pkg/transports/connecting/dtls"
	"github.com/refraction-networking/conjure/pkg/transports/wrapping/min"
	"github.com/refraction-networking/conjure/pkg/transports/wrapping/obfs4"
	"github.com/refraction-networking/conjure/pkg/transports/wrapping/prefix"
	pb "github.com/refraction-networking/conjure/proto"
	"google.golang.org/protobuf/proto"
	"google.golang.org/protobuf/types/known/anypb"
)

type stRaw struct {
	Nil        bool   `json:"nil"`
	Keys       bool   `json:"keys"`
	Phantom    string `json:"phantom"` // hex; HasPhantom=false: nil slice
	HasPhantom bool   `json:"has_phantom"`
	Source     int32  `json:"source"`
	HasSource  bool   `json:"has_source"`
	Transport  int32  `json:"transport"`
	Prescanned bool   `json:"prescanned"`
	HasC2S     bool   `json:"has_c2s"`
	C2SV4      bool   `json:"c2s_v4"`
	Covert     string `json:"covert"`
}

type stCase struct {
	Live    bool   `json:"live"`  // worker / rawreg: scripted liveness verdict
	Share   bool   `json:"share"` // EnableShareOverAPI
	Peer    int    `json:"peer"`  // what the peer API answers: status code (0: garbage bytes instead of HTTP)
	WaitMs  int    `json:"wait_ms"` // how long to wait for the (asynchronous) share to arrive
	Raw     *stRaw `json:"raw"`
	Op      string `json:"op"` // ingest | newreg | params | dstport | worker | rawreg
	Msg     string `json:"msg"`
	V4      bool   `json:"v4"` // EnableIPv4
	V6      bool   `json:"v6"`
	GeoFail bool   `json:"geofail"`
	IncV6   bool   `json:"incv6"` // newreg: includeV6
	// params / dstport
	Transport int32  `json:"transport"`
	LibVer    uint   `json:"libver"`
	Any       string `json:"any"`     // hex of an Any; "" with HasAny=false: nil
	HasAny    bool   `json:"has_any"` // params: data != nil
	PKind     string `json:"pkind"`   // dstport: nil | gen | gen_nil | pref | pref_nil | dtls | dtls_nil
	PVal      string `json:"pval"`    // hex of the parameter message
}

type stSel struct {
	Class string `json:"class"`
	IP    string `json:"ip"`
	Rand  bool   `json:"rand"`
}

type stReg struct {
	IP   string `json:"ip"`
	Port uint16 `json:"port"`
}

type stObs struct {
	Announced int  `json:"announced"` // calls of registerForDetector
	Probes    int  `json:"probes"`    // calls of PhantomIsLive
	Shares    int  `json:"shares"`    // requests the peer API received
	CovertOk  bool `json:"covert_ok"` // ParseOrResolveBlocklisted returned a literal (oracle of the model)
	View    interface{} `json:"view"`
	AnyView interface{} `json:"anyview"`
	Sel4    stSel       `json:"sel4"`
	Sel6    stSel       `json:"sel6"`
	Out     string      `json:"out"` // ret | panic | hang
	Detail  string      `json:"detail"`
	Err     string      `json:"err"`
	ECode   int         `json:"ecode"`
	Regs    []stReg     `json:"regs"`
	// params / dstport
	Out2   string `json:"out2"`
	Err2   string `json:"err2"`
	ECode2 int    `json:"ecode2"`
	Port   uint16 `json:"port"`
}

type verifGeo struct{ fail bool }

func (g *verifGeo) ASN(ip net.IP) (uint, error) {
	if g.fail {
		return 0, errors.New("geoip unavailable")
	}
	return 0, nil
}
func (g *verifGeo) CC(ip net.IP) (string, error) {
	if g.fail {
		return "", errors.New("geoip unavailable")
	}
	return "unk", nil
}

type verifLive struct {
	mu   sync.Mutex
	n    int
	live bool
}

func (l *verifLive) PhantomIsLive(addr string, port uint16) (bool, error) {
	l.mu.Lock()
	l.n++
	l.mu.Unlock()
	if l.live {
		return true, errors.New("scripted: live")
	}
	return false, errors.New("scripted: not live")
}
func (l *verifLive) PrintAndReset(*cjlog.Logger) {}
func (l *verifLive) PrintStats(*cjlog.Logger)    {}
func (l *verifLive) Reset()                      {}

func stErrCode(err error) int {
	if err == nil {
		return 0
	}
	s := err.Error()
	switch {
	case strings.Contains(s, "invalid ipv6 phantom override"):
		return 15
	case strings.Contains(s, "invalid registration address"):
		return 16
	case strings.Contains(s, "failed to generate keys"):
		return 2
	case strings.Contains(s, "failed phantom select"):
		return 3
	case strings.Contains(s, "unknown transport"):
		return 5
	case strings.Contains(s, "error handling transport params"):
		return 6
	case strings.Contains(s, "error selecting phantom dst port"):
		return 7
	case strings.Contains(s, "IPv6 client chose IPv4 phantom"):
		return 8
	case strings.Contains(s, "geoip"):
		return 9
	case strings.HasPrefix(s, "proto:"):
		return 1
	}
	return 0
}

func stSelect(rm *RegistrationManager, w *pb.C2SWrapper, v6 bool) stSel {
	c := w.GetRegistrationPayload()
	keys, err := core.GenSharedKeys(uint(c.GetClientLibVersion()), w.GetSharedSecret(), c.GetTransport())
	if err != nil {
		return stSel{Class: "err"}
	}
	ip, err := rm.PhantomSelector.Select(keys.ConjureSeed, uint(c.GetDecoyListGeneration()), uint(c.GetClientLibVersion()), v6)
	switch {
	case err == phantoms.ErrLegacyAddrSelectBug || err == phantoms.ErrLegacyMissingAddrs || err == phantoms.ErrLegacyV0SelectionBug:
		return stSel{Class: "legacy"}
	case err != nil:
		return stSel{Class: "err"}
	case ip == nil || ip.IP() == nil:
		return stSel{Class: "nil"}
	}
	return stSel{Class: "ok", IP: fmt.Sprintf("%x", []byte(*ip.IP())), Rand: ip.SupportRandomPort()}
}

func stTransport(id int32, pfx *prefix.Transport) Transport {
	switch pb.TransportType(id) {
	case pb.TransportType_Min:
		return min.Transport{}
	case pb.TransportType_Obfs4:
		return obfs4.Transport{}
	case pb.TransportType_DTLS:
		return dtls.Transport{}
	case pb.TransportType_Prefix:
		return pfx
	}
	return nil
}

func TestVerifC11Station(t *testing.T) {
	var cases []stCase
	if !vReadCases(t, &cases) {
		return
	}
	golog.SetOutput(io.Discard)
	os.Setenv("PHANTOM_SUBNET_LOCATION", "./test/phantom_subnets.toml")
	pfx, err := prefix.Default([][32]byte{{1, 2, 3}})
	if err != nil {
		t.Fatal(err)
	}
	mk := func(c stCase) *RegistrationManager {
		rm := NewRegistrationManager(&RegConfig{EnableIPv4: c.V4, EnableIPv6: c.V6})
		if rm == nil {
			t.Fatal("no registration manager")
		}
		rm.Logger.SetOutput(io.Discard)
		rm.GeoIP = &verifGeo{fail: c.GeoFail}
		for _, id := range []int32{1, 2, 3, 4} {
			if err := rm.AddTransport(pb.TransportType(id), stTransport(id, pfx)); err != nil {
				t.Fatal(err)
			}
		}
		return rm
	}
	res := make([]stObs, len(cases))
	for i, c := range cases {
		var o stObs
		switch c.Op {
		case "ingest", "newreg":
			msg := vUnhex(c.Msg)
			rm := mk(c)
			o.View = vParse(msg)
			w := &pb.C2SWrapper{}
			if proto.Unmarshal(msg, w) == nil {
				o.Sel4 = stSelect(rm, w, false)
				o.Sel6 = stSelect(rm, w, true)
			}
			var regs []*DecoyRegistration
			var rerr error
			o.Out, o.Detail = vGuard(10*time.Second, func() {
				if c.Op == "ingest" {
					regs, rerr = rm.parseRegMessage(msg)
				} else {
					w2 := &pb.C2SWrapper{}
					_ = proto.Unmarshal(msg, w2)
					var r *DecoyRegistration
					r, rerr = rm.NewRegistrationC2SWrapper(w2, c.IncV6)
					if r != nil {
						regs = append(regs, r)
					}
				}
			})
			if rerr != nil {
				o.Err = rerr.Error()
				o.ECode = stErrCode(rerr)
			}
			for _, r := range regs {
				if r != nil {
					o.Regs = append(o.Regs, stReg{IP: fmt.Sprintf("%x", []byte(r.PhantomIp)), Port: r.PhantomPort})
				}
			}
		case "worker", "rawreg":
			// the body of startIngestThread: parseRegMessage, then ingestRegistration for every registration;
			// liveness, detector announcement and the peer station's API are scripted
			var peerMu sync.Mutex
			shares := 0
			srv := httptest.NewUnstartedServer(http.HandlerFunc(func(w http.ResponseWriter, r *http.Request) {
				peerMu.Lock()
				shares++
				peerMu.Unlock()
				_, _ = io.Copy(io.Discard, r.Body)
				if c.Peer == 0 {
					// not HTTP at all: hijack and answer garbage
					if hj, ok := w.(http.Hijacker); ok {
						if conn, _, err := hj.Hijack(); err == nil {
							_, _ = conn.Write([]byte("\x00\xff garbage \r\n\r\n"))
							_ = conn.Close()
							return
						}
					}
				}
				w.WriteHeader(c.Peer)
				_, _ = w.Write(bytes.Repeat([]byte{0xfe}, 3000))
			}))
			rm := mk(c)
			rm.EnableShareOverAPI = c.Share
			if c.Share {
				srv.Start()
				rm.PreshareEndpoint = srv.URL
			}
			live := &verifLive{live: c.Live}
			rm.LivenessTester = live
			announced := 0
			var annMu sync.Mutex
			rm.registeredDecoys.registerForDetector = func(d *DecoyRegistration) {
				annMu.Lock()
				announced++
				annMu.Unlock()
			}
			rm.registeredDecoys.updateInDetector = func(d *DecoyRegistration) {}
			if c.Op == "worker" {
				msg := vUnhex(c.Msg)
				o.View = vParse(msg)
				w := &pb.C2SWrapper{}
				if proto.Unmarshal(msg, w) == nil {
					o.Sel4 = stSelect(rm, w, false)
					o.Sel6 = stSelect(rm, w, true)
					lit, _ := rm.ParseOrResolveBlocklisted(w.GetRegistrationPayload().GetCovertAddress())
					o.CovertOk = lit != ""
				}
				var rerr error
				o.Out, o.Detail = vGuard(20*time.Second, func() {
					var regs []*DecoyRegistration
					regs, rerr = rm.parseRegMessage(msg)
					if rerr != nil {
						return
					}
					for _, r := range regs {
						if r != nil {
							o.Regs = append(o.Regs, stReg{IP: fmt.Sprintf("%x", []byte(r.PhantomIp)), Port: r.PhantomPort})
							rm.ingestRegistration(r)
						}
					}
				})
				if rerr != nil {
					o.Err = rerr.Error()
					o.ECode = stErrCode(rerr)
				}
			} else {
				x := c.Raw
				var reg *DecoyRegistration
				if !x.Nil {
					reg = &DecoyRegistration{PhantomPort: 443, Covert: x.Covert, Transport: pb.TransportType(x.Transport), RegistrationTime: time.Now()}
					if x.Keys {
						k, _ := core.GenSharedKeys(4, []byte("0123456789abcdef0123456789abcdef"), pb.TransportType(x.Transport))
						reg.Keys = &k
					}
					if x.HasPhantom {
						b := vUnhex(x.Phantom)
						if b == nil {
							b = []byte{}
						}
						reg.PhantomIp = net.IP(b)
					}
					if x.HasSource {
						sv := pb.RegistrationSource(x.Source)
						reg.RegistrationSource = &sv
					}
					if x.Prescanned {
						tr := true
						reg.Flags = &pb.RegistrationFlags{Prescanned: &tr}
					}
					if x.HasC2S {
						v4 := x.C2SV4
						reg.originalC2S = &pb.ClientToStation{V4Support: &v4}
					}
					if t, ok := rm.registeredDecoys.transports[reg.Transport]; ok {
						reg.TransportPtr = &t
					}
					lit, _ := rm.ParseOrResolveBlocklisted(x.Covert)
					o.CovertOk = lit != ""
				}
				o.Out, o.Detail = vGuard(20*time.Second, func() { rm.ingestRegistration(reg) })
			}
			// sharing runs in its own goroutine: give it a moment, then stop the peer
			annMu.Lock()
			annNow := announced
			annMu.Unlock()
			if c.Share {
				// nothing was announced: the code returned before the point where it shares, there is nothing to wait for
				for k := 0; annNow > 0 && k < c.WaitMs/5; k++ {
					time.Sleep(5 * time.Millisecond)
					peerMu.Lock()
					n := shares
					peerMu.Unlock()
					if n > 0 {
						break
					}
				}
				srv.CloseClientConnections()
			}
			srv.Close()
			annMu.Lock()
			o.Announced = announced
			annMu.Unlock()
			o.Probes = live.n
			peerMu.Lock()
			o.Shares = shares
			peerMu.Unlock()
		case "params":
			tr := stTransport(c.Transport, pfx)
			var data *anypb.Any
			if c.HasAny {
				data = &anypb.Any{}
				if err := proto.Unmarshal(vUnhex(c.Any), data); err != nil {
					t.Fatalf("case %d: bad Any: %v", i, err)
				}
				o.AnyView = vAny(data)
			}
			var p any
			var perr error
			o.Out, o.Detail = vGuard(10*time.Second, func() { p, perr = tr.ParseParams(c.LibVer, data) })
			if perr != nil {
				o.Err = perr.Error()
				o.ECode = 6
			} else if o.Out == "ret" {
				var derr error
				o.Out2, _ = vGuard(10*time.Second, func() { o.Port, derr = tr.GetDstPort(c.LibVer, []byte("0123456789abcdef"), p) })
				if derr != nil {
					o.Err2 = derr.Error()
					o.ECode2 = 7
				}
			}
		case "dstport":
			tr := stTransport(c.Transport, pfx)
			var p any
			switch c.PKind {
			case "gen":
				m := &pb.GenericTransportParams{}
				_ = proto.Unmarshal(vUnhex(c.PVal), m)
				p = m
			case "gen_nil":
				p = (*pb.GenericTransportParams)(nil)
			case "pref":
				m := &pb.PrefixTransportParams{}
				_ = proto.Unmarshal(vUnhex(c.PVal), m)
				p = m
			case "pref_nil":
				p = (*pb.PrefixTransportParams)(nil)
			case "dtls":
				m := &pb.DTLSTransportParams{}
				_ = proto.Unmarshal(vUnhex(c.PVal), m)
				p = m
			case "dtls_nil":
				p = (*pb.DTLSTransportParams)(nil)
			}
			var derr error
			o.Out, o.Detail = vGuard(10*time.Second, func() { o.Port, derr = tr.GetDstPort(c.LibVer, []byte("0123456789abcdef"), p) })
			if derr != nil {
				o.Err = derr.Error()
				o.ECode = 7
			}
		}
		res[i] = o
	}
	vWriteOut(t, res)
}

// ---------------------------------------------------------------- concurrent lane
// Runs as its own `go test` process (a child of the check): ZMQ ingest of registrations that all land on one
// phantom (registrar-supplied ipv4 override), concurrently with first-flight bytes handed to every wrapping
// transport's WrapConnection for that phantom and with the sweeper.  Nothing is recovered here: a runtime
// fatal error ("concurrent map iteration and map write"), a panic in any goroutine or a deadlock ends the
// process, and that is the observation.

type concCase struct {
	Templates  []string `json:"templates"` // hex C2SWrapper messages whose 32-byte shared secret sits at bytes [2:34]
	Phantom    string   `json:"phantom"`
	DurationMs int      `json:"duration_ms"`
	Workers    int      `json:"workers"`
	// statistics epochs: the body of the stats ticker (every module's PrintAndReset, as cmd/application/main.go
	// registers them) in a tight loop, and workers that account already-parsed registrations (the tail of
	// ingestRegistration) so that an epoch change falls between two lock-protected regions of the accounting often
	Housekeeping bool     `json:"housekeeping"`
	StatsWorkers int      `json:"stats_workers"`
	StatsMsgs    []string `json:"stats_msgs"` // hex C2SWrapper messages with many generation / transport / library-version values
}

type concObs struct {
	Ingested  int64 `json:"ingested"`
	Announced int64 `json:"announced"`
	Wraps     int64 `json:"wraps"`
	Sweeps    int64 `json:"sweeps"`
	Done      bool  `json:"done"`
	Epochs    int64 `json:"epochs"`
	StatsAdds int64 `json:"stats_adds"`
	StatsRegs int   `json:"stats_regs"`
}

func TestVerifC11StationConc(t *testing.T) {
	var cases []concCase
	if !vReadCases(t, &cases) {
		return
	}
	golog.SetOutput(io.Discard)
	os.Setenv("PHANTOM_SUBNET_LOCATION", "./test/phantom_subnets.toml")
	pfx, err := prefix.Default([][32]byte{{1, 2, 3}})
	if err != nil {
		t.Fatal(err)
	}
	res := make([]concObs, len(cases))
	// the Stats singleton logs to what os.Stdout is when it is first used: keep the epoch lines out of the test output
	if devnull, err := os.OpenFile(os.DevNull, os.O_WRONLY, 0); err == nil {
		saved := os.Stdout
		os.Stdout = devnull
		Stat()
		os.Stdout = saved
	}
	for ci, c := range cases {
		rm := NewRegistrationManager(&RegConfig{EnableIPv4: true, EnableIPv6: true})
		if rm == nil {
			t.Fatal("no registration manager")
		}
		rm.Logger.SetOutput(io.Discard)
		rm.GeoIP = &verifGeo{}
		rm.LivenessTester = &verifLive{}
		for _, id := range []int32{1, 2, 3, 4} {
			if err := rm.AddTransport(pb.TransportType(id), stTransport(id, pfx)); err != nil {
				t.Fatal(err)
			}
		}
		var announced, ingested, wraps, sweeps int64
		rm.registeredDecoys.registerForDetector = func(d *DecoyRegistration) { atomic.AddInt64(&announced, 1) }
		rm.registeredDecoys.updateInDetector = func(d *DecoyRegistration) {}
		phantom := net.IP(vUnhex(c.Phantom))
		var templates [][]byte
		for _, h := range c.Templates {
			templates = append(templates, vUnhex(h))
		}
		stop := make(chan struct{})
		var wg sync.WaitGroup
		var ctr uint64
		// ingest workers: the loop of startIngestThread on fresh registrations
		for w := 0; w < c.Workers; w++ {
			wg.Add(1)
			go func() {
				defer wg.Done()
				for {
					select {
					case <-stop:
						return
					default:
					}
					n := atomic.AddUint64(&ctr, 1)
					msg := append([]byte(nil), templates[int(n)%len(templates)]...)
					for k := 0; k < 8; k++ { // a fresh shared secret per message
						msg[2+k] = byte(n >> (8 * k))
					}
					regs, err := rm.parseRegMessage(msg)
					if err != nil {
						continue
					}
					for _, r := range regs {
						if r != nil {
							rm.ingestRegistration(r)
							atomic.AddInt64(&ingested, 1)
						}
					}
				}
			}()
		}
		// connections to the phantom: every wrapping transport looks at the first flight
		for _, wt := range rm.GetWrappingTransports() {
			for k := 0; k < 2; k++ {
				wg.Add(1)
				go func(wt WrappingTransport, k int) {
					defer wg.Done()
					sizes := []int{32, 64, 70, 141, 300, 8192}
					i := 0
					for {
						select {
						case <-stop:
							return
						default:
						}
						i++
						n := sizes[(i+k)%len(sizes)]
						data := make([]byte, n)
						for j := range data {
							data[j] = byte(i*131 + j*7)
						}
						_, _, _ = wt.WrapConnection(bytes.NewBuffer(data[:n:n]), nil, phantom, rm)
						atomic.AddInt64(&wraps, 1)
					}
				}(wt, k)
			}
		}
		// the statistics ticker's body, again and again: one goroutine, like the one ticker of the station
		var epochs, statsAdds int64
		if c.Housekeeping {
			zi := &ZMQIngester{regChan: make(chan interface{}, 16), logger: rm.Logger}
			wg.Add(1)
			go func() {
				defer wg.Done()
				for {
					select {
					case <-stop:
						return
					default:
					}
					zi.PrintAndReset(rm.Logger)
					GetProxyStats().PrintAndReset(rm.Logger)
					rm.PrintAndReset(rm.Logger)
					Stat().PrintStats(false)
					atomic.AddInt64(&epochs, 1)
					if atomic.LoadInt64(&epochs)%64 == 0 {
						time.Sleep(50 * time.Microsecond)
					}
				}
			}()
		}
		// accounting of accepted registrations under many statistics keys
		var statsRegs []*DecoyRegistration
		for _, h := range c.StatsMsgs {
			if regs, err := rm.parseRegMessage(vUnhex(h)); err == nil {
				for _, r := range regs {
					if r != nil {
						statsRegs = append(statsRegs, r)
					}
				}
			}
		}
		res[ci].StatsRegs = len(statsRegs)
		for w := 0; w < c.StatsWorkers && len(statsRegs) > 0; w++ {
			wg.Add(1)
			go func(w int) {
				defer wg.Done()
				i := w
				for {
					select {
					case <-stop:
						return
					default:
					}
					i++
					rm.AddRegStats(statsRegs[i%len(statsRegs)])
					rm.AddExpiredRegs(1, 1)
					atomic.AddInt64(&statsAdds, 1)
				}
			}(w)
		}
		// the sweeper
		wg.Add(1)
		go func() {
			defer wg.Done()
			for {
				select {
				case <-stop:
					return
				default:
				}
				rm.RemoveOldRegistrations()
				atomic.AddInt64(&sweeps, 1)
				time.Sleep(2 * time.Millisecond)
			}
		}()
		time.Sleep(time.Duration(c.DurationMs) * time.Millisecond)
		close(stop)
		fin := make(chan struct{})
		go func() { wg.Wait(); close(fin) }()
		select {
		case <-fin:
			res[ci].Done = true
		case <-time.After(20 * time.Second): // somebody is stuck on a lock
		}
		res[ci].Ingested, res[ci].Announced = atomic.LoadInt64(&ingested), atomic.LoadInt64(&announced)
		res[ci].Wraps, res[ci].Sweeps = atomic.LoadInt64(&wraps), atomic.LoadInt64(&sweeps)
		res[ci].Epochs, res[ci].StatsAdds = atomic.LoadInt64(&epochs), atomic.LoadInt64(&statsAdds)
	}
	vWriteOut(t, res)
}
