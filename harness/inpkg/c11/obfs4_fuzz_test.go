//go:build verif

package obfs4

// C11 fuzz target for obfs4.WrapConnection up to the hand-off (no registration can match: the mark is an HMAC)
// and for findMarkMac with the arguments WrapConnection uses.

import (
	"bytes"
	"net"
	"testing"
	"time"

	"github.com/refraction-networking/conjure/pkg/transports"
)

func FuzzVerifC11Obfs4(f *testing.F) {
	for _, s := range vFuzzSeeds() {
		f.Add(s, uint8(1), int16(-1))
	}
	phantom := net.ParseIP("192.122.190.1")
	f.Fuzz(func(t *testing.T, data []byte, nregs uint8, markat int16) {
		if len(data) > 9000 {
			return
		}
		mgr := &oRegMgr{m: map[string]transports.Registration{}}
		for k := 0; k < int(nregs%3); k++ {
			mgr.m[string(bytes.Repeat([]byte{byte(0x30 + k)}, 52))] = &oReg{seed: byte(k + 1)}
		}
		n := len(data)
		buf := bytes.NewBuffer(append([]byte(nil), data...)[:n:n])
		out, detail := vGuard(5*time.Second, func() { _, _, _ = Transport{}.WrapConnection(buf, nil, phantom, mgr) })
		if out != "ret" {
			vFuzzCrash("obfs4.WrapConnection", out, detail, vmap{"data": vHexS(data), "nregs": nregs % 3})
		}
		mark := []byte{1, 2, 3, 4, 5, 6, 7, 8, 9, 10, 11, 12, 13, 14, 15, 16}
		b2 := append([]byte(nil), data...)[:n:n]
		if markat >= 0 && int(markat)+16 <= n {
			copy(b2[markat:], mark)
		}
		out, detail = vGuard(5*time.Second, func() {
			_ = findMarkMac(mark, b2, 109, MaxHandshakeLength, true)
			_ = findMarkMac(mark, b2, 109, MaxHandshakeLength, false)
		})
		if out != "ret" {
			vFuzzCrash("findMarkMac", out, detail, vmap{"data": vHexS(data), "markat": markat})
		}
	})
}
