//go:build verif

package dtls

// C11 driver for dtls.Transport.Connect's use of the client-supplied transport parameters (the DNAT and
// the DTLS listener are stand-ins that record and refuse, so no socket is opened).  Observations only.

import (
	"context"
	"errors"
	"fmt"
	"net"
	"strings"
	"sync"
	"testing"
	"time"

	"io"

	cjdtls "github.com/refraction-networking/conjure/pkg/dtls"
	pb "github.com/refraction-networking/conjure/proto"
	"google.golang.org/protobuf/proto"
)

type dcCase struct {
	PKind   string `json:"pkind"`   // nil | dtls | gen | pref
	PVal    string `json:"pval"`    // hex of the DTLSTransportParams
	Phantom string `json:"phantom"` // hex
	TType   int32  `json:"ttype"`
}

type dcObs struct {
	Out     string `json:"out"`
	Detail  string `json:"detail"`
	Err     string `json:"err"`
	ECode   int    `json:"ecode"` // 0 reached the DNAT, 6 params rejected, 21 not this transport
	DnatSrc string `json:"dnat_src"`
	DnatN   int    `json:"dnat_n"`
	Port    uint16 `json:"port"`
}

type vc11Listener struct{}

func (l *vc11Listener) AcceptWithContext(context.Context, *cjdtls.Config) (net.Conn, error) {
	return nil, errors.New("scripted: no listener")
}

type vc11DNAT struct {
	mu   sync.Mutex
	n    int
	src  string
	port uint16
}

func (d *vc11DNAT) AddEntry(clientAddr *net.IP, clientPort uint16, phantomIP *net.IP, phantomPort uint16) error {
	d.mu.Lock()
	defer d.mu.Unlock()
	d.n++
	d.src = fmt.Sprintf("%x", []byte(*clientAddr))
	d.port = clientPort
	_ = phantomIP.String()
	return errors.New("scripted: no tun device")
}

type vc11Reg struct {
	params  any
	phantom net.IP
	ttype   pb.TransportType
}

func (r *vc11Reg) SharedSecret() []byte             { return []byte("0123456789abcdef0123456789abcdef") }
func (r *vc11Reg) GetRegistrationAddress() string   { return "192.0.2.7" }
func (r *vc11Reg) GetDstPort() uint16               { return 443 }
func (r *vc11Reg) PhantomIP() *net.IP               { return &r.phantom }
func (r *vc11Reg) TransportType() pb.TransportType  { return r.ttype }
func (r *vc11Reg) TransportParams() any             { return r.params }
func (r *vc11Reg) SetTransportKeys(interface{}) error { return nil }
func (r *vc11Reg) TransportKeys() interface{}       { return nil }
func (r *vc11Reg) TransportReader() io.Reader       { return strings.NewReader("") }

func TestVerifC11DtlsConnect(t *testing.T) {
	var cases []dcCase
	if !vReadCases(t, &cases) {
		return
	}
	res := make([]dcObs, len(cases))
	for i, c := range cases {
		var o dcObs
		dn := &vc11DNAT{}
		tr := &Transport{DNAT: dn, dtlsListener: &vc11Listener{}, logDialSuccess: func(*net.IP) {}, logListenSuccess: func(*net.IP) {}}
		var p any
		switch c.PKind {
		case "dtls":
			m := &pb.DTLSTransportParams{}
			_ = proto.Unmarshal(vUnhex(c.PVal), m)
			p = m
		case "gen":
			p = &pb.GenericTransportParams{}
		case "pref":
			p = &pb.PrefixTransportParams{}
		}
		reg := &vc11Reg{params: p, phantom: net.IP(vUnhex(c.Phantom)), ttype: pb.TransportType(c.TType)}
		var cerr error
		o.Out, o.Detail = vGuard(15*time.Second, func() {
			ctx, cancel := context.WithTimeout(context.Background(), 3*time.Second)
			defer cancel()
			_, cerr = tr.Connect(ctx, reg)
		})
		if cerr != nil {
			o.Err = cerr.Error()
			switch {
			case strings.Contains(o.Err, "is not *pb.DTLSTransportParams"):
				o.ECode = 6
			case strings.Contains(o.Err, "does not contain transport"):
				o.ECode = 21
			}
		}
		dn.mu.Lock()
		o.DnatN, o.DnatSrc, o.Port = dn.n, dn.src, dn.port
		dn.mu.Unlock()
		res[i] = o
	}
	vWriteOut(t, res)
}
