//go:build verif

package regprocessor

// C11 driver for RegProcessor.processBdReq / processC2SWrapper (called directly,
// also with a nil message).  Records observations only.

import (
	"bytes"
	"crypto/ed25519"
	"fmt"
	"io"
	golog "log"
	"net"
	"strings"
	"testing"
	"time"

	"github.com/refraction-networking/conjure/pkg/core"
	"github.com/refraction-networking/conjure/pkg/metrics"
	"github.com/refraction-networking/conjure/pkg/phantoms"
	"github.com/refraction-networking/conjure/pkg/station/lib"
	"github.com/refraction-networking/conjure/pkg/transports/connecting/dtls"
	"github.com/refraction-networking/conjure/pkg/transports/wrapping/min"
	"github.com/refraction-networking/conjure/pkg/transports/wrapping/obfs4"
	"github.com/refraction-networking/conjure/pkg/transports/wrapping/prefix"
	pb "github.com/refraction-networking/conjure/proto"
	log "github.com/sirupsen/logrus"
	"google.golang.org/protobuf/proto"
)

type rpCase struct {
	Op      string `json:"op"`  // bdreq | c2sw
	Msg     string `json:"msg"` // hex; Nil: pass a nil *C2SWrapper
	Nil     bool   `json:"nil"`
	Auth    bool   `json:"auth"`
	Enforce string `json:"enforce"` // "" | "min" | "prefix": enforceSubnetOverrides with one /24 override subnet, 100 %
	AddrNil bool   `json:"addr_nil"`
}

type rpSel struct {
	Gen   uint32 `json:"gen"`
	V6    bool   `json:"v6"`
	Class string `json:"class"`
	IP    string `json:"ip"`
	Rand  bool   `json:"rand"`
}

type rpObs struct {
	View   interface{} `json:"view"`
	Sel    []rpSel     `json:"sel"`
	Out    string      `json:"out"`
	Detail string      `json:"detail"`
	Err    string      `json:"err"`
	ECode  int         `json:"ecode"`
	Has4   bool        `json:"has4"`
	Has6   bool        `json:"has6"`
	IPv4   uint32      `json:"ipv4"`
	Port   uint32      `json:"port"`
	OutLen int         `json:"outlen"`
}

func rpErrCode(err error) int {
	if err == nil {
		return 0
	}
	switch err {
	case ErrNoC2SBody:
		return 10
	case ErrSharedSecret:
		return 11
	case ErrRegProcessFailed:
		return 2
	case phantoms.ErrLegacyAddrSelectBug, phantoms.ErrLegacyMissingAddrs, phantoms.ErrLegacyV0SelectionBug:
		return 4
	}
	s := err.Error()
	switch {
	case strings.Contains(s, "unknown transport"):
		return 5
	case strings.Contains(s, "failed to parse transport parameters"):
		return 6
	case strings.Contains(s, "error determining destination port"):
		return 7
	case strings.Contains(s, "generation number not recognized"), strings.Contains(s, "no valid addresses specified to select"),
		strings.Contains(s, "no subnets"), strings.Contains(s, "ubnet"):
		return 3
	}
	return 0
}

func rpSelect(sel *phantoms.PhantomIPSelector, w *pb.C2SWrapper, v6 bool) rpSel {
	c := w.GetRegistrationPayload()
	o := rpSel{Gen: c.GetDecoyListGeneration(), V6: v6}
	keys, err := core.GenSharedKeys(uint(c.GetClientLibVersion()), w.GetSharedSecret(), c.GetTransport())
	if err != nil {
		o.Class = "err"
		return o
	}
	ip, err := sel.Select(keys.ConjureSeed, uint(c.GetDecoyListGeneration()), uint(c.GetClientLibVersion()), v6)
	switch {
	case err == phantoms.ErrLegacyAddrSelectBug || err == phantoms.ErrLegacyMissingAddrs || err == phantoms.ErrLegacyV0SelectionBug:
		o.Class = "legacy"
	case err != nil:
		o.Class = "err"
	case ip == nil || ip.IP() == nil:
		o.Class = "nil"
	default:
		o.Class = "ok"
		o.IP = fmt.Sprintf("%x", []byte(*ip.IP()))
		o.Rand = ip.SupportRandomPort()
	}
	return o
}

func TestVerifC11RegProc(t *testing.T) {
	var cases []rpCase
	if !vReadCases(t, &cases) {
		return
	}
	log.SetOutput(io.Discard)
	golog.SetOutput(io.Discard)
	sel, err := phantoms.SubnetsFromTomlFile("../../station/lib/test/phantom_subnets.toml")
	if err != nil {
		t.Fatal(err)
	}
	_, priv, _ := ed25519.GenerateKey(bytes.NewReader(bytes.Repeat([]byte{7}, 64)))
	quiet := log.New()
	quiet.SetOutput(io.Discard)
	trs := map[pb.TransportType]lib.Transport{
		pb.TransportType_Min:    min.Transport{},
		pb.TransportType_Obfs4:  obfs4.Transport{},
		pb.TransportType_Prefix: prefix.DefaultSet(),
		pb.TransportType_DTLS:   dtls.Transport{},
	}
	res := make([]rpObs, len(cases))
	for i, c := range cases {
		var o rpObs
		m := metrics.NewMetrics(log.NewEntry(quiet), time.Hour)
		rp := VerifNewRegProcessor(sel, func([]byte) error { return nil }, m, c.Auth, priv, true, trs)
		if c.Enforce != "" {
			_, n, _ := net.ParseCIDR("198.51.100.0/24")
			sub := Subnet{CIDR: Ipnet{n}, Weight: 1, Port: 443, Transport: "Min_Transport", PrefixId: prefix.Min}
			rp.enforceSubnetOverrides = true
			rp.prcntMinRegsToOverride, rp.prcntPrefixRegsToOverride = validateOverridePercentages(100, 100)
			switch c.Enforce {
			case "min-slash0":
				_, n0, _ := net.ParseCIDR("0.0.0.0/0")
				sub.CIDR = Ipnet{n0}
			case "min-mapped64":
				_, n0, _ := net.ParseCIDR("::ffff:1.2.3.0/64")
				sub.CIDR = Ipnet{n0}
			case "prefix-id10":
				sub.PrefixId = prefix.PrefixID(10)
			case "prefix-idrand":
				sub.PrefixId = prefix.Rand
			case "prefix-idmax":
				sub.PrefixId = prefix.PrefixID(2147483647)
			case "prefix-id-2":
				sub.PrefixId = prefix.PrefixID(-2)
			}
			if strings.HasPrefix(c.Enforce, "min") {
				rp.minOverrideSubnets = []Subnet{sub}
				rp.minOverrideSubnetsCumulativeWeights = processOverrideSubnetsWeights(rp.minOverrideSubnets)
			} else {
				sub.Transport = "Prefix_Transport"
				rp.prefixOverrideSubnets = []Subnet{sub}
				rp.prefixOverrideSubnetsCumulativeWeights = processOverrideSubnetsWeights(rp.prefixOverrideSubnets)
			}
			_, ex, _ := net.ParseCIDR("203.0.113.0/24")
			rp.exclusionsFromOverride = []Subnet{{CIDR: Ipnet{ex}}}
		}
		var w *pb.C2SWrapper
		if !c.Nil {
			msg := vUnhex(c.Msg)
			o.View = vParse(msg)
			w = &pb.C2SWrapper{}
			if err := proto.Unmarshal(msg, w); err != nil {
				// not a message: these two entry points are only reached with a decoded message
				o.Out = "skip"
				res[i] = o
				continue
			}
			if w.RegistrationPayload != nil {
				o.Sel = append(o.Sel, rpSelect(sel, w, false), rpSelect(sel, w, true))
			}
		}
		var rerr error
		switch c.Op {
		case "bdreq":
			var rr *pb.RegistrationResponse
			o.Out, o.Detail = vGuard(10*time.Second, func() { rr, rerr = rp.processBdReq(w) })
			if rr != nil {
				o.Has4 = rr.Ipv4Addr != nil
				o.Has6 = rr.Ipv6Addr != nil
				o.IPv4 = rr.GetIpv4Addr()
				o.Port = rr.GetDstPort()
			}
		case "c2sw":
			var out []byte
			addr := []byte{10, 0, 0, 1}
			if c.AddrNil {
				addr = nil
			}
			o.Out, o.Detail = vGuard(10*time.Second, func() { out, rerr = rp.processC2SWrapper(w, addr, pb.RegistrationSource_API) })
			o.OutLen = len(out)
		}
		if rerr != nil {
			o.Err = rerr.Error()
			o.ECode = rpErrCode(rerr)
		}
		res[i] = o
	}
	vWriteOut(t, res)
}
