//go:build verif

package responder

// C11 fuzz target for the DNS responder's packet handling.

import (
	"io"
	golog "log"
	"testing"
	"time"

	"github.com/refraction-networking/conjure/pkg/registrars/dns-registrar/dns"
	"github.com/refraction-networking/conjure/pkg/registrars/dns-registrar/msgformat"
)

func FuzzVerifC11Dns(f *testing.F) {
	golog.SetOutput(io.Discard)
	for _, s := range vFuzzSeeds() {
		f.Add(s)
	}
	domain, err := dns.ParseName("t.example.com")
	if err != nil {
		f.Fatal(err)
	}
	r := &Responder{domain: domain, maxUDPPayload: 1280 - 40 - 8}
	f.Fuzz(func(t *testing.T, pkt []byte) {
		if len(pkt) > 4096 {
			return
		}
		out, detail := vGuard(5*time.Second, func() {
			query, _ := dns.MessageFromWireFormat(pkt)
			resp, payload := r.responseFor(&query, r.domain)
			if resp == nil {
				return
			}
			if payload != nil {
				if _, err := msgformat.RemoveRequestFormat(payload); err != nil {
					return
				}
			}
			_, _ = r.dnsRespToUDPResp(resp, []byte("answer"))
		})
		if out != "ret" {
			vFuzzCrash("dns responder", out, detail, vmap{"pkt": vHexS(pkt)})
		}
	})
}
