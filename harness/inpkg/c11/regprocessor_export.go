//go:build verif

package regprocessor

// C11 export shim (exists only in the go test -overlay of the C11 drivers, never
// in /repo): lets the apiregserver / dnsregserver drivers build a real
// RegProcessor whose ZMQ socket is a recorder and whose selector is supplied by
// the driver.

import (
	zmq "github.com/pebbe/zmq4"
	"github.com/refraction-networking/conjure/pkg/core/interfaces"
	"github.com/refraction-networking/conjure/pkg/metrics"
	"github.com/refraction-networking/conjure/pkg/phantoms"
	"github.com/refraction-networking/conjure/pkg/regserver/overrides"
	"github.com/refraction-networking/conjure/pkg/station/lib"
	pb "github.com/refraction-networking/conjure/proto"
)

type VerifSelector interface {
	Select([]byte, uint, uint, bool) (*phantoms.PhantomIP, error)
}

type verifSock struct {
	send func([]byte) error
}

func (s *verifSock) SendBytes(b []byte, _ zmq.Flag) (int, error) {
	if err := s.send(b); err != nil {
		return 0, err
	}
	return len(b), nil
}
func (s *verifSock) Close() error { return nil }

// VerifNewRegProcessor mirrors newRegProcessor without the ZMQ socket set-up.
func VerifNewRegProcessor(sel VerifSelector, send func([]byte) error, m *metrics.Metrics, authenticated bool,
	privkey []byte, withOverrides bool, transports map[pb.TransportType]lib.Transport) *RegProcessor {
	p := &RegProcessor{
		ipSelector:    sel,
		sock:          &verifSock{send},
		metrics:       m,
		authenticated: authenticated,
		privkey:       privkey,
		transports:    map[pb.TransportType]lib.Transport{},
	}
	if withOverrides {
		p.regOverrides = interfaces.Overrides([]interfaces.RegOverride{overrides.NewRandPrefixOverride()})
	}
	for k, v := range transports {
		p.transports[k] = v
	}
	return p
}

// VerifProcessBdReq / VerifProcessC2SWrapper expose the two unexported entry points.
func (p *RegProcessor) VerifProcessBdReq(c *pb.C2SWrapper) (*pb.RegistrationResponse, error) {
	return p.processBdReq(c)
}

func (p *RegProcessor) VerifProcessC2SWrapper(c *pb.C2SWrapper, addr []byte, m pb.RegistrationSource) ([]byte, error) {
	return p.processC2SWrapper(c, addr, m)
}
