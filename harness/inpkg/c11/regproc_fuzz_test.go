//go:build verif

package regprocessor

// C11 fuzz target for processBdReq / processC2SWrapper.

import (
	"bytes"
	"crypto/ed25519"
	"io"
	golog "log"
	"testing"
	"time"

	"github.com/refraction-networking/conjure/pkg/metrics"
	"github.com/refraction-networking/conjure/pkg/phantoms"
	"github.com/refraction-networking/conjure/pkg/station/lib"
	"github.com/refraction-networking/conjure/pkg/transports/connecting/dtls"
	"github.com/refraction-networking/conjure/pkg/transports/wrapping/min"
	"github.com/refraction-networking/conjure/pkg/transports/wrapping/obfs4"
	"github.com/refraction-networking/conjure/pkg/transports/wrapping/prefix"
	pb "github.com/refraction-networking/conjure/proto"
	log "github.com/sirupsen/logrus"
	"google.golang.org/protobuf/proto"
)

func FuzzVerifC11BdReq(f *testing.F) {
	log.SetOutput(io.Discard)
	golog.SetOutput(io.Discard)
	for _, s := range vFuzzSeeds() {
		f.Add(s, uint8(1))
	}
	sel, err := phantoms.SubnetsFromTomlFile("../../station/lib/test/phantom_subnets.toml")
	if err != nil {
		f.Fatal(err)
	}
	_, priv, _ := ed25519.GenerateKey(bytes.NewReader(bytes.Repeat([]byte{7}, 64)))
	quiet := log.New()
	quiet.SetOutput(io.Discard)
	m := metrics.NewMetrics(log.NewEntry(quiet), time.Hour)
	trs := map[pb.TransportType]lib.Transport{
		pb.TransportType_Min: min.Transport{}, pb.TransportType_Obfs4: obfs4.Transport{},
		pb.TransportType_Prefix: prefix.DefaultSet(), pb.TransportType_DTLS: dtls.Transport{},
	}
	f.Fuzz(func(t *testing.T, msg []byte, flags uint8) {
		w := &pb.C2SWrapper{}
		if proto.Unmarshal(msg, w) != nil {
			return
		}
		rp := VerifNewRegProcessor(sel, func([]byte) error { return nil }, m, flags&1 != 0, priv, true, trs)
		out, detail := vGuard(5*time.Second, func() {
			_, _ = rp.processBdReq(w)
			_, _ = rp.processC2SWrapper(w, []byte{10, 0, 0, 1}, pb.RegistrationSource_API)
		})
		if out != "ret" {
			vFuzzCrash("processBdReq/processC2SWrapper", out, detail, vmap{"msg": vHexS(msg), "flags": flags & 1})
		}
	})
}
