//go:build verif

package dnsregserver

// C11 driver for DNSRegServer.processRequest (the plaintext behind the noise
// layer is attacker-chosen) composed with a real RegProcessor.

import (
	"bytes"
	"crypto/ed25519"
	"fmt"
	"io"
	golog "log"
	"testing"
	"time"

	"github.com/refraction-networking/conjure/pkg/core"
	"github.com/refraction-networking/conjure/pkg/metrics"
	"github.com/refraction-networking/conjure/pkg/phantoms"
	"github.com/refraction-networking/conjure/pkg/regserver/regprocessor"
	"github.com/refraction-networking/conjure/pkg/station/lib"
	"github.com/refraction-networking/conjure/pkg/transports/connecting/dtls"
	"github.com/refraction-networking/conjure/pkg/transports/wrapping/min"
	"github.com/refraction-networking/conjure/pkg/transports/wrapping/obfs4"
	"github.com/refraction-networking/conjure/pkg/transports/wrapping/prefix"
	pb "github.com/refraction-networking/conjure/proto"
	log "github.com/sirupsen/logrus"
	"google.golang.org/protobuf/proto"
)

type dpCase struct {
	Msg     string `json:"msg"`
	CCGen   uint32 `json:"ccgen"`
	ZmqFail bool   `json:"zmqfail"`
}

type dpSel struct {
	Gen   uint32 `json:"gen"`
	V6    bool   `json:"v6"`
	Class string `json:"class"`
	IP    string `json:"ip"`
	Rand  bool   `json:"rand"`
}

type dpObs struct {
	View     interface{} `json:"view"`
	Sel      []dpSel     `json:"sel"`
	Out      string      `json:"out"`
	Detail   string      `json:"detail"`
	Err      string      `json:"err"`
	Success  bool        `json:"success"`
	Outdated bool        `json:"outdated"`
	HasBd    bool        `json:"has_bd"`
	Pub      int         `json:"pub"`
}

func dpSelect(sel *phantoms.PhantomIPSelector, w *pb.C2SWrapper, v6 bool) dpSel {
	c := w.GetRegistrationPayload()
	o := dpSel{Gen: c.GetDecoyListGeneration(), V6: v6}
	keys, err := core.GenSharedKeys(uint(c.GetClientLibVersion()), w.GetSharedSecret(), c.GetTransport())
	if err != nil {
		o.Class = "err"
		return o
	}
	ip, err := sel.Select(keys.ConjureSeed, uint(c.GetDecoyListGeneration()), uint(c.GetClientLibVersion()), v6)
	switch {
	case err == phantoms.ErrLegacyAddrSelectBug || err == phantoms.ErrLegacyMissingAddrs || err == phantoms.ErrLegacyV0SelectionBug:
		o.Class = "legacy"
	case err != nil:
		o.Class = "err"
	case ip == nil || ip.IP() == nil:
		o.Class = "nil"
	default:
		o.Class = "ok"
		o.IP = fmt.Sprintf("%x", []byte(*ip.IP()))
		o.Rand = ip.SupportRandomPort()
	}
	return o
}

func TestVerifC11DnsProc(t *testing.T) {
	var cases []dpCase
	if !vReadCases(t, &cases) {
		return
	}
	log.SetOutput(io.Discard)
	golog.SetOutput(io.Discard)
	sel, err := phantoms.SubnetsFromTomlFile("../../station/lib/test/phantom_subnets.toml")
	if err != nil {
		t.Fatal(err)
	}
	_, priv, _ := ed25519.GenerateKey(bytes.NewReader(bytes.Repeat([]byte{7}, 64)))
	quiet := log.New()
	quiet.SetOutput(io.Discard)
	trs := map[pb.TransportType]lib.Transport{
		pb.TransportType_Min:    min.Transport{},
		pb.TransportType_Obfs4:  obfs4.Transport{},
		pb.TransportType_Prefix: prefix.DefaultSet(),
		pb.TransportType_DTLS:   dtls.Transport{},
	}
	res := make([]dpObs, len(cases))
	for i, c := range cases {
		var o dpObs
		msg := vUnhex(c.Msg)
		o.View = vParse(msg)
		w := &pb.C2SWrapper{}
		if proto.Unmarshal(msg, w) == nil && w.RegistrationPayload != nil {
			o.Sel = append(o.Sel, dpSelect(sel, w, false), dpSelect(sel, w, true))
		}
		pub := 0
		m := metrics.NewMetrics(log.NewEntry(quiet), time.Hour)
		rp := regprocessor.VerifNewRegProcessor(sel, func([]byte) error {
			if c.ZmqFail {
				return fmt.Errorf("zmq unavailable")
			}
			pub++
			return nil
		}, m, true, priv, true, trs)
		s := &DNSRegServer{processor: rp, latestCCGen: c.CCGen, logger: quiet, metrics: m}
		var out []byte
		var rerr error
		o.Out, o.Detail = vGuard(10*time.Second, func() { out, rerr = s.processRequest(msg) })
		if rerr != nil {
			o.Err = rerr.Error()
		} else if o.Out == "ret" {
			dr := &pb.DnsResponse{}
			if err := proto.Unmarshal(out, dr); err == nil {
				o.Success = dr.GetSuccess()
				o.Outdated = dr.GetClientconfOutdated()
				o.HasBd = dr.BidirectionalResponse != nil
			}
		}
		o.Pub = pub
		res[i] = o
	}
	vWriteOut(t, res)
}
