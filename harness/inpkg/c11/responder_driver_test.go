//go:build verif

package responder

// C11 driver for the DNS responder: dns.MessageFromWireFormat, responseFor,
// msgformat.RemoveRequestFormat and the serialisation of the response, step by
// step under recover(); and the same packets through the real RecvAndRespond
// loop over a scripted PacketConn.  Observations only.

import (
	"math/rand"
	"bytes"
	"errors"
	"io"
	golog "log"
	"net"
	"sync"
	"testing"
	"time"

	"github.com/refraction-networking/conjure/pkg/registrars/dns-registrar/dns"
	"github.com/refraction-networking/conjure/pkg/registrars/dns-registrar/encryption"
	"github.com/refraction-networking/conjure/pkg/registrars/dns-registrar/msgformat"

	"github.com/flynn/noise"
)

type rsCase struct {
	Pkt     string `json:"pkt"`
	Plain   string `json:"plain"`   // if set: build a well-formed query carrying this plaintext under the noise layer
	HasPlain bool  `json:"has_plain"`
	RespLen int    `json:"resplen"` // size of the answer the registration callback returns in the loop
}

type rsQ struct {
	Name  []string `json:"name"`
	Type  uint16   `json:"type"`
	Class uint16   `json:"class"`
}
type rsRR struct {
	Name  []string `json:"name"`
	Type  uint16   `json:"type"`
	Class uint16   `json:"class"`
	TTL   uint32   `json:"ttl"`
	Data  string   `json:"data"`
}

type rsObs struct {
	// MessageFromWireFormat
	POut    string `json:"p_out"`
	PDetail string `json:"p_detail"`
	PErr    int    `json:"p_err"`
	PErrS   string `json:"p_errs"`
	ID      uint16 `json:"id"`
	Flags   uint16 `json:"flags"`
	Q       []rsQ  `json:"q"`
	An      []rsRR `json:"an"`
	Ns      []rsRR `json:"ns"`
	Ar      []rsRR `json:"ar"`
	// base32 (library) of the upper-cased join of the first k labels of the first question; "!" = error
	B32 []string `json:"b32"`
	// responseFor + RemoveRequestFormat + serialisation
	ROut    string `json:"r_out"`
	RDetail string `json:"r_detail"`
	Kind    int    `json:"kind"` // 0 nothing sent, 1 response without data, 2 payload handed to noise
	RFlags  uint16 `json:"rflags"`
	NAdd    int    `json:"nadd"`
	AddTTL  uint32 `json:"addttl"`
	Payload string `json:"payload"`
	WireLen int    `json:"wirelen"`
	// the real loop
	PktBuilt  string `json:"pkt_built"`
	LoopDone  bool   `json:"loop_done"`
	LoopRLen  int    `json:"loop_rlen"`
	LoopResp  bool   `json:"loop_resp"`
	LoopFlags uint16 `json:"loop_flags"`
	LoopProc  string `json:"loop_proc"` // what processMsg received (hex), "" if it was not called
}

func rsName(n dns.Name) []string {
	out := []string{}
	for _, l := range n {
		out = append(out, vHexS(l))
	}
	return out
}
func rsRRs(rrs []dns.RR) []rsRR {
	out := []rsRR{}
	for _, r := range rrs {
		out = append(out, rsRR{rsName(r.Name), r.Type, r.Class, r.TTL, vHexS(r.Data)})
	}
	return out
}

func rsErrCode(err error) int {
	switch {
	case err == nil:
		return 0
	case err == io.EOF || err == io.ErrUnexpectedEOF:
		return 30
	case err == dns.ErrReservedLabelType:
		return 31
	case err == dns.ErrTooManyPointers:
		return 32
	case errors.Is(err, dns.ErrNameTooLong):
		return 33
	case err == dns.ErrTrailingBytes:
		return 34
	case err == dns.ErrZeroLengthLabel || err == dns.ErrLabelTooLong:
		return 36
	}
	return 99
}

type scriptAddr int

func (a scriptAddr) Network() string { return "script" }
func (a scriptAddr) String() string  { return "script" }

// scriptConn feeds the packets one by one and records the answers by packet index
type scriptConn struct {
	mu    sync.Mutex
	pkts  [][]byte
	next  int
	resp  map[int][]byte
	done  chan struct{}
	reads int
}

func (c *scriptConn) ReadFrom(p []byte) (int, net.Addr, error) {
	c.mu.Lock()
	if c.next < len(c.pkts) {
		i := c.next
		c.next++
		n := copy(p, c.pkts[i])
		c.mu.Unlock()
		return n, scriptAddr(i), nil
	}
	c.mu.Unlock()
	<-c.done
	return 0, nil, io.EOF
}
func (c *scriptConn) WriteTo(p []byte, a net.Addr) (int, error) {
	c.mu.Lock()
	defer c.mu.Unlock()
	c.resp[int(a.(scriptAddr))] = append([]byte(nil), p...)
	return len(p), nil
}
func (c *scriptConn) Close() error                     { return nil }
func (c *scriptConn) LocalAddr() net.Addr              { return scriptAddr(-1) }
func (c *scriptConn) SetDeadline(time.Time) error      { return nil }
func (c *scriptConn) SetReadDeadline(time.Time) error  { return nil }
func (c *scriptConn) SetWriteDeadline(time.Time) error { return nil }

// rsNoiseQuery: what the requester does: noise N handshake message, request format, base32, labels, TXT query with EDNS(0)
func rsNoiseQuery(t *testing.T, priv []byte, domain dns.Name, id uint16, plain []byte) []byte {
	ccfg := encryption.NewConfig()
	ccfg.Initiator = true
	ccfg.PeerStatic = encryption.PubkeyFromPrivkey(priv)
	hs, err := noise.NewHandshakeState(ccfg)
	if err != nil {
		t.Fatal(err)
	}
	msg, _, _, err := hs.WriteMessage(nil, plain)
	if err != nil {
		t.Fatal(err)
	}
	msg, err = msgformat.AddRequestFormat(msg)
	if err != nil {
		t.Fatal(err)
	}
	enc := make([]byte, base32Encoding.EncodedLen(len(msg)))
	base32Encoding.Encode(enc, msg)
	enc = bytes.ToLower(enc)
	var labels [][]byte
	for len(enc) > 0 {
		n := len(enc)
		if n > 63 {
			n = 63
		}
		labels = append(labels, enc[:n])
		enc = enc[n:]
	}
	labels = append(labels, domain...)
	name, err := dns.NewName(labels)
	if err != nil {
		t.Fatal(err)
	}
	q := &dns.Message{ID: id, Flags: 0x0100, Question: []dns.Question{{Name: name, Type: dns.RRTypeTXT, Class: dns.ClassIN}},
		Additional: []dns.RR{{Name: dns.Name{}, Type: dns.RRTypeOPT, Class: 4096, TTL: 0, Data: []byte{}}}}
	pkt, err := q.WireFormat()
	if err != nil {
		t.Fatal(err)
	}
	return pkt
}

func TestVerifC11Responder(t *testing.T) {
	var cases []rsCase
	if !vReadCases(t, &cases) {
		return
	}
	golog.SetOutput(io.Discard)
	domain, err := dns.ParseName("t.example.com")
	if err != nil {
		t.Fatal(err)
	}
	priv := bytes.Repeat([]byte{0x42}, 32)
	cfg := encryption.NewConfig()
	cfg.Initiator = false
	cfg.StaticKeypair = noise.DHKey{Private: priv, Public: encryption.PubkeyFromPrivkey(priv)}
	r := &Responder{domain: domain, privkey: priv, noiseConfig: cfg, maxUDPPayload: 1280 - 40 - 8}
	res := make([]rsObs, len(cases))
	pkts := make([][]byte, len(cases))
	resplen := map[string]int{}
	for i, c := range cases {
		pkts[i] = vUnhex(c.Pkt)
		if c.HasPlain {
			plain := vUnhex(c.Plain)
			pkts[i] = rsNoiseQuery(t, priv, domain, uint16(i), plain)
			resplen[vHexS(plain)] = c.RespLen
		}
	}
	for i := range cases {
		var o rsObs
		pkt := pkts[i]
		o.PktBuilt = vHexS(pkt)
		var query dns.Message
		var perr error
		o.POut, o.PDetail = vGuard(10*time.Second, func() { query, perr = dns.MessageFromWireFormat(pkt) })
		o.PErr = rsErrCode(perr)
		if perr != nil {
			o.PErrS = perr.Error()
		}
		o.ID, o.Flags = query.ID, query.Flags
		o.Q = []rsQ{}
		for _, q := range query.Question {
			o.Q = append(o.Q, rsQ{rsName(q.Name), q.Type, q.Class})
		}
		o.An, o.Ns, o.Ar = rsRRs(query.Answer), rsRRs(query.Authority), rsRRs(query.Additional)
		if len(query.Question) > 0 {
			n := query.Question[0].Name
			for k := 0; k <= len(n); k++ {
				enc := bytes.ToUpper(bytes.Join(n[:k], nil))
				dst := make([]byte, base32Encoding.DecodedLen(len(enc)))
				m, err := base32Encoding.Decode(dst, enc)
				if err != nil {
					o.B32 = append(o.B32, "!")
				} else {
					o.B32 = append(o.B32, vHexS(dst[:m]))
				}
			}
		}
		if o.POut == "ret" {
			o.ROut, o.RDetail = vGuard(10*time.Second, func() {
				resp, payload := r.responseFor(&query, r.domain)
				if resp == nil {
					o.Kind = 0
					return
				}
				o.RFlags, o.NAdd = resp.Flags, len(resp.Additional)
				if len(resp.Additional) > 0 {
					o.AddTTL = resp.Additional[0].TTL
				}
				o.Kind = 1
				if payload != nil {
					p2, err := msgformat.RemoveRequestFormat(payload)
					if err != nil {
						o.Kind = 0
						return
					}
					o.Kind = 2
					o.Payload = vHexS(p2)
				}
				buf, err := r.dnsRespToUDPResp(resp, []byte{})
				if err == nil {
					o.WireLen = len(buf)
				}
			})
		}
		res[i] = o
	}
	// the step-by-step observations are on disk before the real loop runs: a panic inside the goroutines
	// RecvAndRespond starts cannot be recovered and kills this process
	vWriteOut(t, res)
	// the real loop on the same packets
	sc := &scriptConn{resp: map[int][]byte{}, done: make(chan struct{})}
	sc.pkts = pkts
	r.transport = sc
	var pmu sync.Mutex
	procs := map[string]bool{}
	loopDone := make(chan error, 1)
	go func() {
		loopDone <- r.RecvAndRespond(func(b []byte) ([]byte, error) {
			pmu.Lock()
			procs[vHexS(b)] = true
			n := resplen[vHexS(b)]
			pmu.Unlock()
			return bytes.Repeat([]byte{0x5a}, n), nil
		})
	}()
	// wait until the handlers are idle
	last, stable := -1, 0
	for k := 0; k < 400 && stable < 6; k++ {
		time.Sleep(25 * time.Millisecond)
		sc.mu.Lock()
		cur := len(sc.resp)*100000 + sc.next
		sc.mu.Unlock()
		if cur == last && sc.next == len(sc.pkts) {
			stable++
		} else {
			stable = 0
		}
		last = cur
	}
	close(sc.done)
	select {
	case <-loopDone:
	case <-time.After(5 * time.Second):
	}
	sc.mu.Lock()
	for i := range cases {
		res[i].LoopDone = true
		if cases[i].HasPlain && procs[cases[i].Plain] {
			res[i].LoopProc = cases[i].Plain
		}
		if b, ok := sc.resp[i]; ok {
			res[i].LoopResp = true
			res[i].LoopRLen = len(b)
			if len(b) >= 4 {
				res[i].LoopFlags = uint16(b[2])<<8 | uint16(b[3])
			}
		}
	}
	sc.mu.Unlock()
	vWriteOut(t, res)
}

// ---------------------------------------------------------------- burst lane
// Runs as its own `go test` process: the real RecvAndRespond loop under a sustained burst -- every packet of the
// enumeration many times over, shuffled, delivered back to back (the loop starts one goroutine per datagram, so
// hundreds are in flight), registration callbacks of varying duration -- and then a row of well-formed probe
// queries that must still be answered.  Nothing is recovered: a panic in any per-datagram goroutine, a runtime
// fatal error or a data-race report ends the process, and that is the observation.

type rbCase struct {
	Pkts    []rsCase `json:"pkts"`
	Repeat  int      `json:"repeat"`
	Seed    int64    `json:"seed"`
	Probes  int      `json:"probes"`
}

type rbObs struct {
	Fed       int  `json:"fed"`
	Responses int  `json:"responses"`
	Callbacks int  `json:"callbacks"`
	ProbesOK  int  `json:"probes_ok"`
	LoopEnded bool `json:"loop_ended"`
}

type burstConn struct {
	mu    sync.Mutex
	feed  chan []byte
	seq   int
	resp  map[int]int // datagram number -> length of the answer
	ids   map[int]uint16
	done  chan struct{}
}

func (c *burstConn) ReadFrom(p []byte) (int, net.Addr, error) {
	select {
	case b := <-c.feed:
		c.mu.Lock()
		i := c.seq
		c.seq++
		c.mu.Unlock()
		return copy(p, b), scriptAddr(i), nil
	case <-c.done:
		return 0, nil, io.EOF
	}
}
func (c *burstConn) WriteTo(p []byte, a net.Addr) (int, error) {
	c.mu.Lock()
	defer c.mu.Unlock()
	c.resp[int(a.(scriptAddr))] = len(p)
	if len(p) >= 2 {
		c.ids[int(a.(scriptAddr))] = uint16(p[0])<<8 | uint16(p[1])
	}
	return len(p), nil
}
func (c *burstConn) Close() error                     { return nil }
func (c *burstConn) LocalAddr() net.Addr              { return scriptAddr(-1) }
func (c *burstConn) SetDeadline(time.Time) error      { return nil }
func (c *burstConn) SetReadDeadline(time.Time) error  { return nil }
func (c *burstConn) SetWriteDeadline(time.Time) error { return nil }

func TestVerifC11ResponderBurst(t *testing.T) {
	var cases []rbCase
	if !vReadCases(t, &cases) {
		return
	}
	golog.SetOutput(io.Discard)
	domain, err := dns.ParseName("t.example.com")
	if err != nil {
		t.Fatal(err)
	}
	priv := bytes.Repeat([]byte{0x42}, 32)
	res := make([]rbObs, len(cases))
	for ci, c := range cases {
		cfg := encryption.NewConfig()
		cfg.Initiator = false
		cfg.StaticKeypair = noise.DHKey{Private: priv, Public: encryption.PubkeyFromPrivkey(priv)}
		r := &Responder{domain: domain, privkey: priv, noiseConfig: cfg, maxUDPPayload: 1280 - 40 - 8}
		var pkts [][]byte
		for i, pc := range c.Pkts {
			if pc.HasPlain {
				pkts = append(pkts, rsNoiseQuery(t, priv, domain, uint16(i), vUnhex(pc.Plain)))
			} else {
				pkts = append(pkts, vUnhex(pc.Pkt))
			}
		}
		bc := &burstConn{feed: make(chan []byte, 64), resp: map[int]int{}, ids: map[int]uint16{}, done: make(chan struct{})}
		r.transport = bc
		var cbs int64
		var cmu sync.Mutex
		loopDone := make(chan error, 1)
		go func() {
			loopDone <- r.RecvAndRespond(func(b []byte) ([]byte, error) {
				cmu.Lock()
				cbs++
				k := cbs
				cmu.Unlock()
				if len(b) == 9 && b[1] == 0xEE && b[8] == 0xEE { // a probe: always answered
					return []byte{0x5a, 0x5a}, nil
				}
				if k%3 == 0 {
					time.Sleep(time.Duration(k%7) * 50 * time.Microsecond)
				}
				if k%11 == 0 {
					return nil, io.ErrUnexpectedEOF
				}
				return bytes.Repeat([]byte{0x5a}, int(k%5)*300), nil
			})
		}()
		rng := rand.New(rand.NewSource(c.Seed))
		fed := 0
		for rep := 0; rep < c.Repeat; rep++ {
			order := rng.Perm(len(pkts))
			for _, i := range order {
				bc.feed <- pkts[i]
				fed++
			}
		}
		// probes: well-formed queries, each must be answered with its own ID
		first := -1
		for k := 0; k < c.Probes; k++ {
			pkt := rsNoiseQuery(t, priv, domain, uint16(0x7000+k), []byte{byte(k), 0xEE, 2, 3, 4, 5, 6, 7, 0xEE})
			bc.mu.Lock()
			if first < 0 {
				first = fed
			}
			bc.mu.Unlock()
			bc.feed <- pkt
			fed++
		}
		deadline := time.Now().Add(15 * time.Second)
		for time.Now().Before(deadline) {
			time.Sleep(20 * time.Millisecond)
			bc.mu.Lock()
			ok := 0
			for k := 0; k < c.Probes; k++ {
				if _, has := bc.resp[first+k]; has {
					ok++
				}
			}
			bc.mu.Unlock()
			res[ci].ProbesOK = ok
			if ok == c.Probes {
				break
			}
		}
		close(bc.done)
		select {
		case <-loopDone:
			res[ci].LoopEnded = true
		case <-time.After(5 * time.Second):
		}
		bc.mu.Lock()
		res[ci].Fed, res[ci].Responses = fed, len(bc.resp)
		bc.mu.Unlock()
		cmu.Lock()
		res[ci].Callbacks = int(cbs)
		cmu.Unlock()
	}
	vWriteOut(t, res)
}
