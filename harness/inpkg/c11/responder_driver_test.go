//go:build verif

package responder

// C11 driver for the DNS responder: dns.MessageFromWireFormat, responseFor,
// msgformat.RemoveRequestFormat and the serialisation of the response, step by
// step under recover(); and the same packets through the real RecvAndRespond
// loop over a scripted PacketConn.  Observations only.

import (
	"bytes"
	"errors"
	"io"
	golog "log"
	"net"
	"sync"
	"testing"
	"time"

	"github.com/refraction-networking/conjure/pkg/registrars/dns-registrar/dns"
	"github.com/refraction-networking/conjure/pkg/registrars/dns-registrar/encryption"
	"github.com/refraction-networking/conjure/pkg/registrars/dns-registrar/msgformat"

	"github.com/flynn/noise"
)

type rsCase struct {
	Pkt string `json:"pkt"`
}

type rsQ struct {
	Name  []string `json:"name"`
	Type  uint16   `json:"type"`
	Class uint16   `json:"class"`
}
type rsRR struct {
	Name  []string `json:"name"`
	Type  uint16   `json:"type"`
	Class uint16   `json:"class"`
	TTL   uint32   `json:"ttl"`
	Data  string   `json:"data"`
}

type rsObs struct {
	// MessageFromWireFormat
	POut    string `json:"p_out"`
	PDetail string `json:"p_detail"`
	PErr    int    `json:"p_err"`
	PErrS   string `json:"p_errs"`
	ID      uint16 `json:"id"`
	Flags   uint16 `json:"flags"`
	Q       []rsQ  `json:"q"`
	An      []rsRR `json:"an"`
	Ns      []rsRR `json:"ns"`
	Ar      []rsRR `json:"ar"`
	// base32 (library) of the upper-cased join of the first k labels of the first question; "!" = error
	B32 []string `json:"b32"`
	// responseFor + RemoveRequestFormat + serialisation
	ROut    string `json:"r_out"`
	RDetail string `json:"r_detail"`
	Kind    int    `json:"kind"` // 0 nothing sent, 1 response without data, 2 payload handed to noise
	RFlags  uint16 `json:"rflags"`
	NAdd    int    `json:"nadd"`
	AddTTL  uint32 `json:"addttl"`
	Payload string `json:"payload"`
	WireLen int    `json:"wirelen"`
	// the real loop
	LoopResp  bool   `json:"loop_resp"`
	LoopFlags uint16 `json:"loop_flags"`
	LoopProc  string `json:"loop_proc"` // what processMsg received (hex), "" if it was not called
}

func rsName(n dns.Name) []string {
	out := []string{}
	for _, l := range n {
		out = append(out, vHexS(l))
	}
	return out
}
func rsRRs(rrs []dns.RR) []rsRR {
	out := []rsRR{}
	for _, r := range rrs {
		out = append(out, rsRR{rsName(r.Name), r.Type, r.Class, r.TTL, vHexS(r.Data)})
	}
	return out
}

func rsErrCode(err error) int {
	switch {
	case err == nil:
		return 0
	case err == io.EOF || err == io.ErrUnexpectedEOF:
		return 30
	case err == dns.ErrReservedLabelType:
		return 31
	case err == dns.ErrTooManyPointers:
		return 32
	case errors.Is(err, dns.ErrNameTooLong):
		return 33
	case err == dns.ErrTrailingBytes:
		return 34
	case err == dns.ErrZeroLengthLabel || err == dns.ErrLabelTooLong:
		return 36
	}
	return 99
}

type scriptAddr int

func (a scriptAddr) Network() string { return "script" }
func (a scriptAddr) String() string  { return "script" }

// scriptConn feeds the packets one by one and records the answers by packet index
type scriptConn struct {
	mu    sync.Mutex
	pkts  [][]byte
	next  int
	resp  map[int][]byte
	done  chan struct{}
	reads int
}

func (c *scriptConn) ReadFrom(p []byte) (int, net.Addr, error) {
	c.mu.Lock()
	if c.next < len(c.pkts) {
		i := c.next
		c.next++
		n := copy(p, c.pkts[i])
		c.mu.Unlock()
		return n, scriptAddr(i), nil
	}
	c.mu.Unlock()
	<-c.done
	return 0, nil, io.EOF
}
func (c *scriptConn) WriteTo(p []byte, a net.Addr) (int, error) {
	c.mu.Lock()
	defer c.mu.Unlock()
	c.resp[int(a.(scriptAddr))] = append([]byte(nil), p...)
	return len(p), nil
}
func (c *scriptConn) Close() error                     { return nil }
func (c *scriptConn) LocalAddr() net.Addr              { return scriptAddr(-1) }
func (c *scriptConn) SetDeadline(time.Time) error      { return nil }
func (c *scriptConn) SetReadDeadline(time.Time) error  { return nil }
func (c *scriptConn) SetWriteDeadline(time.Time) error { return nil }

func TestVerifC11Responder(t *testing.T) {
	var cases []rsCase
	if !vReadCases(t, &cases) {
		return
	}
	golog.SetOutput(io.Discard)
	domain, err := dns.ParseName("t.example.com")
	if err != nil {
		t.Fatal(err)
	}
	priv := bytes.Repeat([]byte{0x42}, 32)
	cfg := encryption.NewConfig()
	cfg.Initiator = false
	cfg.StaticKeypair = noise.DHKey{Private: priv, Public: encryption.PubkeyFromPrivkey(priv)}
	r := &Responder{domain: domain, privkey: priv, noiseConfig: cfg, maxUDPPayload: 1280 - 40 - 8}
	res := make([]rsObs, len(cases))
	for i, c := range cases {
		var o rsObs
		pkt := vUnhex(c.Pkt)
		var query dns.Message
		var perr error
		o.POut, o.PDetail = vGuard(10*time.Second, func() { query, perr = dns.MessageFromWireFormat(pkt) })
		o.PErr = rsErrCode(perr)
		if perr != nil {
			o.PErrS = perr.Error()
		}
		o.ID, o.Flags = query.ID, query.Flags
		o.Q = []rsQ{}
		for _, q := range query.Question {
			o.Q = append(o.Q, rsQ{rsName(q.Name), q.Type, q.Class})
		}
		o.An, o.Ns, o.Ar = rsRRs(query.Answer), rsRRs(query.Authority), rsRRs(query.Additional)
		if len(query.Question) > 0 {
			n := query.Question[0].Name
			for k := 0; k <= len(n); k++ {
				enc := bytes.ToUpper(bytes.Join(n[:k], nil))
				dst := make([]byte, base32Encoding.DecodedLen(len(enc)))
				m, err := base32Encoding.Decode(dst, enc)
				if err != nil {
					o.B32 = append(o.B32, "!")
				} else {
					o.B32 = append(o.B32, vHexS(dst[:m]))
				}
			}
		}
		if o.POut == "ret" {
			o.ROut, o.RDetail = vGuard(10*time.Second, func() {
				resp, payload := r.responseFor(&query, r.domain)
				if resp == nil {
					o.Kind = 0
					return
				}
				o.RFlags, o.NAdd = resp.Flags, len(resp.Additional)
				if len(resp.Additional) > 0 {
					o.AddTTL = resp.Additional[0].TTL
				}
				o.Kind = 1
				if payload != nil {
					p2, err := msgformat.RemoveRequestFormat(payload)
					if err != nil {
						o.Kind = 0
						return
					}
					o.Kind = 2
					o.Payload = vHexS(p2)
				}
				buf, err := r.dnsRespToUDPResp(resp, []byte{})
				if err == nil {
					o.WireLen = len(buf)
				}
			})
		}
		res[i] = o
	}
	// the real loop on the same packets
	sc := &scriptConn{resp: map[int][]byte{}, done: make(chan struct{})}
	for _, c := range cases {
		sc.pkts = append(sc.pkts, vUnhex(c.Pkt))
	}
	r.transport = sc
	var pmu sync.Mutex
	procs := map[string]bool{}
	loopDone := make(chan error, 1)
	go func() {
		loopDone <- r.RecvAndRespond(func(b []byte) ([]byte, error) {
			pmu.Lock()
			procs[vHexS(b)] = true
			pmu.Unlock()
			return []byte("ok"), nil
		})
	}()
	// wait until the handlers are idle
	last, stable := -1, 0
	for k := 0; k < 400 && stable < 6; k++ {
		time.Sleep(25 * time.Millisecond)
		sc.mu.Lock()
		cur := len(sc.resp)*100000 + sc.next
		sc.mu.Unlock()
		if cur == last && sc.next == len(sc.pkts) {
			stable++
		} else {
			stable = 0
		}
		last = cur
	}
	close(sc.done)
	select {
	case <-loopDone:
	case <-time.After(5 * time.Second):
	}
	sc.mu.Lock()
	for i := range cases {
		if b, ok := sc.resp[i]; ok {
			res[i].LoopResp = true
			if len(b) >= 4 {
				res[i].LoopFlags = uint16(b[2])<<8 | uint16(b[3])
			}
		}
	}
	sc.mu.Unlock()
	vWriteOut(t, res)
}
