//go:build verif

package apiregserver

// C11 fuzz target for the two HTTP handlers composed with the real RegProcessor.

import (
	"bytes"
	"crypto/ed25519"
	"io"
	golog "log"
	"net/http/httptest"
	"testing"
	"time"

	"github.com/refraction-networking/conjure/pkg/metrics"
	"github.com/refraction-networking/conjure/pkg/phantoms"
	"github.com/refraction-networking/conjure/pkg/regserver/regprocessor"
	pb "github.com/refraction-networking/conjure/proto"
	log "github.com/sirupsen/logrus"
)

func FuzzVerifC11Api(f *testing.F) {
	log.SetOutput(io.Discard)
	golog.SetOutput(io.Discard)
	for _, s := range vFuzzSeeds() {
		f.Add(s, uint8(1), uint32(1000))
		f.Add(s, uint8(0), uint32(0))
	}
	sel, err := phantoms.SubnetsFromTomlFile("../../station/lib/test/phantom_subnets.toml")
	if err != nil {
		f.Fatal(err)
	}
	_, priv, _ := ed25519.GenerateKey(bytes.NewReader(bytes.Repeat([]byte{7}, 64)))
	quiet := log.New()
	quiet.SetOutput(io.Discard)
	m := metrics.NewMetrics(log.NewEntry(quiet), time.Hour)
	f.Fuzz(func(t *testing.T, body []byte, flags uint8, ccgen uint32) {
		rp := regprocessor.VerifNewRegProcessor(sel, func([]byte) error { return nil }, m, true, priv, true, verifTransports)
		s := &APIRegServer{processor: rp, logger: quiet, logClientIP: true, metrics: m}
		if flags&2 != 0 {
			g := ccgen
			s.latestClientConf = &pb.ClientConf{Generation: &g}
		}
		path := "/register"
		if flags&1 != 0 {
			path = "/register-bidirectional"
		}
		r := httptest.NewRequest("POST", path, bytes.NewReader(body))
		w := httptest.NewRecorder()
		out, detail := vGuard(5*time.Second, func() {
			if flags&1 != 0 {
				s.registerBidirectional(w, r)
			} else {
				s.register(w, r)
			}
		})
		if out != "ret" {
			vFuzzCrash("api", out, detail, vmap{"body": vHexS(body), "flags": flags & 3, "ccgen": ccgen})
		}
	})
}
