//go:build verif

package dnsregserver

// C11 fuzz target for DNSRegServer.processRequest.

import (
	"bytes"
	"crypto/ed25519"
	"io"
	golog "log"
	"testing"
	"time"

	"github.com/refraction-networking/conjure/pkg/metrics"
	"github.com/refraction-networking/conjure/pkg/phantoms"
	"github.com/refraction-networking/conjure/pkg/regserver/regprocessor"
	"github.com/refraction-networking/conjure/pkg/station/lib"
	"github.com/refraction-networking/conjure/pkg/transports/connecting/dtls"
	"github.com/refraction-networking/conjure/pkg/transports/wrapping/min"
	"github.com/refraction-networking/conjure/pkg/transports/wrapping/obfs4"
	"github.com/refraction-networking/conjure/pkg/transports/wrapping/prefix"
	pb "github.com/refraction-networking/conjure/proto"
	log "github.com/sirupsen/logrus"
)

func FuzzVerifC11DnsProc(f *testing.F) {
	log.SetOutput(io.Discard)
	golog.SetOutput(io.Discard)
	for _, s := range vFuzzSeeds() {
		f.Add(s, uint32(1000))
	}
	sel, err := phantoms.SubnetsFromTomlFile("../../station/lib/test/phantom_subnets.toml")
	if err != nil {
		f.Fatal(err)
	}
	_, priv, _ := ed25519.GenerateKey(bytes.NewReader(bytes.Repeat([]byte{7}, 64)))
	quiet := log.New()
	quiet.SetOutput(io.Discard)
	m := metrics.NewMetrics(log.NewEntry(quiet), time.Hour)
	trs := map[pb.TransportType]lib.Transport{
		pb.TransportType_Min: min.Transport{}, pb.TransportType_Obfs4: obfs4.Transport{},
		pb.TransportType_Prefix: prefix.DefaultSet(), pb.TransportType_DTLS: dtls.Transport{},
	}
	f.Fuzz(func(t *testing.T, msg []byte, ccgen uint32) {
		rp := regprocessor.VerifNewRegProcessor(sel, func([]byte) error { return nil }, m, true, priv, true, trs)
		s := &DNSRegServer{processor: rp, latestCCGen: ccgen, logger: quiet, metrics: m}
		out, detail := vGuard(5*time.Second, func() { _, _ = s.processRequest(msg) })
		if out != "ret" {
			vFuzzCrash("dnsregserver.processRequest", out, detail, vmap{"msg": vHexS(msg), "ccgen": ccgen})
		}
	})
}
