//go:build verif

package lib

// C11 fuzz targets (thorough tier): coverage-guided search for inputs on which the ZMQ ingest or a
// transport's parameter handling panics or hangs.  Crashes are recorded, never raised.

import (
	"io"
	golog "log"
	"os"
	"testing"
	"time"

	"github.com/refraction-networking/conjure/pkg/transports/wrapping/prefix"
	pb "github.com/refraction-networking/conjure/proto"
	"google.golang.org/protobuf/types/known/anypb"
)

func fuzzRM(tb testing.TB, v4, v6, geofail bool) *RegistrationManager {
	os.Setenv("PHANTOM_SUBNET_LOCATION", "./test/phantom_subnets.toml")
	pfx, err := prefix.Default([][32]byte{{1, 2, 3}})
	if err != nil {
		tb.Fatal(err)
	}
	rm := NewRegistrationManager(&RegConfig{EnableIPv4: v4, EnableIPv6: v6})
	if rm == nil {
		tb.Fatal("no registration manager")
	}
	rm.Logger.SetOutput(io.Discard)
	rm.GeoIP = &verifGeo{fail: geofail}
	for _, id := range []int32{1, 2, 3, 4} {
		_ = rm.AddTransport(pb.TransportType(id), stTransport(id, pfx))
	}
	return rm
}

func FuzzVerifC11Ingest(f *testing.F) {
	golog.SetOutput(io.Discard)
	for _, s := range vFuzzSeeds() {
		f.Add(s, uint8(3))
	}
	rms := map[uint8]*RegistrationManager{}
	f.Fuzz(func(t *testing.T, msg []byte, cfg uint8) {
		cfg &= 7
		rm := rms[cfg]
		if rm == nil {
			rm = fuzzRM(t, cfg&1 != 0, cfg&2 != 0, cfg&4 != 0)
			rms[cfg] = rm
		}
		out, detail := vGuard(5*time.Second, func() { _, _ = rm.parseRegMessage(msg) })
		if out != "ret" {
			vFuzzCrash("parseRegMessage", out, detail, vmap{"msg": vHexS(msg), "cfg": cfg})
		}
	})
}

func FuzzVerifC11Params(f *testing.F) {
	for _, s := range vFuzzSeeds() {
		f.Add(uint8(1), uint32(4), true, "type.googleapis.com/proto.GenericTransportParams", s)
		f.Add(uint8(4), uint32(4), true, "", s)
		f.Add(uint8(3), uint32(2), true, "type.googleapis.com/tapdance.DTLSTransportParams", s)
	}
	pfx, err := prefix.Default([][32]byte{{1, 2, 3}})
	if err != nil {
		f.Fatal(err)
	}
	f.Fuzz(func(t *testing.T, tr uint8, libver uint32, hasAny bool, url string, value []byte) {
		tp := stTransport(int32(tr%4)+1, pfx)
		var data *anypb.Any
		if hasAny {
			data = &anypb.Any{TypeUrl: url, Value: value}
		}
		out, detail := vGuard(5*time.Second, func() {
			p, err := tp.ParseParams(uint(libver), data)
			if err == nil {
				_, _ = tp.GetDstPort(uint(libver), []byte("0123456789abcdef"), p)
			}
		})
		if out != "ret" {
			vFuzzCrash("ParseParams/GetDstPort", out, detail, vmap{"transport": tr%4 + 1, "libver": libver, "has_any": hasAny, "url": url, "value": vHexS(value)})
		}
	})
}
