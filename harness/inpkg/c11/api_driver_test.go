//go:build verif

package apiregserver

// C11 driver for the registrar's HTTP handlers (register / registerBidirectional)
// composed with a real RegProcessor (recording ZMQ socket, real phantom selector).
// Every request is sent twice: over a real net/http server through a raw TCP
// connection ("does the client get a status line?"), and directly into the
// handler with a ResponseRecorder under recover().  Observations only.

import (
	"bufio"
	"bytes"
	"crypto/ed25519"
	"fmt"
	"io"
	golog "log"
	"net"
	"net/http"
	"net/http/httptest"
	"strconv"
	"strings"
	"sync"
	"testing"
	"time"

	"github.com/gorilla/mux"
	"github.com/refraction-networking/conjure/pkg/core"
	"github.com/refraction-networking/conjure/pkg/metrics"
	"github.com/refraction-networking/conjure/pkg/phantoms"
	"github.com/refraction-networking/conjure/pkg/regserver/regprocessor"
	"github.com/refraction-networking/conjure/pkg/station/lib"
	"github.com/refraction-networking/conjure/pkg/transports/connecting/dtls"
	"github.com/refraction-networking/conjure/pkg/transports/wrapping/min"
	"github.com/refraction-networking/conjure/pkg/transports/wrapping/obfs4"
	"github.com/refraction-networking/conjure/pkg/transports/wrapping/prefix"
	pb "github.com/refraction-networking/conjure/proto"
	log "github.com/sirupsen/logrus"
	"google.golang.org/protobuf/proto"
)

type apiCase struct {
	Handler string   `json:"handler"` // "uni" | "bidi"
	Method  string   `json:"method"`
	Body    string   `json:"body"`   // hex
	XFF     []string `json:"xff"`    // X-Forwarded-For header values
	Remote  string   `json:"remote"` // RemoteAddr for the recorder run
	CLen    *int64   `json:"clen"`   // ContentLength override for the recorder run (nil: len(body))
	Chunked bool     `json:"chunked"`
	CCGen   *uint32  `json:"ccgen"` // generation of the server's ClientConf
	ZmqFail bool     `json:"zmqfail"`
	// header dimension: verbatim extra header lines ("Name: value") for the real-server run; with NoCLen the driver
	// writes no Content-Length of its own (the lines carry it, or nothing does); SrvOnly: no recorder run
	RawHdr  []string `json:"raw_hdr"`
	NoCLen  bool     `json:"no_clen"`
	SrvOnly bool     `json:"srv_only"`
}

type selObs struct {
	Gen   uint32 `json:"gen"`
	V6    bool   `json:"v6"`
	Class string `json:"class"` // ok | legacy | err
	IP    string `json:"ip"`
	Rand  bool   `json:"rand"`
}

type apiObs struct {
	View      interface{} `json:"view"`
	Sel       []selObs    `json:"sel"`
	SrvStatus int         `json:"srv_status"` // 0: no status line
	SrvErr    string      `json:"srv_err"`
	SrvBody   int         `json:"srv_body"`
	SrvCC     bool        `json:"srv_cc"` // response carried a ClientConf
	SrvPub    int         `json:"srv_pub"`
	RecOut    string      `json:"rec_out"` // ret | panic | hang
	RecDetail string      `json:"rec_detail"`
	RecCode   int         `json:"rec_code"`
	RecPub    int         `json:"rec_pub"`
	XffSplit  []int       `json:"xff_split"` // len(strings.Split(v, ",")) for every X-Forwarded-For value
}

var verifTransports = map[pb.TransportType]lib.Transport{
	pb.TransportType_Min:    min.Transport{},
	pb.TransportType_Obfs4:  obfs4.Transport{},
	pb.TransportType_Prefix: prefix.DefaultSet(),
	pb.TransportType_DTLS:   dtls.Transport{},
}

type pubRec struct {
	mu   sync.Mutex
	n    int
	fail bool
}

func (p *pubRec) send(b []byte) error {
	p.mu.Lock()
	defer p.mu.Unlock()
	if p.fail {
		return fmt.Errorf("zmq unavailable")
	}
	p.n++
	return nil
}

func selClass(sel *phantoms.PhantomIPSelector, secret []byte, libver uint, tr pb.TransportType, gen uint32, v6 bool) selObs {
	o := selObs{Gen: gen, V6: v6}
	keys, err := core.GenSharedKeys(libver, secret, tr)
	if err != nil {
		o.Class = "err"
		return o
	}
	ip, err := sel.Select(keys.ConjureSeed, uint(gen), libver, v6)
	switch {
	case err == phantoms.ErrLegacyAddrSelectBug || err == phantoms.ErrLegacyMissingAddrs || err == phantoms.ErrLegacyV0SelectionBug:
		o.Class = "legacy"
	case err != nil || ip == nil || ip.IP() == nil:
		o.Class = "err"
	default:
		o.Class = "ok"
		o.IP = fmt.Sprintf("%x", []byte(*ip.IP()))
		o.Rand = ip.SupportRandomPort()
	}
	return o
}

func TestVerifC11Api(t *testing.T) {
	var cases []apiCase
	if !vReadCases(t, &cases) {
		return
	}
	log.SetOutput(io.Discard)
	golog.SetOutput(io.Discard)
	sel, err := phantoms.SubnetsFromTomlFile("../../station/lib/test/phantom_subnets.toml")
	if err != nil {
		t.Fatal(err)
	}
	_, priv, _ := ed25519.GenerateKey(bytes.NewReader(bytes.Repeat([]byte{7}, 64)))
	quiet := log.New()
	quiet.SetOutput(io.Discard)
	res := make([]apiObs, len(cases))
	for i, c := range cases {
		body := vUnhex(c.Body)
		var o apiObs
		o.View = vParse(body)
		// selector oracle, tabulated for the client's and the server's generation
		w := &pb.C2SWrapper{}
		if proto.Unmarshal(body, w) == nil && w.RegistrationPayload != nil {
			p := w.RegistrationPayload
			gens := []uint32{p.GetDecoyListGeneration()}
			if c.CCGen != nil && *c.CCGen != gens[0] {
				gens = append(gens, *c.CCGen)
			}
			for _, g := range gens {
				for _, v6 := range []bool{false, true} {
					o.Sel = append(o.Sel, selClass(sel, w.GetSharedSecret(), uint(p.GetClientLibVersion()), p.GetTransport(), g, v6))
				}
			}
		}
		mk := func() (*APIRegServer, *pubRec) {
			rec := &pubRec{fail: c.ZmqFail}
			m := metrics.NewMetrics(log.NewEntry(quiet), time.Hour)
			rp := regprocessor.VerifNewRegProcessor(sel, rec.send, m, true, priv, true, verifTransports)
			s := &APIRegServer{processor: rp, logger: quiet, logClientIP: true, metrics: m}
			if c.CCGen != nil {
				g := *c.CCGen
				s.latestClientConf = &pb.ClientConf{Generation: &g}
			}
			return s, rec
		}
		path := "/register"
		if c.Handler == "bidi" {
			path = "/register-bidirectional"
		}

		// --- run 1: real server, raw client
		{
			s, rec := mk()
			r := mux.NewRouter()
			r.HandleFunc("/register", s.register)
			r.HandleFunc("/register-bidirectional", s.registerBidirectional)
			ts := httptest.NewUnstartedServer(r)
			ts.Config.ErrorLog = golog.New(io.Discard, "", 0)
			ts.Start()
			func() {
				defer ts.Close()
				conn, err := net.DialTimeout("tcp", ts.Listener.Addr().String(), 5*time.Second)
				if err != nil {
					o.SrvErr = "dial: " + err.Error()
					return
				}
				defer conn.Close()
				_ = conn.SetDeadline(time.Now().Add(10 * time.Second))
				var req bytes.Buffer
				fmt.Fprintf(&req, "%s %s HTTP/1.1\r\nHost: x\r\nConnection: close\r\n", c.Method, path)
				for _, v := range c.XFF {
					fmt.Fprintf(&req, "X-Forwarded-For: %s\r\n", v)
				}
				for _, l := range c.RawHdr {
					req.WriteString(l + "\r\n")
				}
				if c.NoCLen {
					req.WriteString("\r\n")
					req.Write(body)
				} else if c.Chunked {
					fmt.Fprintf(&req, "Transfer-Encoding: chunked\r\n\r\n%x\r\n", len(body))
					req.Write(body)
					req.WriteString("\r\n0\r\n\r\n")
				} else {
					fmt.Fprintf(&req, "Content-Length: %d\r\n\r\n", len(body))
					req.Write(body)
				}
				if _, err := conn.Write(req.Bytes()); err != nil {
					o.SrvErr = "write: " + err.Error()
					return
				}
				if c.NoCLen {
					// the announced length may exceed what was sent: end the request so that the server does not wait for more
					if tc, ok := conn.(*net.TCPConn); ok {
						_ = tc.CloseWrite()
					}
				}
				br := bufio.NewReader(conn)
				line, err := br.ReadString('\n')
				if err != nil || !strings.HasPrefix(line, "HTTP/1.") {
					o.SrvErr = fmt.Sprintf("no status line: %q %v", line, err)
					return
				}
				parts := strings.SplitN(strings.TrimSpace(line), " ", 3)
				if len(parts) >= 2 {
					o.SrvStatus, _ = strconv.Atoi(parts[1])
				}
				// headers + body
				resp, err := http.ReadResponse(bufio.NewReader(io.MultiReader(strings.NewReader(line), br)), nil)
				if err == nil {
					b, _ := io.ReadAll(resp.Body)
					o.SrvBody = len(b)
					rr := &pb.RegistrationResponse{}
					if len(b) > 0 && proto.Unmarshal(b, rr) == nil {
						o.SrvCC = rr.ClientConf != nil
					}
				}
			}()
			o.SrvPub = rec.n
		}

		for _, v := range c.XFF {
			o.XffSplit = append(o.XffSplit, len(strings.Split(v, ",")))
		}
		// --- run 2: the handler itself, recorder, recover
		if !c.SrvOnly {
			s, rec := mk()
			r := httptest.NewRequest(c.Method, path, bytes.NewReader(body))
			if c.Remote != "" {
				r.RemoteAddr = c.Remote
			}
			for _, v := range c.XFF {
				r.Header.Add("X-Forwarded-For", v)
			}
			if c.CLen != nil {
				r.ContentLength = *c.CLen
			}
			if c.Chunked {
				r.ContentLength = -1
			}
			w := httptest.NewRecorder()
			o.RecOut, o.RecDetail = vGuard(10*time.Second, func() {
				if c.Handler == "bidi" {
					s.registerBidirectional(w, r)
				} else {
					s.register(w, r)
				}
			})
			o.RecCode = w.Code
			o.RecPub = rec.n
		}
		res[i] = o
	}
	vWriteOut(t, res)
}

// ---------------------------------------------------------------- multi-step lane
// Sequences of external requests against ONE registrar, interleaved with the operator's subnet reload
// (SIGHUP -> ReloadSubnets).  Every step runs under a timeout: a request that gets no status because the
// handler is stuck on a lock, or a reload that never returns, is the observation "hang".

type seqStep struct {
	Kind string  `json:"kind"` // req | reload
	Req  apiCase `json:"req"`
}

type seqCase struct {
	Steps []seqStep `json:"steps"`
}

type seqObs struct {
	Kind   string      `json:"kind"`
	View   interface{} `json:"view"`
	Sel    []selObs    `json:"sel"`
	Out    string      `json:"out"` // ret | panic | hang
	Detail string      `json:"detail"`
	Code   int         `json:"code"`
	Pub    int         `json:"pub"`
	Err    string      `json:"err"`
}

func TestVerifC11ApiSeq(t *testing.T) {
	var cases []seqCase
	if !vReadCases(t, &cases) {
		return
	}
	log.SetOutput(io.Discard)
	golog.SetOutput(io.Discard)
	t.Setenv("PHANTOM_SUBNET_LOCATION", "../../station/lib/test/phantom_subnets.toml")
	sel, err := phantoms.SubnetsFromTomlFile("../../station/lib/test/phantom_subnets.toml")
	if err != nil {
		t.Fatal(err)
	}
	_, priv, _ := ed25519.GenerateKey(bytes.NewReader(bytes.Repeat([]byte{7}, 64)))
	quiet := log.New()
	quiet.SetOutput(io.Discard)
	res := make([][]seqObs, len(cases))
	for ci, sc := range cases {
		rec := &pubRec{}
		m := metrics.NewMetrics(log.NewEntry(quiet), time.Hour)
		rp := regprocessor.VerifNewRegProcessor(sel, rec.send, m, true, priv, true, verifTransports)
		s := &APIRegServer{processor: rp, logger: quiet, logClientIP: true, metrics: m}
		out := make([]seqObs, len(sc.Steps))
		for si, st := range sc.Steps {
			o := seqObs{Kind: st.Kind}
			if st.Kind == "reload" {
				var rerr error
				o.Out, o.Detail = vGuard(4*time.Second, func() { rerr = rp.ReloadSubnets() })
				if rerr != nil {
					o.Err = rerr.Error()
				}
				out[si] = o
				continue
			}
			c := st.Req
			body := vUnhex(c.Body)
			o.View = vParse(body)
			w := &pb.C2SWrapper{}
			if proto.Unmarshal(body, w) == nil && w.RegistrationPayload != nil {
				p := w.RegistrationPayload
				for _, v6 := range []bool{false, true} {
					o.Sel = append(o.Sel, selClass(sel, w.GetSharedSecret(), uint(p.GetClientLibVersion()), p.GetTransport(), p.GetDecoyListGeneration(), v6))
				}
			}
			rec.mu.Lock()
			rec.fail = c.ZmqFail
			before := rec.n
			rec.mu.Unlock()
			path := "/register"
			if c.Handler == "bidi" {
				path = "/register-bidirectional"
			}
			r := httptest.NewRequest(c.Method, path, bytes.NewReader(body))
			wr := httptest.NewRecorder()
			o.Out, o.Detail = vGuard(4*time.Second, func() {
				if c.Handler == "bidi" {
					s.registerBidirectional(wr, r)
				} else {
					s.register(wr, r)
				}
			})
			if o.Out == "ret" {
				o.Code = wr.Code
			}
			rec.mu.Lock()
			o.Pub = rec.n - before
			rec.mu.Unlock()
			out[si] = o
		}
		res[ci] = out
	}
	vWriteOut(t, res)
}
