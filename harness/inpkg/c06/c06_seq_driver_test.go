package lib

// Correspondence driver for C06, every path to the dial.  Records what the implementation does; contains no
// assertions about conjure.
//
//   TestVerifC06Seq : operation sequences on ONE RegistrationManager with a wrapping transport and a CONNECTING
//     transport registered.  Registrations are real C2SWrapper messages through parseRegMessage and
//     ingestRegistration (new ones and duplicates whose covert address differs), OnReload to another policy,
//     incoming connections (lookup among the valid registrations + MarkActive + Proxy, as cmd/application does),
//     expiry through RemoveOldRegistrations.  The connecting transport is a stand-in for the DTLS transport (which
//     needs a tun device and a fixed UDP port): Connect records the object it is handed and returns a loopback
//     connection at once; ingest, handleConnectingTpReg, Proxy and the dial are the real code.  Observed per step:
//     the tracked object (Covert, Valid), the objects handed to Connect, the addresses the dial recorder saw,
//     DNS questions asked after admission.

import (
	"context"
	"encoding/binary"
	"encoding/hex"
	"encoding/json"
	"errors"
	"fmt"
	"io"
	"net"
	"os"
	"strings"
	"sync"
	"testing"
	"time"

	"github.com/refraction-networking/conjure/pkg/core"
	"github.com/refraction-networking/conjure/pkg/station/log"
	"github.com/refraction-networking/conjure/pkg/transports"
	pb "github.com/refraction-networking/conjure/proto"
	"google.golang.org/protobuf/proto"
)

// ---------------------------------------------------------------- connecting transport stand-in

type vc06ConnTransport struct {
	*mockTransport
	mu       sync.Mutex
	connects []string // hex of the Covert of every object handed to Connect
	fail     bool
	onConn   func() // runs inside Connect: the name system moves on between admission and the dial
	cmu      sync.Mutex
	entered  int // Connect calls
	finished int // Connect calls that failed + connections the station has closed again
}

func (*vc06ConnTransport) Name() string      { return "verif-connecting" }
func (*vc06ConnTransport) LogPrefix() string { return "VCONN" }
func (*vc06ConnTransport) GetProto() pb.IPProto {
	return pb.IPProto_Udp
}

// like the DTLS transport: an identifier of its own derived from the shared secret
func (*vc06ConnTransport) GetIdentifier(d transports.Registration) string {
	return string(core.ConjureHMAC(d.SharedSecret(), "verifConnectingHMACString"))
}

func (t *vc06ConnTransport) Connect(ctx context.Context, reg transports.Registration) (net.Conn, error) {
	t.mu.Lock()
	defer t.mu.Unlock()
	if d, ok := reg.(*DecoyRegistration); ok && d != nil {
		t.connects = append(t.connects, vc06Hex(d.Covert))
	} else {
		t.connects = append(t.connects, vc06Hex(fmt.Sprintf("<%T>", reg)))
	}
	if t.onConn != nil {
		t.onConn()
	}
	t.cmu.Lock()
	t.entered++
	if t.fail {
		t.finished++
	}
	t.cmu.Unlock()
	if t.fail {
		return nil, errors.New("scripted: client unreachable")
	}
	station, client := net.Pipe()
	client.Close() // the client goes away at once; Proxy dials the covert before it notices
	return &vc06Conn{Conn: station, t: t}, nil
}

// the connection handed to the station: when the station closes it, the hand-off has run to its end
type vc06Conn struct {
	net.Conn
	t    *vc06ConnTransport
	once sync.Once
}

func (c *vc06Conn) Close() error {
	c.once.Do(func() {
		c.t.cmu.Lock()
		c.t.finished++
		c.t.cmu.Unlock()
	})
	return c.Conn.Close()
}

func (t *vc06ConnTransport) counts() (int, int) {
	t.cmu.Lock()
	defer t.cmu.Unlock()
	return t.entered, t.finished
}

// awaitStart waits (up to 5 s) until a hand-off that must come has reached Connect
func (t *vc06ConnTransport) awaitStart(c0 int) {
	for k := 0; k < 2500; k++ {
		if e, _ := t.counts(); e > c0 {
			return
		}
		time.Sleep(2 * time.Millisecond)
	}
}

// quiesce waits until no hand-off is in flight and none has started for `quiet`
func (t *vc06ConnTransport) quiesce(quiet time.Duration) bool {
	deadline := time.Now().Add(20 * time.Second)
	idleSince := time.Time{}
	for time.Now().Before(deadline) {
		if e, f := t.counts(); e == f {
			if idleSince.IsZero() {
				idleSince = time.Now()
			} else if time.Since(idleSince) >= quiet {
				return true
			}
		} else {
			idleSince = time.Time{}
		}
		time.Sleep(2 * time.Millisecond)
	}
	return false
}

func (t *vc06ConnTransport) take() []string {
	t.mu.Lock()
	defer t.mu.Unlock()
	c := t.connects
	t.connects = nil
	if c == nil {
		c = []string{}
	}
	return c
}

func (t *vc06ConnTransport) setFail(f bool) {
	t.mu.Lock()
	t.fail = f
	t.mu.Unlock()
}

// ConnectingTpStats: required by handleConnectingTpReg, not used by the driver
type vc06ConnStats struct{}

func (*vc06ConnStats) AddCreatedConnecting(asn uint, cc string, tp string)               {}
func (*vc06ConnStats) AddCreatedToSuccessfulConnecting(asn uint, cc string, tp string)   {}
func (*vc06ConnStats) AddCreatedToTimeoutConnecting(asn uint, cc string, tp string)      {}
func (*vc06ConnStats) AddSuccessfulToDiscardedConnecting(asn uint, cc string, tp string) {}
func (*vc06ConnStats) AddOtherFailConnecting(asn uint, cc string, tp string)             {}

// ---------------------------------------------------------------- cases

type vc06SeqOp struct {
	Op         string `json:"op"`     // ingest | reload | connin | expire
	Secret     int    `json:"secret"` // which client (shared secret)
	Kind       string `json:"kind"`   // wrap | conn : transport of that client
	Covert     string `json:"covert"` // hex, PORT = recorder port
	Source     string `json:"source"` // api | detector
	Prescanned bool   `json:"prescanned"`
	Live       bool   `json:"live"`    // what the liveness probe will say
	ConnOk     bool   `json:"conn_ok"` // Connect returns a connection
	Epoch      int    `json:"epoch"`   // resolver epoch during the step
	Policy     int    `json:"policy"`  // reload
}

type vc06SeqHist struct {
	Start  int                     `json:"start"`
	Ops    []vc06SeqOp             `json:"ops"`
	Script map[string][]vc06Answer `json:"script"`
}

type vc06SeqInput struct {
	Policies     []vc06Policy  `json:"policies"`
	PhantomBlock []string      `json:"phantom_block"`
	Histories    []vc06SeqHist `json:"histories"`
}

type vc06Tracked struct {
	Tracked bool   `json:"tracked"`
	Valid   bool   `json:"valid"`
	Covert  string `json:"covert"` // hex
}

type vc06SeqRes struct {
	Dump     vc06PolicyDump `json:"dump"` // the parsed lists in force when the step ran (after it, for reload)
	Provided string         `json:"provided,omitempty"`
	ParseErr string         `json:"parse_err,omitempty"`
	NDrafts  int            `json:"ndrafts"`
	ValidIn  bool           `json:"valid_in"` // ValidateRegistration
	GLive    bool           `json:"g_live"`   // a probe is due and the phantom answers
	PBlock   bool           `json:"pblock"`   // from the detector, phantom blocklisted here
	Phantom  string         `json:"phantom,omitempty"`
	Check    *vc06Res       `json:"check,omitempty"` // ParseOrResolveBlocklisted on the covert, same epoch, with oracle values
	Before   vc06Tracked    `json:"before"`
	After    vc06Tracked    `json:"after"`
	Connects []string       `json:"connects"`   // hex covert of objects handed to Connect
	Proxied  []string       `json:"proxied"`    // hex covert of objects the driver handed to Proxy (connin)
	Dialed   []string       `json:"dialed"`     // recorder: local address of every accepted connection
	DialQ    int            `json:"dial_query"` // DNS questions after admission / during Proxy
	Stuck    bool           `json:"stuck,omitempty"`
	Panic    string         `json:"panic,omitempty"`
}

func vc06SeqConf(p vc06Policy, pblock []string, st ConnectingTpStats) *RegConfig {
	c := &RegConfig{
		CovertBlocklistSubnets: p.Block,
		CovertAllowlistSubnets: p.Allow,
		CovertBlocklistDomains: p.Domains,
		PhantomBlocklist:       pblock,
		ConnectingStats:        st,
	}
	c.EnableIPv4, c.EnableIPv6 = true, true
	func() {
		defer func() { _ = recover() }()
		_ = c.ParseBlocklists()
	}()
	return c
}

// clients 0..3 have a phantom outside the station's phantom blocklist, clients 4 and 5 one inside it
var vc06SeqSecrets = map[[2]int][]byte{}

func vc06SeqKind(id int) string {
	if id == 2 || id == 3 || id == 5 {
		return "conn"
	}
	return "wrap"
}

func vc06SeqSecret(rm *RegistrationManager, hi, id int) []byte {
	if s, ok := vc06SeqSecrets[[2]int{hi, id}]; ok {
		return s
	}
	secret := make([]byte, 32)
	binary.BigEndian.PutUint32(secret, uint32(0xC06<<20|hi))
	binary.BigEndian.PutUint32(secret[4:], uint32(id+1))
	for nonce := 0; nonce < 4096; nonce++ {
		binary.BigEndian.PutUint32(secret[8:], uint32(nonce))
		keys, err := core.GenSharedKeys(3, secret, vc06SeqTT(vc06SeqKind(id)))
		if err != nil {
			break
		}
		ph, err := rm.GetPhantomSelector().Select(keys.ConjureSeed, 1, 3, false)
		if err != nil || ph == nil {
			break
		}
		if rm.IsBlocklistedPhantom(*ph.IP()) == (id >= 4) {
			break
		}
	}
	vc06SeqSecrets[[2]int{hi, id}] = secret
	return secret
}

func vc06SeqTT(kind string) pb.TransportType {
	if kind == "conn" {
		return pb.TransportType_DTLS
	}
	return pb.TransportType_Min
}

func vc06SeqMsg(rm *RegistrationManager, hi int, op vc06SeqOp, covert string) []byte {
	tt := vc06SeqTT(op.Kind)
	src := pb.RegistrationSource_API
	if op.Source == "detector" {
		src = pb.RegistrationSource_Detector
	}
	t, f := true, false
	var gen, lv uint32 = 1, 3
	pre := op.Prescanned
	mask := "mask.example"
	c := &pb.ClientToStation{V4Support: &t, V6Support: &f, DecoyListGeneration: &gen, ClientLibVersion: &lv,
		CovertAddress: &covert, Transport: &tt, Flags: &pb.RegistrationFlags{Prescanned: &pre}, MaskedDecoyServerName: &mask}
	w := &pb.C2SWrapper{SharedSecret: vc06SeqSecret(rm, hi, op.Secret), RegistrationSource: &src,
		RegistrationAddress: []byte{10, 9, 8, 7}, RegistrationPayload: c}
	b, _ := proto.Marshal(w)
	return b
}

// the tracked object for (secret, kind), found the way registrationExists does
func vc06SeqProbe(rm *RegistrationManager, hi int, op vc06SeqOp) *DecoyRegistration {
	tt := vc06SeqTT(op.Kind)
	keys, err := core.GenSharedKeys(3, vc06SeqSecret(rm, hi, op.Secret), tt)
	if err != nil {
		return nil
	}
	ph, err := rm.GetPhantomSelector().Select(keys.ConjureSeed, 1, 3, false)
	if err != nil || ph == nil {
		return nil
	}
	return &DecoyRegistration{Keys: &keys, PhantomIp: *ph.IP(), Transport: tt}
}

func vc06SeqTracked(rm *RegistrationManager, probe *DecoyRegistration) (vc06Tracked, *DecoyRegistration) {
	if probe == nil {
		return vc06Tracked{}, nil
	}
	d := rm.registeredDecoys.RegistrationExists(probe)
	if d == nil {
		return vc06Tracked{}, nil
	}
	rm.registeredDecoys.m.RLock()
	defer rm.registeredDecoys.m.RUnlock()
	return vc06Tracked{Tracked: true, Valid: d.Valid, Covert: vc06Hex(d.Covert)}, d
}

func (r *vc06Recorder) listens(hexaddr string) bool {
	b, _ := hex.DecodeString(hexaddr)
	for _, ln := range r.lns {
		if ln.Addr().String() == string(b) {
			return true
		}
	}
	return false
}

func (r *vc06Recorder) count() int {
	r.mu.Lock()
	defer r.mu.Unlock()
	return len(r.seen)
}

// collect waits for the recorder: when a connection is due up to 3 s for the first one, then until nothing new
// arrived for 10 ms
func (r *vc06Recorder) collect(due bool) []string {
	if due {
		for k := 0; k < 600 && r.count() == 0; k++ {
			time.Sleep(5 * time.Millisecond)
		}
	}
	last, since := r.count(), time.Now()
	for time.Since(since) < 10*time.Millisecond {
		time.Sleep(2 * time.Millisecond)
		if n := r.count(); n != last {
			last, since = n, time.Now()
		}
	}
	return r.take()
}

// advance moves to the next resolver epoch without forgetting the questions seen so far
func (s *vc06Stub) advance() {
	s.mu.Lock()
	s.epoch++
	s.mu.Unlock()
}

func (s *vc06Stub) nQueries() int {
	s.mu.Lock()
	defer s.mu.Unlock()
	return len(s.queries)
}

func TestVerifC06Seq(t *testing.T) {
	raw, err := os.ReadFile(os.Getenv("VERIF_CASES"))
	if err != nil {
		t.Skip("no cases")
	}
	var in vc06SeqInput
	if err := json.Unmarshal(raw, &in); err != nil {
		t.Fatal(err)
	}
	stub := vc06StartStub(t)
	os.Setenv("PHANTOM_SUBNET_LOCATION", "./test/phantom_subnets.toml")
	rec := &vc06Recorder{}
	if err := rec.listen("127.0.0.1:0"); err != nil {
		t.Fatal(err)
	}
	port := rec.lns[0].Addr().(*net.TCPAddr).Port
	for _, a := range []string{"127.0.0.2", "127.0.0.3", "127.1.2.3"} {
		if err := rec.listen(fmt.Sprintf("%s:%d", a, port)); err != nil {
			t.Fatalf("recorder %s: %v", a, err)
		}
	}
	hasV6 := rec.listen(fmt.Sprintf("[::1]:%d", port)) == nil
	discard := log.New(io.Discard, "", 0)

	res := make([][]vc06SeqRes, len(in.Histories))
	starts := make([]vc06PolicyDump, len(in.Histories))
	for hi, h := range in.Histories {
		out := make([]vc06SeqRes, len(h.Ops))
		res[hi] = out
		cstats := &vc06ConnStats{}
		conf := vc06SeqConf(in.Policies[h.Start], in.PhantomBlock, cstats)
		rm := NewRegistrationManager(conf)
		if rm == nil {
			for i := range out {
				out[i].Panic = "nil registration manager"
			}
			continue
		}
		rm.Logger = discard
		starts[hi] = vc06DumpLive(rm.RegConfig)
		live := &vc06Live{}
		rm.LivenessTester = live
		rm.registeredDecoys.registerForDetector = func(*DecoyRegistration) {}
		rm.registeredDecoys.updateInDetector = func(*DecoyRegistration) {}
		ct := &vc06ConnTransport{mockTransport: &mockTransport{}, onConn: stub.advance}
		_ = rm.AddTransport(pb.TransportType_Min, &mockTransport{})
		_ = rm.AddTransport(pb.TransportType_DTLS, ct)
		stub.setScript(h.Script)
		rec.take()

		for oi, op := range h.Ops {
			r := &out[oi]
			r.Connects, r.Proxied, r.Dialed = []string{}, []string{}, []string{}
			func() {
				defer func() {
					if rc := recover(); rc != nil {
						r.Panic = fmt.Sprint(rc)
					}
				}()
				switch op.Op {
				case "reload":
					nc := vc06SeqConf(in.Policies[op.Policy], in.PhantomBlock, cstats)
					rm.OnReload(nc)
					r.Dump = vc06DumpLive(rm.RegConfig)

				case "ingest":
					r.Dump = vc06DumpLive(rm.RegConfig)
					sb, _ := hex.DecodeString(op.Covert)
					s := strings.ReplaceAll(string(sb), "PORT", fmt.Sprint(port))
					r.Provided = vc06Hex(s)
					// oracle values for this covert string in this epoch
					c := vc06Observe(rm.RegConfig, stub, vc06Case{S: vc06Hex(s), Script: h.Script, Epoch: op.Epoch})
					r.Check = &c
					stub.setEpoch(op.Epoch)
					live.live = op.Live
					ct.setFail(!op.ConnOk)
					probe := vc06SeqProbe(rm, hi, op)
					r.Before, _ = vc06SeqTracked(rm, probe)
					// the loop of startIngestThread
					regs, perr := rm.parseRegMessage(vc06SeqMsg(rm, hi, op, s))
					if perr != nil {
						r.ParseErr = perr.Error()
						return
					}
					qmark := 0
					c0, _ := ct.counts()
					for _, reg := range regs {
						if reg == nil {
							continue
						}
						r.NDrafts++
						r.Phantom = reg.PhantomIp.String()
						ok, verr := rm.ValidateRegistration(reg)
						r.ValidIn = ok && verr == nil
						r.GLive = !reg.PreScanned() && reg.PhantomIp.To4() != nil && op.Live
						r.PBlock = *reg.RegistrationSource == pb.RegistrationSource_Detector && rm.IsBlocklistedPhantom(reg.PhantomIp)
						rm.ingestRegistration(reg)
						qmark = stub.nQueries()
					}
					// a registration of the connecting transport that has just become valid is handed over by a goroutine:
					// wait for it to start, so that a slow machine does not attribute it to the next step
					if mid, _ := vc06SeqTracked(rm, probe); !r.Before.Tracked && mid.Valid && op.Kind == "conn" {
						ct.awaitStart(c0)
					}
					if !ct.quiesce(12 * time.Millisecond) {
						r.Stuck = true
					}
					r.After, _ = vc06SeqTracked(rm, probe)
					due := !r.Before.Tracked && r.After.Valid && op.Kind == "conn" && op.ConnOk && rec.listens(r.After.Covert)
					r.Dialed = rec.collect(due)
					r.Connects = ct.take()
					r.DialQ = stub.nQueries() - qmark

				case "connin":
					r.Dump = vc06DumpLive(rm.RegConfig)
					stub.setEpoch(op.Epoch)
					probe := vc06SeqProbe(rm, hi, op)
					if probe == nil {
						r.Panic = "no phantom for probe"
						return
					}
					r.Before, _ = vc06SeqTracked(rm, probe)
					tp := rm.registeredDecoys.transports[probe.Transport]
					id := tp.GetIdentifier(probe)
					// what cmd/application's connection handler does once a transport has identified the registration
					regs := rm.GetRegistrations(probe.PhantomIp)
					if x, ok := regs[id]; ok {
						if d, ok := x.(*DecoyRegistration); ok {
							r.Proxied = append(r.Proxied, vc06Hex(d.Covert))
							rm.MarkActive(d)
							c1, c2 := net.Pipe()
							done := make(chan struct{})
							go func() {
								defer close(done)
								Proxy(d, c1, rm.Logger)
							}()
							time.Sleep(20 * time.Millisecond)
							c2.Close()
							select {
							case <-done:
							case <-time.After(20 * time.Second):
								r.Stuck = true
							}
							c1.Close()
						}
					}
					r.After, _ = vc06SeqTracked(rm, probe)
					r.Dialed = rec.collect(len(r.Proxied) > 0 && rec.listens(r.Proxied[0]))
					r.DialQ = stub.nQueries()

				case "expire":
					r.Dump = vc06DumpLive(rm.RegConfig)
					probe := vc06SeqProbe(rm, hi, op)
					if probe == nil {
						r.Panic = "no phantom for probe"
						return
					}
					r.Before, _ = vc06SeqTracked(rm, probe)
					tp := rm.registeredDecoys.transports[probe.Transport]
					rm.registeredDecoys.m.Lock()
					if to, ok := rm.registeredDecoys.decoysTimeouts[timeoutKey(probe.PhantomIp.String(), tp.GetIdentifier(probe))]; ok {
						to.registrationTime = time.Now().Add(-48 * time.Hour)
					}
					rm.registeredDecoys.m.Unlock()
					rm.RemoveOldRegistrations()
					r.After, _ = vc06SeqTracked(rm, probe)
				}
			}()
		}
		// stragglers: anything that is dialled after the last step belongs to this history
		ct.quiesce(30 * time.Millisecond)
		if late := rec.collect(false); len(late) > 0 && len(out) > 0 {
			out[len(out)-1].Dialed = append(out[len(out)-1].Dialed, late...)
		}
	}
	outb, _ := json.Marshal(map[string]interface{}{"results": res, "start_dumps": starts, "port": port, "has_v6": hasV6})
	if err := os.WriteFile(os.Getenv("VERIF_OUT"), outb, 0o644); err != nil {
		t.Fatal(err)
	}
}
