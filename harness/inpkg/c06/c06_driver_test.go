package lib

// Correspondence driver for C06 (covert address policy). Reads cases, records
// what the implementation does; contains no assertions about conjure.
//
//   TestVerifC06Parse : ParseOrResolveBlocklisted on policies x strings with a
//                       scripted resolver (loopback DNS stub whose answers
//                       depend on an epoch the driver advances between calls).
//   TestVerifC06Dial  : ingestRegistration + Proxy with a dial recorder.

import (
	"context"
	"encoding/binary"
	"encoding/hex"
	"encoding/json"
	"fmt"
	"io"
	"net"
	"net/netip"
	"os"
	"strconv"
	"strings"
	"sync"
	"testing"
	"time"

	"github.com/refraction-networking/conjure/pkg/core"
	"github.com/refraction-networking/conjure/pkg/station/log"
	pb "github.com/refraction-networking/conjure/proto"
)

// ---------------------------------------------------------------- DNS stub

type vc06Answer struct {
	A     []string `json:"a"`
	AAAA  []string `json:"aaaa"`
	Rcode int      `json:"rcode"`
}

type vc06Stub struct {
	mu      sync.Mutex
	pc      net.PacketConn
	script  map[string][]vc06Answer // lower-case name without trailing dot -> answers by epoch
	epoch   int
	queries []string // "name/qtype" since the last reset
	rawq    []string // the question names as sent (case kept), since the last reset
	lastRaw []string // rawq as of the last takeQueries
}

func (s *vc06Stub) setScript(m map[string][]vc06Answer) {
	s.mu.Lock()
	defer s.mu.Unlock()
	s.script = map[string][]vc06Answer{}
	for k, v := range m {
		s.script[strings.ToLower(strings.TrimSuffix(k, "."))] = v
	}
}

func (s *vc06Stub) setEpoch(e int) {
	s.mu.Lock()
	defer s.mu.Unlock()
	s.epoch = e
	s.queries = nil
	s.rawq = nil
}

func (s *vc06Stub) takeQueries() []string {
	s.mu.Lock()
	defer s.mu.Unlock()
	q := s.queries
	s.queries = nil
	s.lastRaw = s.rawq
	s.rawq = nil
	return q
}

// takenNames returns, hex encoded, the question names (as sent) of the calls the last takeQueries returned.
func (s *vc06Stub) takenNames() []string {
	s.mu.Lock()
	defer s.mu.Unlock()
	out := []string{}
	for _, n := range s.lastRaw {
		out = append(out, hex.EncodeToString([]byte(n)))
	}
	return out
}

func (s *vc06Stub) serve() {
	buf := make([]byte, 1500)
	for {
		n, from, err := s.pc.ReadFrom(buf)
		if err != nil {
			return
		}
		resp := s.answer(buf[:n])
		if resp != nil {
			_, _ = s.pc.WriteTo(resp, from)
		}
	}
}

// answer builds a reply for one question (A or AAAA); anything else gets an empty NOERROR.
func (s *vc06Stub) answer(q []byte) []byte {
	if len(q) < 12 {
		return nil
	}
	// parse the question name
	off := 12
	var labels []string
	for {
		if off >= len(q) {
			return nil
		}
		l := int(q[off])
		off++
		if l == 0 {
			break
		}
		if l&0xC0 != 0 || off+l > len(q) {
			return nil
		}
		labels = append(labels, string(q[off:off+l]))
		off += l
	}
	if off+4 > len(q) {
		return nil
	}
	qtype := binary.BigEndian.Uint16(q[off:])
	qend := off + 4
	name := strings.ToLower(strings.Join(labels, "."))

	s.mu.Lock()
	s.queries = append(s.queries, fmt.Sprintf("%s/%d", name, qtype))
	s.rawq = append(s.rawq, strings.Join(labels, "."))
	var ans vc06Answer
	found := false
	if sc, ok := s.script[name]; ok && len(sc) > 0 {
		ans = sc[s.epoch%len(sc)]
		found = true
	}
	s.mu.Unlock()

	rcode := 0
	if !found {
		rcode = 3
	} else {
		rcode = ans.Rcode
	}
	var rrs [][]byte
	if rcode == 0 {
		var list []string
		var want int
		if qtype == 1 {
			list, want = ans.A, 4
		} else if qtype == 28 {
			list, want = ans.AAAA, 16
		}
		for _, a := range list {
			ip := net.ParseIP(a)
			if ip == nil {
				continue
			}
			var rd []byte
			if want == 4 {
				rd = ip.To4()
			} else {
				rd = ip.To16()
			}
			if rd == nil {
				continue
			}
			rr := []byte{0xC0, 0x0C, 0, byte(qtype), 0, 1, 0, 0, 0, 0, 0, byte(len(rd))}
			rr = append(rr, rd...)
			rrs = append(rrs, rr)
		}
	}
	resp := make([]byte, 0, 512)
	resp = append(resp, q[0], q[1], 0x81, 0x80|byte(rcode), 0, 1, 0, byte(len(rrs)), 0, 0, 0, 0)
	resp = append(resp, q[12:qend]...)
	for _, rr := range rrs {
		resp = append(resp, rr...)
	}
	return resp
}

func vc06StartStub(t *testing.T) *vc06Stub {
	pc, err := net.ListenPacket("udp", "127.0.0.1:0")
	if err != nil {
		t.Fatal(err)
	}
	s := &vc06Stub{pc: pc, script: map[string][]vc06Answer{}}
	go s.serve()
	addr := pc.LocalAddr().String()
	net.DefaultResolver = &net.Resolver{
		PreferGo: true,
		Dial: func(ctx context.Context, network, address string) (net.Conn, error) {
			d := net.Dialer{Timeout: 2 * time.Second}
			return d.DialContext(ctx, "udp", addr)
		},
	}
	return s
}

// ---------------------------------------------------------------- policies

type vc06Policy struct {
	Block   []string `json:"block"`
	Allow   []string `json:"allow"`
	Domains []string `json:"domains"`
}

type vc06Net struct {
	IP   string `json:"ip"`
	Mask string `json:"mask"`
}

type vc06PolicyDump struct {
	Block   []vc06Net `json:"block"`
	Allow   []vc06Net `json:"allow"`
	AllowOn bool      `json:"allow_on"`
	NDom    int       `json:"ndom"`
	Panic   string    `json:"panic,omitempty"`
}

func vc06Nets(l []*net.IPNet) []vc06Net {
	out := []vc06Net{}
	for _, n := range l {
		out = append(out, vc06Net{hex.EncodeToString(n.IP), hex.EncodeToString(n.Mask)})
	}
	return out
}

func vc06MakeConf(p vc06Policy) (c *RegConfig, d vc06PolicyDump) {
	c = &RegConfig{
		CovertBlocklistSubnets: p.Block,
		CovertAllowlistSubnets: p.Allow,
		CovertBlocklistDomains: p.Domains,
	}
	defer func() {
		if r := recover(); r != nil {
			d.Panic = fmt.Sprint(r)
		}
	}()
	c.ParseBlocklists()
	d.Block = vc06Nets(c.covertBlocklistSubnets)
	d.Allow = vc06Nets(c.covertAllowlistSubnets)
	d.AllowOn = c.enableCovertAllowlist
	d.NDom = len(c.covertBlocklistDomains)
	return
}

// ---------------------------------------------------------------- parse cases

type vc06Case struct {
	Policy int                     `json:"policy"`
	S      string                  `json:"s"` // hex of the provided string
	Script map[string][]vc06Answer `json:"script"`
	Epoch  int                     `json:"epoch"`
}

type vc06Input struct {
	Policies []vc06Policy `json:"policies"`
	Cases    []vc06Case   `json:"cases"`
}

type vc06Resolved struct {
	Ok    bool   `json:"ok"`
	Nil   bool   `json:"nil"`   // *IPAddr was nil
	IP    string `json:"ip"`    // hex of the raw net.IP (may be empty)
	Zone  string `json:"zone"`  // hex
	Text  string `json:"text"`  // hex of addr.String()
	IPStr string `json:"ipstr"` // hex of IP.String() ("" when there is no IP)
}

type vc06Res struct {
	Out     string   `json:"out"` // hex
	Lookup  bool     `json:"lookup"`
	Panic   string   `json:"panic,omitempty"`
	Queries []string `json:"queries"` // DNS questions seen during the call
	QNames  []string `json:"qnames"`  // hex: their names as sent
	// oracle values of the external functions on this input (same epoch)
	ParseWhole  string       `json:"parse_whole"` // hex of net.ParseIP(s) ("" = nil)
	SplitOk     bool         `json:"split_ok"`
	Host        string       `json:"host"` // hex
	Port        string       `json:"port"` // hex
	ParseHost   string       `json:"parse_host"`
	Resolve     vc06Resolved `json:"resolve"`
	DomMatch    []bool       `json:"dom_match"`
	OutReparsed string       `json:"out_reparsed"` // re-run on the returned literal in the NEXT epoch: hex of its output
	OutQueries  int          `json:"out_queries"`  // DNS questions caused by that re-run
}

func vc06Hex(s string) string { return hex.EncodeToString([]byte(s)) }

// vc06Observe runs one call of ParseOrResolveBlocklisted on c and records it together with the oracle
// values of the external functions in the same resolver epoch.
func vc06Observe(c *RegConfig, stub *vc06Stub, cs vc06Case) vc06Res {
	var r vc06Res
	sb, _ := hex.DecodeString(cs.S)
	s := string(sb)
	stub.setScript(cs.Script)
	stub.setEpoch(cs.Epoch)
	func() {
		defer func() {
			if rc := recover(); rc != nil {
				r.Panic = fmt.Sprint(rc)
			}
		}()
		out, lk := c.ParseOrResolveBlocklisted(s)
		r.Out, r.Lookup = vc06Hex(out), lk
	}()
	r.Queries = stub.takeQueries()
	r.QNames = stub.takenNames()
	if r.Queries == nil {
		r.Queries = []string{}
	}
	// oracle values of the external functions (same epoch => same answers)
	if a := net.ParseIP(s); a != nil {
		r.ParseWhole = hex.EncodeToString(a)
	}
	host, port, err := net.SplitHostPort(s)
	r.DomMatch = []bool{}
	if err == nil {
		r.SplitOk = true
		r.Host, r.Port = vc06Hex(host), vc06Hex(port)
		if a := net.ParseIP(host); a != nil {
			r.ParseHost = hex.EncodeToString(a)
		}
		addr, rerr := net.ResolveIPAddr("ip", host)
		if rerr == nil {
			r.Resolve.Ok = true
			if addr == nil {
				r.Resolve.Nil = true
			} else {
				r.Resolve.IP = hex.EncodeToString(addr.IP)
				r.Resolve.Zone = vc06Hex(addr.Zone)
				r.Resolve.Text = vc06Hex(addr.String())
				if len(addr.IP) != 0 {
					r.Resolve.IPStr = vc06Hex(addr.IP.String())
				}
			}
		}
		for _, re := range c.covertBlocklistDomains {
			r.DomMatch = append(r.DomMatch, re.MatchString(host))
		}
	}
	// the returned literal, handed to the same function after the answers changed
	if r.Panic == "" && r.Out != "" {
		stub.setEpoch(cs.Epoch + 1)
		ob, _ := hex.DecodeString(r.Out)
		func() {
			defer func() { _ = recover() }()
			o2, _ := c.ParseOrResolveBlocklisted(string(ob))
			r.OutReparsed = vc06Hex(o2)
		}()
		r.OutQueries = len(stub.takeQueries())
	}
	return r
}

func TestVerifC06Parse(t *testing.T) {
	raw, err := os.ReadFile(os.Getenv("VERIF_CASES"))
	if err != nil {
		t.Skip("no cases")
	}
	var in vc06Input
	if err := json.Unmarshal(raw, &in); err != nil {
		t.Fatal(err)
	}
	stub := vc06StartStub(t)
	confs := make([]*RegConfig, len(in.Policies))
	dumps := make([]vc06PolicyDump, len(in.Policies))
	for i, p := range in.Policies {
		confs[i], dumps[i] = vc06MakeConf(p)
	}
	res := make([]vc06Res, len(in.Cases))
	for i, cs := range in.Cases {
		res[i] = vc06Observe(confs[cs.Policy], stub, cs)
	}
	out, _ := json.Marshal(map[string]interface{}{"policies": dumps, "results": res})
	if err := os.WriteFile(os.Getenv("VERIF_OUT"), out, 0o644); err != nil {
		t.Fatal(err)
	}
}

// ---------------------------------------------------------------- histories on ONE RegistrationManager

type vc06HistOp struct {
	Op     string `json:"op"`     // check | reload | ingest
	S      string `json:"s"`      // hex (check: the string; ingest: the covert, PORT = recorder port)
	Policy int    `json:"policy"` // reload: the policy to install
}

type vc06Hist struct {
	Start  int                     `json:"start"`
	Ops    []vc06HistOp            `json:"ops"`
	Script map[string][]vc06Answer `json:"script"`
}

type vc06HistInput struct {
	Policies  []vc06Policy `json:"policies"`
	Histories []vc06Hist   `json:"histories"`
}

type vc06HistRes struct {
	Dump   vc06PolicyDump `json:"dump"` // the parsed policy in force when the op ran
	Check  *vc06Res       `json:"check,omitempty"`
	Ingest *vc06DialRes   `json:"ingest,omitempty"`
	Panic  string         `json:"panic,omitempty"`
}

func vc06DumpLive(c *RegConfig) vc06PolicyDump {
	return vc06PolicyDump{Block: vc06Nets(c.covertBlocklistSubnets), Allow: vc06Nets(c.covertAllowlistSubnets),
		AllowOn: c.enableCovertAllowlist, NDom: len(c.covertBlocklistDomains)}
}

func TestVerifC06History(t *testing.T) {
	raw, err := os.ReadFile(os.Getenv("VERIF_CASES"))
	if err != nil {
		t.Skip("no cases")
	}
	var in vc06HistInput
	if err := json.Unmarshal(raw, &in); err != nil {
		t.Fatal(err)
	}
	stub := vc06StartStub(t)
	os.Setenv("PHANTOM_SUBNET_LOCATION", "./test/phantom_subnets.toml")
	rec := &vc06Recorder{}
	if err := rec.listen("127.0.0.1:0"); err != nil {
		t.Fatal(err)
	}
	port := rec.lns[0].Addr().(*net.TCPAddr).Port
	for _, a := range []string{"127.0.0.2", "127.0.0.3", "127.1.2.3"} {
		if err := rec.listen(fmt.Sprintf("%s:%d", a, port)); err != nil {
			t.Fatalf("recorder %s: %v", a, err)
		}
	}
	discard := log.New(io.Discard, "", 0)
	res := make([][]vc06HistRes, len(in.Histories))
	for hi, h := range in.Histories {
		out := make([]vc06HistRes, len(h.Ops))
		conf, _ := vc06MakeConf(in.Policies[h.Start])
		conf.EnableIPv4, conf.EnableIPv6 = true, true
		rm := NewRegistrationManager(conf)
		if rm == nil {
			for i := range out {
				out[i].Panic = "nil registration manager"
			}
			res[hi] = out
			continue
		}
		rm.Logger = discard
		rm.LivenessTester = &vc06Live{live: false}
		rm.registeredDecoys.registerForDetector = func(*DecoyRegistration) {}
		rm.registeredDecoys.updateInDetector = func(*DecoyRegistration) {}
		var tt pb.TransportType = 0
		_ = rm.AddTransport(tt, &mockTransport{})
		stub.setScript(h.Script)
		for oi, op := range h.Ops {
			r := &out[oi]
			func() {
				defer func() {
					if rc := recover(); rc != nil {
						r.Panic = fmt.Sprint(rc)
					}
				}()
				switch op.Op {
				case "reload":
					nc, _ := vc06MakeConf(in.Policies[op.Policy])
					rm.OnReload(nc)
					r.Dump = vc06DumpLive(rm.RegConfig)
				case "check":
					r.Dump = vc06DumpLive(rm.RegConfig)
					c := vc06Observe(rm.RegConfig, stub, vc06Case{S: op.S, Script: h.Script, Epoch: 0})
					r.Check = &c
				case "ingest":
					r.Dump = vc06DumpLive(rm.RegConfig)
					var d vc06DialRes
					d.RecordPort = port
					sb, _ := hex.DecodeString(op.S)
					s := strings.ReplaceAll(string(sb), "PORT", fmt.Sprint(port))
					d.Provided = vc06Hex(s)
					stub.setEpoch(0)
					secret := make([]byte, 32)
					binary.BigEndian.PutUint32(secret, uint32(hi*1000+oi+1))
					keys, _ := core.GenSharedKeys(1, secret, tt)
					src := pb.RegistrationSource_API
					ph := net.IPv4(192, 122, 190, byte(10+oi)).To4()
					reg := &DecoyRegistration{PhantomIp: ph, PhantomPort: 443, Keys: &keys, Covert: s, Transport: tt,
						RegistrationSource: &src, registrationAddr: net.ParseIP("10.9.8.7"), RegistrationTime: time.Now()}
					tp := rm.registeredDecoys.transports[tt]
					reg.TransportPtr = &tp
					rm.ingestRegistration(reg)
					stub.setEpoch(1)
					rec.take()
					for _, vr := range rm.registeredDecoys.getRegistrations(ph) {
						d.Valid = true
						d.Covert = vc06Hex(vr.Covert)
						c1, c2 := net.Pipe()
						done := make(chan struct{})
						go func() {
							defer close(done)
							Proxy(vr, c1, rm.Logger)
						}()
						time.Sleep(30 * time.Millisecond)
						c2.Close()
						select {
						case <-done:
						case <-time.After(20 * time.Second):
							d.Panic = "Proxy did not return"
						}
						c1.Close()
					}
					if d.Valid {
						for k := 0; k < 400; k++ {
							rec.mu.Lock()
							n := len(rec.seen)
							rec.mu.Unlock()
							if n > 0 {
								break
							}
							time.Sleep(5 * time.Millisecond)
						}
					}
					time.Sleep(5 * time.Millisecond)
					d.Dialed = rec.take()
					d.DialQuery = len(stub.takeQueries())
					stub.setEpoch(0)
					r.Ingest = &d
				}
			}()
		}
		res[hi] = out
	}
	outb, _ := json.Marshal(map[string]interface{}{"results": res, "port": port})
	if err := os.WriteFile(os.Getenv("VERIF_OUT"), outb, 0o644); err != nil {
		t.Fatal(err)
	}
}

// ---------------------------------------------------------------- Go library functions the model re-states

type vc06StdCase struct {
	Op   string `json:"op"` // split | port | join | contains
	A    string `json:"a"`  // hex
	B    string `json:"b"`  // hex
	CIDR string `json:"cidr"`
}

type vc06StdRes struct {
	Ok  bool    `json:"ok"`
	X   string  `json:"x"` // hex
	Y   string  `json:"y"` // hex
	Net vc06Net `json:"net"`
}

func TestVerifC06Std(t *testing.T) {
	raw, err := os.ReadFile(os.Getenv("VERIF_CASES"))
	if err != nil {
		t.Skip("no cases")
	}
	var cases []vc06StdCase
	if err := json.Unmarshal(raw, &cases); err != nil {
		t.Fatal(err)
	}
	res := make([]vc06StdRes, len(cases))
	for i, c := range cases {
		a, _ := hex.DecodeString(c.A)
		b, _ := hex.DecodeString(c.B)
		var r vc06StdRes
		switch c.Op {
		case "split":
			h, p, err := net.SplitHostPort(string(a))
			r.Ok = err == nil
			r.X, r.Y = vc06Hex(h), vc06Hex(p)
		case "port":
			_, err := strconv.ParseUint(string(a), 10, 16)
			r.Ok = err == nil
		case "join":
			r.Ok = true
			r.X = vc06Hex(net.JoinHostPort(string(a), string(b)))
		case "parseaddr":
			// X = AsSlice, Y = zone, Net.IP = net.ParseIP (hex), Net.Mask = "01" when ParseIP is non-nil
			if ad, err := netip.ParseAddr(string(a)); err == nil {
				r.Ok = true
				r.X = hex.EncodeToString(ad.AsSlice())
				r.Y = vc06Hex(ad.Zone())
			}
			if ip := net.ParseIP(string(a)); ip != nil {
				r.Net = vc06Net{hex.EncodeToString(ip), "01"}
			}
		case "ipstr":
			r.Ok = true
			if len(a) != 0 {
				r.X = vc06Hex(net.IP(a).String())
			}
		case "contains":
			_, n, err := net.ParseCIDR(c.CIDR)
			if err == nil {
				r.Net = vc06Net{hex.EncodeToString(n.IP), hex.EncodeToString(n.Mask)}
				r.Ok = n.Contains(net.IP(a))
				r.X = "01"
			}
		}
		res[i] = r
	}
	out, _ := json.Marshal(res)
	if err := os.WriteFile(os.Getenv("VERIF_OUT"), out, 0o644); err != nil {
		t.Fatal(err)
	}
}

// ---------------------------------------------------------------- dial cases

type vc06Live struct{ live bool }

func (l *vc06Live) PhantomIsLive(addr string, port uint16) (bool, error) { return l.live, nil }
func (l *vc06Live) PrintAndReset(*log.Logger)                            {}
func (l *vc06Live) PrintStats(*log.Logger)                               {}
func (l *vc06Live) Reset()                                               {}

type vc06DialCase struct {
	Policy int                     `json:"policy"`
	S      string                  `json:"s"` // hex; the token PORT is replaced by the recorder's port
	Script map[string][]vc06Answer `json:"script"`
	Epoch  int                     `json:"epoch"`
}

type vc06DialInput struct {
	Policies []vc06Policy   `json:"policies"`
	Cases    []vc06DialCase `json:"cases"`
}

type vc06DialRes struct {
	Provided   string   `json:"provided"`   // hex, after PORT substitution
	Expected   string   `json:"expected"`   // hex: ParseOrResolveBlocklisted(provided) in the admission epoch
	Valid      bool     `json:"valid"`      // registration returned by GetRegistrations after ingest
	Announced  int      `json:"announced"`  // registerForDetector calls
	Covert     string   `json:"covert"`     // hex: reg.Covert after ingest
	Dialed     []string `json:"dialed"`     // local addresses of the recorder connections ("ip:port")
	DialQuery  int      `json:"dial_query"` // DNS questions seen while Proxy ran (after the answers changed)
	Panic      string   `json:"panic,omitempty"`
	RecordPort int      `json:"record_port"`
}

type vc06Recorder struct {
	mu   sync.Mutex
	seen []string
	lns  []net.Listener
}

func (r *vc06Recorder) listen(addr string) error {
	ln, err := net.Listen("tcp", addr)
	if err != nil {
		return err
	}
	r.lns = append(r.lns, ln)
	go func() {
		for {
			c, err := ln.Accept()
			if err != nil {
				return
			}
			r.mu.Lock()
			r.seen = append(r.seen, c.LocalAddr().String())
			r.mu.Unlock()
			c.Close()
		}
	}()
	return nil
}

func (r *vc06Recorder) take() []string {
	r.mu.Lock()
	defer r.mu.Unlock()
	s := r.seen
	r.seen = nil
	if s == nil {
		s = []string{}
	}
	return s
}

func TestVerifC06Dial(t *testing.T) {
	raw, err := os.ReadFile(os.Getenv("VERIF_CASES"))
	if err != nil {
		t.Skip("no cases")
	}
	var in vc06DialInput
	if err := json.Unmarshal(raw, &in); err != nil {
		t.Fatal(err)
	}
	stub := vc06StartStub(t)
	os.Setenv("PHANTOM_SUBNET_LOCATION", "./test/phantom_subnets.toml")

	// recorder: the same port on several loopback addresses
	rec := &vc06Recorder{}
	if err := rec.listen("127.0.0.1:0"); err != nil {
		t.Fatal(err)
	}
	port := rec.lns[0].Addr().(*net.TCPAddr).Port
	hasV6 := false
	for _, a := range []string{"127.0.0.2", "127.0.0.3", "127.1.2.3"} {
		if err := rec.listen(fmt.Sprintf("%s:%d", a, port)); err != nil {
			t.Fatalf("recorder %s: %v", a, err)
		}
	}
	if err := rec.listen(fmt.Sprintf("[::1]:%d", port)); err == nil {
		hasV6 = true
	}

	res := make([]vc06DialRes, len(in.Cases))
	for i, cs := range in.Cases {
		var r vc06DialRes
		r.RecordPort = port
		sb, _ := hex.DecodeString(cs.S)
		s := strings.ReplaceAll(string(sb), "PORT", fmt.Sprint(port))
		r.Provided = vc06Hex(s)
		stub.setScript(cs.Script)
		stub.setEpoch(cs.Epoch)
		func() {
			defer func() {
				if rc := recover(); rc != nil {
					r.Panic = fmt.Sprint(rc)
				}
			}()
			conf, _ := vc06MakeConf(in.Policies[cs.Policy])
			conf.EnableIPv4, conf.EnableIPv6 = true, true
			exp, _ := conf.ParseOrResolveBlocklisted(s)
			r.Expected = vc06Hex(exp)

			rm := NewRegistrationManager(conf)
			if rm == nil {
				r.Panic = "nil registration manager"
				return
			}
			rm.Logger = log.New(io.Discard, "", 0)
			rm.LivenessTester = &vc06Live{live: false}
			announced := 0
			rm.registeredDecoys.registerForDetector = func(*DecoyRegistration) { announced++ }
			rm.registeredDecoys.updateInDetector = func(*DecoyRegistration) {}
			var tt pb.TransportType = 0
			if err := rm.AddTransport(tt, &mockTransport{}); err != nil {
				r.Panic = err.Error()
				return
			}
			secret := make([]byte, 32)
			binary.BigEndian.PutUint32(secret, uint32(i+1))
			keys, err := core.GenSharedKeys(1, secret, tt)
			if err != nil {
				r.Panic = err.Error()
				return
			}
			src := pb.RegistrationSource_API
			reg := &DecoyRegistration{
				PhantomIp:          net.ParseIP("192.122.190.77").To4(),
				PhantomPort:        443,
				Keys:               &keys,
				Covert:             s,
				Transport:          tt,
				RegistrationSource: &src,
				registrationAddr:   net.ParseIP("10.9.8.7"),
				RegistrationTime:   time.Now(),
			}
			tp := rm.registeredDecoys.transports[tt]
			reg.TransportPtr = &tp
			rm.ingestRegistration(reg)
			r.Announced = announced

			// the answers change before the connection arrives
			stub.setEpoch(cs.Epoch + 1)
			rec.take()
			regs := rm.registeredDecoys.getRegistrations(reg.PhantomIp)
			for _, vr := range regs {
				r.Valid = true
				r.Covert = vc06Hex(vr.Covert)
				c1, c2 := net.Pipe()
				done := make(chan struct{})
				go func() {
					defer close(done)
					Proxy(vr, c1, rm.Logger)
				}()
				// the recorder closes at once; give the relay a moment, then hang up the client side
				time.Sleep(30 * time.Millisecond)
				c2.Close()
				select {
				case <-done:
				case <-time.After(20 * time.Second):
					r.Panic = "Proxy did not return"
				}
				c1.Close()
			}
			// the recorder's accept loop runs concurrently: give it time when a connection is due
			if r.Valid {
				for k := 0; k < 400; k++ {
					rec.mu.Lock()
					n := len(rec.seen)
					rec.mu.Unlock()
					if n > 0 {
						break
					}
					time.Sleep(5 * time.Millisecond)
				}
			}
			time.Sleep(5 * time.Millisecond)
			r.Dialed = rec.take()
			r.DialQuery = len(stub.takeQueries())
		}()
		if r.Dialed == nil {
			r.Dialed = []string{}
		}
		res[i] = r
	}
	out, _ := json.Marshal(map[string]interface{}{"results": res, "has_v6": hasV6, "port": port})
	if err := os.WriteFile(os.Getenv("VERIF_OUT"), out, 0o644); err != nil {
		t.Fatal(err)
	}
}
