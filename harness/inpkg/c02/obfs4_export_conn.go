//go:build verif

package obfs4

import (
	"github.com/refraction-networking/conjure/pkg/transports"
	"github.com/refraction-networking/obfs4/common/ntor"
)

// VerifC02Mark (overlay only) evaluates the station's own mark derivation for a registration and a
// 32-byte representative, so that the connection-level driver can pass it to the model as an oracle value.
func VerifC02Mark(r transports.Registration, rep []byte) []byte {
	if r == nil {
		return nil
	}
	if r.TransportKeys() == nil {
		keys, err := generateObfs4Keys(r.TransportReader())
		if err != nil {
			return nil
		}
		if err := r.SetTransportKeys(keys); err != nil {
			return nil
		}
	}
	k, ok := r.TransportKeys().(Obfs4Keys)
	if !ok {
		return nil
	}
	var representative ntor.Representative
	copy(representative[:ntor.RepresentativeLength], rep)
	return generateMark(k.NodeID, k.PublicKey, &representative)
}
