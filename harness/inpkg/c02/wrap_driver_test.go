package lib

// Correspondence driver for C02 (WrapConnection of the three wrapping transports over real
// registries).  Reads scenarios, builds real registries by track / validate / expire sequences,
// produces genuine first flights with the real client transports, calls the real WrapConnection
// and records what it observes.  Contains no assertions about conjure.

import (
	"bytes"
	"context"
	"crypto/hmac"
	"crypto/sha256"
	"encoding/hex"
	"encoding/json"
	"errors"
	"fmt"
	"io"
	golog "log"
	"math/big"
	"net"
	"os"
	"reflect"
	"sort"
	"strings"
	"testing"
	"time"

	"github.com/refraction-networking/conjure/pkg/core"
	"github.com/refraction-networking/conjure/pkg/phantoms"
	"github.com/refraction-networking/conjure/pkg/station/log"
	"github.com/refraction-networking/conjure/pkg/transports"
	vmin "github.com/refraction-networking/conjure/pkg/transports/wrapping/min"
	vobfs4 "github.com/refraction-networking/conjure/pkg/transports/wrapping/obfs4"
	vprefix "github.com/refraction-networking/conjure/pkg/transports/wrapping/prefix"
	pb "github.com/refraction-networking/conjure/proto"
	libobfs4 "github.com/refraction-networking/obfs4/transports/obfs4"
	pt "gitlab.torproject.org/tpo/anti-censorship/pluggable-transports/goptlib"
	"golang.org/x/crypto/curve25519"
	"google.golang.org/protobuf/proto"
	"google.golang.org/protobuf/types/known/anypb"
)

// ---------------------------------------------------------------- input

type vc02Params struct {
	Kind     string `json:"kind"` // absent | prefix | generic | typednil
	PrefixID int32  `json:"prefix_id"`
	Force    bool   `json:"force"` // store the params object as is, without the transport's ParseParams
}
type vc02Object struct {
	Secret    string     `json:"secret"`
	Transport string     `json:"transport"` // min | prefix | obfs4
	Phantom   int        `json:"phantom"`   // index into scenario phantoms (ignored for ingest objects)
	LibVer    uint       `json:"libver"`
	Params    vc02Params `json:"params"`
	Flags     []string   `json:"flags"`  // registration flags the client / sharing station set: prescanned, upload_only, dark_decoy, proxy_header, use_til
	Ingest    bool       `json:"ingest"` // build through RegistrationManager.NewRegistration (real phantom selection)
	Gen       uint32     `json:"gen"`
}
type vc02Op struct {
	Op   string `json:"op"` // track | track_ine | validate | expire | sweep | advance | age | use
	Obj  int    `json:"obj"`
	Secs int    `json:"secs"` // age: this much time passes for every timeout record (relative shift)
}
type vc02Flight struct {
	Kind     string `json:"kind"` // genuine | crafted | raw
	Obj      int    `json:"obj"`
	PrefixID int32  `json:"prefix_id"` // prefix flights: which prefix the client uses
	Station  int    `json:"station"`   // index of the station key the client encrypts to; -1 = foreign key
	Label    string `json:"label"`     // crafted: min | prefix  (which identifier the holder of the secret wraps)
	Hex      string `json:"hex"`       // raw bytes
	Extra    string `json:"extra"`     // application data following the flight
}
type vc02Mut struct {
	Kind string `json:"kind"` // none | trunc | flipbit | fliptag | truncall | negrep | append
	A    int    `json:"a"`
	Hex  string `json:"hex"`
}
type vc02Probe struct {
	Flight    int     `json:"flight"`
	Mut       vc02Mut `json:"mut"`
	Transport string  `json:"transport"`
	Phantom   int     `json:"phantom"` // >=0: index into phantoms; <0: phantom of object -(p+1)
	Alt16     bool    `json:"alt16"`   // look the phantom up through its 16-byte form
	Repeat    int     `json:"repeat"`
}
type vc02Row struct {
	ID     int32  `json:"id"`
	Static string `json:"static"`
	Offset int    `json:"offset"`
	MinLen int    `json:"minlen"`
	MaxLen int    `json:"maxlen"`
}
type vc02Scenario struct {
	NKeys    int            `json:"nkeys"`
	Phantoms []string       `json:"phantoms"`
	Objects  []vc02Object   `json:"objects"`
	Ops      []vc02Op       `json:"ops"`
	Flights  []vc02Flight   `json:"flights"`
	Probes   []vc02Probe    `json:"probes"`
	Table    []vc02Row      `json:"table"`   // empty: the transport's default table
	Reveal   [][3]string    `json:"reveal"`  // non-empty: table obfuscator (key index, cipher hex, id hex or "")
	Subnets  string         `json:"subnets"` // PHANTOM_SUBNET_LOCATION for ingest objects
}

// ---------------------------------------------------------------- output

type vc02Reveal struct {
	Key int     `json:"key"`
	Off int     `json:"off"`
	ID  *string `json:"id"`
}
type vc02Mark struct {
	ID   string `json:"id"`
	Mark string `json:"mark"`
	HS   bool   `json:"hs"`
}
type vc02Res struct {
	Probe     int          `json:"probe"`
	Mut       string       `json:"mut"`
	Altered   bool         `json:"altered"` // the mutation changed at least one byte of the flight
	Data      string       `json:"data"`
	Transport string       `json:"transport"`
	Phantom   string       `json:"phantom"`
	Class     string       `json:"class"`
	Err       string       `json:"err"`
	Obj       int          `json:"obj"`
	Consumed  int          `json:"consumed"`
	RestOK    bool         `json:"rest_ok"`
	Reveal    []vc02Reveal `json:"reveal"`
	Marks     []vc02Mark   `json:"marks"`
}
type vc02ViewEntry struct {
	ID        string `json:"id"`
	Obj       int    `json:"obj"`
	Transport int32  `json:"transport"`
	Params    string `json:"params"`
	PrefixID  int32  `json:"prefix_id"`
}
type vc02ObjOut struct {
	Phantom    string `json:"phantom"`
	ID         string `json:"id"`
	Err        string `json:"err"`
	Params     string `json:"params"`
	PrefixID   int32  `json:"prefix_id"`
	Transport  int32  `json:"transport"`
	Port       uint16 `json:"port"`
}
type vc02FlightOut struct {
	Hex string   `json:"hex"`
	Tag [][2]int `json:"tag"` // byte ranges that make up the tag
	Err string   `json:"err"`
}
type vc02Out struct {
	Table     []vc02Row                  `json:"table"`
	Consts    map[string]int             `json:"consts"`
	Objects   []vc02ObjOut               `json:"objects"`
	OpNotes   []string                   `json:"op_notes"`
	Views     map[string][]vc02ViewEntry `json:"views"`   // phantom string -> GetRegistrations
	Tracked   map[string]int             `json:"tracked"` // phantom string -> CountRegistrations
	Flights   []vc02FlightOut            `json:"flights"`
	Results   []vc02Res                  `json:"results"`
	Panic     string                     `json:"panic"`
}

// ---------------------------------------------------------------- helpers

type vc02Conn struct {
	wr bytes.Buffer
}

func (c *vc02Conn) Read(b []byte) (int, error)         { return 0, io.EOF }
func (c *vc02Conn) Write(b []byte) (int, error)        { return c.wr.Write(b) }
func (c *vc02Conn) Close() error                       { return nil }
func (c *vc02Conn) LocalAddr() net.Addr                { return &net.TCPAddr{IP: net.IPv4(10, 0, 0, 1), Port: 443} }
func (c *vc02Conn) RemoteAddr() net.Addr               { return &net.TCPAddr{IP: net.IPv4(10, 0, 0, 2), Port: 50000} }
func (c *vc02Conn) SetDeadline(t time.Time) error      { return nil }
func (c *vc02Conn) SetReadDeadline(t time.Time) error  { return nil }
func (c *vc02Conn) SetWriteDeadline(t time.Time) error { return nil }

type vc02TableObf struct {
	m map[string]*string // key "k|cipherhex" -> id hex (nil = error)
	keys [][32]byte
}

func (o vc02TableObf) Obfuscate(p []byte, pub []byte) ([]byte, error) { return nil, errors.New("n/a") }
func (o vc02TableObf) TryReveal(c []byte, priv [32]byte) ([]byte, error) {
	k := -1
	for i := range o.keys {
		if o.keys[i] == priv {
			k = i
		}
	}
	v, ok := o.m[fmt.Sprintf("%d|%s", k, hex.EncodeToString(c))]
	if !ok || v == nil {
		return nil, errors.New("no")
	}
	b, _ := hex.DecodeString(*v)
	return b, nil
}

func vc02Unhex(s string) []byte { b, _ := hex.DecodeString(s); return b }

func vc02DumpTable(t *vprefix.Transport) []vc02Row {
	var rows []vc02Row
	it := reflect.ValueOf(t.SupportedPrefixes).MapRange()
	for it.Next() {
		v := it.Value()
		rows = append(rows, vc02Row{
			ID:     int32(it.Key().Int()),
			Static: hex.EncodeToString(v.FieldByName("StaticMatch").Bytes()),
			Offset: int(v.FieldByName("Offset").Int()),
			MinLen: int(v.FieldByName("MinLen").Int()),
			MaxLen: int(v.FieldByName("MaxLen").Int()),
		})
	}
	sort.Slice(rows, func(i, j int) bool { return rows[i].ID < rows[j].ID })
	return rows
}

func vc02SetTable(t *vprefix.Transport, rows []vc02Row) {
	mt := reflect.TypeOf(t.SupportedPrefixes)
	m := reflect.MakeMap(mt)
	for _, r := range rows {
		e := reflect.New(mt.Elem()).Elem()
		e.FieldByName("StaticMatch").SetBytes(vc02Unhex(r.Static))
		e.FieldByName("Offset").SetInt(int64(r.Offset))
		e.FieldByName("MinLen").SetInt(int64(r.MinLen))
		e.FieldByName("MaxLen").SetInt(int64(r.MaxLen))
		e.FieldByName("MinVer").SetUint(3)
		e.FieldByName("DefaultDstPort").SetUint(443)
		k := reflect.New(mt.Key()).Elem()
		k.SetInt(int64(r.ID))
		m.SetMapIndex(k, e)
	}
	reflect.ValueOf(&t.SupportedPrefixes).Elem().Set(m)
}

func vc02ParamsDesc(p any) (string, int32) {
	if p == nil {
		return "absent", 0
	}
	switch x := p.(type) {
	case *pb.PrefixTransportParams:
		if x == nil {
			return "typednil", 0
		}
		return "prefix", x.GetPrefixId()
	case *pb.GenericTransportParams:
		return "generic", 0
	}
	return "other", 0
}

func vc02Class(err error) string {
	switch {
	case err == nil:
		return "found"
	case errors.Is(err, transports.ErrTryAgain):
		return "tryagain"
	case errors.Is(err, transports.ErrNotTransport):
		return "nottransport"
	case errors.Is(err, vprefix.ErrIncorrectTransport):
		return "incorrect_transport"
	case errors.Is(err, vprefix.ErrIncorrectPrefix):
		return "incorrect_prefix"
	}
	return "err_other"
}

// negate the Elligator representative (r -> p - r), keeping the two padding bits
func vc02NegRep(rep []byte) []byte {
	le := make([]byte, 32)
	copy(le, rep)
	pad := le[31] & 0xC0
	le[31] &= 0x3F
	be := make([]byte, 32)
	for i := range le {
		be[31-i] = le[i]
	}
	p := new(big.Int).Sub(new(big.Int).Lsh(big.NewInt(1), 255), big.NewInt(19))
	r := new(big.Int).SetBytes(be)
	r.Sub(p, r)
	r.Mod(r, p)
	out := make([]byte, 32)
	rb := r.FillBytes(make([]byte, 32))
	for i := range rb {
		out[31-i] = rb[i]
	}
	out[31] |= pad
	return out
}

type vc02World struct {
	sc      *vc02Scenario
	rm      *RegistrationManager
	tmin    vmin.Transport
	tobfs4  vobfs4.Transport
	tprefix *vprefix.Transport
	priv    [][32]byte
	pub     [][32]byte
	objs    []*DecoyRegistration
	out     *vc02Out
	table   []vc02Row
}

func (w *vc02World) transport(name string) (pb.TransportType, WrappingTransport) {
	switch name {
	case "min":
		return pb.TransportType_Min, w.tmin
	case "obfs4":
		return pb.TransportType_Obfs4, w.tobfs4
	}
	return pb.TransportType_Prefix, w.tprefix
}

func (w *vc02World) phantomIP(p int) net.IP {
	if p >= 0 {
		return net.ParseIP(w.sc.Phantoms[p])
	}
	o := w.objs[-(p + 1)]
	if o == nil {
		return net.ParseIP("0.0.0.0")
	}
	return o.PhantomIp
}

func (w *vc02World) buildObject(i int, o vc02Object) {
	oo := &w.out.Objects[i]
	tt, tr := w.transport(o.Transport)
	secret := vc02Unhex(o.Secret)
	keys, err := core.GenSharedKeys(o.LibVer, secret, tt)
	if err != nil {
		oo.Err = "keys: " + err.Error()
		return
	}
	var anyParams *anypb.Any
	switch o.Params.Kind {
	case "prefix":
		anyParams, _ = anypb.New(&pb.PrefixTransportParams{PrefixId: proto.Int32(o.Params.PrefixID), RandomizeDstPort: proto.Bool(false)})
	case "generic":
		anyParams, _ = anypb.New(&pb.GenericTransportParams{RandomizeDstPort: proto.Bool(false)})
	}
	var flags *pb.RegistrationFlags
	if len(o.Flags) > 0 {
		flags = &pb.RegistrationFlags{}
		for _, f := range o.Flags {
			switch f {
			case "prescanned":
				flags.Prescanned = proto.Bool(true)
			case "upload_only":
				flags.UploadOnly = proto.Bool(true)
			case "dark_decoy":
				flags.DarkDecoy = proto.Bool(true)
			case "proxy_header":
				flags.ProxyHeader = proto.Bool(true)
			case "use_til":
				flags.Use_TIL = proto.Bool(true)
			}
		}
	}
	var reg *DecoyRegistration
	if o.Ingest {
		v := uint32(o.LibVer)
		covert := "1.2.3.4:56789"
		c2s := &pb.ClientToStation{ClientLibVersion: &v, Transport: &tt, CovertAddress: &covert,
			DecoyListGeneration: proto.Uint32(o.Gen), TransportParams: anyParams, Flags: flags}
		src := pb.RegistrationSource_API
		reg, err = w.rm.NewRegistration(c2s, &keys, false, &src)
		if err != nil {
			oo.Err = "ingest: " + err.Error()
			return
		}
	} else {
		var params any
		if !o.Params.Force {
			params, err = tr.ParseParams(o.LibVer, anyParams)
		}
		if err != nil {
			oo.Err = "params: " + err.Error()
			return
		}
		if o.Params.Kind == "typednil" {
			params = (*pb.PrefixTransportParams)(nil)
		}
		if o.Params.Force {
			switch o.Params.Kind {
			case "prefix":
				params = &pb.PrefixTransportParams{PrefixId: proto.Int32(o.Params.PrefixID)}
			case "generic":
				params = &pb.GenericTransportParams{RandomizeDstPort: proto.Bool(false)}
			case "absent":
				params = nil
			}
		}
		src := pb.RegistrationSource_API
		var trI Transport = tr
		reg = &DecoyRegistration{
			PhantomIp: net.ParseIP(w.sc.Phantoms[o.Phantom]), PhantomPort: 443, PhantomProto: pb.IPProto_Tcp,
			Keys: &keys, Covert: "1.2.3.4:56789", Transport: tt, TransportPtr: &trI, transportParams: params,
			RegistrationTime: time.Now(), RegistrationSource: &src, DecoyListVersion: 1, clientLibVer: uint32(o.LibVer),
			registrationAddr: net.ParseIP("10.9.8.7"), Flags: flags,
		}
	}
	w.objs[i] = reg
	oo.Phantom = reg.PhantomIp.String()
	oo.ID = hex.EncodeToString([]byte(tr.GetIdentifier(reg)))
	oo.Params, oo.PrefixID = vc02ParamsDesc(reg.transportParams)
	oo.Transport = int32(reg.Transport)
	oo.Port = reg.PhantomPort
}

func (w *vc02World) runOp(op vc02Op) string {
	rd := w.rm.registeredDecoys
	switch op.Op {
	case "sweep":
		w.rm.RemoveOldRegistrations()
		return ""
	case "age":
		// op.Secs seconds pass: every record's clock is shifted by that much RELATIVE to where it stands (never set
		// to an absolute value: whatever an earlier operation did to a record's clock stays visible); no sweep
		rd.m.Lock()
		for _, to := range rd.decoysTimeouts {
			to.registrationTime = to.registrationTime.Add(-time.Duration(op.Secs) * time.Second)
		}
		rd.m.Unlock()
		return ""
	case "advance":
		// seven hours pass for everything tracked so far (beyond the unused and the active lifetime),
		// then the real sweep decides from its own records what goes
		rd.m.Lock()
		for _, to := range rd.decoysTimeouts {
			to.registrationTime = to.registrationTime.Add(-7 * time.Hour)
		}
		rd.m.Unlock()
		w.rm.RemoveOldRegistrations()
		return ""
	}
	reg := w.objs[op.Obj]
	if reg == nil {
		return "noobj"
	}
	switch op.Op {
	case "track":
		if err := w.rm.TrackRegistration(reg); err != nil {
			return "err: " + err.Error()
		}
	case "track_ine": // the ingest pipeline's entry point: same effect on the registry
		if _, err := w.rm.TrackRegIfNotExists(reg); err != nil {
			return "err: " + err.Error()
		}
	case "validate":
		w.rm.AddRegistration(reg)
	case "use":
		w.rm.MarkActive(reg)
	case "expire":
		_, tr := w.transport(w.sc.Objects[op.Obj].Transport)
		id := tr.GetIdentifier(reg)
		ph := reg.PhantomIp.String()
		found := 0
		rd.m.Lock()
		for _, to := range rd.decoysTimeouts {
			if to.decoy == ph && to.identifier == id {
				to.registrationTime = to.registrationTime.Add(-7 * time.Hour)
				found++
			}
		}
		rd.m.Unlock()
		w.rm.RemoveOldRegistrations()
		if found == 0 {
			return "expire_missing"
		}
	}
	return ""
}

func (w *vc02World) makeFlight(f vc02Flight) (fo vc02FlightOut) {
	defer func() {
		if r := recover(); r != nil {
			fo.Err = fmt.Sprintf("panic: %v", r)
		}
	}()
	var data []byte
	var tag [][2]int
	var pub [32]byte
	if f.Station >= 0 && f.Station < len(w.pub) {
		pub = w.pub[f.Station]
	} else {
		sk := sha256.Sum256([]byte("foreign station key"))
		p, _ := curve25519.X25519(sk[:], curve25519.Basepoint)
		copy(pub[:], p)
	}
	rowOf := func(id int32) *vc02Row {
		for i := range w.table {
			if w.table[i].ID == id {
				return &w.table[i]
			}
		}
		return nil
	}
	switch f.Kind {
	case "raw":
		data = vc02Unhex(f.Hex)
	case "genuine":
		o := w.sc.Objects[f.Obj]
		secret := vc02Unhex(o.Secret)
		rec := &vc02Conn{}
		switch o.Transport {
		case "min":
			ct := &vmin.ClientTransport{}
			_ = ct.PrepareKeys(pub, secret, nil)
			_, err := ct.WrapConn(rec)
			if err != nil {
				fo.Err = err.Error()
			}
			data = rec.wr.Bytes()
			tag = [][2]int{{0, len(data)}}
		case "prefix":
			ct := &vprefix.ClientTransport{}
			if err := ct.SetParams(&pb.PrefixTransportParams{PrefixId: proto.Int32(f.PrefixID), RandomizeDstPort: proto.Bool(false)}); err != nil {
				fo.Err = "setparams: " + err.Error()
				return
			}
			_ = ct.PrepareKeys(pub, secret, nil)
			_ = ct.Prepare(context.Background(), nil)
			_, err := ct.WrapConn(rec)
			if err != nil {
				fo.Err = err.Error()
			}
			data = rec.wr.Bytes()
			tag = [][2]int{{len(data) - 64, len(data)}}
		case "obfs4":
			keys, _ := core.GenSharedKeys(o.LibVer, secret, pb.TransportType_Obfs4)
			ct := &vobfs4.ClientTransport{}
			_ = ct.PrepareKeys(pub, secret, keys.TransportReader)
			_, _ = ct.WrapConn(rec) // fails after writing the handshake: nobody answers
			data = rec.wr.Bytes()
			if len(data) >= 64 {
				tag = [][2]int{{0, 32}, {len(data) - 32, len(data)}}
			}
		}
	case "crafted":
		// a holder of the secret wraps the identifier of transport <label> as a prefix flight
		o := w.sc.Objects[f.Obj]
		secret := vc02Unhex(o.Secret)
		lbl := "PrefixTransportHMACString"
		if f.Label == "min" {
			lbl = "MinTrasportHMACString"
		}
		id := core.ConjureHMAC(secret, lbl)
		ob, err := transports.CTRObfuscator{}.Obfuscate(id, pub[:])
		if err != nil {
			fo.Err = err.Error()
			return
		}
		var static []byte
		if r := rowOf(f.PrefixID); r != nil {
			static = vc02Unhex(r.Static)
		}
		data = append(append([]byte{}, static...), ob...)
		tag = [][2]int{{len(static), len(data)}}
	}
	data = append(append([]byte{}, data...), vc02Unhex(f.Extra)...)
	fo.Hex = hex.EncodeToString(data)
	fo.Tag = tag
	return
}

func vc02Mutate(fl vc02FlightOut, m vc02Mut) (descs []string, datas [][]byte) {
	base := vc02Unhex(fl.Hex)
	add := func(d string, b []byte) { descs = append(descs, d); datas = append(datas, b) }
	flip := func(bit int) []byte {
		b := append([]byte{}, base...)
		if bit/8 < len(b) {
			b[bit/8] ^= 1 << uint(bit%8)
		}
		return b
	}
	switch m.Kind {
	case "", "none":
		add("none", base)
	case "trunc":
		n := m.A
		if n > len(base) {
			n = len(base)
		}
		if n < 0 {
			n = 0
		}
		add(fmt.Sprintf("trunc:%d", n), base[:n])
	case "truncall":
		for n := 0; n < len(base); n++ {
			if len(base) > 400 && !(n < 150 || n > len(base)-70 || n%97 == 0) {
				continue
			}
			add(fmt.Sprintf("trunc:%d", n), base[:n])
		}
	case "flipbit":
		add(fmt.Sprintf("flipbit:%d", m.A), flip(m.A))
	case "fliptag":
		stride := m.A
		if stride < 1 {
			stride = 1
		}
		k := 0
		for _, rg := range fl.Tag {
			for bit := rg[0] * 8; bit < rg[1]*8; bit++ {
				if k%stride == 0 {
					add(fmt.Sprintf("flipbit:%d", bit), flip(bit))
				}
				k++
			}
		}
	case "negrep":
		if len(fl.Tag) > 0 && fl.Tag[0][1]-fl.Tag[0][0] >= 32 {
			b := append([]byte{}, base...)
			s := fl.Tag[0][0]
			copy(b[s:s+32], vc02NegRep(b[s:s+32]))
			add("negrep", b)
		}
	case "append":
		add("append", append(append([]byte{}, base...), vc02Unhex(m.Hex)...))
	}
	return
}

func (w *vc02World) objOf(r transports.Registration) int {
	dr, ok := r.(*DecoyRegistration)
	if !ok || dr == nil {
		return -1
	}
	for i, o := range w.objs {
		if o == dr {
			return i
		}
	}
	return -2
}

func (w *vc02World) probe(pi int, p vc02Probe, desc string, data []byte, base []byte) (res vc02Res) {
	res = vc02Res{Probe: pi, Mut: desc, Data: hex.EncodeToString(data), Transport: p.Transport, Obj: -1,
		Altered: !bytes.Equal(data, base)}
	ip := w.phantomIP(p.Phantom)
	res.Phantom = ip.String()
	if p.Alt16 {
		ip = ip.To16()
	} else if v4 := ip.To4(); v4 != nil {
		ip = v4
	}
	_, tr := w.transport(p.Transport)
	// oracle values the model is parameterised over
	switch p.Transport {
	case "prefix":
		for _, row := range w.table {
			if row.Offset >= 0 && row.Offset+64 <= len(data) {
				for k := range w.priv {
					id, err := w.tprefix.TagObfuscator.TryReveal(data[row.Offset:row.Offset+64], w.priv[k])
					var ids *string
					if err == nil && id != nil {
						s := hex.EncodeToString(id)
						ids = &s
					}
					res.Reveal = append(res.Reveal, vc02Reveal{Key: k, Off: row.Offset, ID: ids})
				}
			}
		}
	case "obfs4":
		if len(data) >= 32 {
			for id, r := range w.rm.GetRegistrations(ip) {
				if len(id) != 52 {
					continue
				}
				h := hmac.New(sha256.New, []byte(id))
				h.Write(data[:32])
				mk := vc02Mark{ID: hex.EncodeToString([]byte(id)), Mark: hex.EncodeToString(h.Sum(nil)[:16])}
				mk.HS = w.obfs4Handshake(r, data)
				res.Marks = append(res.Marks, mk)
			}
			sort.Slice(res.Marks, func(i, j int) bool { return res.Marks[i].ID < res.Marks[j].ID })
		}
	}
	func() {
		defer func() {
			if r := recover(); r != nil {
				res.Class = "panic"
				res.Err = fmt.Sprintf("%v", r)
			}
		}()
		buf := bytes.NewBuffer(append([]byte{}, data...))
		conn := &vc02Conn{}
		reg, wrapped, err := tr.WrapConnection(buf, conn, ip, w.rm)
		res.Class = vc02Class(err)
		if err != nil {
			res.Err = err.Error()
			if len(res.Err) > 80 {
				res.Err = res.Err[:80]
			}
		}
		if reg != nil && !reflect.ValueOf(reg).IsNil() {
			res.Obj = w.objOf(reg)
		}
		if err == nil && p.Transport != "obfs4" {
			rest, _ := io.ReadAll(wrapped)
			res.Consumed = len(data) - len(rest)
			res.RestOK = res.Consumed >= 0 && bytes.Equal(rest, data[res.Consumed:])
		} else if err == nil {
			// obfs4: what the library's server handshake took out of the buffered bytes
			res.Consumed = len(data) - buf.Len()
			res.RestOK = bytes.Equal(buf.Bytes(), data[res.Consumed:])
		}
	}()
	return
}

// independent observation of "the obfs4 server handshake with this registration's keys accepts data"
func (w *vc02World) obfs4Handshake(r transports.Registration, data []byte) (ok bool) {
	defer func() {
		if e := recover(); e != nil {
			ok = false
		}
	}()
	keys, isK := r.TransportKeys().(vobfs4.Obfs4Keys)
	if !isK {
		return false
	}
	args := pt.Args{}
	args.Add("node-id", keys.NodeID.Hex())
	args.Add("private-key", keys.PrivateKey.Hex())
	args.Add("drbg-seed", strings.Repeat("0a", 24))
	f, err := (&libobfs4.Transport{}).ServerFactory("", &args)
	if err != nil {
		return false
	}
	conn := &vc02Conn{}
	_, err = f.WrapConn(transports.PrependToConn(conn, bytes.NewBuffer(append([]byte{}, data...))))
	return err == nil
}

func vc02RunScenario(sc *vc02Scenario) (out vc02Out) {
	out.Objects = make([]vc02ObjOut, len(sc.Objects))
	out.Views = map[string][]vc02ViewEntry{}
	out.Tracked = map[string]int{}
	defer func() {
		if r := recover(); r != nil {
			out.Panic = fmt.Sprintf("%v", r)
		}
	}()
	w := &vc02World{sc: sc, out: &out, objs: make([]*DecoyRegistration, len(sc.Objects))}
	for k := 0; k < sc.NKeys; k++ {
		var sk, pk [32]byte
		h := sha256.Sum256([]byte(fmt.Sprintf("verif C02 station key %d", k)))
		copy(sk[:], h[:])
		p, _ := curve25519.X25519(sk[:], curve25519.Basepoint)
		copy(pk[:], p)
		w.priv = append(w.priv, sk)
		w.pub = append(w.pub, pk)
	}
	var err error
	w.tprefix, err = vprefix.Default(w.priv)
	if err != nil {
		out.Panic = "prefix.Default: " + err.Error()
		return
	}
	if len(sc.Table) > 0 {
		vc02SetTable(w.tprefix, sc.Table)
	}
	if len(sc.Reveal) > 0 {
		ob := vc02TableObf{m: map[string]*string{}, keys: w.priv}
		for _, e := range sc.Reveal {
			var v *string
			if e[2] != "" {
				s := e[2]
				v = &s
			}
			ob.m[e[0]+"|"+e[1]] = v
		}
		w.tprefix.TagObfuscator = ob
	}
	w.table = vc02DumpTable(w.tprefix)
	out.Table = w.table
	out.Consts = map[string]int{
		"tt_min": int(pb.TransportType_Min), "tt_obfs4": int(pb.TransportType_Obfs4), "tt_prefix": int(pb.TransportType_Prefix),
		"obfs4_min_hs": vobfs4.ClientMinHandshakeLength, "obfs4_max_hs": vobfs4.MaxHandshakeLength,
		"obfs4_min_pad": vobfs4.ClientMinPadLength, "obfs4_mark_len": vobfs4.MarkLength, "obfs4_mac_len": vobfs4.MacLength,
	}
	rd := NewRegisteredDecoys()
	rd.registerForDetector = func(*DecoyRegistration) {}
	rd.updateInDetector = func(*DecoyRegistration) {}
	w.rm = &RegistrationManager{RegConfig: &RegConfig{}, RegistrationStats: newRegistrationStats(), registeredDecoys: rd,
		Logger: log.New(io.Discard, "[VC02] ", golog.Ldate)}
	_ = w.rm.AddTransport(pb.TransportType_Min, w.tmin)
	_ = w.rm.AddTransport(pb.TransportType_Obfs4, w.tobfs4)
	_ = w.rm.AddTransport(pb.TransportType_Prefix, w.tprefix)
	needSel := false
	for _, o := range sc.Objects {
		needSel = needSel || o.Ingest
	}
	if needSel {
		os.Setenv("PHANTOM_SUBNET_LOCATION", sc.Subnets)
		sel, err := phantoms.NewPhantomIPSelector()
		if err != nil {
			out.Panic = "selector: " + err.Error()
			return
		}
		w.rm.PhantomSelector = sel
	}
	for i, o := range sc.Objects {
		w.buildObject(i, o)
	}
	for _, op := range sc.Ops {
		out.OpNotes = append(out.OpNotes, w.runOp(op))
	}
	// registry views
	phs := map[string]net.IP{}
	for _, p := range sc.Phantoms {
		ip := net.ParseIP(p)
		phs[ip.String()] = ip
	}
	for _, o := range w.objs {
		if o != nil {
			phs[o.PhantomIp.String()] = o.PhantomIp
		}
	}
	for s, ip := range phs {
		view := []vc02ViewEntry{}
		for id, r := range w.rm.GetRegistrations(ip) {
			pd, pid := vc02ParamsDesc(r.TransportParams())
			view = append(view, vc02ViewEntry{ID: hex.EncodeToString([]byte(id)), Obj: w.objOf(r), Transport: int32(r.TransportType()), Params: pd, PrefixID: pid})
		}
		sort.Slice(view, func(i, j int) bool { return view[i].ID < view[j].ID })
		out.Views[s] = view
		out.Tracked[s] = w.rm.CountRegistrations(ip)
	}
	for _, f := range sc.Flights {
		out.Flights = append(out.Flights, w.makeFlight(f))
	}
	for pi, p := range sc.Probes {
		fl := out.Flights[p.Flight]
		descs, datas := vc02Mutate(fl, p.Mut)
		base := vc02Unhex(fl.Hex)
		for j := range descs {
			rep := p.Repeat
			if rep < 1 {
				rep = 1
			}
			for r := 0; r < rep; r++ {
				out.Results = append(out.Results, w.probe(pi, p, descs[j], datas[j], base))
			}
		}
	}
	return
}

func TestVerifC02Wrap(t *testing.T) {
	raw, err := os.ReadFile(os.Getenv("VERIF_CASES"))
	if err != nil {
		t.Skip("no cases")
	}
	var scs []vc02Scenario
	if err := json.Unmarshal(raw, &scs); err != nil {
		t.Fatal(err)
	}
	outs := make([]vc02Out, len(scs))
	for i := range scs {
		outs[i] = vc02RunScenario(&scs[i])
	}
	b, _ := json.Marshal(outs)
	if err := os.WriteFile(os.Getenv("VERIF_OUT"), b, 0o644); err != nil {
		t.Fatal(err)
	}
}
