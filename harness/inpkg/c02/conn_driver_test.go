//go:build verif

package main

// C02 connection-level driver (injected with go test -overlay; nothing is written into /repo).
//
// Runs the REAL handleNewTCPConn of cmd/application against a real RegistrationManager with the real
// min / obfs4 / prefix transports, one scripted client per case, and executes a HISTORY that interleaves
// registry operations (real TrackRegistration / AddRegistration / RemoveOldRegistrations after the timeout
// records have been moved into the past) with the steps of the open connection: arrival, every piece of the
// first flight.  The client side is an in-memory pipe: a Write returns when the handler has read the bytes,
// and the driver then waits until the handler is blocked in its next Read (or has returned) before it
// performs the next operation - forced schedule points, no sleeps.  Every registration has its own covert
// listener: a connection arriving there is an opened tunnel to that registration.
//
// Contains no assertions about conjure: it only records observables.

import (
	"bytes"
	"context"
	"crypto/rand"
	"encoding/hex"
	"encoding/json"
	"errors"
	"fmt"
	"net"
	"os"
	"runtime/debug"
	"sort"
	"sync"
	"sync/atomic"
	"testing"
	"time"

	"github.com/refraction-networking/conjure/internal/conjurepath"
	"github.com/refraction-networking/conjure/pkg/core"
	cj "github.com/refraction-networking/conjure/pkg/station/lib"
	"github.com/refraction-networking/conjure/pkg/transports"
	"github.com/refraction-networking/conjure/pkg/transports/wrapping/min"
	"github.com/refraction-networking/conjure/pkg/transports/wrapping/obfs4"
	"github.com/refraction-networking/conjure/pkg/transports/wrapping/prefix"
	pb "github.com/refraction-networking/conjure/proto"
	"golang.org/x/crypto/curve25519"
	"google.golang.org/protobuf/proto"
	"google.golang.org/protobuf/types/known/anypb"
)

// ---------------------------------------------------------------- case / result

type ccReg struct {
	Transport string `json:"transport"`
	PrefixID  int32  `json:"prefix_id"`
	Secret    string `json:"secret"` // hex
	Other     bool   `json:"other"`  // lives on the case's second phantom, not the one the client connects to
}

type ccStream struct {
	Kind      string `json:"kind"` // flight | raw
	Reg       int    `json:"reg"`  // flight: produced by the real client transport from this object's secret and parameters
	PrefixID  *int32 `json:"prefix_id,omitempty"` // flight of the prefix transport sent under another prefix id
	Key       int    `json:"key"`  // station key the client encrypts its tag to
	Hex       string `json:"hex"`  // raw
	ExtraLen  int    `json:"extra_len"`
	ExtraSeed int64  `json:"extra_seed"`
}

type ccStep struct {
	Op  string `json:"op"` // track | validate | expire | sweep | advance | accept | send | close
	Reg int    `json:"reg"`
	N   int    `json:"n"` // send: number of bytes (<= 0: the rest)
}

type ccCase struct {
	Regs   []ccReg  `json:"regs"`
	Stream ccStream `json:"stream"`
	Steps  []ccStep `json:"steps"`
}

type ccCall struct {
	T        string `json:"t"`
	N        int    `json:"n"`   // data.Len() when WrapConnection was called
	Res      string `json:"res"` // again | not | found | err_prefix | err_transport | err_other | found_foreign
	Consumed int    `json:"consumed"`
	Obj      int    `json:"obj"` // index of the returned registration object among the case's objects, -1 none, -2 unknown
}

type ccStepRes struct {
	Op      string   `json:"op"`
	Note    string   `json:"note,omitempty"`
	View    []int    `json:"view"`    // objects GetRegistrations(phantom) offers right before the step acts (sorted indices, -2 unknown)
	Count   int      `json:"count"`   // CountRegistrations(phantom) at that moment
	Sent    int      `json:"sent"`    // send: bytes written
	Reads   []int    `json:"reads"`   // send: sizes of the handler's Reads that returned these bytes
	Calls   []ccCall `json:"calls"`   // send / accept: WrapConnection calls made by the handler during the step
	Tunnel  int      `json:"tunnel"`  // object whose covert listener first saw a connection during this step, -1 none
	Stalled bool     `json:"stalled"` // the handler neither returned to Read nor returned (it sleeps after an unexpected transport error)
}

type ccReveal struct {
	Key int    `json:"key"`
	Off int    `json:"off"`
	ID  string `json:"id"`
}

type ccMark struct {
	Obj  int    `json:"obj"`
	Mark string `json:"mark"`
}

type ccRes struct {
	Err      string      `json:"err"`
	Phantom  string      `json:"phantom"`
	Other    string      `json:"other"`
	IDs      []string    `json:"ids"` // transport identifier of every object (hex)
	ObjErr   []string    `json:"obj_err"`
	Stream   string      `json:"stream"`
	Flight   int         `json:"flight"` // length of the client's first flight inside the stream
	Steps    []ccStepRes `json:"steps"`
	Tunnels  []int       `json:"tunnels"` // connections every object's covert listener accepted in total
	Reveals  []ccReveal  `json:"reveals"`
	Marks    []ccMark    `json:"marks"`
	Returned bool        `json:"returned"`
	Ms       int64       `json:"ms"`
}

// ---------------------------------------------------------------- station

type ccGeo struct{}

func (ccGeo) CC(net.IP) (string, error) { return "US", nil }
func (ccGeo) ASN(net.IP) (uint, error)  { return 64500, nil }

type ccStation struct {
	rm      *cj.RegistrationManager
	cm      *connManager
	privs   [][32]byte
	pubs    [][32]byte
	prefixT *prefix.Transport
	ipCtr   uint32
	// the station has ONE sweeper (a ticker in the main loop): the cases, which run concurrently on their own
	// phantoms, take turns in calling RemoveOldRegistrations
	sweepMu sync.Mutex
}

func (s *ccStation) sweep() {
	s.sweepMu.Lock()
	defer s.sweepMu.Unlock()
	s.rm.RemoveOldRegistrations()
}

func ccNewKey() (priv, pub [32]byte, err error) {
	if _, err = rand.Read(priv[:]); err != nil {
		return
	}
	priv[0] &= 248
	priv[31] &= 127
	priv[31] |= 64
	curve25519.ScalarBaseMult(&pub, &priv)
	return
}

func ccNewStation() (*ccStation, error) {
	os.Setenv("PHANTOM_SUBNET_LOCATION", conjurepath.Root+"/internal/test_assets/phantom_subnets.toml")
	s := &ccStation{}
	for i := 0; i < 2; i++ {
		k, pk, err := ccNewKey()
		if err != nil {
			return nil, err
		}
		s.privs, s.pubs = append(s.privs, k), append(s.pubs, pk)
	}
	s.rm = cj.NewRegistrationManager(&cj.RegConfig{})
	if s.rm == nil {
		return nil, fmt.Errorf("NewRegistrationManager returned nil")
	}
	s.rm.GeoIP = ccGeo{}
	s.rm.VerifC02SetDetectorHooks(func(*cj.DecoyRegistration) {}, func(*cj.DecoyRegistration) {})
	pt, err := prefix.Default(s.privs)
	if err != nil {
		return nil, err
	}
	s.prefixT = pt
	for _, e := range []struct {
		i pb.TransportType
		t cj.WrappingTransport
		n string
	}{{pb.TransportType_Min, min.Transport{}, "min"}, {pb.TransportType_Obfs4, obfs4.Transport{}, "obfs4"}, {pb.TransportType_Prefix, pt, "prefix"}} {
		if err := s.rm.AddTransport(e.i, ccRecT{e.t, e.n}); err != nil {
			return nil, err
		}
	}
	s.cm = newConnManager(nil)
	return s, nil
}

// fresh phantom addresses per case, so that concurrently running cases never see each other's registrations
func (s *ccStation) freshPhantom() net.IP {
	n := atomic.AddUint32(&s.ipCtr, 1)
	if n%4 == 3 {
		return net.IP{0x20, 0x01, 0x0d, 0xb8, 0, 0xc2, 0, 0, 0, 0, 0, 0, 0, byte(n >> 16), byte(n >> 8), byte(n)}
	}
	return net.IPv4(10, 0xc2^byte(n>>16), byte(n>>8), byte(n)).To4()
}

func ccTT(name string) pb.TransportType {
	switch name {
	case "min":
		return pb.TransportType_Min
	case "obfs4":
		return pb.TransportType_Obfs4
	case "prefix":
		return pb.TransportType_Prefix
	}
	return pb.TransportType_Null
}

// ---------------------------------------------------------------- recorder around a transport

type ccRecT struct {
	cj.WrappingTransport
	name string
}

func ccClassify(err error) string {
	switch {
	case err == nil:
		return "found"
	case errors.Is(err, transports.ErrTryAgain):
		return "again"
	case errors.Is(err, transports.ErrNotTransport):
		return "not"
	case errors.Is(err, prefix.ErrIncorrectPrefix):
		return "err_prefix"
	case errors.Is(err, prefix.ErrIncorrectTransport):
		return "err_transport"
	}
	return "err_other"
}

func (r ccRecT) WrapConnection(data *bytes.Buffer, c net.Conn, ip net.IP, rm transports.RegManager) (transports.Registration, net.Conn, error) {
	n := data.Len()
	reg, w, err := r.WrappingTransport.WrapConnection(data, c, ip, rm)
	if cc, ok := c.(*ccConn); ok {
		v := ccCall{T: r.name, N: n, Res: ccClassify(err), Consumed: n - data.Len(), Obj: -1}
		if d, isDecoy := reg.(*cj.DecoyRegistration); isDecoy && d != nil {
			v.Obj = -2
			for i, o := range cc.objs {
				if o == d {
					v.Obj = i
				}
			}
		} else if err == nil {
			v.Res = "found_foreign"
		}
		cc.logCall(v)
	}
	return reg, w, err
}

// ---------------------------------------------------------------- server side of the pipe

var ccClientAddr = &net.TCPAddr{IP: net.IPv4(198, 51, 100, 23), Port: 40223}

type ccConn struct {
	net.Conn
	objs     []*cj.DecoyRegistration
	mu       sync.Mutex
	entered  int
	returned int
	got      int
	reads    []int
	calls    []ccCall
	sig      chan struct{}
}

func (c *ccConn) RemoteAddr() net.Addr { return ccClientAddr }

func (c *ccConn) poke() {
	select {
	case c.sig <- struct{}{}:
	default:
	}
}

func (c *ccConn) Read(p []byte) (int, error) {
	c.mu.Lock()
	c.entered++
	c.mu.Unlock()
	c.poke()
	n, err := c.Conn.Read(p)
	c.mu.Lock()
	c.returned++
	c.got += n
	if n > 0 {
		c.reads = append(c.reads, n)
	}
	c.mu.Unlock()
	c.poke()
	return n, err
}

func (c *ccConn) logCall(v ccCall) {
	c.mu.Lock()
	c.calls = append(c.calls, v)
	c.mu.Unlock()
}

// take returns and clears what was logged since the last call
func (c *ccConn) take() ([]int, []ccCall) {
	c.mu.Lock()
	defer c.mu.Unlock()
	r, k := c.reads, c.calls
	c.reads, c.calls = nil, nil
	return r, k
}

// parked: every byte written so far has been returned by a Read and a further Read is pending
func (c *ccConn) parked(sent int) bool {
	c.mu.Lock()
	defer c.mu.Unlock()
	return c.got == sent && c.entered > c.returned
}

func (c *ccConn) lastTerminalError() bool {
	c.mu.Lock()
	defer c.mu.Unlock()
	if len(c.calls) == 0 {
		return false
	}
	switch c.calls[len(c.calls)-1].Res {
	case "err_prefix", "err_transport", "err_other":
		return true
	}
	return false
}

// ---------------------------------------------------------------- covert listeners

type ccCovert struct {
	ln    net.Listener
	conns int32
	sig   chan struct{}
}

func ccListen(sig chan struct{}) (*ccCovert, error) {
	ln, err := net.Listen("tcp", "127.0.0.1:0")
	if err != nil {
		return nil, err
	}
	cv := &ccCovert{ln: ln, sig: sig}
	go func() {
		for {
			c, err := ln.Accept()
			if err != nil {
				return
			}
			atomic.AddInt32(&cv.conns, 1)
			select {
			case sig <- struct{}{}:
			default:
			}
			go func() {
				buf := make([]byte, 4096)
				c.SetDeadline(time.Now().Add(20 * time.Second))
				for {
					if _, err := c.Read(buf); err != nil {
						break
					}
				}
				c.Close()
			}()
		}
	}()
	return cv, nil
}

// ---------------------------------------------------------------- client flights

type ccRecConn struct {
	net.Conn
	writes [][]byte
}

func (r *ccRecConn) Write(b []byte) (int, error) {
	r.writes = append(r.writes, append([]byte{}, b...))
	return len(b), nil
}
func (r *ccRecConn) SetDeadline(time.Time) error      { return nil }
func (r *ccRecConn) SetReadDeadline(time.Time) error  { return nil }
func (r *ccRecConn) SetWriteDeadline(time.Time) error { return nil }
func (r *ccRecConn) Close() error                     { return nil }
func (r *ccRecConn) LocalAddr() net.Addr              { return ccClientAddr }
func (r *ccRecConn) RemoteAddr() net.Addr             { return ccClientAddr }
func (r *ccRecConn) Read([]byte) (int, error)         { return 0, errors.New("nobody answers") }

// ccFlight runs the real client transport against a recording connection and returns the bytes it writes as its
// first flight together with the parameters it registers with.
func ccFlight(s *ccStation, transport string, prefixID int32, secret []byte, key int) (flight []byte, params proto.Message, err error) {
	pub := s.pubs[((key%len(s.pubs))+len(s.pubs))%len(s.pubs)]
	if key < 0 { // a key that is not the station's
		_, pub, err = ccNewKey()
		if err != nil {
			return
		}
	}
	tt := ccTT(transport)
	ckeys, err := core.GenSharedKeys(uint(core.CurrentClientLibraryVersion()), secret, tt)
	if err != nil {
		return nil, nil, err
	}
	rec := &ccRecConn{}
	switch transport {
	case "min":
		ct := &min.ClientTransport{}
		ct.SetParams(&pb.GenericTransportParams{RandomizeDstPort: proto.Bool(false)})
		ct.Prepare(context.Background(), nil)
		params, _ = ct.GetParams()
		ct.PrepareKeys(pub, secret, ckeys.TransportReader)
		_, err = ct.WrapConn(rec)
	case "prefix":
		ct := &prefix.ClientTransport{}
		if err = ct.SetParams(&prefix.ClientParams{PrefixID: prefixID, RandomizeDstPort: false, FlushPolicy: prefix.NoAddedFlush}); err != nil {
			return
		}
		ct.Prepare(context.Background(), nil)
		params, _ = ct.GetParams()
		ct.PrepareKeys(pub, secret, ckeys.TransportReader)
		_, err = ct.WrapConn(rec)
	case "obfs4":
		ct := &obfs4.ClientTransport{}
		ct.SetParams(&pb.GenericTransportParams{RandomizeDstPort: proto.Bool(false)})
		ct.Prepare(context.Background(), nil)
		params, _ = ct.GetParams()
		if err = ct.PrepareKeys(pub, secret, ckeys.TransportReader); err != nil {
			return
		}
		ct.WrapConn(rec) // fails after writing the handshake: nobody answers
		if len(rec.writes) == 0 {
			err = fmt.Errorf("obfs4 client wrote nothing")
		}
	default:
		err = fmt.Errorf("unknown transport %q", transport)
	}
	for _, w := range rec.writes {
		flight = append(flight, w...)
	}
	return
}

func ccLCG(seed int64, n int) []byte {
	x := uint64(seed)
	out := make([]byte, n)
	for i := range out {
		x = (x*1103515245 + 12345) % 2147483648
		out[i] = byte((x / 65536) % 256)
	}
	return out
}

// ---------------------------------------------------------------- one case

func ccRun(s *ccStation, c ccCase) (res ccRes) {
	t0 := time.Now()
	defer func() {
		if r := recover(); r != nil {
			st := string(debug.Stack())
			if len(st) > 1800 {
				st = st[:1800]
			}
			res.Err = fmt.Sprintf("panic: %v\n%s", r, st)
		}
		res.Ms = time.Since(t0).Milliseconds()
	}()
	phantom, other := s.freshPhantom(), s.freshPhantom()
	res.Phantom, res.Other = phantom.String(), other.String()
	libver := uint(core.CurrentClientLibraryVersion())

	// objects: built the way ingest builds them (NewRegistration), each with its own covert listener
	covSig := make(chan struct{}, 1)
	objs := make([]*cj.DecoyRegistration, len(c.Regs))
	covs := make([]*ccCovert, len(c.Regs))
	res.IDs = make([]string, len(c.Regs))
	res.ObjErr = make([]string, len(c.Regs))
	defer func() {
		for _, cv := range covs {
			if cv != nil {
				cv.ln.Close()
			}
		}
	}()
	for i, r := range c.Regs {
		secret, err := hex.DecodeString(r.Secret)
		if err != nil {
			res.ObjErr[i] = err.Error()
			continue
		}
		cv, err := ccListen(covSig)
		if err != nil {
			res.ObjErr[i] = err.Error()
			continue
		}
		covs[i] = cv
		tt := ccTT(r.Transport)
		keys, err := core.GenSharedKeys(libver, secret, tt)
		if err != nil {
			res.ObjErr[i] = err.Error()
			continue
		}
		var params proto.Message
		if r.Transport == "prefix" {
			params = &pb.PrefixTransportParams{PrefixId: proto.Int32(r.PrefixID), RandomizeDstPort: proto.Bool(false)}
		} else {
			params = &pb.GenericTransportParams{RandomizeDstPort: proto.Bool(false)}
		}
		ap, err := anypb.New(params)
		if err != nil {
			res.ObjErr[i] = err.Error()
			continue
		}
		v := uint32(libver)
		gen := uint32(1)
		src := pb.RegistrationSource_API
		covert := cv.ln.Addr().String()
		c2s := &pb.ClientToStation{ClientLibVersion: &v, Transport: &tt, CovertAddress: &covert, DecoyListGeneration: &gen, TransportParams: ap}
		reg, err := s.rm.NewRegistration(c2s, &keys, false, &src)
		if err != nil {
			res.ObjErr[i] = err.Error()
			continue
		}
		if r.Other {
			reg.PhantomIp = other
		} else {
			reg.PhantomIp = phantom
		}
		objs[i] = reg
		if t, ok := s.rm.GetWrappingTransports()[tt]; ok {
			res.IDs[i] = hex.EncodeToString([]byte(t.GetIdentifier(reg)))
		}
	}

	// the client's byte stream
	var stream []byte
	switch c.Stream.Kind {
	case "flight":
		if c.Stream.Reg < 0 || c.Stream.Reg >= len(c.Regs) {
			res.Err = "stream: no such object"
			return
		}
		r := c.Regs[c.Stream.Reg]
		secret, _ := hex.DecodeString(r.Secret)
		pid := r.PrefixID
		if c.Stream.PrefixID != nil {
			pid = *c.Stream.PrefixID
		}
		fl, _, err := ccFlight(s, r.Transport, pid, secret, c.Stream.Key)
		if err != nil {
			res.Err = "flight: " + err.Error()
			return
		}
		res.Flight = len(fl)
		stream = append(fl, ccLCG(c.Stream.ExtraSeed, c.Stream.ExtraLen)...)
	default:
		stream, _ = hex.DecodeString(c.Stream.Hex)
	}
	res.Stream = hex.EncodeToString(stream)

	// one connection at a time; a case may open several, one after the other (accept ... close, accept ... close)
	var cli net.Conn
	var sc *ccConn
	var hdone chan struct{}
	accepted := false
	sent := 0
	newConn := func() {
		var srv net.Conn
		cli, srv = net.Pipe()
		sc = &ccConn{Conn: srv, objs: objs, sig: make(chan struct{}, 1)}
		hdone = make(chan struct{})
		sent = 0
		// the client reads (and drops) whatever the station sends: a pipe write of the station must not block
		go func(c net.Conn) {
			buf := make([]byte, 4096)
			for {
				if _, err := c.Read(buf); err != nil {
					return
				}
			}
		}(cli)
	}
	newConn()
	defer func() { cli.Close() }()
	tunnelSeen := make([]int32, len(c.Regs))

	view := func() []int {
		out := []int{}
		for _, x := range s.rm.GetRegistrations(phantom) {
			k := -2
			for i, o := range objs {
				if d, ok := x.(*cj.DecoyRegistration); ok && d == o && o != nil {
					k = i
				}
			}
			out = append(out, k)
		}
		sort.Ints(out)
		return out
	}
	// wait until the handler is parked in a Read with everything written so far consumed, or has returned
	settle := func(limit time.Duration) bool {
		deadline := time.After(limit)
		graced := false
		for {
			select {
			case <-hdone:
				return true
			default:
			}
			if sc.parked(sent) {
				return true
			}
			if !graced && sc.lastTerminalError() {
				// a transport answered with an unexpected error: the handler sleeps until its deadline
				graced = true
				deadline = time.After(120 * time.Millisecond)
			}
			short := time.NewTimer(50 * time.Millisecond)
			select {
			case <-sc.sig:
			case <-hdone:
			case <-short.C:
			case <-deadline:
				short.Stop()
				return false
			}
			short.Stop()
		}
	}
	newTunnel := func(wait time.Duration) int {
		deadline := time.After(wait)
		for {
			for i, cv := range covs {
				if cv != nil && atomic.LoadInt32(&cv.conns) > tunnelSeen[i] {
					tunnelSeen[i]++
					return i
				}
			}
			if wait <= 0 {
				return -1
			}
			select {
			case <-covSig:
			case <-deadline:
				wait = 0
			}
		}
	}
	sawFound := func(calls []ccCall) bool {
		for _, k := range calls {
			if k.Res == "found" {
				return true
			}
		}
		return false
	}

	for _, st := range c.Steps {
		sr := ccStepRes{Op: st.Op, Tunnel: -1, Reads: []int{}, Calls: []ccCall{}}
		sr.View, sr.Count = view(), s.rm.CountRegistrations(phantom)
		var obj *cj.DecoyRegistration
		if st.Reg >= 0 && st.Reg < len(objs) {
			obj = objs[st.Reg]
		}
		switch st.Op {
		case "track":
			if obj == nil {
				sr.Note = "noobj"
			} else if err := s.rm.TrackRegistration(obj); err != nil {
				sr.Note = "error: " + err.Error()
			}
		case "track_ine":
			// the ingest pipeline's entry point (what a registration message received again goes through)
			if obj == nil {
				sr.Note = "noobj"
			} else if _, err := s.rm.TrackRegIfNotExists(obj); err != nil {
				sr.Note = "error: " + err.Error()
			}
		case "validate":
			if obj == nil {
				sr.Note = "noobj"
			} else {
				s.rm.AddRegistration(obj)
			}
		case "age":
			// st.N seconds pass for everything tracked on the two phantoms of this case (every record's clock is shifted
			// RELATIVE to where it stands, so whatever earlier operations did to a clock stays visible), then the real sweep
			s.rm.VerifC02AgePhantoms([]string{phantom.String(), other.String()}, time.Duration(st.N)*time.Second)
			s.sweep()
		case "expire":
			// seven hours pass for whatever is tracked under this object's (phantom, identifier), then the real sweep
			if obj == nil {
				sr.Note = "noobj"
			} else {
				if !s.rm.VerifC02AgeKey(obj, 7*time.Hour) {
					sr.Note = "expire_missing"
				}
				s.sweep()
			}
		case "sweep":
			s.sweep()
		case "advance":
			// seven hours pass for everything tracked on the two phantoms of this case, then the real sweep
			s.rm.VerifC02AgePhantoms([]string{phantom.String(), other.String()}, 7*time.Hour)
			s.sweep()
		case "accept":
			if accepted {
				sr.Note = "already accepted"
				break
			}
			accepted = true
			go func(sc *ccConn, hdone chan struct{}) {
				defer close(hdone)
				defer func() { recover() }()
				s.cm.handleNewTCPConn(s.rm, sc, phantom)
			}(sc, hdone)
			if !settle(5 * time.Second) {
				sr.Stalled = true
			}
			_, sr.Calls = sc.take()
		case "send":
			if !accepted {
				sr.Note = "not accepted"
				break
			}
			n := st.N
			if n <= 0 || sent+n > len(stream) {
				n = len(stream) - sent
			}
			if n > 0 {
				cli.SetWriteDeadline(time.Now().Add(3 * time.Second))
				w, err := cli.Write(stream[sent : sent+n])
				sent += w
				sr.Sent = w
				if err != nil {
					sr.Note = "write: " + err.Error()
				}
			}
			if !settle(5 * time.Second) {
				sr.Stalled = true
			}
			sr.Reads, sr.Calls = sc.take()
			if sawFound(sr.Calls) {
				sr.Tunnel = newTunnel(3 * time.Second)
			} else {
				sr.Tunnel = newTunnel(0)
			}
		case "close":
			cli.Close()
			if accepted {
				select {
				case <-hdone:
				case <-time.After(200 * time.Millisecond):
					sr.Note = "handler still running"
				}
			}
			// a tunnel that opens late (nothing the recorder saw announced it) is attributed to this connection's last send
			if t := newTunnel(0); t >= 0 {
				sr.Tunnel = t
			}
			accepted = false
			newConn()
		default:
			sr.Note = "unknown op"
		}
		if sr.Reads == nil {
			sr.Reads = []int{}
		}
		if sr.Calls == nil {
			sr.Calls = []ccCall{}
		}
		if sr.View == nil {
			sr.View = []int{}
		}
		res.Steps = append(res.Steps, sr)
	}
	// a tunnel that opens late (nothing the recorder saw announced it) is attributed to the last step
	if t := newTunnel(120 * time.Millisecond); t >= 0 && len(res.Steps) > 0 {
		for i := len(res.Steps) - 1; i >= 0; i-- {
			if res.Steps[i].Op == "send" {
				if res.Steps[i].Tunnel < 0 {
					res.Steps[i].Tunnel = t
				} else {
					res.Steps[i].Note += " second-tunnel"
				}
				break
			}
		}
	}
	cli.Close()
	if accepted {
		select {
		case <-hdone:
			res.Returned = true
		case <-time.After(300 * time.Millisecond):
		}
	}
	res.Tunnels = make([]int, len(covs))
	for i, cv := range covs {
		if cv != nil {
			res.Tunnels[i] = int(atomic.LoadInt32(&cv.conns))
		}
	}

	// oracle values for the model: TryReveal of every 64-byte window at a table offset, for every station key;
	// the station's mark derivation for every obfs4 object on the stream's first 32 bytes
	seen := map[int]bool{}
	for _, p := range s.prefixT.SupportedPrefixes {
		if seen[p.Offset] || len(stream) < p.Offset+64 {
			continue
		}
		seen[p.Offset] = true
		for k, key := range s.prefixT.Privkeys {
			id, err := s.prefixT.TagObfuscator.TryReveal(stream[p.Offset:p.Offset+64], key)
			if err != nil || id == nil {
				continue
			}
			res.Reveals = append(res.Reveals, ccReveal{Key: k, Off: p.Offset, ID: hex.EncodeToString(id)})
		}
	}
	sort.Slice(res.Reveals, func(i, j int) bool {
		if res.Reveals[i].Off != res.Reveals[j].Off {
			return res.Reveals[i].Off < res.Reveals[j].Off
		}
		return res.Reveals[i].Key < res.Reveals[j].Key
	})
	if len(stream) >= 32 {
		for i, o := range objs {
			if o != nil && c.Regs[i].Transport == "obfs4" {
				res.Marks = append(res.Marks, ccMark{Obj: i, Mark: hex.EncodeToString(obfs4.VerifC02Mark(o, stream[:32]))})
			}
		}
	}
	// let the lifetime of everything this case tracked elapse: the shared registry stays small
	s.rm.VerifC02AgePhantoms([]string{phantom.String(), other.String()}, 7*time.Hour)
	s.sweep()
	return
}

type ccPrefixRow struct {
	ID     int    `json:"id"`
	Static string `json:"static"`
	Offset int    `json:"offset"`
	MinLen int    `json:"minlen"`
	MaxLen int    `json:"maxlen"`
}

type ccOut struct {
	Table   []ccPrefixRow `json:"table"`
	NKeys   int           `json:"nkeys"`
	Results []ccRes       `json:"results"`
}

func TestVerifC02Conn(t *testing.T) {
	raw, err := os.ReadFile(os.Getenv("VERIF_CASES"))
	if err != nil {
		t.Skip("no cases")
	}
	var cases []ccCase
	if err := json.Unmarshal(raw, &cases); err != nil {
		t.Fatal(err)
	}
	stdout := os.Stdout
	if dn, err := os.OpenFile(os.DevNull, os.O_WRONLY, 0); err == nil {
		os.Stdout = dn // the handler logs every connection to os.Stdout
		defer func() { os.Stdout = stdout }()
	}
	s, err := ccNewStation()
	if err != nil {
		t.Fatal(err)
	}
	out := ccOut{NKeys: len(s.privs), Results: make([]ccRes, len(cases))}
	for id, p := range s.prefixT.SupportedPrefixes {
		out.Table = append(out.Table, ccPrefixRow{int(id), hex.EncodeToString(p.StaticMatch), p.Offset, p.MinLen, p.MaxLen})
	}
	sort.Slice(out.Table, func(i, j int) bool { return out.Table[i].ID < out.Table[j].ID })
	var wg sync.WaitGroup
	sem := make(chan struct{}, 32)
	for i := range cases {
		wg.Add(1)
		sem <- struct{}{}
		go func(i int) {
			defer wg.Done()
			out.Results[i] = ccRun(s, cases[i])
			<-sem
		}(i)
	}
	wg.Wait()
	js, _ := json.Marshal(out)
	if err := os.WriteFile(os.Getenv("VERIF_OUT"), js, 0o644); err != nil {
		t.Fatal(err)
	}
}
