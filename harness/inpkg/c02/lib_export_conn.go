//go:build verif

package lib

import "time"

// Export shim for the C02 connection-level driver (exists only in the go test -overlay; never in /repo).
// It lets a driver in cmd/application (a) replace the two functions that publish New/Update messages to
// the detector, so that no Redis is needed, and (b) let time pass for timeout records: the records are
// moved into the past and the REAL sweep (RemoveOldRegistrations) then decides from its own bookkeeping.

// VerifC02SetDetectorHooks replaces the detector publication functions of the registry.
func (regManager *RegistrationManager) VerifC02SetDetectorHooks(onNew, onUpdate func(*DecoyRegistration)) {
	r := regManager.registeredDecoys
	r.m.Lock()
	defer r.m.Unlock()
	r.registerForDetector = onNew
	r.updateInDetector = onUpdate
}

// VerifC02AgeKey moves the timeout record of whatever is tracked under the registration's
// (phantom, identifier) pair `by` into the past; false if no such record exists.
func (regManager *RegistrationManager) VerifC02AgeKey(d *DecoyRegistration, by time.Duration) bool {
	r := regManager.registeredDecoys
	r.m.Lock()
	defer r.m.Unlock()
	t, ok := r.transports[d.Transport]
	if !ok {
		return false
	}
	id := t.GetIdentifier(d)
	addr := d.PhantomIp.String()
	hit := false
	for _, to := range r.decoysTimeouts {
		if to.decoy == addr && to.identifier == id {
			to.registrationTime = to.registrationTime.Add(-by)
			hit = true
		}
	}
	return hit
}

// VerifC02AgePhantoms moves every timeout record of the given phantom addresses `by` into the past and
// returns how many records that were.
func (regManager *RegistrationManager) VerifC02AgePhantoms(addrs []string, by time.Duration) int {
	r := regManager.registeredDecoys
	r.m.Lock()
	defer r.m.Unlock()
	n := 0
	for _, to := range r.decoysTimeouts {
		for _, a := range addrs {
			if to.decoy == a {
				to.registrationTime = to.registrationTime.Add(-by)
				n++
			}
		}
	}
	return n
}
