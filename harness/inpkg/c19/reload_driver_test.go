package main

// Correspondence driver for C19, reload part: executes the REAL SIGHUP loop of
// cmd/application/main.go. The loop (`for sig := range sigCh { ... }`) is cut
// textually out of main.go by the check on every run and compiled, verbatim,
// into the function verifC19ReloadLoop (zz_verif_reloadcut.go, overlay only).
// No assertions about conjure.

import (
	"encoding/json"
	"fmt"
	"io"
	golog "log"
	"net"
	"os"
	"path/filepath"
	"sort"
	"syscall"
	"testing"

	cj "github.com/refraction-networking/conjure/pkg/station/lib"
	"github.com/refraction-networking/conjure/pkg/station/liveness"
	"github.com/refraction-networking/conjure/pkg/station/log"
)

type c19file struct {
	Kind string `json:"kind"`
	Text string `json:"text"`
}
type c19step struct {
	Cfg c19file `json:"cfg"`
	Sub c19file `json:"sub"`
}
type c19case struct {
	Steps  []c19step `json:"steps"`
	NProbe int       `json:"nprobe"`
}
type c19obs struct {
	Stage   string `json:"stage"` // start: ok | rejected ; reload: ok | panic:<msg>
	Covert  []bool `json:"covert"`
	Loop    bool   `json:"loop"`
	Phantom []bool `json:"phantom"`
	Gens    []int  `json:"gens"`
	Conn    string `json:"conn"` // connStats.PrintAndReset (the verbose statistics module of main): ok | panic:<msg>
}
type c19res struct {
	Obs []c19obs `json:"obs"`
}

func c19guard(f func()) (out string) {
	defer func() {
		if p := recover(); p != nil {
			out = fmt.Sprintf("panic:%v", p)
			if len(out) > 160 {
				out = out[:160]
			}
		}
	}()
	f()
	return "ok"
}

func c19probeCovert(n int) string {
	if n%2 == 0 {
		return fmt.Sprintf("198.18.%d.1:443", n)
	}
	return fmt.Sprintf("[2001:db8:%x::1]:443", n)
}
func c19probePhantom(n int) net.IP {
	if n%2 == 0 {
		return net.ParseIP(fmt.Sprintf("198.19.%d.7", n))
	}
	return net.ParseIP(fmt.Sprintf("2001:db8:ff%x::7", n))
}

func c19place(dir, name string, f c19file, shipped string) string {
	p := filepath.Join(dir, name)
	switch f.Kind {
	case "text":
		_ = os.WriteFile(p, []byte(f.Text), 0o644)
		return p
	case "shipped":
		return shipped
	default:
		_ = os.Remove(p)
		return filepath.Join(dir, "missing", name)
	}
}

func c19observe(rm *cj.RegistrationManager, o *c19obs, n int) {
	for i := 0; i < n; i++ {
		out, _ := rm.ParseOrResolveBlocklisted(c19probeCovert(i))
		o.Covert = append(o.Covert, out == "")
		o.Phantom = append(o.Phantom, rm.IsBlocklistedPhantom(c19probePhantom(i)))
	}
	out, _ := rm.ParseOrResolveBlocklisted("127.0.0.1:443")
	o.Loop = out == ""
	if rm.PhantomSelector == nil {
		o.Gens = []int{-1}
	} else {
		for gen := range rm.PhantomSelector.Networks {
			o.Gens = append(o.Gens, int(gen))
		}
		sort.Ints(o.Gens)
	}
}

func c19run(c c19case, dir, shipped string) (r c19res) {
	logger := log.New(io.Discard, "[C19] ", golog.Ldate)
	var rm *cj.RegistrationManager
	for i, st := range c.Steps {
		var o c19obs
		os.Setenv("CJ_STATION_CONFIG", c19place(dir, "app.toml", st.Cfg, shipped))
		os.Setenv("PHANTOM_SUBNET_LOCATION", c19place(dir, "subnets.toml", st.Sub, shipped))
		if i == 0 {
			o.Stage = "rejected"
			g := c19guard(func() {
				conf, err := cj.ParseConfig()
				if err != nil {
					return
				}
				if _, err := liveness.New(conf.RegConfig.LivenessConfig()); err != nil {
					return // NewRegistrationManager would log.Fatal
				}
				// main.go:60-64
				connManager := newConnManager(nil)
				conf.RegConfig.ConnectingStats = connManager
				rm = cj.NewRegistrationManager(conf.RegConfig)
				if rm != nil {
					o.Conn = c19guard(func() { connManager.PrintAndReset(logger); connManager.Reset() })
				}
			})
			if g != "ok" {
				o.Stage = g
				rm = nil
			}
			if rm != nil {
				o.Stage = "ok"
				rm.Logger = logger
			}
		} else {
			ch := make(chan os.Signal, 1)
			ch <- syscall.SIGHUP
			close(ch)
			o.Stage = c19guard(func() { verifC19ReloadLoop(ch, logger, rm) })
		}
		if rm == nil {
			r.Obs = append(r.Obs, o)
			break
		}
		c19observe(rm, &o, c.NProbe)
		r.Obs = append(r.Obs, o)
		if o.Stage != "ok" {
			break
		}
	}
	return
}

// ---- connStats (the verbose statistics module of main): every state transition of a connection,
// for an ASN/country that is known or unknown, before and after the periodic PrintAndReset ----

type c19connRes struct {
	Transition string `json:"transition"`
	Scenario   string `json:"scenario"` // fresh | created | created+reset | reset-only
	V4         bool   `json:"v4"`
	CC         string `json:"cc"`
	Outcome    string `json:"outcome"` // ok | panic:<msg>
}

func TestVerifC19ConnStats(t *testing.T) {
	if os.Getenv("VERIF_OUT") == "" {
		t.Skip("no output file")
	}
	logger := log.New(io.Discard, "[C19] ", golog.Ldate)
	var res []c19connRes
	for _, scenario := range []string{"fresh", "created", "created+reset", "reset-only"} {
		for _, v4 := range []bool{true, false} {
			for _, cc := range []string{"US", ""} {
				names := []string{"addCreated", "createdToDiscard", "createdToCheck", "createdToReset", "createdToTimeout", "createdToError", "createdToClose",
					"readToCheck", "readToTimeout", "readToReset", "readToError", "checkToCreated", "checkToRead", "checkToFound", "checkToError", "checkToDiscard",
					"discardToReset", "discardToTimeout", "discardToError", "discardToClose"}
				for _, name := range names {
					cm := newConnManager(nil)
					c := cm.connStats
					const asn = 64500
					trans := map[string]func(uint, string, bool){
						"addCreated": c.addCreated, "createdToDiscard": c.createdToDiscard, "createdToCheck": c.createdToCheck, "createdToReset": c.createdToReset,
						"createdToTimeout": c.createdToTimeout, "createdToError": c.createdToError, "createdToClose": c.createdToClose,
						"readToCheck": c.readToCheck, "readToTimeout": c.readToTimeout, "readToReset": c.readToReset, "readToError": c.readToError,
						"checkToCreated": c.checkToCreated, "checkToRead": c.checkToRead, "checkToFound": c.checkToFound, "checkToError": c.checkToError,
						"checkToDiscard": c.checkToDiscard, "discardToReset": c.discardToReset, "discardToTimeout": c.discardToTimeout,
						"discardToError": c.discardToError, "discardToClose": c.discardToClose,
					}
					out := c19guard(func() {
						if scenario == "created" || scenario == "created+reset" {
							c.addCreated(asn, cc, v4)
						}
						if scenario == "created+reset" || scenario == "reset-only" {
							cm.PrintAndReset(logger)
						}
						trans[name](asn, cc, v4)
						cm.PrintAndReset(logger)
					})
					res = append(res, c19connRes{name, scenario, v4, cc, out})
				}
			}
		}
	}
	out, _ := json.Marshal(res)
	if err := os.WriteFile(os.Getenv("VERIF_OUT"), out, 0o644); err != nil {
		t.Fatal(err)
	}
}

func TestVerifC19Reload(t *testing.T) {
	raw, err := os.ReadFile(os.Getenv("VERIF_CASES"))
	if err != nil {
		t.Skip("no cases")
	}
	var cases []c19case
	if err := json.Unmarshal(raw, &cases); err != nil {
		t.Fatal(err)
	}
	shipped := os.Getenv("VERIF_C19_SHIPPED")
	dir := t.TempDir()
	devnull, _ := os.OpenFile(os.DevNull, os.O_WRONLY, 0)
	stdout, stderr := os.Stdout, os.Stderr
	os.Stdout = devnull
	log.SetOutput(io.Discard)
	golog.SetOutput(io.Discard)
	res := make([]c19res, len(cases))
	for i, c := range cases {
		res[i] = c19run(c, dir, shipped)
	}
	os.Stdout, os.Stderr = stdout, stderr
	out, _ := json.Marshal(res)
	if err := os.WriteFile(os.Getenv("VERIF_OUT"), out, 0o644); err != nil {
		t.Fatal(err)
	}
}
