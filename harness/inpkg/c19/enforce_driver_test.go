package lib

// Correspondence driver for C19, enforcement lane: what the list entries of an accepted
// configuration DO.  Each case is a start-up configuration file plus reload steps (real TOML
// files through the real ParseConfig / NewRegistrationManager / OnReload) and a set of covert
// strings and phantom addresses that are put to the policy in force after every step through
// the real ParseOrResolveBlocklisted / IsBlocklistedPhantom of the manager.  Names resolve through
// a scripted resolver (loopback DNS stub installed as net.DefaultResolver).  Records
// observables only; no assertions about conjure.

import (
	"context"
	"encoding/binary"
	"encoding/hex"
	"encoding/json"
	"fmt"
	"io"
	golog "log"
	"net"
	"os"
	"regexp"
	"strings"
	"sync"
	"testing"
	"time"

	"github.com/refraction-networking/conjure/pkg/station/log"
)

// ---------------------------------------------------------------- DNS stub

type vc19Answer struct {
	A    []string `json:"a"`
	AAAA []string `json:"aaaa"`
}

type vc19Stub struct {
	mu     sync.Mutex
	pc     net.PacketConn
	script map[string]vc19Answer // lower-case name without the trailing dot
	asked  int
}

func (s *vc19Stub) setScript(m map[string]vc19Answer) {
	s.mu.Lock()
	defer s.mu.Unlock()
	s.script = map[string]vc19Answer{}
	for k, v := range m {
		s.script[strings.ToLower(strings.TrimSuffix(k, "."))] = v
	}
}

func (s *vc19Stub) serve() {
	buf := make([]byte, 1500)
	for {
		n, from, err := s.pc.ReadFrom(buf)
		if err != nil {
			return
		}
		if resp := s.answer(buf[:n]); resp != nil {
			_, _ = s.pc.WriteTo(resp, from)
		}
	}
}

// answer replies to one A / AAAA question from the script; unknown names get NXDOMAIN.
func (s *vc19Stub) answer(q []byte) []byte {
	if len(q) < 12 {
		return nil
	}
	off := 12
	var labels []string
	for {
		if off >= len(q) {
			return nil
		}
		l := int(q[off])
		off++
		if l == 0 {
			break
		}
		if l&0xC0 != 0 || off+l > len(q) {
			return nil
		}
		labels = append(labels, string(q[off:off+l]))
		off += l
	}
	if off+4 > len(q) {
		return nil
	}
	qtype := binary.BigEndian.Uint16(q[off:])
	qend := off + 4
	name := strings.ToLower(strings.Join(labels, "."))
	s.mu.Lock()
	s.asked++
	ans, found := s.script[name]
	s.mu.Unlock()
	rcode := 0
	if !found {
		rcode = 3
	}
	var rrs [][]byte
	if found {
		var list []string
		want := 0
		if qtype == 1 {
			list, want = ans.A, 4
		} else if qtype == 28 {
			list, want = ans.AAAA, 16
		}
		for _, a := range list {
			ip := net.ParseIP(a)
			if ip == nil {
				continue
			}
			rd := ip.To16()
			if want == 4 {
				rd = ip.To4()
			}
			if rd == nil {
				continue
			}
			rr := []byte{0xC0, 0x0C, 0, byte(qtype), 0, 1, 0, 0, 0, 0, 0, byte(len(rd))}
			rrs = append(rrs, append(rr, rd...))
		}
	}
	resp := make([]byte, 0, 512)
	resp = append(resp, q[0], q[1], 0x81, 0x80|byte(rcode), 0, 1, 0, byte(len(rrs)), 0, 0, 0, 0)
	resp = append(resp, q[12:qend]...)
	for _, rr := range rrs {
		resp = append(resp, rr...)
	}
	return resp
}

func vc19StartStub(t *testing.T) *vc19Stub {
	pc, err := net.ListenPacket("udp", "127.0.0.1:0")
	if err != nil {
		t.Fatal(err)
	}
	s := &vc19Stub{pc: pc, script: map[string]vc19Answer{}}
	go s.serve()
	addr := pc.LocalAddr().String()
	net.DefaultResolver = &net.Resolver{
		PreferGo: true,
		Dial: func(ctx context.Context, network, address string) (net.Conn, error) {
			d := net.Dialer{Timeout: 2 * time.Second}
			return d.DialContext(ctx, "udp", addr)
		},
	}
	return s
}

// ---------------------------------------------------------------- cases

type vc19Query struct {
	S string `json:"s"` // hex of the covert string
}

type vc19Case struct {
	Steps    []c19file             `json:"steps"` // configuration file of start-up, then of each reload
	Sub      string                `json:"sub"`   // phantom subnet file (always valid in this lane)
	Script   map[string]vc19Answer `json:"script"`
	Queries  []vc19Query           `json:"queries"`
	Phantoms []string              `json:"phantoms"` // hex of net.IP bytes (4 or 16)
}

type vc19QObs struct {
	Admit   bool   `json:"admit"` // ParseOrResolveBlocklisted returned a non-empty address
	Out     string `json:"out"`   // hex of it
	Panic   string `json:"panic,omitempty"`
	Whole   bool   `json:"whole"` // net.ParseIP(s) != nil
	SplitOk bool   `json:"split_ok"`
	Host    string `json:"host"`    // hex
	Port    string `json:"port"`    // hex
	HostLit bool   `json:"hostlit"` // net.ParseIP(host) != nil
	ResOk   bool   `json:"res_ok"`  // net.ResolveIPAddr("ip", host) returned no error
	ResIP   string `json:"res_ip"`  // hex of the raw IP bytes ("" = no IP)
	ResZone bool   `json:"res_zone"`
	Dom     []bool `json:"dom"` // regexp.Compile(written pattern).MatchString(host) for each written pattern of the file in force
}

type vc19Step struct {
	Parse    string     `json:"parse"` // ok | err | panic
	Msg      string     `json:"msg"`
	Stage    string     `json:"stage"` // start-up: ok | nil | panic:..., reload: ok | skipped | panic:...
	NWritten []int      `json:"nwritten"`
	Q        []vc19QObs `json:"q"`
	Ph       []string   `json:"ph"` // per phantom: "true" | "false" | "panic:..."
	// the settings the manager holds after the step (exported fields of its RegConfig), rendered as TOML values
	Keys map[string]string `json:"keys"`
}

func vc19Keys(rc *RegConfig) map[string]string {
	return map[string]string{
		"enable_v4":                     fmt.Sprint(rc.EnableIPv4),
		"enable_v6":                     fmt.Sprint(rc.EnableIPv6),
		"ingest_worker_count":           fmt.Sprint(rc.IngestWorkerCount),
		"enable_share_over_api":         fmt.Sprint(rc.EnableShareOverAPI),
		"preshare_endpoint":             fmt.Sprintf("%q", rc.PreshareEndpoint),
		"covert_blocklist_public_addrs": fmt.Sprint(rc.CovertBlocklistPublicAddrs),
		"covert_blocklist_subnets":      fmt.Sprintf("%q", rc.CovertBlocklistSubnets),
		"covert_allowlist_subnets":      fmt.Sprintf("%q", rc.CovertAllowlistSubnets),
		"covert_blocklist_domains":      fmt.Sprintf("%q", rc.CovertBlocklistDomains),
		"phantom_blocklist":             fmt.Sprintf("%q", rc.PhantomBlocklist),
	}
}

type vc19Res struct {
	Steps  []vc19Step  `json:"steps"`
	Ifaces [][2]string `json:"ifaces"` // hex (IP, Mask) of every interface subnet, as the driver's own net.Interfaces() sees them
}

// vc19Ifaces lists the machine's interface subnets (the external input of covert_blocklist_public_addrs).
func vc19Ifaces() [][2]string {
	out := [][2]string{}
	ifaces, err := net.Interfaces()
	if err != nil {
		return out
	}
	for _, i := range ifaces {
		addrs, err := i.Addrs()
		if err != nil {
			continue
		}
		for _, a := range addrs {
			if n, ok := a.(*net.IPNet); ok {
				out = append(out, [2]string{hex.EncodeToString(n.IP), hex.EncodeToString(n.Mask)})
			}
		}
	}
	return out
}

func vc19Hex(s string) string { return hex.EncodeToString([]byte(s)) }

func vc19Observe(rm *RegistrationManager, written []string, c vc19Case) (qs []vc19QObs, ph []string) {
	var pats []*regexp.Regexp
	for _, w := range written {
		re, err := regexp.Compile(w)
		if err != nil {
			re = nil
		}
		pats = append(pats, re)
	}
	for _, q := range c.Queries {
		var o vc19QObs
		sb, _ := hex.DecodeString(q.S)
		s := string(sb)
		func() {
			defer func() {
				if r := recover(); r != nil {
					o.Panic = fmt.Sprint(r)
				}
			}()
			out, _ := rm.ParseOrResolveBlocklisted(s)
			o.Out, o.Admit = vc19Hex(out), out != ""
		}()
		o.Whole = net.ParseIP(s) != nil
		o.Dom = []bool{}
		host, port, err := net.SplitHostPort(s)
		if err == nil {
			o.SplitOk, o.Host, o.Port = true, vc19Hex(host), vc19Hex(port)
			o.HostLit = net.ParseIP(host) != nil
			addr, rerr := net.ResolveIPAddr("ip", host)
			if rerr == nil && addr != nil {
				o.ResOk = true
				o.ResIP = hex.EncodeToString(addr.IP)
				o.ResZone = addr.Zone != ""
			}
			for _, re := range pats {
				o.Dom = append(o.Dom, re != nil && re.MatchString(host))
			}
		}
		qs = append(qs, o)
	}
	for _, p := range c.Phantoms {
		b, _ := hex.DecodeString(p)
		v := "false"
		func() {
			defer func() {
				if r := recover(); r != nil {
					v = "panic:" + fmt.Sprint(r)
				}
			}()
			if rm.IsBlocklistedPhantom(net.IP(b)) {
				v = "true"
			}
		}()
		ph = append(ph, v)
	}
	return
}

func vc19Run(c vc19Case, dir string, stub *vc19Stub) (r vc19Res) {
	logger := log.New(io.Discard, "[C19e] ", golog.Ldate)
	stub.setScript(c.Script)
	r.Ifaces = vc19Ifaces()
	os.Setenv("PHANTOM_SUBNET_LOCATION", c19place(dir, "subnets.toml", c19file{Kind: "text", Text: c.Sub}, ""))
	var rm *RegistrationManager
	var written []string // covert_blocklist_domains of the file in force, as written
	for i, f := range c.Steps {
		var st vc19Step
		os.Setenv("CJ_STATION_CONFIG", c19place(dir, "app.toml", f, ""))
		var conf *Config
		var perr error
		g := c19guard(func() { conf, perr = ParseConfig() })
		switch {
		case g != "ok":
			st.Parse, st.Msg = "panic", g
		case perr != nil:
			st.Parse, st.Msg = "err", perr.Error()
			if len(st.Msg) > 200 {
				st.Msg = st.Msg[:200]
			}
		default:
			st.Parse = "ok"
			rc := conf.RegConfig
			st.NWritten = []int{len(rc.CovertBlocklistSubnets), len(rc.CovertAllowlistSubnets), len(rc.PhantomBlocklist), len(rc.CovertBlocklistDomains)}
		}
		if i == 0 {
			st.Stage = "skipped"
			if st.Parse == "ok" {
				g := c19guard(func() { rm = NewRegistrationManager(conf.RegConfig) })
				if g != "ok" {
					st.Stage, rm = g, nil
				} else if rm == nil {
					st.Stage = "nil"
				} else {
					st.Stage = "ok"
					rm.Logger = logger
					written = append([]string{}, conf.RegConfig.CovertBlocklistDomains...)
				}
			}
		} else {
			st.Stage = "skipped"
			if st.Parse == "ok" {
				w := append([]string{}, conf.RegConfig.CovertBlocklistDomains...)
				st.Stage = c19guard(func() { rm.OnReload(conf.RegConfig) })
				written = w
			}
		}
		if rm != nil {
			st.Q, st.Ph = vc19Observe(rm, written, c)
			st.Keys = vc19Keys(rm.RegConfig)
		}
		r.Steps = append(r.Steps, st)
		if rm == nil || st.Parse == "panic" {
			break
		}
	}
	return
}

func TestVerifC19Enforce(t *testing.T) {
	raw, err := os.ReadFile(os.Getenv("VERIF_CASES"))
	if err != nil {
		t.Skip("no cases")
	}
	var cases []vc19Case
	if err := json.Unmarshal(raw, &cases); err != nil {
		t.Fatal(err)
	}
	stub := vc19StartStub(t)
	dir := t.TempDir()
	oldCfg, oldSub := os.Getenv("CJ_STATION_CONFIG"), os.Getenv("PHANTOM_SUBNET_LOCATION")
	defer func() { os.Setenv("CJ_STATION_CONFIG", oldCfg); os.Setenv("PHANTOM_SUBNET_LOCATION", oldSub) }()
	devnull, _ := os.OpenFile(os.DevNull, os.O_WRONLY, 0)
	stdout := os.Stdout
	os.Stdout = devnull
	res := make([]vc19Res, len(cases))
	for i, c := range cases {
		res[i] = vc19Run(c, dir, stub)
	}
	os.Stdout = stdout
	out, _ := json.Marshal(res)
	if err := os.WriteFile(os.Getenv("VERIF_OUT"), out, 0o644); err != nil {
		t.Fatal(err)
	}
	_ = stub.asked
}
